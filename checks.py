"""Registry of checks: which harness, which rkcommon sources, which variants.

variant keys: name, flavour (asan|asanleak|tsan|plain|fuzz), backend (none|tbb|omp|internal|debug),
defs, sources, libs, env, runs=[{args, env, timeout, fuzz}], tier (restrict the variant to one tier)
"""

CHECKS = {}

CHECKS["C18"] = dict(
    harness="c18_strings.cpp",
    sources=["rkcommon/utility/PseudoURL.cpp", "rkcommon/os/FileName.cpp", "rkcommon/common.cpp",
             "rkcommon/os/library.cpp"],
    libs=["-ldl"],
    variants=[dict(name="asan", flavour="asan")],
    assumptions=["reference implementations in harness/c18_strings.cpp are correct",
                 "POSIX path separator (the _WIN32 branch is not built)"],
)
