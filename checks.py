"""Registry of checks.  Each file checks.d/<ID>.py defines CHECK = dict(...):

  harness        file (or list of files) under harness/
  sources        rkcommon .cpp files (repo-relative) compiled into every variant
  variants       list of dict(name, flavour, backend, defs, sources, libs, env, runs, tier, timeout)
                 flavour: asan | asanleak | tsan | plain | fuzz       (see vcheck.FLAVOURS)
                 backend: none | tbb | omp | internal | debug          (see vcheck.BACKENDS)
                 runs:    list of invocations dict(args, env, timeout, fuzz, tier); default one plain run
  parallel_runs  how many variants may run at the same time (default 1)
  floor          {"<variant|*>:<counter>": minimum or {quick:..,thorough:..}} coverage floors
  postprocess    optional callable(out_dir, variant, run) -> list of result records (offline checker)
  assumptions    list of strings copied into the evidence file
"""
import glob
import importlib.util
import os

CHECKS = {}
HOOK_COMMITS = []

_here = os.path.dirname(os.path.abspath(__file__))
for _f in sorted(glob.glob(os.path.join(_here, "checks.d", "C*.py"))):
    _name = os.path.splitext(os.path.basename(_f))[0]
    _spec = importlib.util.spec_from_file_location("checks_d_" + _name, _f)
    _m = importlib.util.module_from_spec(_spec)
    _spec.loader.exec_module(_m)
    CHECKS[_name] = _m.CHECK

_hc = os.path.join(_here, "hook_commits.txt")
if os.path.exists(_hc):
    HOOK_COMMITS = [l.split()[0] for l in open(_hc) if l.strip() and not l.startswith("#")]
