#!/bin/bash
# usage: tools/run_all.sh <seed> [tier] [ids...]   - runs the checks one after the other, prints one line per check
cd "$(dirname "$0")/.."
seed=${1:-1}; tier=${2:-quick}; shift; shift
ids="$@"; [ -z "$ids" ] && ids=$(cat ready.txt)
bad=0
for p in $ids; do
  s=$(date +%s)
  out=$(python3 vcheck.py $p --tier $tier --seed $seed --no-evidence 2>&1); rc=$?
  e=$(( $(date +%s) - s ))
  echo "$p seed=$seed tier=$tier rc=$rc ${e}s $(echo "$out" | grep -c '^VIOLATION') violation(s) $(echo "$out" | grep -c '^KNOWN-FINDING') known $(echo "$out" | grep -c '^INCONCLUSIVE') inconclusive"
  if [ $rc -ne 0 ]; then bad=$((bad+1)); echo "$out" | grep -A3 "^VIOLATION\|^INCONCLUSIVE\|^HARNESS" | cut -c1-400 | head -30; fi
done
[ $bad -eq 0 ]
