#!/usr/bin/env python3
"""Regenerates /verif/MANIFEST.json from checks.py + the per-property texts below."""
import json
import os
import subprocess
import sys

HERE = os.path.dirname(os.path.dirname(os.path.abspath(__file__)))
sys.path.insert(0, HERE)
import checks  # noqa: E402

ALL = ["C%02d" % i for i in range(1, 21)]

TEXT = {
    "C01": dict(
        technique="runtime monitor (per-call hit/exit/visibility counters read on return) + ASan/UBSan, 4 tasking backends, stress with injected delays at enkiTS hook points",
        text="Exploration: every parallel_for/parallel_foreach/parallel_in_blocks_of call issued by the workload is judged by a per-call monitor (exactly-once per index, nothing outside [0,n), joined and visible on return, nested calls) under all four tasking backends, plain and ASan/UBSan builds, incl. tasks passed as named objects that keep their own record, loops issued after a loop that ended early (exception / cancellation, TBB and serial backends) and loops issued while the caller's enkiTS pipe is full (parked workers + 256 queued tasks). Schedules are sampled (stress, oversubscription, uneven bodies, hook delays), not enumerated.",
        note="Trusts the harness monitor (atomic hit counters) and the sanitizers; TSan is not usable across TBB/libgomp/enkiTS (DESIGN 3.1). Counts > 10^7 and > INT_MAX are not executed.", ref="4/C01"),
    "C02": dict(
        technique="runtime monitor (execution counters, value check, lifetime registry on result slot, start-latency probe) + ASan/UBSan, 4 backends",
        text="Exploration: bursts of scheduled closures / async / AsyncTask with instrumented result types on four backends; exactly-once execution, value fidelity, finished()=>get(), destruction waits, no operation on dead storage, released storage not written, under ASan/UBSan and plain; closures handed over as temporaries and as named objects, single submissions across the workers' spin-to-sleep transition, a submitter that stays busy waiting for its job, and re-configuration of the tasking system while work is queued; start stalls are classified per process (rare stall on TBB = open finding, systematic = violation).",
        note="Bounded 'eventually' (watchdog + logical witness); schedules sampled.", ref="4/C02"),
    "C03": dict(
        technique="offline rule checker over a sequence-numbered event log; directed pauses at RKCOMMON_VERIF hook points; TSan + ASan",
        text="Exploration: directed schedules (pause thread X at point P until thread Y passes Q) over hook-point pairs x call scripts x launch methods, PCT-style random delays, undelayed stress, and raw stress without any hook installed (2000 start/stop cycles per script, incl. back-to-back stop/start), plus loops with the default launch method over tasking systems of 0..6 threads; rules R1-R3 checked over the sequence-numbered event log; lost wake-ups decided by a logical witness (no body for 5 s after start() returned, yet a body within ms after a fresh stop()+start()).",
        note="Interleavings between two hook points are not distinguished; liveness is bounded.", ref="4/C03"),
    "C04": dict(
        technique="differential runtime oracle (per-component scalar reference) under ASan/UBSan",
        text="Exploration: every overload family of vec.h instantiated over element types x shapes, compared per component against the same scalar expression on plain arrays; UBSan watches the library code.",
        note="Reference uses the identical scalar expression; float reductions within k*eps bounds.", ref="4/C04"),
    "C05": dict(
        technique="lattice point-membership oracle in wider precision under ASan/UBSan",
        text="Exploration: boxes/ranges drawn from a half-integer lattice, every lattice point tested against set semantics for contains/extend/intersection/disjoint/clamp; integer boxes with bounds at the ends of int; xfmBounds and intersectRayBox against long-double references.",
        note="Float cases use lattice coordinates exactly representable in float.", ref="4/C05"),
    "C06": dict(
        technique="long-double reference algebra + cross-construction agreement, branch census, under ASan/UBSan",
        text="Exploration: generated matrices with bounded condition number, axes, angles, quaternions; every identity in the property is evaluated with a condition-derived tolerance; all four quaternion-from-matrix branches must be observed; lookat on scenes scaled as a whole.",
        note="Tolerances c*kappa*eps; condition <= 64.", ref="4/C06"),
    "C07": dict(
        technique="exhaustive 2^32 float sweep against double reference (SIMD and NO_SIMD builds) + grids under UBSan",
        text="Exhaustive over all float bit patterns for rcp/rsqrt/rcp_safe in both builds; boundary grids + random for the binary/ternary kernels; sRGB monotonicity sweep; distribution range/reproducibility monitor.",
        note="Reference: IEEE double arithmetic of the host.", ref="4/C07"),
    "C08": dict(
        technique="reference-count model in lock-step + ASan/LSan + TSan on concurrent histories",
        text="Exploration: random single-thread histories checked after every step against a refcount model with destruction-position tracking (comparisons through mutable and const access paths), counts of 2^31..2^63 references through a verified store into the counter; multi-thread stress under TSan and plain with final-count and exactly-once-destruction checks.",
        note="Schedules sampled.", ref="4/C08"),
    "C09": dict(
        technique="value model in lock-step + lifetime registry + alignment check, fork-per-case under ASan/UBSan",
        text="Exploration: random histories over Optional<T>/Any with instrumented payloads (a quarter of the operations on the lifetime-tracked payload run with a failpoint that makes a construction/assignment throw; one payload stores its own address; value_or across payload/default types); engaged state, values, independence of copies, exactly-once destruction, no payload operation on dead storage, alignment, crash-free comparisons/printing.",
        note="Results of comparisons with an empty side are not asserted (only totality).", ref="4/C09"),
    "C10": dict(
        technique="reference ordered-map model in lock-step under ASan/UBSan",
        text="Exploration: random histories over FlatMap and ParameterizedObject compared step by step with an insertion-ordered unique-key model; stored values incl. signed zeros (compared bitwise) and a user type whose operator== is partial; operator[] with key copies that throw (failpoint in the key type).",
        note="Small key alphabets; histories <= 30 ops.", ref="4/C10"),
    "C11": dict(
        technique="array model in lock-step + complete read-out after every step under ASan",
        text="Exploration: random histories over ArrayView/OwnedArray/FixedArray/FixedArrayView/DataView; after each step every live wrapper is read fully so a dangling pointer becomes an ASan report at the step that created it; incl. element copies that throw (failpoint), self-sourced reset/assignment, reset histories on one DataView and record elements with strides that are not multiples of their size.",
        note="Unaligned DataView strides are not generated (caller's UB).", ref="4/C11"),
    "C12": dict(
        technique="permutation/order/monotonicity checkers over recorded hand-off logs + ThreadSanitizer",
        text="Exploration: 1..8 producers with unique-id payloads against a consuming thread; offline checks for loss/duplication/order/torn state, the consumer's size()/empty() against the consume() that follows; a burst protocol makes the consumer obtain the last value at every producer pause (instrumented payload with failing assignments, std::string values incl. empty/repeated ones, consume() under an allocation failure of the consumer); TSan decides the data-race clause.",
        note="Schedules sampled; TSan exact because only std primitives are used.", ref="4/C12"),
    "C13": dict(
        technique="runtime monitor of simultaneous body count and reported thread count, 4 backends, fresh process per init sequence",
        text="Exploration: init sequences x n in 1..32 and n<=0 on four backends (plus the internal and serial backends with the application compiled with -fopenmp; every third process uses the tasking system before initialising it), fresh process each; max simultaneous parallel_for bodies <= n (transient vs persistent excess told apart by a re-measurement), numTaskingThreads()==n, with a saturation coverage floor; exiting enkiTS workers are held at a hook point so that teardown races show under ASan.",
        note="Simultaneous count only; distinct thread ids are evidence not verdict.", ref="4/C13"),
    "C14": dict(
        technique="alignment/pattern/interval-disjointness monitor + ASan/LSan, both allocator back ends",
        text="Exploration: boundary-heavy (size, alignment) grid and random alloc/free interleavings with pattern verification; AlignedVector histories against a std::vector model for 8 element types (incl. lifetime-tracked, self-referencing and list-constructible ones); length_error check.",
        note="libtbbmalloc internals are opaque to ASan (DESIGN 3.3).", ref="4/C14"),
    "C15": dict(
        technique="schema round trip on exact-size heap buffers, all truncation points, FixedBufferWriter model, under ASan/UBSan",
        text="Exploration: generated typed schemas written and read back over exact-size buffers; every truncation point of small streams; vectors whose elements have stream operators of their own; read-back into fresh and into reused destinations; readers whose buffer was shortened under the cursor; capacity x size sequences for FixedBufferWriter against an accept/reject model; sizes that wrap cursor+size for BufferReader read/getView and FixedBufferWriter write/reserve.",
        note="Checked for the declared AbstractArray<T> operator.", ref="4/C15"),
    "C16": dict(
        technique="libFuzzer + ASan/UBSan with exception-type oracle; generated-tree round trip; truncation/substitution sweep",
        text="Exploration: coverage-guided fuzzing of readXML (libFuzzer+ASan+UBSan) with totality/exception-type/memory-safety oracle, deterministic truncation, substitution, deletion and insertion sweeps of generated documents, faithful round trip of generated trees (comments from a scanner-relevant alphabet, in runs, in every gap; one document in a hundred has up to ~5000 nodes), and an open-descriptor monitor around the calls.",
        note="max_len bounds nesting depth.", ref="4/C16"),
    "C17": dict(
        technique="128-bit index reference, exhaustive small extents, unique-id cells, under ASan/UBSan",
        text="Exhaustive over all extents up to a small bound for bijection/iteration; random huge extents at corners; array adaptors checked on arrays whose cells hold their own flattened id (MultiSlice also over thick and non-clamping slices; value ranges of converting accessors over regions, ranges asked again after writes, adaptors re-checked after the caller changed its slice vector).",
        note="Exhaustive only up to the stated extent bound.", ref="4/C17"),
    "C18": dict(
        technique="reference implementations + recomposition laws over exhaustive small-alphabet inputs under ASan/UBSan",
        text="Exhaustive over all strings up to length 6 on a delimiter-heavy alphabet (paths to length 7) plus seeded random; every helper compared with an independently written reference and the decomposition laws of the property.",
        note="POSIX separator only.", ref="4/C18"),
    "C19": dict(
        technique="epoch model in lock-step + stamp uniqueness/monotonicity monitor + allocation failpoint + ASan + TSan",
        text="Exploration: random histories over observables/observers incl. both destruction orders against an epoch model under ASan; objects with static storage, with the application linked before the library (plain-appfirst); concurrent time-stamp creation checked for uniqueness and per-thread monotonicity under TSan and plain; Observer construction with an injected allocation failure (operator-new failpoint): a failed observer must not stay registered.",
        note="Schedules sampled.", ref="4/C19"),
    "C20": dict(
        technique="independent image decoder over exact-size ASan buffers; offline JSON trace checker",
        text="Exploration: all widths/heights up to a bound plus wide/tall images (powers of two +-1 up to 65537) x six writer variants decoded by an independent reader, also with four writers at work at the same time and one ~12.6 MB image per writer; generated nested event scripts from 1..8 threads - alive together or run one after the other and exited (thread ids reused), second saves, up to 140000 distinct names on one thread - checked offline against the model log.",
        note="Decoder written from the Netpbm/PFM format descriptions.", ref="4/C20"),
}


def main():
    ready = open(os.path.join(HERE, "ready.txt")).read().split()
    claimed = [p for p in ALL if p in checks.CHECKS and p in ready]
    man = dict(
        version=1,
        setup_cmd="python3 -m py_compile vcheck.py checks.py && mkdir -p evidence replay",
        hooks=dict(
            guard="RKCOMMON_VERIF",
            enable="vcheck.py compiles every harness and the rkcommon sources it needs with -DRKCOMMON_VERIF "
                   "(rkcommon/verif/hooks.h then routes RKCOMMON_VERIF_POINT to the harness)",
            baseline_off_cmd="cmake --build /repo/_build && ctest --test-dir /repo/_build -j8 --timeout 900",
            source_commits=getattr(checks, "HOOK_COMMITS", []),
            add_only=True,
        ),
        engines=[dict(name="vcheck", path="/verif/vcheck.py", serves_properties=claimed,
                      kind_free_text="runtime monitoring driver: builds sanitizer variants of per-property harnesses "
                                     "from /repo's working tree, runs them, keys violations, writes evidence")],
        checks=[],
        notes="All checks: `python3 vcheck.py <id> --tier quick|thorough`; VERIF_SEED honoured; exit 0/1/2 "
              "(held / violation / harness failure or coverage floor not reached). known_findings.txt lists "
              "open and fixed findings.",
        not_applicable=[],
    )
    for p in ALL:
        if p in claimed:
            t = TEXT[p]
            man["checks"].append(dict(
                property_id=p,
                quick_cmd="python3 vcheck.py %s --tier quick" % p,
                thorough_cmd="python3 vcheck.py %s --tier thorough" % p,
                evidence_file="/verif/evidence/%s.json" % p,
                replay_cmd_template="python3 vcheck.py %s --replay {path}" % p,
                engine="vcheck",
                level_claimed=dict(category="exploration", text=t["text"], design_ref="DESIGN.md section " + t["ref"]),
                level_note=t["note"],
                technique=t["technique"],
            ))
        else:
            man["not_applicable"].append(dict(
                property_id=p,
                reason="runtime-monitoring check designed (DESIGN.md section 4/%s) but not yet built; "
                       "not claimed until its harness is committed" % p))
    json.dump(man, open(os.path.join(HERE, "MANIFEST.json"), "w"), indent=1)
    print("claimed:", " ".join(claimed))


if __name__ == "__main__":
    main()
