#!/bin/bash
# usage: tools/confirm_seed.sh <property id> <slug>
# Confirms a seeded change produced in /tmp/mut/wt_<id> (change applied there): the demo fails with the
# change and passes without it, the library builds and the existing tests pass with it. Then files it
# under /verif/seeded/<id>-<slug>/.
set -u
id=$1; slug=$2; wt=/tmp/mut/wt_$id; out=/verif/seeded/$id-$slug
cd $wt || exit 2
[ -s demo/patch.diff ] || { echo "no patch.diff"; exit 2; }
git diff --quiet -- rkcommon && { echo "change is not applied in the worktree"; exit 2; }
echo "== demo WITH the change"; (cd demo && timeout 900 bash ./build_and_run.sh > /tmp/mut/$id.with.log 2>&1); rc_with=$?; tail -3 /tmp/mut/$id.with.log
echo "== tests WITH the change"; cmake --build _build > /tmp/mut/$id.build.log 2>&1 || { echo "BUILD FAILED"; tail -5 /tmp/mut/$id.build.log; exit 1; }
ctest --test-dir _build -j8 --timeout 900 > /tmp/mut/$id.ctest.log 2>&1; rc_ct=$?; tail -3 /tmp/mut/$id.ctest.log
git diff -- rkcommon > /tmp/mut/$id.patch
git checkout -q -- rkcommon
echo "== demo WITHOUT the change"; (cd demo && timeout 900 bash ./build_and_run.sh > /tmp/mut/$id.without.log 2>&1); rc_without=$?; tail -3 /tmp/mut/$id.without.log
git apply /tmp/mut/$id.patch
echo "rc_with=$rc_with rc_without=$rc_without ctest=$rc_ct"
if [ $rc_with -ne 0 ] && [ $rc_without -eq 0 ] && [ $rc_ct -eq 0 ]; then
  mkdir -p $out && cp /tmp/mut/$id.patch $out/patch.diff && cp demo/demo.cpp demo/build_and_run.sh $out/ 2>/dev/null
  for f in demo/*; do case $f in demo/demo|demo/*.o|demo/patch.diff|demo/demo_*) ;; *) [ -f $f ] && [ $(stat -c %s $f) -lt 200000 ] && cp $f $out/ ;; esac; done
  tail -15 /tmp/mut/$id.with.log > $out/demo_output_with_change.txt; tail -8 /tmp/mut/$id.without.log > $out/demo_output_without_change.txt
  echo CONFIRMED $out
else
  echo NOT-CONFIRMED; exit 1
fi
