// vh.h - monitor library shared by every harness in /verif/harness (C++11).
//
// A harness is a normal program that drives the real rkcommon code and evaluates
// oracles over what it observes.  It talks to the driver (vcheck.py) through one
// append-only JSON-lines file, $VH_OUT/result.jsonl:
//
//   {"t":"viol","key":K,"detail":D,"case":C}   a monitor fired (K is the finding key)
//   {"t":"crash","case":C,"pid":P,"sig":S,"status":X}  forked case died abnormally
//   {"t":"hang","case":C,"pid":P}                forked case exceeded its watchdog twice
//   {"t":"inconclusive","what":W}                something could not be observed
//   {"t":"sample","v":{...}}                     a case written out for the evidence
//   {"t":"stats", ...}                           counters (written by vh::finish)
//   {"t":"done"}                                 harness reached its end
//
// Lines are written with a single write(2) on an O_APPEND descriptor, so forked
// children and several threads can report without interleaving.
#pragma once

#include <fcntl.h>
#include <signal.h>
#include <stdint.h>
#include <stdio.h>
#include <stdlib.h>
#include <string.h>
#include <sys/mman.h>
#include <sys/stat.h>
#include <sys/time.h>
#include <sys/types.h>
#include <sys/wait.h>
#include <time.h>
#include <unistd.h>

#include <atomic>
#include <functional>
#include <map>
#include <mutex>
#include <set>
#include <sstream>
#include <string>
#include <unordered_set>
#include <vector>

namespace vh {

// ---------------------------------------------------------------- PRNG
struct Rng
{
  uint64_t s[2];
  static uint64_t splitmix(uint64_t &x)
  {
    uint64_t z = (x += 0x9E3779B97F4A7C15ull);
    z          = (z ^ (z >> 30)) * 0xBF58476D1CE4E5B9ull;
    z          = (z ^ (z >> 27)) * 0x94D049BB133111EBull;
    return z ^ (z >> 31);
  }
  explicit Rng(uint64_t seed = 1, uint64_t stream = 0)
  {
    uint64_t x = seed * 0x2545F4914F6CDD1Dull + stream * 0xD1342543DE82EF95ull + 0x1234567;
    s[0]       = splitmix(x);
    s[1]       = splitmix(x);
    if (!s[0] && !s[1])
      s[0] = 1;
  }
  uint64_t next()  // xoroshiro128+
  {
    uint64_t a = s[0], b = s[1], r = a + b;
    b ^= a;
    s[0] = ((a << 24) | (a >> 40)) ^ b ^ (b << 16);
    s[1] = (b << 37) | (b >> 27);
    return r;
  }
  uint32_t u32() { return uint32_t(next() >> 32); }
  // uniform in [0,n)  (n > 0)
  uint64_t below(uint64_t n) { return n ? (next() >> 11) % n : 0; }
  // uniform in [lo,hi] inclusive
  int64_t range(int64_t lo, int64_t hi) { return lo + int64_t(below(uint64_t(hi - lo) + 1)); }
  bool chance(unsigned num, unsigned den) { return below(den) < num; }
  double unit() { return double(next() >> 11) * (1.0 / 9007199254740992.0); }
  double real(double lo, double hi) { return lo + (hi - lo) * unit(); }
  template <typename T>
  const T &pick(const std::vector<T> &v)
  {
    return v[below(v.size())];
  }
};

inline uint64_t hash64(uint64_t h, uint64_t v)
{
  h ^= v + 0x9E3779B97F4A7C15ull + (h << 6) + (h >> 2);
  h *= 0xff51afd7ed558ccdull;
  h ^= h >> 33;
  return h;
}
inline uint64_t hashStr(const std::string &s, uint64_t h = 1469598103934665603ull)
{
  for (size_t i = 0; i < s.size(); ++i) {
    h ^= (unsigned char)s[i];
    h *= 1099511628211ull;
  }
  return h;
}

// ---------------------------------------------------------------- JSON helpers
inline std::string jstr(const std::string &s)
{
  std::string o = "\"";
  char buf[8];
  for (size_t i = 0; i < s.size(); ++i) {
    unsigned char c = (unsigned char)s[i];
    if (c == '"')
      o += "\\\"";
    else if (c == '\\')
      o += "\\\\";
    else if (c == '\n')
      o += "\\n";
    else if (c == '\t')
      o += "\\t";
    else if (c < 0x20 || c >= 0x7f) {
      snprintf(buf, sizeof buf, "\\u%04x", c);
      o += buf;
    } else
      o += char(c);
  }
  return o + "\"";
}

// tiny JSON object builder: J().kv("a",1).kv("b","x").str()
struct J
{
  std::string s;
  bool first;
  J() : s("{"), first(true) {}
  void sep()
  {
    if (!first)
      s += ",";
    first = false;
  }
  J &kv(const char *k, const std::string &v)
  {
    sep();
    s += jstr(k) + ":" + jstr(v);
    return *this;
  }
  J &kv(const char *k, const char *v) { return kv(k, std::string(v)); }
  J &kv(const char *k, long long v)
  {
    sep();
    s += jstr(k) + ":" + std::to_string(v);
    return *this;
  }
  J &kv(const char *k, unsigned long long v)
  {
    sep();
    s += jstr(k) + ":" + std::to_string(v);
    return *this;
  }
  J &kv(const char *k, long v) { return kv(k, (long long)v); }
  J &kv(const char *k, unsigned long v) { return kv(k, (unsigned long long)v); }
  J &kv(const char *k, int v) { return kv(k, (long long)v); }
  J &kv(const char *k, unsigned v) { return kv(k, (unsigned long long)v); }
  J &kv(const char *k, bool v)
  {
    sep();
    s += jstr(k) + (v ? ":true" : ":false");
    return *this;
  }
  J &kv(const char *k, double v)
  {
    sep();
    char buf[64];
    if (v != v || v > 1.7e308 || v < -1.7e308)
      snprintf(buf, sizeof buf, "\"%g\"", v);
    else
      snprintf(buf, sizeof buf, "%.17g", v);
    s += jstr(k) + ":" + buf;
    return *this;
  }
  J &raw(const char *k, const std::string &json)
  {
    sep();
    s += jstr(k) + ":" + json;
    return *this;
  }
  std::string str() const { return s + "}"; }
};

template <typename T>
inline std::string jarr(const std::vector<T> &v)
{
  std::ostringstream o;
  o << "[";
  for (size_t i = 0; i < v.size(); ++i)
    o << (i ? "," : "") << v[i];
  o << "]";
  return o.str();
}
inline std::string jarrs(const std::vector<std::string> &v)
{
  std::string o = "[";
  for (size_t i = 0; i < v.size(); ++i)
    o += (i ? "," : "") + jstr(v[i]);
  return o + "]";
}

// ---------------------------------------------------------------- global state
struct State
{
  int fd;
  uint64_t seed;
  bool thorough;
  long onlyCase;  // --case k (replay), -1 = all
  std::string outDir;
  std::string variant;
  std::mutex mtx;
  std::map<std::string, int> violPerKey;
  std::map<std::string, long long> counters;  // summed
  std::map<std::string, long long> maxima;
  std::map<std::string, std::string> notes;
  std::unordered_set<uint64_t> distinct;
  long long evaluations;
  int samples;
  std::string rule;
  double t0;
  State() : fd(-1), seed(1), thorough(false), onlyCase(-1), evaluations(0), samples(0), t0(0) {}
};
inline State &st()
{
  static State *s = new State();  // leaked on purpose: usable from atexit / children
  return *s;
}

inline double now()
{
  struct timespec ts;
  clock_gettime(CLOCK_MONOTONIC, &ts);
  return ts.tv_sec + ts.tv_nsec * 1e-9;
}

inline void emit(const std::string &line)
{
  std::string l = line + "\n";
  int fd        = st().fd;
  if (fd < 0)
    fd = 1;
  ssize_t r = write(fd, l.data(), l.size());
  (void)r;
}

inline void init(int argc, char **argv)
{
  State &S        = st();
  const char *out = getenv("VH_OUT");
  S.outDir        = out ? out : ".";
  S.variant       = getenv("VH_VARIANT") ? getenv("VH_VARIANT") : "";
  const char *sd  = getenv("VERIF_SEED");
  S.seed          = sd && *sd ? strtoull(sd, 0, 10) : 1;
  const char *tr  = getenv("VERIF_TIER");
  S.thorough      = tr && !strcmp(tr, "thorough");
  const char *oc  = getenv("VH_CASE");
  S.onlyCase      = oc && *oc ? atol(oc) : -1;
  for (int i = 1; i < argc; ++i) {
    if (!strcmp(argv[i], "--seed") && i + 1 < argc)
      S.seed = strtoull(argv[++i], 0, 10);
    else if (!strcmp(argv[i], "--tier") && i + 1 < argc)
      S.thorough = !strcmp(argv[++i], "thorough");
    else if (!strcmp(argv[i], "--case") && i + 1 < argc)
      S.onlyCase = atol(argv[++i]);
  }
  if (out) {
    std::string p = S.outDir + "/result.jsonl";
    S.fd          = open(p.c_str(), O_WRONLY | O_CREAT | O_APPEND, 0644);
  }
  S.t0 = now();
  emit(J().kv("t", "start").kv("seed", (unsigned long long)S.seed).kv("tier", S.thorough ? "thorough" : "quick").kv("pid", (long long)getpid()).str());
}

inline uint64_t seed() { return st().seed; }
inline bool thorough() { return st().thorough; }
// pick the count for the current tier
inline long long tier(long long quick, long long thoroughN) { return st().thorough ? thoroughN : quick; }
inline bool wantCase(long k) { return st().onlyCase < 0 || st().onlyCase == k; }

// A monitor fired.  key names the specific site/input class; at most 3 full
// reports per key are written, the rest only counted.
inline void violation(const std::string &key, const std::string &detail, const std::string &caseDesc = "")
{
  State &S = st();
  int n;
  {
    std::lock_guard<std::mutex> g(S.mtx);
    n = ++S.violPerKey[key];
  }
  if (n <= 3)
    emit(J().kv("t", "viol").kv("key", key).kv("detail", detail).kv("case", caseDesc).kv("pid", (long long)getpid()).str());
}

inline void inconclusive(const std::string &what)
{
  emit(J().kv("t", "inconclusive").kv("what", what).str());
}

inline void count(const char *name, long long by = 1)
{
  std::lock_guard<std::mutex> g(st().mtx);
  st().counters[name] += by;
}
inline void maxi(const char *name, long long v)
{
  std::lock_guard<std::mutex> g(st().mtx);
  long long &m = st().maxima[name];
  if (v > m)
    m = v;
}
inline void note(const char *name, const std::string &v)
{
  std::lock_guard<std::mutex> g(st().mtx);
  st().notes[name] = v;
}
// one oracle evaluation on a case whose descriptor hashes to h; nontrivial by the
// harness's stated rule
inline void evaluated(uint64_t h, bool nontrivial = true)
{
  std::lock_guard<std::mutex> g(st().mtx);
  st().evaluations++;
  if (nontrivial)
    st().distinct.insert(h);
}
inline void evaluatedN(long long n)
{
  std::lock_guard<std::mutex> g(st().mtx);
  st().evaluations += n;
}
inline void rule(const std::string &r) { st().rule = r; }

// write a sample case (the first `cap` are kept)
inline void sample(const std::string &json, int cap = 6)
{
  {
    std::lock_guard<std::mutex> g(st().mtx);
    if (st().samples >= cap)
      return;
    st().samples++;
  }
  emit(std::string("{\"t\":\"sample\",\"v\":") + json + "}");
}

// flush counters (children call this before _exit; the driver sums "stats" lines)
inline void flushStats()
{
  State &S = st();
  std::lock_guard<std::mutex> g(S.mtx);
  J c, m, n, v;
  for (std::map<std::string, long long>::iterator i = S.counters.begin(); i != S.counters.end(); ++i)
    c.kv(i->first.c_str(), i->second);
  for (std::map<std::string, long long>::iterator i = S.maxima.begin(); i != S.maxima.end(); ++i)
    m.kv(i->first.c_str(), i->second);
  for (std::map<std::string, std::string>::iterator i = S.notes.begin(); i != S.notes.end(); ++i)
    n.kv(i->first.c_str(), i->second);
  for (std::map<std::string, int>::iterator i = S.violPerKey.begin(); i != S.violPerKey.end(); ++i)
    v.kv(i->first.c_str(), (long long)i->second);
  // distinct hashes are exported as a list so that the driver can union them across
  // processes; capped (the count is exact up to the cap, conservative beyond it)
  std::string dl = "[";
  size_t k       = 0;
  for (std::unordered_set<uint64_t>::iterator i = S.distinct.begin(); i != S.distinct.end() && k < 200000; ++i, ++k) {
    if (k)
      dl += ",";
    dl += std::to_string(*i >> 11);  // 53 bits: exact in JSON numbers
  }
  dl += "]";
  emit(J().kv("t", "stats")
           .kv("pid", (long long)getpid())
           .kv("evaluations", S.evaluations)
           .kv("distinct_total", (unsigned long long)S.distinct.size())
           .raw("distinct", dl)
           .raw("counters", c.str())
           .raw("maxima", m.str())
           .raw("notes", n.str())
           .raw("viol_counts", v.str())
           .kv("rule", S.rule)
           .kv("wall_s", now() - S.t0)
           .str());
  S.counters.clear();
  S.maxima.clear();
  S.violPerKey.clear();
  S.distinct.clear();
  S.evaluations = 0;
}

inline int finish()
{
  flushStats();
  emit("{\"t\":\"done\"}");
  return 0;
}

// ---------------------------------------------------------------- fork-per-case
// Runs cases [0,n) in forked children.  A child runs consecutive cases and
// publishes the index it is working on in shared memory; when it dies, the parent
// records a crash for that case and continues with the next one in a new child.
// fn(k) must report through vh::violation/count/... only.  A case running longer
// than timeoutMs is killed and re-run once; a second expiry is recorded as "hang".
struct Shared
{
  volatile long cur;
  volatile long doneUpTo;
  volatile long long beat;
  volatile int abandoned;
};
inline Shared *&currentShared()
{
  static Shared *p = 0;
  return p;
}
// Called inside a forked case: stop this child right now (e.g. to cut short a runaway
// loop after its violation has been recorded); the parent continues with the next case
// without recording a crash.
inline void abandonChild();
// optional callback run in a forked child after its last case (e.g. verdicts that need totals)
inline std::function<void()> &childExitHook()
{
  static std::function<void()> f;
  return f;
}
// in a forked child: send stderr to $VH_OUT/err.<pid> so that sanitizer messages printed
// there (UBSan ignores log_path) can be attributed to the case that produced them
// in a forked child: forget the counters inherited from the parent (the parent reports
// them itself; re-emitting them from every child would multiply them)
inline void childResetStats()
{
  State &S = st();
  S.counters.clear();
  S.maxima.clear();
  S.notes.clear();
  S.violPerKey.clear();
  S.distinct.clear();
  S.evaluations = 0;
  S.t0          = now();
}

inline void childRedirectStderr()
{
  if (!getenv("VH_OUT"))
    return;
  std::string p = st().outDir + "/err." + std::to_string((long long)getpid());
  int fd        = open(p.c_str(), O_WRONLY | O_CREAT | O_APPEND, 0644);
  if (fd >= 0) {
    dup2(fd, 2);
    close(fd);
  }
}

inline void forkedCases(long n, const std::function<void(long)> &fn, int timeoutMs = 20000, long batch = 2000,
                        const std::function<std::string(long)> &describe = std::function<std::string(long)>())
{
  Shared *sh = (Shared *)mmap(0, sizeof(Shared), PROT_READ | PROT_WRITE, MAP_SHARED | MAP_ANONYMOUS, -1, 0);
  currentShared() = sh;
  long k     = 0;
  std::map<long, int> hangs;
  // a tree on which nearly every case dies would otherwise cost one fork (and one sanitizer
  // report, or two watchdog periods) per case: stop after a budget of abnormal cases
  int abnormal          = 0;
  const int maxAbnormal = getenv("VH_MAX_ABNORMAL") ? atoi(getenv("VH_MAX_ABNORMAL")) : 40;
  if (st().onlyCase >= 0) {
    k = st().onlyCase;
    n = k + 1 < n ? k + 1 : n;
  }
  while (k < n) {
    if (abnormal >= maxAbnormal) {
      inconclusive("forked cases stopped after " + std::to_string(abnormal) + " crashed/hung cases; cases " + std::to_string(k) + ".." + std::to_string(n - 1) + " were not run");
      break;
    }
    long end  = k + batch < n ? k + batch : n;
    sh->cur       = k;
    sh->beat      = 0;
    sh->abandoned = 0;
    fflush(stdout);
    pid_t pid = fork();
    if (pid < 0) {
      inconclusive("fork failed");
      break;
    }
    if (pid == 0) {
      childRedirectStderr();
      childResetStats();
      double lastFlush = now();
      for (long i = k; i < end; ++i) {
        sh->cur = i;
        sh->beat++;
        fn(i);
        // counters survive a later crash of this child: flush them every now and then
        if (now() - lastFlush > 0.25) {
          flushStats();
          lastFlush = now();
        }
      }
      sh->cur = end;
      if (childExitHook())
        childExitHook()();
      flushStats();
      _exit(0);
    }
    // parent: wait with per-case watchdog
    int status        = 0;
    long long lastBeat = -1;
    double lastChange = now();
    bool killed       = false;
    for (;;) {
      pid_t r = waitpid(pid, &status, WNOHANG);
      if (r == pid)
        break;
      if (sh->beat != lastBeat) {
        lastBeat   = sh->beat;
        lastChange = now();
      } else if ((now() - lastChange) * 1000.0 > timeoutMs) {
        kill(pid, SIGKILL);
        waitpid(pid, &status, 0);
        killed = true;
        break;
      }
      usleep(lastBeat < 3 ? 200 : 2000);
    }
    long at = sh->cur;
    if (killed) {
      int h = ++hangs[at];
      if (h >= 2) {
        abnormal += 5;  // a confirmed hang has cost two watchdog periods: at most 8 of them per run
        emit(J().kv("t", "hang").kv("case", describe ? describe(at) : std::to_string(at)).kv("index", (long long)at).kv("pid", (long long)pid).str());
        k = at + 1;
      } else {
        k = at;  // re-run once
      }
      continue;
    }
    if (WIFEXITED(status) && WEXITSTATUS(status) == 0 && at >= end) {
      k = end;
      continue;
    }
    if (WIFEXITED(status) && WEXITSTATUS(status) == 0 && sh->abandoned) {
      // a child gave up after recording its violations: counts (heavily) towards the budget of
      // abnormal cases, so that a thoroughly broken tree does not take hours
      abnormal += 10;
      k = at + 1;
      continue;
    }
    // abnormal end while working on case `at`
    ++abnormal;
    emit(J().kv("t", "crash")
             .kv("case", describe ? describe(at) : std::to_string(at))
             .kv("index", (long long)at)
             .kv("pid", (long long)pid)
             .kv("sig", (long long)(WIFSIGNALED(status) ? WTERMSIG(status) : 0))
             .kv("status", (long long)(WIFEXITED(status) ? WEXITSTATUS(status) : -1))
             .str());
    k = at + 1;
  }
  currentShared() = 0;
  munmap(sh, sizeof(Shared));
}

inline void abandonChild()
{
  flushStats();
  if (currentShared())
    currentShared()->abandoned = 1;
  _exit(0);
}

// Run one closure in a forked child (used for single hostile probes).
// returns: 0 ok, 1 crashed, 2 hung
inline int forkedOne(const std::string &desc, const std::function<void()> &fn, int timeoutMs = 20000)
{
  fflush(stdout);
  pid_t pid = fork();
  if (pid < 0) {
    inconclusive("fork failed");
    return 2;
  }
  if (pid == 0) {
    childRedirectStderr();
    childResetStats();
    fn();
    flushStats();
    _exit(0);
  }
  int status = 0;
  double t0  = now();
  for (;;) {
    pid_t r = waitpid(pid, &status, WNOHANG);
    if (r == pid)
      break;
    if ((now() - t0) * 1000.0 > timeoutMs) {
      kill(pid, SIGKILL);
      waitpid(pid, &status, 0);
      emit(J().kv("t", "hang").kv("case", desc).kv("index", -1LL).kv("pid", (long long)pid).str());
      return 2;
    }
    usleep(500);
  }
  if (WIFEXITED(status) && WEXITSTATUS(status) == 0)
    return 0;
  emit(J().kv("t", "crash")
           .kv("case", desc)
           .kv("index", -1LL)
           .kv("pid", (long long)pid)
           .kv("sig", (long long)(WIFSIGNALED(status) ? WTERMSIG(status) : 0))
           .kv("status", (long long)(WIFEXITED(status) ? WEXITSTATUS(status) : -1))
           .str());
  return 1;
}

// ---------------------------------------------------------------- lifetime registry
// Side table of live instrumented payload objects keyed by address (in-object magic
// fields are unreliable: GCC's lifetime DSE removes them).
struct Lifetime
{
  std::mutex m;
  std::set<const void *> live;
  long long constructed, destroyed;
  std::string tag;
  explicit Lifetime(const std::string &t = "payload") : constructed(0), destroyed(0), tag(t) {}
  // returns false (and reports) if an object is already live there
  bool onConstruct(const void *p, const std::string &ctx)
  {
    std::lock_guard<std::mutex> g(m);
    constructed++;
    if (!live.insert(p).second) {
      violation(tag + ":construct-over-live", "constructor ran on an address that already holds a live object", ctx);
      return false;
    }
    return true;
  }
  bool onDestroy(const void *p, const std::string &ctx)
  {
    std::lock_guard<std::mutex> g(m);
    destroyed++;
    if (!live.erase(p)) {
      violation(tag + ":destroy-not-live", "destructor ran on an address holding no live object", ctx);
      return false;
    }
    return true;
  }
  bool isLive(const void *p)
  {
    std::lock_guard<std::mutex> g(m);
    return live.count(p) != 0;
  }
  bool requireLive(const void *p, const std::string &what, const std::string &ctx)
  {
    if (!isLive(p)) {
      violation(tag + ":" + what + "-on-dead-storage", what + " applied to storage that holds no live object", ctx);
      return false;
    }
    return true;
  }
  size_t liveCount()
  {
    std::lock_guard<std::mutex> g(m);
    return live.size();
  }
};

}  // namespace vh

#define VH_CHECK(cond, key, detail, ctx)     \
  do {                                       \
    if (!(cond))                             \
      vh::violation((key), (detail), (ctx)); \
  } while (0)
