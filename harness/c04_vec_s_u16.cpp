// C04 - families over the single element type uint16_t (see c04_vec.cpp)
#include "c04_vec_same.h"
namespace c04 {
  void run_s_u16()
  {
    vh::Rng r(vh::seed(), 400 + TN<uint16_t>::idx);
    runSame<uint16_t>(r);
  }
}  // namespace c04
