// C19 - observers see each notification once; time stamps are unique and increasing.
//
// Part (a): histories (<= 30 operations) over 3 observable slots and 5 observer slots, both
//   sides heap-allocated, run in lock-step with an epoch model: per observable an epoch
//   incremented by notifyObservers(); per observer the epoch last seen (initialised at its
//   creation).  wasNotified() must equal (observable alive && epoch > seen) and then
//   seen = epoch, independently per observer.  Either side is destroyed first (ASan sees a
//   dangling access in both orders); an observable slot may be re-created after destruction.
// Part (b): 1..16 threads run a slot machine over heap-allocated TimeStamps (fresh, renew,
//   copy/move construction, copy/move/self assignment, reads), exchange stamps through a
//   mutex-protected mailbox and read one shared stamp that thread 0 renews.  Per thread each
//   fresh or renewed value exceeds every value that thread obtained before; copies carry the
//   source's value; after join all fresh/renewed values of all threads are pairwise distinct.
#include "vh.h"

#include <algorithm>
#include <thread>
#include <utility>

#include "rkcommon/utility/Observer.h"
#include "rkcommon/utility/TimeStamp.h"

using namespace rkcommon;
using namespace rkcommon::utility;

// ------------------------------------------------------------------ part (a): observer histories
// Observable "can either be used as a base class or as a stand-alone member": both are driven
struct Subject : public Observable
{
  int payload[3];
  Subject() { payload[0] = payload[1] = payload[2] = 7; }
};
struct Holder
{
  int before;
  Observable member;
  int after;
  Holder() : before(1), after(2) {}
};

enum
{
  NOBS = 3,  // observable slots: 0 derived class, 1 plain, 2 member of another object
  NWAT = 5,  // observer slots
  MAXRANDOM = 17,  // + at most 5 final polls + 8 destructions = 30
};

enum Kind
{
  K_NEW_OBSERVABLE = 0,
  K_NEW_OBSERVER,
  K_NOTIFY,
  K_POLL,
  K_DEL_OBSERVER,
  K_DEL_OBSERVABLE,
  NKIND
};
static const char *kindStr[NKIND] = {"newObservable", "newObserver", "notify", "poll", "deleteObserver", "deleteObservable"};

struct Op
{
  int kind, a, b;  // notify: b = repetitions; newObserver: a = observer slot, b = observable slot
};

struct ObsRunner
{
  long k;
  std::string desc;
  // real side
  Observable *obs[NOBS];
  void *obsOwner[NOBS];  // what to delete
  Observer *wat[NWAT];
  // model
  bool oAlive[NOBS];
  long epoch[NOBS];
  bool wAlive[NWAT];
  int watching[NWAT];  // observable slot, -1 once the observable is gone
  long seen[NWAT];
  bool polledSinceCreation[NWAT];
  bool everTrue[NWAT];
  int gen[NOBS];       // generation of the observable slot (re-creation)
  bool failed;
  long pos;
  uint64_t hash;
  // statistics
  int kindCount[NKIND];
  int pollsTrue, pollsFalse, pollsCoalesced, pollsOrphan, pollsLateCreated, pollsAlreadySeen, pollsNeverNotified;
  int delObservableWithObservers, delObserverAfterObservable, delObserverBeforeObservable, recreated;

  explicit ObsRunner(long k_)
      : k(k_), failed(false), pos(0), hash(1919), pollsTrue(0), pollsFalse(0), pollsCoalesced(0), pollsOrphan(0), pollsLateCreated(0),
        pollsAlreadySeen(0), pollsNeverNotified(0), delObservableWithObservers(0), delObserverAfterObservable(0),
        delObserverBeforeObservable(0), recreated(0)
  {
    for (int o = 0; o < NOBS; ++o) {
      obs[o]      = 0;
      obsOwner[o] = 0;
      oAlive[o]   = false;
      epoch[o]    = 0;
      gen[o]      = 0;
    }
    for (int w = 0; w < NWAT; ++w) {
      wat[w]      = 0;
      wAlive[w]   = false;
      watching[w] = -1;
      seen[w]     = 0;
      polledSinceCreation[w] = false;
      everTrue[w] = false;
    }
    for (int i = 0; i < NKIND; ++i)
      kindCount[i] = 0;
    desc = "#" + std::to_string(k) + " ops=";
  }

  bool feasible(const Op &op) const
  {
    switch (op.kind) {
    case K_NEW_OBSERVABLE: return !oAlive[op.a];
    case K_NEW_OBSERVER: return !wAlive[op.a] && oAlive[op.b];
    case K_NOTIFY: return oAlive[op.a] && op.b >= 1;
    case K_POLL: return wAlive[op.a];
    case K_DEL_OBSERVER: return wAlive[op.a];
    case K_DEL_OBSERVABLE: return oAlive[op.a];
    }
    return false;
  }

  void apply(const Op &op)
  {
    if (failed || !feasible(op))
      return;
    int a = op.a, b = op.b;
    desc += std::string(pos ? " " : "") + std::to_string(pos) + ":" + kindStr[op.kind] + "(" + std::to_string(a) +
            (op.kind == K_NEW_OBSERVER || op.kind == K_NOTIFY ? "," + std::to_string(b) : "") + ")";
    hash = vh::hash64(hash, uint64_t(op.kind) * 64 + uint64_t(a) * 8 + uint64_t(b));
    kindCount[op.kind]++;
    switch (op.kind) {
    case K_NEW_OBSERVABLE: {
      if (a == 0) {
        Subject *s  = new Subject();
        obs[a]      = s;
        obsOwner[a] = s;
      } else if (a == 1) {
        Observable *s = new Observable();
        obs[a]        = s;
        obsOwner[a]   = s;
      } else {
        Holder *h   = new Holder();
        obs[a]      = &h->member;
        obsOwner[a] = h;
      }
      oAlive[a] = true;
      epoch[a]  = 0;
      if (gen[a]++)
        recreated++;
      break;
    }
    case K_NEW_OBSERVER:
      wat[a]      = new Observer(*obs[b]);
      wAlive[a]   = true;
      watching[a] = b;
      seen[a]     = epoch[b];
      polledSinceCreation[a] = false;
      everTrue[a] = false;
      break;
    case K_NOTIFY:
      for (int i = 0; i < b; ++i)
        obs[a]->notifyObservers();
      epoch[a] += b;
      break;
    case K_POLL: {
      int o       = watching[a];
      bool expect = o >= 0 && epoch[o] > seen[a];
      bool got    = wat[a]->wasNotified();
      if (got != expect) {
        failed = true;
        std::string state = o < 0 ? "its observable was destroyed"
                                  : "observable epoch " + std::to_string(epoch[o]) + ", observer saw " + std::to_string(seen[a]);
        if (expect)
          vh::violation(epoch[o] - seen[a] > 1 ? "C19:observer:repeated-notifications-missed" : "C19:observer:notification-missed",
                        "wasNotified() of observer " + std::to_string(a) + " is false, expected true (" + state + ")", desc);
        else if (o < 0)
          vh::violation("C19:observer:true-after-observable-destroyed",
                        "wasNotified() of observer " + std::to_string(a) + " is true although " + state, desc);
        else if (everTrue[a])
          vh::violation("C19:observer:notification-seen-twice",
                        "wasNotified() of observer " + std::to_string(a) + " is true again without a new notification (" + state + ")",
                        desc);
        else
          vh::violation("C19:observer:true-without-notification-since-creation",
                        "wasNotified() of observer " + std::to_string(a) + " is true although nothing was notified since it was created (" +
                            state + ")",
                        desc);
      }
      if (expect) {
        pollsTrue++;
        if (epoch[o] - seen[a] > 1)
          pollsCoalesced++;
        seen[a] = epoch[o];
        everTrue[a] = true;
      } else {
        pollsFalse++;
        if (o < 0)
          pollsOrphan++;
        else if (!polledSinceCreation[a] && epoch[o] > 0)
          pollsLateCreated++;
        else if (epoch[o] > 0)
          pollsAlreadySeen++;
        else
          pollsNeverNotified++;
      }
      polledSinceCreation[a] = true;
      break;
    }
    case K_DEL_OBSERVER:
      if (watching[a] < 0)
        delObserverAfterObservable++;
      else
        delObserverBeforeObservable++;
      delete wat[a];
      wat[a]      = 0;
      wAlive[a]   = false;
      watching[a] = -1;
      break;
    case K_DEL_OBSERVABLE: {
      int n = 0;
      for (int w = 0; w < NWAT; ++w)
        if (wAlive[w] && watching[w] == a) {
          watching[w] = -1;
          ++n;
        }
      if (n)
        delObservableWithObservers++;
      if (a == 0)
        delete static_cast<Subject *>(obsOwner[a]);
      else if (a == 1)
        delete static_cast<Observable *>(obsOwner[a]);
      else {
        Holder *h = static_cast<Holder *>(obsOwner[a]);
        if (h->before != 1 || h->after != 2) {
          failed = true;
          vh::violation("C19:observer:neighbouring-memory-overwritten", "members next to an embedded Observable changed", desc);
        }
        delete h;
      }
      obs[a]      = 0;
      obsOwner[a] = 0;
      oAlive[a]   = false;
      break;
    }
    }
    pos++;
  }

  void finish(vh::Rng &r)
  {
    // some final polls, then everything is destroyed in random order (either side first)
    for (int w = 0; w < NWAT; ++w)
      if (wAlive[w] && r.chance(1, 2)) {
        Op op = {K_POLL, w, 0};
        apply(op);
      }
    int order[NOBS + NWAT];
    for (int i = 0; i < NOBS + NWAT; ++i)
      order[i] = i;
    for (int i = NOBS + NWAT - 1; i > 0; --i)
      std::swap(order[i], order[r.below(i + 1)]);
    for (int i = 0; i < NOBS + NWAT; ++i) {
      Op op = {order[i] < NOBS ? K_DEL_OBSERVABLE : K_DEL_OBSERVER, order[i] < NOBS ? order[i] : order[i] - NOBS, 0};
      apply(op);
    }
  }
};

static Op randomObsOp(vh::Rng &r, const ObsRunner &m)
{
  //                                 newO newW notify poll delW delO
  static const int weights[NKIND] = {3,   6,   8,     12,  2,   2};
  int total = 0;
  for (int i = 0; i < NKIND; ++i)
    total += weights[i];
  for (int tries = 0; tries < 60; ++tries) {
    int w = (int)r.below(total), kind = 0;
    while (w >= weights[kind])
      w -= weights[kind++];
    Op op = {kind, 0, 0};
    switch (kind) {
    case K_NEW_OBSERVABLE:
    case K_DEL_OBSERVABLE: op.a = (int)r.below(NOBS); break;
    case K_NEW_OBSERVER:
      op.a = (int)r.below(NWAT);
      op.b = (int)r.below(NOBS);
      break;
    case K_NOTIFY:
      op.a = (int)r.below(NOBS);
      op.b = r.chance(2, 3) ? 1 : (int)r.range(2, 4);
      break;
    case K_POLL:
    case K_DEL_OBSERVER: op.a = (int)r.below(NWAT); break;
    }
    if (m.feasible(op))
      return op;
  }
  Op none = {-1, 0, 0};
  return none;
}

static const Op obsScripted[][20] = {
    // one observer: nothing yet, one notification seen once, three coalesced, then the observable goes first
    {{K_NEW_OBSERVABLE, 0, 0}, {K_NEW_OBSERVER, 0, 0}, {K_POLL, 0, 0}, {K_NOTIFY, 0, 1}, {K_POLL, 0, 0}, {K_POLL, 0, 0}, {K_NOTIFY, 0, 3},
     {K_POLL, 0, 0}, {K_POLL, 0, 0}, {K_NOTIFY, 0, 1}, {K_DEL_OBSERVABLE, 0, 0}, {K_POLL, 0, 0}, {K_DEL_OBSERVER, 0, 0}, {-1, 0, 0}},
    // observer created after a notification; independence of two observers; observers go first
    {{K_NEW_OBSERVABLE, 1, 0}, {K_NOTIFY, 1, 1}, {K_NEW_OBSERVER, 0, 1}, {K_POLL, 0, 0}, {K_NEW_OBSERVER, 1, 1}, {K_NOTIFY, 1, 1},
     {K_POLL, 0, 0}, {K_POLL, 0, 0}, {K_POLL, 1, 0}, {K_POLL, 1, 0}, {K_DEL_OBSERVER, 0, 0}, {K_NOTIFY, 1, 2}, {K_POLL, 1, 0},
     {K_DEL_OBSERVER, 1, 0}, {K_NOTIFY, 1, 1}, {K_DEL_OBSERVABLE, 1, 0}, {-1, 0, 0}},
    // two observables: a notification of one is not seen by the observer of the other
    {{K_NEW_OBSERVABLE, 0, 0}, {K_NEW_OBSERVABLE, 2, 0}, {K_NEW_OBSERVER, 0, 0}, {K_NEW_OBSERVER, 1, 2}, {K_NOTIFY, 0, 1}, {K_POLL, 1, 0},
     {K_POLL, 0, 0}, {K_DEL_OBSERVABLE, 2, 0}, {K_POLL, 1, 0}, {K_NOTIFY, 0, 1}, {K_DEL_OBSERVABLE, 0, 0}, {K_POLL, 0, 0},
     {K_DEL_OBSERVER, 1, 0}, {K_DEL_OBSERVER, 0, 0}, {-1, 0, 0}},
    // orphaned observer stays orphaned when a new observable appears in the same slot
    {{K_NEW_OBSERVABLE, 1, 0}, {K_NEW_OBSERVER, 0, 1}, {K_NOTIFY, 1, 1}, {K_DEL_OBSERVABLE, 1, 0}, {K_NEW_OBSERVABLE, 1, 0},
     {K_NOTIFY, 1, 2}, {K_POLL, 0, 0}, {K_NEW_OBSERVER, 1, 1}, {K_POLL, 1, 0}, {K_NOTIFY, 1, 1}, {K_POLL, 0, 0}, {K_POLL, 1, 0},
     {K_DEL_OBSERVER, 0, 0}, {K_DEL_OBSERVABLE, 1, 0}, {K_POLL, 1, 0}, {K_DEL_OBSERVER, 1, 0}, {-1, 0, 0}},
    // five observers on one observable, middle ones removed before the observable is destroyed
    {{K_NEW_OBSERVABLE, 2, 0}, {K_NEW_OBSERVER, 0, 2}, {K_NEW_OBSERVER, 1, 2}, {K_NEW_OBSERVER, 2, 2}, {K_NEW_OBSERVER, 3, 2},
     {K_NEW_OBSERVER, 4, 2}, {K_NOTIFY, 2, 1}, {K_DEL_OBSERVER, 1, 0}, {K_DEL_OBSERVER, 3, 0}, {K_POLL, 0, 0}, {K_POLL, 4, 0},
     {K_DEL_OBSERVABLE, 2, 0}, {K_POLL, 2, 0}, {K_POLL, 0, 0}, {K_DEL_OBSERVER, 0, 0}, {K_DEL_OBSERVER, 2, 0}, {K_DEL_OBSERVER, 4, 0},
     {-1, 0, 0}},
};
static const long nObsScripted = sizeof(obsScripted) / sizeof(obsScripted[0]);

struct Progress
{
  volatile long completed;
  volatile long failed;
};
static Progress *g_progress = 0;

static void runObsHistory(long k)
{
  if (!vh::wantCase(k))
    return;
  vh::Rng r(vh::seed() * 1000003ull + (uint64_t)k, 19);
  ObsRunner m(k);
  if (k < nObsScripted) {
    const Op *s = obsScripted[k];
    for (int i = 0; i < 20 && s[i].kind >= 0; ++i)
      m.apply(s[i]);
    vh::count("histories_scripted");
  } else {
    int len = (int)r.range(1, MAXRANDOM);
    // most histories start with an observable (and often a notification before any observer exists)
    if (!r.chance(1, 6)) {
      Op op = {K_NEW_OBSERVABLE, (int)r.below(NOBS), 0};
      m.apply(op);
      if (r.chance(1, 2)) {
        Op n = {K_NOTIFY, op.a, (int)r.range(1, 2)};
        m.apply(n);
      }
    }
    while (m.pos < len && !m.failed) {
      Op op = randomObsOp(r, m);
      if (op.kind < 0)
        break;
      m.apply(op);
    }
  }
  m.finish(r);
  for (int i = 0; i < NKIND; ++i)
    if (m.kindCount[i])
      vh::count((std::string("op_") + kindStr[i]).c_str(), m.kindCount[i]);
#define C19_CNT(field, name) \
  if (m.field)               \
  vh::count(name, m.field)
  C19_CNT(pollsTrue, "polls_expected_true");
  C19_CNT(pollsFalse, "polls_expected_false");
  C19_CNT(pollsCoalesced, "polls_after_repeated_notifications");
  C19_CNT(pollsOrphan, "polls_after_observable_destroyed");
  C19_CNT(pollsLateCreated, "polls_of_observer_created_after_notification");
  C19_CNT(pollsAlreadySeen, "polls_without_new_notification");
  C19_CNT(pollsNeverNotified, "polls_of_never_notified_observable");
  C19_CNT(delObservableWithObservers, "observable_destroyed_before_its_observers");
  C19_CNT(delObserverAfterObservable, "observer_destroyed_after_its_observable");
  C19_CNT(delObserverBeforeObservable, "observer_destroyed_before_its_observable");
  C19_CNT(recreated, "observable_slot_recreated");
  vh::count("histories");
  vh::count("history_operations", m.pos);
  vh::maxi("max_history_length", m.pos);
  vh::evaluatedN(m.pollsTrue + m.pollsFalse);
  vh::evaluated(m.hash, m.pollsTrue > 0 && m.pollsFalse > 0);
  if (k >= nObsScripted && k < nObsScripted + 2)
    vh::sample(vh::J().kv("kind", "observer-history").kv("ops", m.desc).str(), 2);
  if (m.failed) {
    vh::count("histories_abandoned_after_violation");
    if (g_progress)
      __sync_fetch_and_add(&g_progress->failed, 1);
  }
  if (g_progress)
    __sync_fetch_and_add(&g_progress->completed, 1);
}

// ------------------------------------------------------------------ part (b): time stamps
struct Mailbox
{
  std::mutex mtx;
  std::vector<TimeStamp> box;
  std::vector<size_t> model;  // value last stored in box[i] (same mutex)
  std::vector<char> filled;
  explicit Mailbox(int n) : box(n), model(n, 0), filled(n, 0) {}
};

enum
{
  NSLOT = 6
};

struct StampThread
{
  int t, T;
  long ops;
  int round;
  std::vector<size_t> values;  // every fresh / renewed value this thread obtained
  bool bad;
  long nFresh, nRenew, nCopy, nMove, nAssign, nSelfAssign, nMail, nShared;
  StampThread() : t(0), T(1), ops(0), round(0), bad(false), nFresh(0), nRenew(0), nCopy(0), nMove(0), nAssign(0), nSelfAssign(0), nMail(0), nShared(0) {}
};

static void stampWorker(StampThread &me, Mailbox &mail, TimeStamp &shared, const std::string &ctx, size_t floorValue)
{
  vh::Rng r(vh::seed() * 6151ull + (uint64_t)me.round * 977 + me.T, 4000 + me.t);
  TimeStamp *slot[NSLOT];
  size_t mv[NSLOT];
  for (int i = 0; i < NSLOT; ++i)
    slot[i] = 0;
  size_t maxSeen = floorValue;  // main obtained this value before the threads were started
  std::string who = ctx + " thread=" + std::to_string(me.t);
  me.values.reserve((size_t)me.ops);

#define C19_OBTAINED(v, how)                                                                                                  \
  do {                                                                                                                        \
    if (!((v) > maxSeen)) {                                                                                                   \
      me.bad = true;                                                                                                          \
      vh::violation(std::string("C19:timestamp:") + how + "-not-larger-than-earlier-value",                                   \
                    std::string(how) + " stamp has value " + std::to_string(v) + " but this thread already obtained " +      \
                        std::to_string(maxSeen),                                                                              \
                    who);                                                                                                     \
    }                                                                                                                         \
    maxSeen = std::max(maxSeen, (size_t)(v));                                                                                 \
    me.values.push_back(v);                                                                                                   \
  } while (0)

  for (long i = 0; i < me.ops && !me.bad; ++i) {
    int a = (int)r.below(NSLOT), b = (int)r.below(NSLOT);
    unsigned what = (unsigned)r.below(16);
    if (!slot[a])
      what = 0;
    else if (!slot[b] && what >= 4 && what <= 9)
      what = 1;
    switch (what) {
    case 0:
    case 2: {  // fresh stamp (replaces whatever lived in the slot)
      delete slot[a];
      slot[a]  = new TimeStamp();
      size_t v = *slot[a];
      C19_OBTAINED(v, "fresh");
      mv[a] = v;
      me.nFresh++;
      break;
    }
    case 1:
    case 3: {  // renew
      size_t old = mv[a];
      slot[a]->renew();
      size_t v = *slot[a];
      C19_OBTAINED(v, "renewed");
      if (v == old) {
        me.bad = true;
        vh::violation("C19:timestamp:renew-keeps-value", "renew() left the value " + std::to_string(v) + " unchanged", who);
      }
      mv[a] = v;
      me.nRenew++;
      break;
    }
    case 4: {  // copy construction
      if (a == b)
        break;
      const TimeStamp &src = *slot[b];
      TimeStamp *c         = new TimeStamp(src);
      size_t v = *c, s = *slot[b];
      if (v != mv[b] || s != mv[b]) {
        me.bad = true;
        vh::violation("C19:timestamp:copy-construct-value",
                      "copy has value " + std::to_string(v) + ", source now " + std::to_string(s) + ", source had " + std::to_string(mv[b]),
                      who);
      }
      delete slot[a];
      slot[a] = c;
      mv[a]   = mv[b];
      me.nCopy++;
      break;
    }
    case 5: {  // move construction
      if (a == b)
        break;
      TimeStamp *c = new TimeStamp(std::move(*slot[b]));
      size_t v     = *c;
      if (v != mv[b]) {
        me.bad = true;
        vh::violation("C19:timestamp:move-construct-value",
                      "moved-to stamp has value " + std::to_string(v) + ", source had " + std::to_string(mv[b]), who);
      }
      mv[b] = *slot[b];  // moved-from state is not specified by the property: resynchronise
      delete slot[a];
      slot[a] = c;
      mv[a]   = v;
      me.nMove++;
      break;
    }
    case 6:
    case 7: {  // copy assignment (a == b: self assignment)
      const TimeStamp &src = *slot[b];
      TimeStamp &ret       = (*slot[a] = src);
      size_t v = *slot[a], s = *slot[b];
      if (v != mv[b] || s != mv[b] || &ret != slot[a]) {
        me.bad = true;
        vh::violation(a == b ? "C19:timestamp:self-assign-value" : "C19:timestamp:copy-assign-value",
                      "target has value " + std::to_string(v) + ", source now " + std::to_string(s) + ", source had " + std::to_string(mv[b]) +
                          (&ret != slot[a] ? " (operator= did not return *this)" : ""),
                      who);
      }
      mv[a] = mv[b];
      if (a == b)
        me.nSelfAssign++;
      else
        me.nAssign++;
      break;
    }
    case 8: {  // move assignment
      if (a == b)
        break;
      TimeStamp &ret = (*slot[a] = std::move(*slot[b]));
      size_t v       = *slot[a];
      if (v != mv[b] || &ret != slot[a]) {
        me.bad = true;
        vh::violation("C19:timestamp:move-assign-value",
                      "target has value " + std::to_string(v) + ", source had " + std::to_string(mv[b]), who);
      }
      mv[a] = v;
      mv[b] = *slot[b];
      me.nMove++;
      break;
    }
    case 9:
    case 10: {  // read back every slot: values only change through renew / assignment
      for (int q = 0; q < NSLOT; ++q)
        if (slot[q]) {
          size_t v = *slot[q];
          if (v != mv[q]) {
            me.bad = true;
            vh::violation("C19:timestamp:value-changed-unexpectedly",
                          "stamp reads " + std::to_string(v) + ", the last operation on it left " + std::to_string(mv[q]), who);
          }
        }
      break;
    }
    case 11: {  // publish a copy for the other threads
      std::lock_guard<std::mutex> g(mail.mtx);
      mail.box[me.t]    = *slot[a];
      mail.model[me.t]  = mv[a];
      if ((size_t)mail.box[me.t] != mv[a]) {
        me.bad = true;
        vh::violation("C19:timestamp:copy-assign-value",
                      "published stamp has value " + std::to_string((size_t)mail.box[me.t]) + ", source had " + std::to_string(mv[a]), who);
      }
      mail.filled[me.t] = 1;
      me.nMail++;
      break;
    }
    case 12:
    case 13: {  // take a copy of another thread's published stamp
      int u = (int)r.below(me.T);
      size_t v = 0, expect = 0;
      bool have = false;
      TimeStamp *c = 0;
      {
        std::lock_guard<std::mutex> g(mail.mtx);
        if (mail.filled[u]) {
          const TimeStamp &src = mail.box[u];
          c      = new TimeStamp(src);
          expect = mail.model[u];
          have   = true;
        }
      }
      if (have) {
        v = *c;
        if (v != expect) {
          me.bad = true;
          vh::violation("C19:timestamp:copy-construct-value",
                        "copy of a stamp published by thread " + std::to_string(u) + " has value " + std::to_string(v) + ", published " +
                            std::to_string(expect),
                        who);
        }
        maxSeen = std::max(maxSeen, v);  // obtained (properly synchronised) - later fresh stamps must exceed it
        delete slot[a];
        slot[a] = c;
        mv[a]   = v;
        me.nMail++;
      }
      break;
    }
    default: {  // the shared stamp: thread 0 renews it, everybody reads it (TimeStamp::value is atomic)
      if (me.t == 0) {
        shared.renew();
        size_t v = shared;
        C19_OBTAINED(v, "renewed");
      } else {
        size_t v = shared;
        maxSeen  = std::max(maxSeen, v);
      }
      me.nShared++;
      break;
    }
    }
    if (r.chance(1, 97))
      std::this_thread::yield();
  }
  for (int i = 0; i < NSLOT; ++i)
    delete slot[i];
}

static void stampRound(int T, long opsPerThread, int round)
{
  std::string ctx = "threads=" + std::to_string(T) + " round=" + std::to_string(round) + " ops/thread=" + std::to_string(opsPerThread);
  TimeStamp before;
  size_t floorValue = before;
  Mailbox mail(T);
  TimeStamp shared;
  size_t sharedInitial = shared;
  std::vector<StampThread> st(T);
  for (int t = 0; t < T; ++t) {
    st[t].t     = t;
    st[t].T     = T;
    st[t].ops   = opsPerThread;
    st[t].round = round;
  }
  {
    std::vector<std::thread> th;
    for (int t = 0; t < T; ++t)
      th.push_back(std::thread([&, t]() { stampWorker(st[t], mail, shared, ctx, floorValue); }));
    for (size_t i = 0; i < th.size(); ++i)
      th[i].join();
  }
  TimeStamp after;
  size_t afterValue = after;
  // all fresh / renewed values of all threads (plus the ones main created) are pairwise distinct
  std::vector<std::pair<size_t, int> > all;
  all.push_back(std::make_pair(floorValue, -1));
  all.push_back(std::make_pair(sharedInitial, -1));
  all.push_back(std::make_pair(afterValue, -1));
  long nFresh = 0, nRenew = 0, nCopy = 0, nMove = 0, nAssign = 0, nSelf = 0, nMail = 0, nShared = 0;
  bool bad = false;
  for (int t = 0; t < T; ++t) {
    for (size_t i = 0; i < st[t].values.size(); ++i)
      all.push_back(std::make_pair(st[t].values[i], t));
    nFresh += st[t].nFresh;
    nRenew += st[t].nRenew;
    nCopy += st[t].nCopy;
    nMove += st[t].nMove;
    nAssign += st[t].nAssign;
    nSelf += st[t].nSelfAssign;
    nMail += st[t].nMail;
    nShared += st[t].nShared;
    bad |= st[t].bad;
  }
  std::sort(all.begin(), all.end());
  long dups = 0;
  for (size_t i = 1; i < all.size(); ++i)
    if (all[i].first == all[i - 1].first) {
      if (!dups)
        vh::violation(T == 1 ? "C19:timestamp:duplicate-value-single-thread" : "C19:timestamp:duplicate-value-across-threads",
                      "value " + std::to_string(all[i].first) + " was handed out twice (threads " + std::to_string(all[i - 1].second) +
                          " and " + std::to_string(all[i].second) + "; -1 = main)",
                      ctx);
      ++dups;
    }
  if (dups)
    vh::count("duplicate_stamp_values", dups);
  if (all.back().first != afterValue)
    vh::violation("C19:timestamp:fresh-not-larger-than-earlier-value",
                  "a stamp created by main after joining all threads has value " + std::to_string(afterValue) +
                      " but a thread obtained " + std::to_string(all.back().first),
                  ctx);
  vh::count("stamps_fresh", nFresh);
  vh::count("stamps_renewed", nRenew);
  vh::count("stamp_copy_constructions", nCopy);
  vh::count("stamp_moves", nMove);
  vh::count("stamp_copy_assignments", nAssign);
  vh::count("stamp_self_assignments", nSelf);
  vh::count("stamp_mailbox_exchanges", nMail);
  vh::count("stamp_shared_accesses", nShared);
  vh::count("stamp_values_compared", (long long)all.size());
  vh::count("stamp_rounds");
  vh::maxi("max_threads", T);
  vh::evaluatedN((long long)all.size());
  vh::evaluated(vh::hash64(vh::hash64(vh::hash64(1905, T), round), vh::seed()), T > 1);
}


// ------------------------------------------------------------------ allocation failpoint (same scheme as c12_handoff.cpp)
// When armed on the calling thread, its n-th next allocation through operator new fails with std::bad_alloc.
#include <cstdlib>
#include <cstring>
#include <new>
static thread_local int t_failNew = 0;
static long g_newFailures         = 0;
void *operator new(std::size_t n)
{
  if (t_failNew > 0 && --t_failNew == 0) {
    ++g_newFailures;
    throw std::bad_alloc();
  }
  void *p = malloc(n ? n : 1);
  if (!p)
    throw std::bad_alloc();
  return p;
}
void *operator new[](std::size_t n) { return operator new(n); }
void operator delete(void *p) noexcept { free(p); }
void operator delete[](void *p) noexcept { free(p); }
void operator delete(void *p, std::size_t) noexcept { free(p); }
void operator delete[](void *p, std::size_t) noexcept { free(p); }

// An Observer whose construction failed (registration ran out of memory) does not exist: its observable must not
// keep a registration for it. Observed through the observer's storage: a malloc'ed, pattern-filled buffer that stays
// allocated; whatever the failed constructor left there must still be there after the observable has been destroyed
// (~Observable clears the observee pointer of every registered observer).
static void allocFailureCases()
{
  long fired = 0, cases = 0;
  for (int pre = 0; pre <= 17; ++pre)
    for (int failAt = 1; failAt <= 3; ++failAt) {
      std::string ctx = "observable with " + std::to_string(pre) + " observers, Observer constructed with allocation #" + std::to_string(failAt) + " of the construction failing";
      Observable *obs = new Observable();
      std::vector<Observer *> others;
      others.reserve(32);
      for (int i = 0; i < pre; ++i)
        others.push_back(new Observer(*obs));
      unsigned char *buf = (unsigned char *)malloc(sizeof(Observer) + 32);
      memset(buf, 0xAB, sizeof(Observer) + 32);
      Observer *made = 0;
      long before    = g_newFailures;
      t_failNew      = failAt;
      try {
        made = new (buf + 16) Observer(*obs);
      } catch (const std::bad_alloc &) {
      }
      t_failNew    = 0;
      bool failed  = g_newFailures != before && !made;
      ++cases;
      if (failed) {
        ++fired;
        unsigned char snap[sizeof(Observer) + 32];
        memcpy(snap, buf, sizeof(snap));
        obs->notifyObservers();
        for (size_t i = 0; i < others.size(); ++i)
          VH_CHECK(others[i]->wasNotified(), "C19:observer:alloc-failure:other-observer-missed-notification", "observer #" + std::to_string(i) + " did not see the notification after a failed registration", ctx);
        delete obs;
        obs = 0;
        VH_CHECK(memcmp(snap, buf, sizeof(snap)) == 0, "C19:observer:dangling-registration-after-failed-construction",
                 "the observable's destructor wrote into the storage of an observer whose construction had failed (it was still registered)", ctx);
        for (size_t i = 0; i < others.size(); ++i)
          VH_CHECK(!others[i]->wasNotified(), "C19:observer:alloc-failure:poll-after-observable-died", "observer #" + std::to_string(i) + " reports a notification after its observable died", ctx);
      } else if (made) {
        obs->notifyObservers();
        VH_CHECK(made->wasNotified(), "C19:observer:alloc-failure:constructed-observer-missed-notification", "an observer constructed without failure did not see the notification", ctx);
        made->~Observer();
      }
      for (size_t i = 0; i < others.size(); ++i)
        delete others[i];
      delete obs;
      free(buf);
      vh::evaluated(vh::hash64(1919, (uint64_t)pre * 8 + (uint64_t)failAt), failed);
    }
  vh::count("alloc_failure_cases", cases);
  vh::count("alloc_failures_fired_in_observer_construction", fired);
}

// ------------------------------------------------------------------ main
// ------------------------------------------------------------------ part (c): objects with static storage
// Stamps taken before main() - by objects with static storage in the application's translation unit, which in the
// `appfirst` variant is initialised BEFORE the library's (static link, the application's objects in front) - are stamps
// like any other: unique, and smaller than everything taken later on the same (main) thread; an observer created at
// that time sees a notification issued from main().
static TimeStamp g_earlyA;
static TimeStamp g_earlyB;
static Observable g_earlySubject;
static Observer g_earlyObserver(g_earlySubject);
static TimeStamp g_earlyC;

static void earlyStatics()
{
  std::string ctx = "objects with static storage in the application, variant " + vh::st().variant;
  size_t a = g_earlyA, b = g_earlyB, c = g_earlyC;
  TimeStamp now1, now2;
  size_t n1 = now1, n2 = now2;
  if (!(a < b && b < c))
    vh::violation("C19:timestamp:static-objects-not-increasing", "stamps of three static objects defined in this order: " + std::to_string(a) + ", " + std::to_string(b) + ", " + std::to_string(c), ctx);
  if (!(c < n1 && n1 < n2))
    vh::violation("C19:timestamp:fresh-not-larger-than-earlier-value", "a stamp taken in main() (" + std::to_string(n1) + ", " + std::to_string(n2) + ") is not larger than the ones the same thread took before main() (" + std::to_string(a) + ", " +
                                                                           std::to_string(b) + ", " + std::to_string(c) + ")", ctx);
  bool before = g_earlyObserver.wasNotified();
  g_earlySubject.notifyObservers();
  bool after = g_earlyObserver.wasNotified(), again = g_earlyObserver.wasNotified();
  if (before || !after || again)
    vh::violation("C19:observer:static-observer-notification", std::string("observer with static storage: wasNotified() before any notification=") + (before ? "true" : "false") + ", after notifyObservers()=" + (after ? "true" : "false") +
                                                                   ", polled again=" + (again ? "true" : "false") + " (expected false, true, false)", ctx);
  vh::count("static_storage_scenarios");
  vh::evaluatedN(3);
}

int main(int argc, char **argv)
{
  vh::init(argc, argv);
  earlyStatics();
  vh::rule(
      "(c) stamps and an observer with static storage, taken before main(); (a) observer histories: 5 scripted + seeded random (<= 17 random operations over 3 observables x 5 observers, then random "
      "final polls and destruction of everything in random order, <= 30 operations); every poll is one evaluation against the "
      "epoch model; distinct = hash of the operation sequence, non-trivial = at least one poll expected true and one expected "
      "false. (b) stamps: one distinct case per (thread count, round), non-trivial when more than one thread; every gathered "
      "stamp value is one evaluation");
  std::string variant = vh::st().variant;
  bool tsan           = variant.find("tsan") != std::string::npos;
  bool asan           = variant.find("asan") != std::string::npos;
  vh::note("variant", variant);

  // (a) in chunks of forked cases; shared counters tell the parent how many histories completed /
  // were abandoned after a violation: once many violations or aborts are on record the remaining
  // chunks are skipped (never the case on a tree that satisfies the property)
  long nHist = tsan ? vh::tier(30000, 200000) : vh::tier(300000, 1000000);
  g_progress = (Progress *)mmap(0, sizeof(Progress), PROT_READ | PROT_WRITE, MAP_SHARED | MAP_ANONYMOUS, -1, 0);
  g_progress->completed = g_progress->failed = 0;
  if (vh::st().onlyCase >= 0) {
    vh::forkedCases(
        nHist, [](long k) { runObsHistory(k); }, 20000, 2000, [](long k) { return "#" + std::to_string(k) + " observer-history"; });
  } else {
    const long chunk = 2000;
    for (long base = 0; base < nHist; base += chunk) {
      long n = std::min(chunk, nHist - base);
      vh::forkedCases(
          n, [base](long i) { runObsHistory(base + i); }, 20000, chunk,
          [base](long i) { return "#" + std::to_string(base + i) + " observer-history"; });
      long crashed = base + n - g_progress->completed;
      if (crashed >= 20 || g_progress->failed >= 3000) {
        vh::note("histories_cut_short", "stopped after history #" + std::to_string(base + n - 1) + ": " + std::to_string(crashed) +
                                            " histories died abnormally, " + std::to_string((long)g_progress->failed) +
                                            " were abandoned after a violation");
        break;
      }
    }
  }

  if (vh::st().onlyCase < 0)
    allocFailureCases();

  // (b)
  if (vh::st().onlyCase < 0) {
    const int Ts[] = {1, 2, 3, 4, 6, 8, 12, 16};
    long budget   = vh::tier(1000000, 3000000);  // operations per round, shared by the threads
    int rounds    = (int)vh::tier(2, 4);
    if (tsan)
      budget /= 5;
    else if (asan)
      budget /= 2;
    for (int ti = 0; ti < 8; ++ti) {
      int T = Ts[ti];
      vh::forkedOne("stamps threads=" + std::to_string(T), [T, budget, rounds]() {
        for (int round = 0; round < rounds; ++round)
          stampRound(T, std::max(1000L, budget / T), round);
      }, 600000);
    }
  }
  return vh::finish();
}
