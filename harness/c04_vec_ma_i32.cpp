// C04 - families over pairs (T=int32_t, U): U in the 8/16-bit types and uint32_t (see c04_vec.cpp)
#include "c04_vec_mixed.h"
namespace c04 {
  void run_ma_i32()
  {
    typedef int32_t T;
    vh::Rng r(vh::seed(), 500 + TN<T>::idx);
    runPair<T, uint8_t>(r);
    runPair<T, int8_t>(r);
    runPair<T, uint16_t>(r);
    runPair<T, int16_t>(r);
    runPair<T, uint32_t>(r);
  }
}  // namespace c04
