// C04 - families over the single element type double (see c04_vec.cpp)
#include "c04_vec_same.h"
namespace c04 {
  void run_s_f64()
  {
    vh::Rng r(vh::seed(), 400 + TN<double>::idx);
    runSame<double>(r);
  }
}  // namespace c04
