// C02 - schedule() / async() / AsyncTask: run exactly once, eventually; deliver the value;
// touch nothing released.
//
// Monitors: per-closure execution counters (atomic), lifetime registry of the heap-owning
// capture (every copy constructed is destroyed exactly once, none live after quiescence),
// value oracle for future.get()/AsyncTask::get(), instrumented result type `Tracked`
// (side-table registry: no payload operation on storage that holds no live object),
// AsyncTask objects placed in freshly poisoned heap blocks that are freed (ASan) or
// re-poisoned and re-verified (plain) right after the destructor returns.
#include "vh.h"

#include <chrono>
#include <future>
#include <memory>
#include <thread>

#include "rkcommon/tasking/AsyncTask.h"
#include "rkcommon/tasking/async.h"
#include "rkcommon/tasking/schedule.h"
#include "rkcommon/tasking/tasking_system_init.h"
#ifdef RKCOMMON_TASKING_INTERNAL
#include "rkcommon/verif/hooks.h"
#endif

using namespace rkcommon::tasking;

static void sleepUs(int us)
{
  if (us <= 0)
    std::this_thread::yield();
  else
    std::this_thread::sleep_for(std::chrono::microseconds(us));
}
static void spinUs(int us)
{
  double t0 = vh::now();
  while ((vh::now() - t0) * 1e6 < us) {
  }
}

// ------------------------------------------------------------------ delay injection (enkiTS points)
static std::atomic<int> g_injectPermille(0);
static thread_local uint64_t tl_rng = 0;
static void hookFcn(const char *, const void *)
{
  int pm = g_injectPermille.load(std::memory_order_relaxed);
  if (pm <= 0)
    return;
  if (!tl_rng)
    tl_rng = 0x9E3779B97F4A7C15ull ^ (uint64_t)(uintptr_t)&tl_rng ^ vh::seed();
  tl_rng ^= tl_rng << 13;
  tl_rng ^= tl_rng >> 7;
  tl_rng ^= tl_rng << 17;
  if ((int)(tl_rng % 1000) < pm) {
    if ((tl_rng >> 12) % 2)
      std::this_thread::yield();
    else
      sleepUs((int)((tl_rng >> 20) % 80));
  }
}

// ------------------------------------------------------------------ instrumented capture
static vh::Lifetime *g_capReg;
// description of the running case: immutable strings that are never freed, because tasks
// left over from an earlier case may still consult it
static std::atomic<const std::string *> g_ctxp(new std::string("(no case)"));
#define g_ctx (*g_ctxp.load())

struct Cap
{
  std::vector<int> heap;  // heap-owning state
  int id;
  explicit Cap(int id_) : heap(16, id_), id(id_) { g_capReg->onConstruct(this, g_ctx); }
  Cap(const Cap &o) : heap(o.heap), id(o.id) { g_capReg->onConstruct(this, g_ctx); }
  Cap(Cap &&o) : heap(std::move(o.heap)), id(o.id) { g_capReg->onConstruct(this, g_ctx); }
  ~Cap() { g_capReg->onDestroy(this, g_ctx); }
  bool intact() const { return heap.size() == 16 && heap[0] == id && heap[15] == id; }

 private:
  Cap &operator=(const Cap &);
};

static bool waitUntil(const std::function<bool()> &pred, double seconds)
{
  double t0 = vh::now();
  int us    = 20;
  while (!pred()) {
    if (vh::now() - t0 > seconds)
      return false;
    sleepUs(us);
    if (us < 2000)
      us *= 2;
  }
  return true;
}

// ------------------------------------------------------------------ instrumented result type
static vh::Lifetime *g_trkReg;
static std::atomic<int> g_slowCtorUs(0), g_slowAssignUs(0);

struct Tracked
{
  std::string payload;
  int id;
  Tracked() : payload("default-constructed"), id(-1)
  {
    spinUs(g_slowCtorUs.load(std::memory_order_relaxed));
    g_trkReg->onConstruct(this, g_ctx);
  }
  explicit Tracked(int id_) : payload("tracked-result-with-heap-payload-" + std::to_string(id_)), id(id_) { g_trkReg->onConstruct(this, g_ctx); }
  Tracked(const Tracked &o) : id(-2)
  {
    if (g_trkReg->requireLive(&o, "copy-from", g_ctx)) {
      payload = o.payload;
      id      = o.id;
    }
    g_trkReg->onConstruct(this, g_ctx);
  }
  Tracked(Tracked &&o) : id(-2)
  {
    if (g_trkReg->requireLive(&o, "move-from", g_ctx)) {
      payload = o.payload;
      id      = o.id;
    }
    g_trkReg->onConstruct(this, g_ctx);
  }
  Tracked &operator=(const Tracked &o)
  {
    // never touch members of storage that holds no object: record and bail out
    if (!g_trkReg->requireLive(this, "assign-to", g_ctx) || !g_trkReg->requireLive(&o, "assign-from", g_ctx))
      return *this;
    spinUs(g_slowAssignUs.load(std::memory_order_relaxed));
    payload = o.payload;
    id      = o.id;
    return *this;
  }
  ~Tracked() { g_trkReg->onDestroy(this, g_ctx); }
};

// ------------------------------------------------------------------ result type traits
template <typename T>
struct R;
template <>
struct R<int>
{
  static const char *name() { return "int"; }
  static int make(int id) { return id * 7 + 3; }
  static bool eq(const int &a, int id) { return a == make(id); }
  static std::string show(const int &a) { return std::to_string(a); }
};
template <>
struct R<double>
{
  static const char *name() { return "double"; }
  static double make(int id) { return id * 0.5 + 1.25; }
  static bool eq(const double &a, int id) { return a == make(id); }
  static std::string show(const double &a) { return std::to_string(a); }
};
template <>
struct R<std::string>
{
  static const char *name() { return "string"; }
  static std::string make(int id) { return "result-string-long-enough-to-live-on-the-heap-" + std::to_string(id); }
  static bool eq(const std::string &a, int id) { return a == make(id); }
  static std::string show(const std::string &a) { return a.size() > 80 ? a.substr(0, 80) + "..." : a; }
};
template <>
struct R<std::vector<int>>
{
  static const char *name() { return "vector<int>"; }
  static std::vector<int> make(int id)
  {
    std::vector<int> v(40);
    for (int i = 0; i < 40; ++i)
      v[i] = id + i;
    return v;
  }
  static bool eq(const std::vector<int> &a, int id) { return a == make(id); }
  static std::string show(const std::vector<int> &a) { return "vector of " + std::to_string(a.size()) + (a.empty() ? "" : " first=" + std::to_string(a[0])); }
};
template <>
struct R<Tracked>
{
  static const char *name() { return "Tracked"; }
  static Tracked make(int id) { return Tracked(id); }
  static bool eq(const Tracked &a, int id) { return a.id == id && a.payload == "tracked-result-with-heap-payload-" + std::to_string(id); }
  static std::string show(const Tracked &a) { return "Tracked{id=" + std::to_string(a.id) + ",'" + a.payload + "'}"; }
};

// ------------------------------------------------------------------ schedule bursts
static bool g_serialBackend = false;
static void judgeStallsFwd();
static void watchdogExpired();
#if defined(RKCOMMON_TASKING_TBB)
static const char *kBackendName = "tbb";
#elif defined(RKCOMMON_TASKING_OMP)
static const char *kBackendName = "omp";
#elif defined(RKCOMMON_TASKING_INTERNAL)
static const char *kBackendName = "internal";
#else
static const char *kBackendName = "debug";
#endif

// some cases re-configure the tasking system (another thread count) right after handing their work over, while it is
// still queued: whatever was handed over before must run all the same
static int g_reinitAfterSubmit = 0;
static void reconfigureIfAsked()
{
  if (g_reinitAfterSubmit > 0) {
    initTaskingSystem(g_reinitAfterSubmit);
    vh::count("reconfigured_while_work_queued");
  }
}

static bool scheduleBurst(int B, bool nested, int bodyDelay, const std::string &ctx, bool report)
{
  std::unique_ptr<std::atomic<int>[]> exec(new std::atomic<int>[2 * B + 2]);
  for (int i = 0; i < 2 * B + 2; ++i)
    exec[i].store(0);
  std::atomic<int> *ex = exec.get();
  std::atomic<int> damaged(0);
  std::atomic<int> *dmg = &damaged;
  long long c0 = g_capReg->constructed, d0 = g_capReg->destroyed;
  size_t live0 = g_capReg->liveCount();
  int total    = nested ? 2 * B : B;
  for (int id = 0; id < B; ++id) {
    Cap cap(id);
    if (nested) {
      schedule([cap, ex, dmg, B, bodyDelay]() {
        if (!cap.intact())
          dmg->fetch_add(1);
        Cap inner(cap.id + B);
        // a task scheduling a further task
        schedule([inner, ex, dmg]() {
          if (!inner.intact())
            dmg->fetch_add(1);
          ex[inner.id].fetch_add(1);
        });
        ex[cap.id].fetch_add(1);
      });
    } else if (id & 1) {
      // the closure as a named object that dies right after schedule() returned: the task has to own a copy
      auto named = [cap, ex, dmg, bodyDelay]() {
        if (!cap.intact())
          dmg->fetch_add(1);
        if (bodyDelay && (cap.id % 7) == 0)
          sleepUs(bodyDelay);
        ex[cap.id].fetch_add(1);
      };
      schedule(named);
    } else {
      schedule([cap, ex, dmg, bodyDelay]() {
        if (!cap.intact())
          dmg->fetch_add(1);
        if (bodyDelay && (cap.id % 7) == 0)
          sleepUs(bodyDelay);
        ex[cap.id].fetch_add(1);
      });
    }
  }
  reconfigureIfAsked();
  // the caller only sleeps from here on: no wait call, no further scheduling
  bool all = waitUntil(
      [&]() {
        for (int i = 0; i < total; ++i)
          if (ex[i].load() == 0)
            return false;
        return true;
      },
      30.0);
  if (!all) {
    if (report) {
      std::string missing;
      int nm = 0;
      for (int i = 0; i < total; ++i)
        if (ex[i].load() == 0 && nm++ < 10)
          missing += std::to_string(i) + " ";
      vh::violation("C02:schedule:not-executed-within-watchdog", std::to_string(nm) + " scheduled closure(s) not executed 30 s after schedule() returned while the caller only slept (twice in a row); ids " + missing, ctx);
    }
    // leak the counters on purpose: late tasks may still write to them
    exec.release();
    if (report)
      watchdogExpired();
    return false;
  }
  sleepUs(200);  // grace: a second execution would show up now
  int twice = 0, first = -1;
  for (int i = 0; i < total; ++i)
    if (ex[i].load() != 1) {
      ++twice;
      if (first < 0)
        first = i;
    }
  if (twice)
    vh::violation("C02:schedule:executed-more-than-once", std::to_string(twice) + " closure(s) executed more than once, first id " + std::to_string(first) + " count " + std::to_string(ex[first].load()), ctx);
  if (damaged.load())
    vh::violation("C02:schedule:capture-damaged", "a closure found its heap-owning capture damaged when it ran", ctx);
  // every copy of every capture is released once the tasks are done
  bool released = waitUntil([&]() { return g_capReg->liveCount() == live0; }, 10.0);
  if (!released)
    vh::violation("C02:schedule:closure-not-released", std::to_string(g_capReg->liveCount() - live0) + " capture object(s) still alive 10 s after all closures ran (constructed " +
                      std::to_string(g_capReg->constructed - c0) + ", destroyed " + std::to_string(g_capReg->destroyed - d0) + ")",
                  ctx);
  if (!released)
    exec.release();
  vh::count("closures_executed", total);
  return true;
}

// a tree on which submitted work gets lost costs one watchdog period per case: after a few expiries the process gives up
// (the driver then counts it heavily towards its budget of abnormal cases)
static int g_watchdogExpiries = 0;
static void watchdogExpired()
{
  if (++g_watchdogExpiries >= 3) {
    judgeStallsFwd();
    vh::abandonChild();
  }
}

// ---- a submitter that stays busy: a running task hands a job to schedule()/async() and then waits (bounded) for that
// job's result without returning to the scheduler. Only another worker can run the job - it has to be found in the
// submitting worker's queue. One such submitter at a time, so that there is always a free worker.
static void blockedSubmitter(int rounds, int T, const std::string &ctx)
{
  if (T < 3 && !g_serialBackend)
    return;
  for (int rd = 0; rd < rounds; ++rd) {
    // (counters live on the heap and are leaked when something is late: a late job may still write to them)
    struct St
    {
      std::atomic<int> warm, childRan, parentDone, parentGaveUp;
      St() : warm(0), childRan(0), parentDone(0), parentGaveUp(0) {}
    };
    St *st = new St();
    // some ordinary traffic from this thread first, so that the workers have been stealing from different queues
    int W = 1 + (rd % 5) * 3;
    for (int i = 0; i < W; ++i)
      schedule([st]() { st->warm.fetch_add(1); });
    if (!waitUntil([&]() { return st->warm.load() == W; }, 30.0)) {
      vh::violation("C02:schedule:not-executed-within-watchdog", "warm-up closures of the busy-submitter scenario not executed after 30 s", ctx);
      watchdogExpired();
      return;
    }
    bool viaAsync = (rd & 1) != 0;
    schedule([st, viaAsync]() {
      if (viaAsync) {
        std::future<int> f = async([st]() -> int {
          st->childRan.fetch_add(1);
          return 7;
        });
        if (f.wait_for(std::chrono::seconds(20)) != std::future_status::ready)
          st->parentGaveUp.store(1);
      } else {
        schedule([st]() { st->childRan.fetch_add(1); });
        double t0 = vh::now();
        while (st->childRan.load() == 0 && vh::now() - t0 < 20.0)
          std::this_thread::yield();
        if (st->childRan.load() == 0)
          st->parentGaveUp.store(1);
      }
      st->parentDone.store(1);
    });
    bool done = waitUntil([&]() { return st->parentDone.load() != 0; }, 40.0);
    if (!done || st->parentGaveUp.load()) {
      vh::violation("C02:schedule:job-of-busy-submitter-not-executed-within-watchdog",
                    std::string("round ") + std::to_string(rd) + ": a job handed to " + (viaAsync ? "async()" : "schedule()") +
                        " from inside a running task had not run after 20 s while its submitter kept waiting for it (other workers were idle)",
                    ctx);
      watchdogExpired();
      return;
    }
    if (st->childRan.load() != 1)
      vh::violation("C02:schedule:executed-more-than-once", "the job of a busy submitter ran " + std::to_string(st->childRan.load()) + " times", ctx);
    delete st;
  }
  vh::count("busy_submitter_rounds", rounds);
}

// ---- single submissions: one closure at a time, random idle gaps in between so that the workers are spinning,
// about to sleep or asleep when it arrives; the caller only spins on a flag. A closure that has not started after
// the patience period is a stall; whether a further, unrelated schedule() then gets it going tells a lost wake-up
// from a task that is gone.
static void singleSubmissions(long n, int maxGapUs, const std::string &ctx)
{
  std::atomic<long> ran(0);
  std::atomic<long> *pr = &ran;
  vh::Rng r(vh::hashStr(ctx.c_str(), 5), 77);
  long stalls = 0;
  double worst = 0;
  for (long i = 0; i < n && stalls < 2; ++i) {
    int gap = (int)r.below((uint64_t)maxGapUs + 1);
    if (gap)
      spinUs(gap);
    long before = ran.load();
    Cap cap((int)(i & 0xffff));
    schedule([cap, pr]() {
      if (cap.intact())
        pr->fetch_add(1);
    });
    double t1 = vh::now();
    bool started = true;
    while (ran.load() == before) {
      if (vh::now() - t1 > 6.0) {
        started = false;
        break;
      }
    }
    if (started) {
      double d = vh::now() - t1;
      if (d > worst)
        worst = d;
      continue;
    }
    ++stalls;
    schedule([]() {});  // a further action of the caller
    bool woke = waitUntil([&]() { return ran.load() != before; }, 10.0);
    vh::violation(woke ? std::string("C02:schedule:start-stall-until-further-action:") + kBackendName : std::string("C02:schedule:not-executed-within-watchdog"),
                  "submission " + std::to_string(i) + " (after an idle gap of " + std::to_string(gap) + " us): the closure had not started 6 s after schedule() returned while the caller only spun; " +
                      (woke ? "it ran once another closure was scheduled" : "it did not run within 10 s after another closure was scheduled either"),
                  ctx);
  }
  vh::count("single_submissions", n);
  vh::maxi("single_submission_worst_latency_us", (long long)(worst * 1e6));
}

// ------------------------------------------------------------------ async
template <typename T>
static void asyncBatch(int n, int bodyDelay, const std::string &ctx)
{
  size_t live0 = g_capReg->liveCount();
  std::vector<std::future<T>> futs;
  std::unique_ptr<std::atomic<int>[]> exec(new std::atomic<int>[n]);
  std::atomic<int> *ex = exec.get();
  for (int i = 0; i < n; ++i)
    ex[i].store(0);
  for (int id = 0; id < n; ++id) {
    Cap cap(id);
    futs.push_back(async([cap, ex, bodyDelay]() -> T {
      if (bodyDelay && cap.id % 5 == 0)
        sleepUs(bodyDelay);
      ex[cap.id].fetch_add(1);
      return R<T>::make(cap.id);
    }));
  }
  reconfigureIfAsked();
  for (int id = 0; id < n; ++id) {
    if (futs[id].wait_for(std::chrono::seconds(30)) != std::future_status::ready) {
      vh::violation("C02:async:future-not-ready-within-watchdog", std::string("future of async<") + R<T>::name() + "> not ready after 30 s", ctx + " id=" + std::to_string(id));
      exec.release();
      watchdogExpired();
      return;
    }
    T v = futs[id].get();
    if (!R<T>::eq(v, id))
      vh::violation(std::string("C02:async:wrong-value"), std::string("future.get() of async<") + R<T>::name() + "> returned " + R<T>::show(v) + " for id " + std::to_string(id), ctx);
  }
  sleepUs(100);
  for (int id = 0; id < n; ++id)
    if (ex[id].load() != 1)
      vh::violation("C02:async:executed-more-than-once", "closure " + std::to_string(id) + " executed " + std::to_string(ex[id].load()) + " times", ctx);
  if (!waitUntil([&]() { return g_capReg->liveCount() == live0; }, 10.0)) {
    vh::violation("C02:async:task-not-released", std::to_string(g_capReg->liveCount() - live0) + " capture object(s) (inside the packaged task) still alive 10 s after all futures were ready", ctx);
    exec.release();
  }
  vh::count("async_results_checked", n);
}

static void asyncVoidAndMoveOnly(int n, const std::string &ctx)
{
  std::unique_ptr<std::atomic<int>[]> exec(new std::atomic<int>[n]);
  std::atomic<int> *ex = exec.get();
  for (int i = 0; i < n; ++i)
    ex[i].store(0);
  std::vector<std::future<void>> fv;
  std::vector<std::future<std::unique_ptr<int>>> fu;
  for (int id = 0; id < n; ++id) {
    fv.push_back(async([ex, id]() { ex[id].fetch_add(1); }));
    fu.push_back(async([id]() -> std::unique_ptr<int> { return std::unique_ptr<int>(new int(id * 3)); }));
  }
  for (int id = 0; id < n; ++id) {
    if (fv[id].wait_for(std::chrono::seconds(30)) != std::future_status::ready || fu[id].wait_for(std::chrono::seconds(30)) != std::future_status::ready) {
      vh::violation("C02:async:future-not-ready-within-watchdog", "future of async<void/unique_ptr> not ready after 30 s", ctx);
      exec.release();
      watchdogExpired();
      return;
    }
    fv[id].get();
    std::unique_ptr<int> p = fu[id].get();
    if (!p || *p != id * 3)
      vh::violation("C02:async:wrong-value", "future.get() of async<unique_ptr<int>> returned the wrong object", ctx);
    if (ex[id].load() != 1)
      vh::violation("C02:async:void-task-not-complete-at-get", "void future was ready but its closure had run " + std::to_string(ex[id].load()) + " times", ctx);
  }
  vh::count("async_results_checked", 2 * n);
}

// ------------------------------------------------------------------ AsyncTask
static bool g_asan = false;
static std::atomic<long> g_pollScenarios(0);
static std::mutex g_stallMtx;
static std::vector<std::string> g_stalls;

// end of a child process: turn recorded start stalls into violations.  A task that practically
// never starts without the caller waiting is `not-finished-within-watchdog`; a stall that hits
// fewer than 1 in 100 polled tasks (whatever their number: the rate grows with machine load) gets its own key (it is a different defect: see DESIGN 9.3).
static void judgeStalls()
{
  std::lock_guard<std::mutex> g(g_stallMtx);
  if (g_stalls.empty())
    return;
  long polls = g_pollScenarios.load();
  bool rare  = polls >= 100 * (long)g_stalls.size();  // fewer than 1 in 100 (a tree that does not start tasks stalls on all of them)
  for (size_t i = 0; i < g_stalls.size(); ++i)
    vh::violation(rare ? std::string("C02:AsyncTask:rare-start-stall-until-waited:") + kBackendName : std::string("C02:AsyncTask:not-finished-within-watchdog"),
                  std::to_string(g_stalls.size()) + " of " + std::to_string(polls) + " polled AsyncTasks of this process did not start within 12 s", g_stalls[i]);
  g_stalls.clear();
}

static void judgeStallsFwd() { judgeStalls(); }

template <typename T>
static void asyncTaskScenario(int id, int timeline, int bodyDelayUs, const std::string &ctx)
{
  typedef AsyncTask<T> AT;
  std::atomic<int> ran(0), done(0);
  std::atomic<int> *pran = &ran, *pdone = &done;
  size_t align = alignof(AT) < 64 ? 64 : alignof(AT);
  void *mem    = 0;
  if (posix_memalign(&mem, align, sizeof(AT)) != 0)
    return;
  memset(mem, 0xAB, sizeof(AT));  // freshly poisoned storage
  size_t trk0 = g_trkReg->liveCount();
  AT *at      = new (mem) AT([pran, pdone, id, bodyDelayUs]() -> T {
    pran->fetch_add(1);
    if (bodyDelayUs)
      sleepUs(bodyDelayUs);
    T r = R<T>::make(id);
    pdone->fetch_add(1);
    return r;
  });
  std::string c2 = ctx + " result=" + R<T>::name();
  switch (timeline) {
  case 0: {  // poll finished(), then get()
    g_pollScenarios.fetch_add(1);
    bool fin = waitUntil([&]() { return at->finished(); }, 12.0);
    if (!fin) {
      // Not started although the caller only slept.  Is the task merely not being picked up
      // (it completes as soon as the caller waits) or lost?  The verdict key is decided when
      // the process has seen all its scenarios: a rare stall and a systematic one differ.
      double w0 = vh::now();
      T v       = at->get();
      bool ok   = R<T>::eq(v, id);
      size_t nStalls;
      {
        std::lock_guard<std::mutex> g(g_stallMtx);
        g_stalls.push_back(c2 + " [finished() still false after 12 s while the caller only slept; get() then " + (ok ? "returned the right value" : "returned a WRONG value") + " after " +
                           std::to_string((vh::now() - w0) * 1000.0) + " ms]");
        nStalls = g_stalls.size();
      }
      // every stall costs 12 s: a tree on which tasks do not report completion would take hours
      if (nStalls >= 6 && g_pollScenarios.load() < 100 * (long)nStalls) {
        judgeStalls();
        vh::abandonChild();
      }
      break;
    }
    VH_CHECK(at->valid(), "C02:AsyncTask:valid-after-finished", "valid() false although finished() was true", c2);
    T v = at->get();
    if (!R<T>::eq(v, id))
      vh::violation("C02:AsyncTask:finished-but-incomplete-value", "finished()==true but get() returned " + R<T>::show(v) + " (expected the value for id " + std::to_string(id) + ")", c2);
    vh::count("asynctask_poll_then_get");
    break;
  }
  case 1: {  // get() at once
    T v = at->get();
    if (!R<T>::eq(v, id))
      vh::violation("C02:AsyncTask:wrong-value", "get() returned " + R<T>::show(v) + " (expected the value for id " + std::to_string(id) + ")", c2);
    VH_CHECK(done.load() == 1, "C02:AsyncTask:get-before-task-done", "get() returned before the task function had completed", c2);
    T v2 = at->get();
    if (!R<T>::eq(v2, id))
      vh::violation("C02:AsyncTask:wrong-value", "second get() returned " + R<T>::show(v2), c2);
    vh::count("asynctask_get_at_once");
    break;
  }
  case 2: {  // wait() then finished()/get()
    at->wait();
    VH_CHECK(done.load() == 1, "C02:AsyncTask:wait-returned-early", "wait() returned before the task function had completed", c2);
    VH_CHECK(at->finished(), "C02:AsyncTask:not-finished-after-wait", "finished() false after wait() returned", c2);
    T v = at->get();
    if (!R<T>::eq(v, id))
      vh::violation("C02:AsyncTask:wrong-value", "get() after wait() returned " + R<T>::show(v), c2);
    vh::count("asynctask_wait_then_get");
    break;
  }
  default:  // destroy without get
    vh::count("asynctask_destroy_without_get");
    break;
  }
  at->~AT();
  // immediately after the destructor returns the task must have run and be finished with the object
  if (ran.load() != 1 || done.load() != 1)
    vh::violation("C02:AsyncTask:destructor-did-not-wait", "after ~AsyncTask returned the task function had started " + std::to_string(ran.load()) + " and completed " + std::to_string(done.load()) + " times (expected 1/1)", c2);
  if (g_asan) {
    free(mem);  // any later access by the task or the scheduler is a heap-use-after-free report
    sleepUs(timeline == 3 ? 300 : 0);
  } else {
    memset(mem, 0xCD, sizeof(AT));
    sleepUs(timeline == 3 ? 300 : 20);
    const unsigned char *p = (const unsigned char *)mem;
    size_t bad             = sizeof(AT);
    for (size_t i = 0; i < sizeof(AT); ++i)
      if (p[i] != 0xCD) {
        bad = i;
        break;
      }
    if (bad != sizeof(AT))
      vh::violation("C02:AsyncTask:released-storage-written", "byte " + std::to_string(bad) + " of the AsyncTask's storage was modified after its destructor had returned", c2);
    free(mem);
  }
  if (ran.load() != 1)
    vh::violation("C02:AsyncTask:executed-more-than-once", "task function ran " + std::to_string(ran.load()) + " times", c2);
  size_t trk1 = g_trkReg->liveCount();
  if (trk1 != trk0)
    vh::violation("C02:AsyncTask:result-object-lifetime", std::to_string((long long)trk1 - (long long)trk0) + " Tracked result object(s) constructed but not destroyed (or destroyed twice) over the AsyncTask's life", c2);
}

// ------------------------------------------------------------------ cases
struct Case
{
  int kind;  // 0 schedule burst, 1 async batch, 2 AsyncTask scenarios
  int size;
  int type;      // result type index
  int timeline;  // AsyncTask: 0..3, -1 = mixed
  int bodyDelay;
  int slowCtor, slowAssign;
  int inject;
  bool nested;
  int reinit;  // > 0: re-configure the tasking system to that many threads while the work is queued
};
static const char *kTypes[] = {"int", "double", "string", "vector<int>", "Tracked", "void+unique_ptr"};

static std::string describe(const Case &c, long k, int T)
{
  std::string s = "#" + std::to_string(k) + " threads=" + std::to_string(T) + " ";
  if (c.kind == 0)
    s += std::string("schedule burst of ") + std::to_string(c.size) + (c.nested ? " (each schedules a further task)" : "");
  else if (c.kind == 1)
    s += std::string("async<") + kTypes[c.type] + "> x" + std::to_string(c.size);
  else if (c.kind == 4)
    s += "busy submitter x" + std::to_string(c.size);
  else if (c.kind == 3)
    s += "single submissions x" + std::to_string(c.size) + " idle gaps 0.." + std::to_string(c.bodyDelay) + " us";
  else
    s += std::string("AsyncTask<") + kTypes[c.type] + "> x" + std::to_string(c.size) + " timeline=" + std::to_string(c.timeline) + " slowCtorUs=" + std::to_string(c.slowCtor) +
         " slowAssignUs=" + std::to_string(c.slowAssign);
  s += " bodyDelayUs=" + std::to_string(c.bodyDelay) + " inject=" + std::to_string(c.inject);
  if (c.reinit)
    s += " then initTaskingSystem(" + std::to_string(c.reinit) + ") while queued";
  return s;
}

template <typename T>
static void asyncTaskBatch(const Case &c, const std::string &ctx, vh::Rng &r)
{
  for (int i = 0; i < c.size; ++i) {
    int tl = c.timeline >= 0 ? c.timeline : (int)r.below(4);
    asyncTaskScenario<T>(1000 + i, tl, (i % 3 == 0) ? c.bodyDelay : 0, ctx + " scenario=" + std::to_string(i) + " timeline=" + std::to_string(tl));
  }
  vh::count("asynctask_scenarios", c.size);
}

static void runCase(const Case &c, long k, int T)
{
  std::string ctx = describe(c, k, T);
  g_ctxp.store(new std::string(ctx));
  g_injectPermille.store(c.inject);
  g_slowCtorUs.store(c.slowCtor);
  g_slowAssignUs.store(c.slowAssign);
  vh::Rng r(vh::seed(), 2000 + (uint64_t)k);
  g_reinitAfterSubmit = c.reinit;
  if (c.kind == 0) {
    if (!scheduleBurst(c.size, c.nested, c.bodyDelay, ctx, false)) {
      // bounded "eventually": a watchdog expiry is re-run once before it counts
      if (!scheduleBurst(c.size, c.nested, c.bodyDelay, ctx + " (re-run)", true)) {
      } else
        vh::inconclusive("schedule watchdog expired once and not on the re-run: " + ctx);
    }
    vh::count("schedule_bursts");
  } else if (c.kind == 1) {
    switch (c.type) {
    case 0: asyncBatch<int>(c.size, c.bodyDelay, ctx); break;
    case 1: asyncBatch<double>(c.size, c.bodyDelay, ctx); break;
    case 2: asyncBatch<std::string>(c.size, c.bodyDelay, ctx); break;
    case 3: asyncBatch<std::vector<int>>(c.size, c.bodyDelay, ctx); break;
    case 4: asyncBatch<Tracked>(c.size, c.bodyDelay, ctx); break;
    default: asyncVoidAndMoveOnly(c.size, ctx); break;
    }
    vh::count("async_batches");
  } else if (c.kind == 3) {
    singleSubmissions(c.size, c.bodyDelay, ctx);
  } else if (c.kind == 4) {
    blockedSubmitter(c.size, T, ctx);
  } else {
    switch (c.type) {
    case 0: asyncTaskBatch<int>(c, ctx, r); break;
    case 1: asyncTaskBatch<double>(c, ctx, r); break;
    case 2: asyncTaskBatch<std::string>(c, ctx, r); break;
    case 3: asyncTaskBatch<std::vector<int>>(c, ctx, r); break;
    default: asyncTaskBatch<Tracked>(c, ctx, r); break;
    }
  }
  g_injectPermille.store(0);
  g_slowCtorUs.store(0);
  g_slowAssignUs.store(0);
  if (c.reinit) {
    g_reinitAfterSubmit = 0;
    initTaskingSystem(T);  // back to the configuration of this group of cases
  }
  uint64_t h = vh::hash64((uint64_t)c.kind * 100 + (uint64_t)c.reinit * 7919 + (uint64_t)c.type * 10 + (uint64_t)(c.timeline + 1), (uint64_t)c.size);
  h          = vh::hash64(h, (uint64_t)c.bodyDelay * 31 + (uint64_t)c.slowCtor * 7 + (uint64_t)c.slowAssign + (c.nested ? 1000003 : 0) + (uint64_t)T * 131071);
  vh::evaluated(h, c.size > 0);
  vh::count((std::string("result_type_") + kTypes[c.type]).c_str());
}

static std::vector<Case> buildCases(int T, bool asan, bool omp, bool internalBackend)
{
  std::vector<Case> v;
  vh::Rng r(vh::seed(), 200 + (uint64_t)T);
  Case c;
  c.reinit = 0;
  // work handed over, then the tasking system re-configured while it is queued (schedule bursts and async batches)
  for (int rep = 0; rep < (int)vh::tier(3, 12); ++rep) {
    c.kind      = rep % 3 == 2 ? 1 : 0;
    c.size      = c.kind == 1 ? 64 : (int)r.pick(std::vector<int>{200, 600});
    c.type      = c.kind == 1 ? (int)r.pick(std::vector<int>{2, 4}) : 0;
    c.timeline  = -1;
    c.nested    = false;
    c.bodyDelay = 400;  // slow enough that most of the work is still queued at the re-configuration
    c.slowCtor = c.slowAssign = 0;
    c.inject    = 0;
    c.reinit    = (int)r.pick(std::vector<int>{2, 3, 8});
    v.push_back(c);
  }
  c.reinit = 0;
  // a job handed over from inside a running task whose worker stays busy waiting for it
  for (int rep = 0; rep < 2; ++rep) {
    c.kind      = 4;
    c.type      = 0;
    c.timeline  = -1;
    c.nested    = false;
    c.bodyDelay = 0;
    c.size      = (int)vh::tier(40, 400);
    c.slowCtor = c.slowAssign = 0;
    c.inject    = internalBackend && rep == 1 ? 100 : 0;
    v.push_back(c);
  }
  // single submissions with idle gaps around the workers' spin-then-sleep transition
  {
    int gaps[] = {0, 40, 300, 3000};
    for (int gi = 0; gi < 4; ++gi) {
      c.kind      = 3;
      c.type      = 0;
      c.timeline  = -1;
      c.nested    = false;
      c.bodyDelay = gaps[gi];  // here: the largest idle gap in us
      c.size      = (int)(vh::tier(asan ? 6000 : 20000, asan ? 30000 : 200000) / (gaps[gi] >= 3000 ? 10 : 1));
      if (omp && c.size > 5000)
        c.size = 5000;
      c.slowCtor = c.slowAssign = 0;
      c.inject    = 0;
      v.push_back(c);
    }
  }
  // schedule bursts
  int bursts[] = {1, 2, 10, 255, 256, 257, 600, 1000, (int)vh::tier(3000, 10000), (int)vh::tier(0, 100000)};
  for (size_t i = 0; i < sizeof(bursts) / sizeof(bursts[0]); ++i) {
    int B = bursts[i];
    if (B <= 0)
      continue;
    if (omp && B > 3000)
      B = 3000;  // one detached std::thread per task: stay well below pid_max
    if (asan && B > 3000)
      B = 3000;
    for (int nested = 0; nested < 2; ++nested) {
      if (nested && B > 2000)
        continue;
      c.kind      = 0;
      c.size      = B;
      c.type      = 0;
      c.timeline  = -1;
      c.nested    = nested != 0;
      c.bodyDelay = r.chance(1, 2) ? 0 : (int)r.pick(std::vector<int>{5, 50});
      c.slowCtor = c.slowAssign = 0;
      c.inject    = internalBackend && r.chance(1, 2) ? (int)r.pick(std::vector<int>{50, 300}) : 0;
      v.push_back(c);
    }
  }
  // async batches, every result type
  for (int t = 0; t < 6; ++t)
    for (int rep = 0; rep < (int)vh::tier(4, 20); ++rep) {
      c.kind      = 1;
      c.type      = t;
      c.size      = (int)r.pick(std::vector<int>{1, 7, 64, 300});
      c.timeline  = -1;
      c.nested    = false;
      c.bodyDelay = r.chance(1, 2) ? 0 : 30;
      c.slowCtor = c.slowAssign = 0;
      c.inject    = internalBackend && r.chance(1, 2) ? 100 : 0;
      v.push_back(c);
    }
  // AsyncTask scenarios: result type x timeline x (slow default construction / slow assignment / body delay)
  for (int t = 0; t < 5; ++t)
    for (int tl = -1; tl < 4; ++tl)
      for (int rep = 0; rep < (int)vh::tier(6, 30); ++rep) {
        c.kind       = 2;
        c.type       = t;
        c.timeline   = tl;
        c.size       = (int)vh::tier(12, 40);
        c.nested     = false;
        c.bodyDelay  = (int)r.pick(std::vector<int>{0, 0, 20, 200});
        c.slowCtor   = t == 4 ? (int)r.pick(std::vector<int>{0, 100, 1000}) : 0;
        c.slowAssign = t == 4 ? (int)r.pick(std::vector<int>{0, 0, 200}) : 0;
        c.inject     = internalBackend && r.chance(1, 2) ? 100 : 0;
        v.push_back(c);
      }
  return v;
}

int main(int argc, char **argv)
{
  vh::init(argc, argv);
  std::string variant = vh::st().variant;
  g_asan              = variant.find("asan") != std::string::npos;
  bool omp = false, internalBackend = false;
#ifdef RKCOMMON_TASKING_OMP
  omp = true;
#endif
#ifdef RKCOMMON_TASKING_INTERNAL
  internalBackend = true;
#endif
#if !defined(RKCOMMON_TASKING_TBB) && !defined(RKCOMMON_TASKING_OMP) && !defined(RKCOMMON_TASKING_INTERNAL)
  g_serialBackend = true;
#endif
  vh::rule(
      "case = (api: schedule burst | async batch | AsyncTask scenarios, size, result type, timeline {poll finished then get, get at once, "
      "wait then get, destroy without get}, body delay, slow default construction / assignment of the result type, hook-delay rate, "
      "configured threads, optional re-configuration of the tasking system while the submitted work is still queued); distinct = hash of that tuple; non-trivial = size > 0");
  g_capReg = new vh::Lifetime("C02:capture");
  g_trkReg = new vh::Lifetime("C02:result-object");
  int Ts[] = {4, 2, 12};
  for (int ti = 0; ti < 3; ++ti) {
    int T = Ts[ti];
    if (g_serialBackend && ti > 0)
      break;
    if (!vh::thorough() && ti > 1)
      break;
    std::vector<Case> cases = buildCases(T, g_asan, omp, internalBackend);
    bool inited = false;
    vh::childExitHook() = judgeStalls;
    vh::forkedCases(
        (long)cases.size(),
        [&](long k) {
          if (!inited) {
            inited = true;
            initTaskingSystem(T);
#ifdef RKCOMMON_TASKING_INTERNAL
            rkcommon::verif::hook().store(&hookFcn);
#endif
          }
          runCase(cases[k], k, T);
          if (k % 37 == 1)
            vh::sample(vh::J().kv("case", describe(cases[k], k, T)).str(), 3);
        },
        120000, 100000, [&](long k) { return std::string("C02-case ") + describe(cases[k], k, T); });
    vh::count("thread_configurations");
  }
  return vh::finish();
}
