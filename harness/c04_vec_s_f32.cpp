// C04 - families over the single element type float (see c04_vec.cpp)
#include "c04_vec_same.h"
namespace c04 {
  void run_s_f32()
  {
    vh::Rng r(vh::seed(), 400 + TN<float>::idx);
    runSame<float>(r);
  }
}  // namespace c04
