// C12 - TransactionalBuffer / TransactionalValue cross-thread hand-off.
// Unique ids make the histories unambiguous: the concatenation of consumed batches must be a
// permutation of everything pushed, per producer in push order; values seen through
// TransactionalValue carry (sequence, checksum) so torn / invented / reordered values show.
// On the tsan variant every ThreadSanitizer report is a violation (picked up by the driver).
#include "vh.h"

#include <cstdlib>
#include <new>

#include <chrono>
#include <thread>

#include "rkcommon/containers/TransactionalBuffer.h"
#include "rkcommon/utility/TransactionalValue.h"

using rkcommon::containers::TransactionalBuffer;
using rkcommon::utility::TransactionalValue;

// allocation failpoint: when armed on the calling thread, its next allocation through operator new fails with
// std::bad_alloc (memory pressure at one particular moment). Armed by the consumer around some consume() calls: a
// hand-off that allocates while it holds the pending elements must not lose them when that allocation fails.
static thread_local int t_failNextNew = 0;
static std::atomic<long> g_newFailuresInjected(0);
void *operator new(std::size_t n)
{
  if (t_failNextNew > 0 && --t_failNextNew == 0) {
    g_newFailuresInjected.fetch_add(1, std::memory_order_relaxed);
    throw std::bad_alloc();
  }
  void *p = malloc(n ? n : 1);
  if (!p)
    throw std::bad_alloc();
  return p;
}
void *operator new[](std::size_t n) { return operator new(n); }
void operator delete(void *p) noexcept { free(p); }
void operator delete[](void *p) noexcept { free(p); }
void operator delete(void *p, std::size_t) noexcept { free(p); }
void operator delete[](void *p, std::size_t) noexcept { free(p); }

// ------------------------------------------------------------------ payloads
static inline uint64_t idOf(uint64_t v) { return v; }
static inline uint64_t mkU64(uint64_t id) { return id; }
static inline uint64_t idOf(const std::string &s) { return strtoull(s.c_str() + 3, 0, 16); }
static inline std::string mkStr(uint64_t id)
{
  char b[80];
  snprintf(b, sizeof b, "id=%016llx;heap-allocated-padding-padding-padding", (unsigned long long)id);
  return b;
}
template <typename T>
struct Mk;
template <>
struct Mk<uint64_t>
{
  static uint64_t make(uint64_t id) { return id; }
  static const char *name() { return "uint64"; }
  static bool intact(const uint64_t &) { return true; }
};
template <>
struct Mk<std::string>
{
  static std::string make(uint64_t id) { return mkStr(id); }
  static const char *name() { return "string"; }
  static bool intact(const std::string &s) { return s.size() > 19 && s.compare(0, 3, "id=") == 0 && s == mkStr(strtoull(s.c_str() + 3, 0, 16)); }
};

// ------------------------------------------------------------------ buffer round
template <typename T>
static void bufferRound(int producers, long perProducer, int pace, long round, uint64_t rs)
{
  TransactionalBuffer<T> buf;
  std::string ctx = "#" + std::to_string(round) + " TransactionalBuffer<" + Mk<T>::name() + "> producers=" + std::to_string(producers) + " pushes/producer=" + std::to_string(perProducer) +
                    " pace=" + std::to_string(pace);
  std::atomic<long> begun(0), finished(0);
  std::atomic<bool> producersDone(false), stopPoll(false);
  std::atomic<int> go(0);
  std::vector<std::vector<T>> batches;
  std::atomic<long> sizeViol(0), polls(0), maxSizeSeen(0), tornViol(0), consumeThrew(0);
  std::atomic<long> consumedTotal(0);

  std::vector<std::thread> prod;
  for (int p = 0; p < producers; ++p)
    prod.emplace_back([&, p]() {
      vh::Rng r(rs, 100 + (uint64_t)p);
      while (!go.load()) {
      }
      for (long i = 0; i < perProducer; ++i) {
        uint64_t id = ((uint64_t)(p + 1) << 32) | (uint64_t)i;
        begun.fetch_add(1, std::memory_order_relaxed);
        if (i & 1) {
          T v = Mk<T>::make(id);
          buf.push_back(v);  // const T &
        } else
          buf.push_back(Mk<T>::make(id));  // T &&
        finished.fetch_add(1, std::memory_order_relaxed);
        if (pace == 1 && (i & 63) == 0)
          std::this_thread::yield();
        else if (pace == 2 && r.chance(1, 200))
          std::this_thread::sleep_for(std::chrono::microseconds(r.below(50)));
      }
    });
  std::thread consumer([&]() {
    vh::Rng r(rs, 7);
    while (!go.load()) {
    }
    const bool pollFirst = (round & 2) != 0;  // the documented polling pattern: consume only when !empty()
    for (;;) {
      bool done = producersDone.load();
      // this thread is the only one that takes elements out: what size()/empty() report can only grow until the
      // consume() that follows, so that batch holds at least as many elements
      size_t s = buf.size();
      bool e   = buf.empty();
      if (pollFirst && e) {
        if (done)
          break;
        if (r.chance(1, 8))
          std::this_thread::yield();
        continue;
      }
      std::vector<T> b;
      // now and then the consumer is out of memory for exactly one allocation while it consumes
      bool pressure = r.chance(1, 5);
      if (pressure)
        t_failNextNew = 1;
      try {
        b = buf.consume();
      } catch (const std::bad_alloc &) {
        consumeThrew.fetch_add(1);
        t_failNextNew = 0;
        continue;  // nothing may be lost: the elements have to arrive with a later batch
      }
      t_failNextNew = 0;
      if (b.size() < s || (!e && b.empty()))
        tornViol.fetch_add(1);
      if (!b.empty()) {
        consumedTotal.fetch_add((long)b.size(), std::memory_order_relaxed);
        batches.push_back(std::move(b));
      } else if (done)
        break;
      if (pace == 2 && r.chance(1, 4))
        std::this_thread::sleep_for(std::chrono::microseconds(r.below(100)));
      else if (r.chance(1, 8))
        std::this_thread::yield();
    }
  });
  std::thread poller([&]() {
    while (!go.load()) {
    }
    while (!stopPoll.load()) {
      long fin0 = finished.load(std::memory_order_relaxed);
      long con0 = consumedTotal.load(std::memory_order_relaxed);
      size_t s  = buf.size();
      bool e    = buf.empty();
      long beg1 = begun.load(std::memory_order_relaxed);
      (void)fin0;
      (void)con0;
      (void)e;
      // size() can never exceed the number of pushes that had begun by the time it returned
      if ((long)s > beg1)
        sizeViol.fetch_add(1);
      long m = maxSizeSeen.load();
      while ((long)s > m && !maxSizeSeen.compare_exchange_weak(m, (long)s)) {
      }
      polls.fetch_add(1, std::memory_order_relaxed);
    }
  });
  go.store(1);
  for (size_t i = 0; i < prod.size(); ++i)
    prod[i].join();
  // quiescent check before the consumer drains the rest: not possible while it runs, so stop it first
  producersDone.store(true);
  consumer.join();
  stopPoll.store(true);
  poller.join();

  vh::count("consume_calls_that_threw_bad_alloc", consumeThrew.load());
  if (tornViol.load())
    vh::violation("C12:buffer:size-or-empty-reported-a-state-the-buffer-was-not-in", std::to_string(tornViol.load()) + " time(s) the only consumer read size()==k / !empty() and the consume() right after it returned fewer than k elements / nothing", ctx);
  // quiescence: everything consumed
  VH_CHECK(buf.size() == 0 && buf.empty(), "C12:buffer:not-empty-after-final-consume", "size()=" + std::to_string(buf.size()) + " empty()=" + (buf.empty() ? "true" : "false") + " after the last consume()", ctx);
  // empty()/size() agree under quiescence with content
  {
    buf.push_back(Mk<T>::make(1));
    VH_CHECK(buf.size() == 1 && !buf.empty(), "C12:buffer:size-empty-disagree", "after one push under quiescence size()/empty() are inconsistent", ctx);
    std::vector<T> one = buf.consume();
    VH_CHECK(one.size() == 1 && buf.size() == 0 && buf.empty(), "C12:buffer:consume-leaves-content", "consume() did not move everything out", ctx);
  }
  if (sizeViol.load())
    vh::violation("C12:buffer:size-exceeds-pushes-begun", std::to_string(sizeViol.load()) + " size() polls returned more elements than pushes had begun", ctx);

  // offline check of the history: permutation + per-producer order
  std::vector<long> next((size_t)producers + 1, 0);
  long total = 0, lost = 0, dup = 0, order = 0, foreign = 0, damaged = 0;
  std::string firstBad;
  for (size_t b = 0; b < batches.size(); ++b)
    for (size_t j = 0; j < batches[b].size(); ++j) {
      const T &v = batches[b][j];
      ++total;
      if (!Mk<T>::intact(v)) {
        ++damaged;
        continue;
      }
      uint64_t id = idOf(v);
      long p      = (long)(id >> 32);
      long seq    = (long)(id & 0xffffffffu);
      if (p < 1 || p > producers || seq >= perProducer) {
        ++foreign;
        continue;
      }
      if (seq == next[p])
        next[p]++;
      else if (seq < next[p]) {
        ++dup;
        if (firstBad.empty())
          firstBad = "producer " + std::to_string(p) + " seq " + std::to_string(seq) + " seen again in batch " + std::to_string(b);
      } else {
        ++order;
        if (firstBad.empty())
          firstBad = "producer " + std::to_string(p) + " expected seq " + std::to_string(next[p]) + " got " + std::to_string(seq) + " in batch " + std::to_string(b);
        next[p] = seq + 1;
      }
    }
  for (int p = 1; p <= producers; ++p)
    if (next[p] != perProducer)
      lost += perProducer - next[p];
  if (dup)
    vh::violation("C12:buffer:element-duplicated", std::to_string(dup) + " element(s) consumed more than once; " + firstBad, ctx);
  if (order || lost)
    vh::violation("C12:buffer:element-lost-or-out-of-order", std::to_string(lost) + " lost, " + std::to_string(order) + " out of producer order; " + firstBad, ctx);
  if (foreign || damaged)
    vh::violation("C12:buffer:element-corrupted", std::to_string(foreign) + " unknown id(s), " + std::to_string(damaged) + " damaged payload(s)", ctx);
  vh::count("buffer_elements_checked", total);
  vh::count("buffer_batches", (long long)batches.size());
  vh::count("buffer_size_polls", polls.load());
  vh::maxi("buffer_max_size_seen", maxSizeSeen.load());
  vh::maxi("buffer_max_batches_in_round", (long long)batches.size());
  uint64_t h = vh::hash64((uint64_t)producers * 1000003u + (uint64_t)perProducer, (uint64_t)pace * 31 + (sizeof(T) == 8 ? 1 : 2));
  vh::evaluated(vh::hash64(h, (uint64_t)batches.size()), producers > 0 && batches.size() > 1);
  if (round < 2)
    vh::sample(vh::J().kv("case", ctx).kv("batches", (long long)batches.size()).kv("elements", (long long)total).str(), 8);
}

// ------------------------------------------------------------------ value round
// failpoint of the payload: when armed on the calling thread, its next copy-assignment fails the way a heap-owning
// payload's does (it throws and leaves the target as it was)
struct InjectedFault
{
};
static thread_local int t_failNextAssign = 0;

struct Val
{
  uint64_t seq;
  uint64_t check;
  std::string text;
  Val() : seq(0), check(0x5eed), text("initial") {}
  explicit Val(uint64_t s) : seq(s), check(s * 0x9E3779B97F4A7C15ull ^ 0x5eed), text("value-" + std::to_string(s) + "-with-heap-padding-padding-padding") {}
  Val(const Val &o) : seq(o.seq), check(o.check), text(o.text) {}
  Val(Val &&o) : seq(o.seq), check(o.check), text(std::move(o.text)) { o.gut(); }
  Val &operator=(const Val &o)
  {
    if (t_failNextAssign) {
      t_failNextAssign = 0;
      throw InjectedFault();
    }
    seq   = o.seq;
    check = o.check;
    text  = o.text;
    return *this;
  }
  Val &operator=(Val &&o)
  {
    seq   = o.seq;
    check = o.check;
    text  = std::move(o.text);
    o.gut();
    return *this;
  }
  bool operator==(const Val &o) const { return seq == o.seq && check == o.check && text == o.text; }
  bool operator!=(const Val &o) const { return !(*this == o); }
  void gut()  // a moved-from value is recognisably not a value anybody assigned
  {
    seq   = ~0ull;
    check = 0;
    text  = "moved-from";
  }
  bool valid() const
  {
    if (seq == 0)
      return check == 0x5eed && text == "initial";
    return check == (seq * 0x9E3779B97F4A7C15ull ^ 0x5eed) && text == "value-" + std::to_string(seq) + "-with-heap-padding-padding-padding";
  }
};

static void valueRound(long assigns, int pace, long round, uint64_t rs)
{
  TransactionalValue<Val> tv;
  std::string ctx = "#" + std::to_string(round) + " TransactionalValue assigns=" + std::to_string(assigns) + " pace=" + std::to_string(pace);
  std::atomic<int> go(0);
  std::atomic<bool> producerDone(false);
  std::atomic<uint64_t> assignedBegun(0);
  std::atomic<long> failedAssigns(0), failedButReturned(0);
  long updatesTrue = 0, updatesFalse = 0, invalid = 0, backwards = 0, trueNotNewer = 0, falseChanged = 0, fromFuture = 0;
  std::string firstBad;
  std::thread producer([&]() {
    vh::Rng r(rs, 3);
    while (!go.load()) {
    }
    for (long i = 1; i <= assigns; ++i) {
      assignedBegun.store((uint64_t)i, std::memory_order_relaxed);
      // a few assignments fail (the payload's copy throws): nothing may become visible from those
      if (i != assigns && r.chance(1, 64)) {
        t_failNextAssign = 1;
        try {
          tv = Val((uint64_t)i);
          failedButReturned.fetch_add(1);
        } catch (const InjectedFault &) {
          failedAssigns.fetch_add(1);
        }
        t_failNextAssign = 0;
        continue;
      }
      tv = Val((uint64_t)i);
      if (pace == 1 && (i & 15) == 0)
        std::this_thread::yield();
      else if (pace == 2 && r.chance(1, 100))
        std::this_thread::sleep_for(std::chrono::microseconds(r.below(30)));
    }
    producerDone.store(true);
  });
  std::thread consumer([&]() {
    vh::Rng r(rs, 4);
    while (!go.load()) {
    }
    uint64_t prev = 0;
    for (;;) {
      bool done = producerDone.load();
      bool upd  = tv.update();
      Val v     = tv.get();
      uint64_t begun = assignedBegun.load(std::memory_order_relaxed);
      if (!v.valid()) {
        ++invalid;
        if (firstBad.empty())
          firstBad = "invalid value seq=" + std::to_string(v.seq) + " text='" + v.text + "'";
      } else {
        if (v.seq < prev) {
          ++backwards;
          if (firstBad.empty())
            firstBad = "seq went from " + std::to_string(prev) + " back to " + std::to_string(v.seq);
        }
        if (upd && v.seq <= prev) {
          ++trueNotNewer;
          if (firstBad.empty())
            firstBad = "update()==true but seq stayed " + std::to_string(v.seq);
        }
        if (!upd && v.seq != prev) {
          ++falseChanged;
          if (firstBad.empty())
            firstBad = "update()==false but seq changed " + std::to_string(prev) + " -> " + std::to_string(v.seq);
        }
        if (v.seq > begun)
          ++fromFuture;
        prev = v.seq;
      }
      if (upd)
        ++updatesTrue;
      else
        ++updatesFalse;
      if (done && !upd)
        break;
      if (pace == 2 && r.chance(1, 50))
        std::this_thread::sleep_for(std::chrono::microseconds(r.below(40)));
    }
  });
  go.store(1);
  producer.join();
  consumer.join();
  // once the producer has stopped the consumer obtains the last value
  tv.update();
  Val last = tv.get();
  if (!(last.valid() && last.seq == (uint64_t)assigns))
    vh::violation("C12:value:last-value-not-obtained", "after the producer stopped update()+get() gave seq " + std::to_string(last.seq) + " expected " + std::to_string(assigns), ctx);
  VH_CHECK(!tv.update(), "C12:value:update-true-without-new-value", "update() returned true although nothing was assigned since the last update", ctx);
  if (invalid)
    vh::violation("C12:value:torn-or-invented-value", std::to_string(invalid) + " value(s) seen that the producer never assigned; " + firstBad, ctx);
  if (backwards)
    vh::violation("C12:value:order-violated", std::to_string(backwards) + " time(s) an older value followed a newer one; " + firstBad, ctx);
  if (trueNotNewer || falseChanged)
    vh::violation("C12:value:update-result-wrong", std::to_string(trueNotNewer) + " update()==true without a newer value, " + std::to_string(falseChanged) + " update()==false with a changed value; " + firstBad, ctx);
  if (fromFuture)
    vh::violation("C12:value:value-from-the-future", "a value was seen before its assignment began", ctx);
  VH_CHECK(failedButReturned.load() == 0, "C12:harness:failpoint-not-reached", "an armed assignment did not go through the payload's copy-assignment", ctx);
  vh::count("value_assignments_failed_by_failpoint", failedAssigns.load());
  vh::count("value_updates_true", updatesTrue);
  vh::count("value_updates_false", updatesFalse);
  vh::count("value_assignments", assigns);
  vh::evaluated(vh::hash64(vh::hash64(9, (uint64_t)assigns), (uint64_t)pace * 977 + (uint64_t)updatesTrue), updatesTrue > 1);
  if (round < 2)
    vh::sample(vh::J().kv("case", ctx).kv("updates_true", (long long)updatesTrue).kv("updates_false", (long long)updatesFalse).str(), 8);
}

// ---- value, burst protocol: the producer assigns a short burst, announces "stopped at N" and
// waits for an acknowledgement; the consumer, once it sees the announcement, must obtain N with
// one update()+get() ("once the producer has stopped the consumer obtains the last value") -
// checked at every burst boundary, not only at the end of the run.
static void valueBurstRound(long bursts, long round, uint64_t rs)
{
  TransactionalValue<Val> tv;
  std::string ctx = "#" + std::to_string(round) + " TransactionalValue burst protocol, bursts=" + std::to_string(bursts);
  std::atomic<uint64_t> stoppedAt(0), acked(0);
  std::atomic<bool> done(false);
  std::atomic<int> go(0);
  long lost = 0, invalid = 0, backwards = 0, updTrueNoNew = 0, failed = 0;
  std::string firstBad;
  std::thread producer([&]() {
    vh::Rng r(rs, 31);
    uint64_t seq = 0;
    while (!go.load()) {
    }
    for (long b = 0; b < bursts; ++b) {
      int n = 1 + (int)r.below(4);
      for (int i = 0; i < n; ++i) {
        // the first assignment of a burst meets a queue the consumer has emptied; it and others fail now and then
        if (r.chance(1, 5) && !(i == n - 1 && seq == stoppedAt.load())) {
          t_failNextAssign = 1;
          try {
            tv = Val(seq + 1000000000ull);  // a value that must never be seen
          } catch (const InjectedFault &) {
            ++failed;
          }
          t_failNextAssign = 0;
        } else
          tv = Val(++seq);
      }
      stoppedAt.store(seq);
      while (acked.load() != seq)
        std::this_thread::yield();
    }
    done.store(true);
  });
  std::thread consumer([&]() {
    uint64_t prev = 0;
    while (!go.load()) {
    }
    while (!done.load()) {
      uint64_t target = stoppedAt.load();
      bool upd        = tv.update();
      Val v           = tv.get();
      if (!v.valid()) {
        ++invalid;
        if (firstBad.empty())
          firstBad = "invalid value seq=" + std::to_string(v.seq) + " text='" + v.text + "'" + (upd ? " installed by an update() that returned true" : "");
      } else if (v.seq < prev) {
        ++backwards;
      } else
        prev = v.seq;
      (void)upd;
      if (target != 0 && target != acked.load()) {
        // the producer had stopped at `target` BEFORE this update(): the value must be there
        if (v.valid() && v.seq != target) {
          // one more update()/get() to tell "late" from "lost"
          bool upd2 = tv.update();
          Val v2    = tv.get();
          if (!(v2.valid() && v2.seq == target)) {
            ++lost;
            if (firstBad.empty())
              firstBad = "producer stopped after assigning " + std::to_string(target) + ", consumer holds " + std::to_string(v.seq) + " after update() and " + std::to_string(v2.seq) + " after another update()" + (upd2 ? " (which returned true)" : " (which returned false)");
          } else
            prev = v2.seq;
        }
        if (tv.update())
          ++updTrueNoNew;  // nothing was assigned since: the producer is waiting for the ack
        acked.store(target);
      }
    }
  });
  go.store(1);
  producer.join();
  consumer.join();
  if (lost)
    vh::violation("C12:value:last-value-not-obtained", std::to_string(lost) + " burst(s) whose last value the consumer could not obtain although the producer had stopped; " + firstBad, ctx);
  if (invalid)
    vh::violation("C12:value:torn-or-invented-value", std::to_string(invalid) + " invalid value(s); " + firstBad, ctx);
  if (backwards)
    vh::violation("C12:value:order-violated", std::to_string(backwards) + " time(s) an older value followed a newer one", ctx);
  if (updTrueNoNew)
    vh::violation("C12:value:update-true-without-new-value", std::to_string(updTrueNoNew) + " time(s) update() returned true although nothing had been assigned since the last update", ctx);
  vh::count("value_burst_assignments_failed_by_failpoint", failed);
  vh::count("value_bursts_checked", bursts);
  vh::evaluated(vh::hash64(vh::hash64(77, (uint64_t)bursts), (uint64_t)round), true);
}

// ---- value, burst protocol with a plain std::string payload: the values include the empty string and repeats, i.e.
// values that equal what a moved-from or default-constructed std::string holds. Whatever was assigned last before the
// producer stopped must be what the consumer obtains.
static void stringBurstRound(long bursts, long round, uint64_t rs)
{
  TransactionalValue<std::string> tv;
  std::string ctx = "#" + std::to_string(round) + " TransactionalValue<std::string> burst protocol (values incl. empty and repeated), bursts=" + std::to_string(bursts);
  std::vector<std::vector<std::string>> script((size_t)bursts);
  {
    vh::Rng r(rs, 41);
    uint64_t seq = 0;
    std::string prev = "never";
    for (long b = 0; b < bursts; ++b) {
      int n = 1 + (int)r.below(3);
      for (int i = 0; i < n; ++i) {
        int c = (int)r.below(4);
        std::string v = c == 0 ? std::string() : c == 1 ? prev : "value-" + std::to_string(++seq) + "-long-enough-to-live-on-the-heap-0123456789";
        script[b].push_back(v);
        prev = v;
      }
    }
  }
  std::atomic<long> stopped(-1), acked(-1);
  std::atomic<int> go(0);
  long lost = 0;
  std::string firstBad;
  std::thread producer([&]() {
    while (!go.load()) {
    }
    for (long b = 0; b < bursts; ++b) {
      for (size_t i = 0; i < script[b].size(); ++i)
        tv = script[b][i];
      stopped.store(b);
      while (acked.load() != b)
        std::this_thread::yield();
    }
  });
  std::thread consumer([&]() {
    while (!go.load()) {
    }
    long done = -1;
    while (done < bursts - 1) {
      long b = stopped.load();
      tv.update();
      std::string v = tv.get();
      if (b > done) {
        const std::string &want = script[b].back();
        if (v != want) {
          bool upd2 = tv.update();
          std::string v2 = tv.get();
          if (v2 != want) {
            ++lost;
            if (firstBad.empty())
              firstBad = "burst " + std::to_string(b) + ": the producer stopped after assigning '" + want + "', the consumer holds '" + v2 + "' after two update() calls (the second returned " + (upd2 ? "true" : "false") + ")";
          }
        }
        done = b;
        acked.store(b);
      }
    }
  });
  go.store(1);
  producer.join();
  consumer.join();
  if (lost)
    vh::violation("C12:value:last-value-not-obtained", std::to_string(lost) + " burst(s) whose last value the consumer could not obtain although the producer had stopped; " + firstBad, ctx);
  vh::count("string_value_bursts_checked", bursts);
  vh::evaluated(vh::hash64(vh::hash64(78, (uint64_t)bursts), (uint64_t)round), true);
}

int main(int argc, char **argv)
{
  vh::init(argc, argv);
  std::string variant = vh::st().variant;
  const bool tsan = variant.find("tsan") != std::string::npos, asan = variant.find("asan") != std::string::npos;
  vh::rule(
      "case = one round of (payload type, producers 1..8, pushes per producer, pacing) against a consuming and a polling thread, or one "
      "round of (assignments, pacing) on a TransactionalValue, in which some assignments fail (the payload's copy throws at a failpoint) "
      "and must leave nothing visible; distinct = hash of the parameters and of the observed number of batches / "
      "successful updates (a proxy for the interleaving); non-trivial = more than one batch / successful update observed");
  vh::Rng r(vh::seed(), 12);
  const long scale = tsan ? 1 : (asan ? 2 : 10);
  long rounds      = vh::tier(24, 240);
  for (long k = 0; k < rounds; ++k) {
    if (!vh::wantCase(k))
      continue;
    int producers = (int)(1 + k % 8);
    long per      = (long)r.pick(std::vector<long>{200, 1000, 5000}) * scale / (producers > 4 ? 2 : 1);
    int pace      = (int)(k % 3);
    uint64_t rs   = vh::hash64(vh::seed(), (uint64_t)k);
    if (k & 1)
      bufferRound<std::string>(producers, per, pace, k, rs);
    else
      bufferRound<uint64_t>(producers, per, pace, k, rs);
    valueRound((long)r.pick(std::vector<long>{2000, 10000, 50000}) * scale, pace, k, rs);
    valueBurstRound(300 * scale, k, rs);
    stringBurstRound(300 * scale, k, rs);
    vh::count("rounds");
  }
  return vh::finish();
}
