// C04 - families over the single element type uint64_t (see c04_vec.cpp)
#include "c04_vec_same.h"
namespace c04 {
  void run_s_u64()
  {
    vh::Rng r(vh::seed(), 400 + TN<uint64_t>::idx);
    runSame<uint64_t>(r);
  }
}  // namespace c04
