// C04 - families over the single element type int64_t (see c04_vec.cpp)
#include "c04_vec_same.h"
namespace c04 {
  void run_s_i64()
  {
    vh::Rng r(vh::seed(), 400 + TN<int64_t>::idx);
    runSame<int64_t>(r);
  }
}  // namespace c04
