// C05 - ranges and boxes behave as closed axis-aligned sets.
//
// Oracle: point membership on a small integer / half-integer lattice, evaluated in
// double (exact for every lattice value).  Boxes are drawn from the lattice so that
// touching, nested, degenerate, partially overlapping, default-empty and inverted
// boxes, and points exactly on faces / edges / corners are frequent; every lattice
// point of the surrounding cube is tested for the set-semantics equivalences.
// xfmBounds and intersectRayBox are judged against long-double references with
// tolerances derived from the operations involved.
#include "vh.h"

#include <cfloat>
#include <climits>
#include <cmath>
#include <cstring>
#include <limits>
#include <string>
#include <vector>

#include "rkcommon/math/AffineSpace.h"
#include "rkcommon/math/box.h"
#include "rkcommon/math/range.h"
#include "rkcommon/math/vec.h"

namespace rk = rkcommon::math;
typedef long double LD;

// ------------------------------------------------------------------ small helpers
static std::string num(double v)
{
  char b[48];
  snprintf(b, sizeof b, "%.9g", v);
  return b;
}
static std::string numL(LD v)
{
  char b[64];
  snprintf(b, sizeof b, "%.21Lg", v);
  return b;
}
static std::string tuple(const double *p, int n)
{
  std::string o = "(";
  for (int i = 0; i < n; ++i)
    o += (i ? "," : "") + num(p[i]);
  return o + ")";
}
template <typename F>
static uint64_t bitsOf(F v)
{
  uint64_t b = 0;
  memcpy(&b, &v, sizeof(F) < 8 ? sizeof(F) : 8);
  return b;
}

// ------------------------------------------------------------------ element access
// Components are read through the members .x .y .z .w and vectors are built with the
// component constructor, never through library arithmetic.
template <typename V>
struct VT;
#define C05_SCALAR_VT(TYPE)                \
  template <>                              \
  struct VT<TYPE>                          \
  {                                        \
    typedef TYPE S;                        \
    enum { N = 1 };                        \
    static S get(const TYPE &v, int)       \
    {                                      \
      return v;                            \
    }                                      \
    static TYPE make(const S *a)           \
    {                                      \
      return a[0];                         \
    }                                      \
  };
C05_SCALAR_VT(int)
C05_SCALAR_VT(float)
C05_SCALAR_VT(double)
template <typename E>
struct VT<rk::vec_t<E, 2> >
{
  typedef E S;
  typedef rk::vec_t<E, 2> V;
  enum { N = 2 };
  static S get(const V &v, int i)
  {
    return i == 0 ? v.x : v.y;
  }
  static V make(const S *a)
  {
    return V(a[0], a[1]);
  }
};
template <typename E>
struct VT<rk::vec_t<E, 3> >
{
  typedef E S;
  typedef rk::vec_t<E, 3> V;
  enum { N = 3 };
  static S get(const V &v, int i)
  {
    return i == 0 ? v.x : i == 1 ? v.y : v.z;
  }
  static V make(const S *a)
  {
    return V(a[0], a[1], a[2]);
  }
};
template <typename E>
struct VT<rk::vec_t<E, 3, true> >
{
  typedef E S;
  typedef rk::vec_t<E, 3, true> V;
  enum { N = 3 };
  static S get(const V &v, int i)
  {
    return i == 0 ? v.x : i == 1 ? v.y : v.z;
  }
  static V make(const S *a)
  {
    return V(a[0], a[1], a[2]);
  }
};
template <typename E>
struct VT<rk::vec_t<E, 4> >
{
  typedef E S;
  typedef rk::vec_t<E, 4> V;
  enum { N = 4 };
  static S get(const V &v, int i)
  {
    return i == 0 ? v.x : i == 1 ? v.y : i == 2 ? v.z : v.w;
  }
  static V make(const S *a)
  {
    return V(a[0], a[1], a[2], a[3]);
  }
};

// ------------------------------------------------------------------ reference box
struct RB
{
  int n;
  double lo[4], hi[4];
  bool canon;  // the default-constructed empty box
  std::string how;  // non-empty: how the library object was produced (witness text)
  RB() : n(0), canon(false) {}
  bool empty() const
  {
    for (int i = 0; i < n; ++i)
      if (hi[i] < lo[i])
        return true;
    return false;
  }
  bool inverted() const
  {
    return !canon && empty();
  }
  bool contains(const double *p) const
  {
    for (int i = 0; i < n; ++i)
      if (!(lo[i] <= p[i] && p[i] <= hi[i]))
        return false;
    return true;
  }
  bool onBoundary(const double *p) const
  {
    if (!contains(p))
      return false;
    for (int i = 0; i < n; ++i)
      if (p[i] == lo[i] || p[i] == hi[i])
        return true;
    return false;
  }
  std::string str() const
  {
    if (canon)
      return "default()";
    return "[" + tuple(lo, n) + ".." + tuple(hi, n) + "]" + (how.empty() ? "" : "{" + how + "}");
  }
};
static RB canonRB(int n)
{
  RB r;
  r.n     = n;
  r.canon = true;
  for (int i = 0; i < n; ++i) {
    r.lo[i] = INFINITY;
    r.hi[i] = -INFINITY;
  }
  return r;
}
static RB refIsect(const RB &a, const RB &b)
{
  RB r;
  r.n = a.n;
  for (int i = 0; i < a.n; ++i) {
    r.lo[i] = a.lo[i] > b.lo[i] ? a.lo[i] : b.lo[i];
    r.hi[i] = a.hi[i] < b.hi[i] ? a.hi[i] : b.hi[i];
  }
  return r;
}
static RB refHull(const RB &a, const RB &b)
{
  RB r;
  r.n     = a.n;
  r.canon = a.canon && b.canon;
  for (int i = 0; i < a.n; ++i) {
    r.lo[i] = a.lo[i] < b.lo[i] ? a.lo[i] : b.lo[i];
    r.hi[i] = a.hi[i] > b.hi[i] ? a.hi[i] : b.hi[i];
  }
  return r;
}
// true iff the closed sets have no common point (an empty operand has no points)
static bool refNoCommonPoint(const RB &a, const RB &b)
{
  if (a.empty() || b.empty())
    return true;
  for (int i = 0; i < a.n; ++i)
    if (a.hi[i] < b.lo[i] || b.hi[i] < a.lo[i])
      return true;
  return false;
}
static uint64_t hashRB(uint64_t h, const RB &r)
{
  h = vh::hash64(h, r.canon ? 77 : 1);
  for (int i = 0; i < r.n; ++i) {
    h = vh::hash64(h, bitsOf(r.lo[i]));
    h = vh::hash64(h, bitsOf(r.hi[i]));
  }
  return h;
}

// ------------------------------------------------------------------ per-dimension families
template <typename B, int N>
struct Fam  // N == 4
{
  typedef typename B::bound_t V;
  typedef typename VT<V>::S S;
  enum { hasIsect = 1, hasTouch = 0, hasArea = 0, hasVolume = 0 };
  static B isect(const B &a, const B &b) { return rk::intersectionOf(a, b); }
  static bool disj(const B &a, const B &b) { return rk::disjoint(a, b); }
  static bool touch(const B &, const B &) { return false; }
  static S area(const B &) { return S(0); }
  static S volume(const B &) { return S(0); }
  static V centerFree(const B &a) { return rk::center(a); }
};
template <typename B>
struct Fam<B, 1>
{
  typedef typename B::bound_t V;
  typedef typename VT<V>::S S;
  enum { hasIsect = 0, hasTouch = 0, hasArea = 0, hasVolume = 0 };
  static B isect(const B &a, const B &) { return a; }
  static bool disj(const B &, const B &) { return false; }
  static bool touch(const B &, const B &) { return false; }
  static S area(const B &) { return S(0); }
  static S volume(const B &) { return S(0); }
  static V centerFree(const B &a) { return a.center(); }
};
template <typename B>
struct Fam<B, 2>
{
  typedef typename B::bound_t V;
  typedef typename VT<V>::S S;
  enum { hasIsect = 1, hasTouch = 1, hasArea = 1, hasVolume = 0 };
  static B isect(const B &a, const B &b) { return rk::intersectionOf(a, b); }
  static bool disj(const B &a, const B &b) { return rk::disjoint(a, b); }
  static bool touch(const B &a, const B &b) { return rk::touchingOrOverlapping(a, b); }
  static S area(const B &a) { return rk::area(a); }
  static S volume(const B &) { return S(0); }
  static V centerFree(const B &a) { return rk::center(a); }
};
template <typename B>
struct Fam<B, 3>
{
  typedef typename B::bound_t V;
  typedef typename VT<V>::S S;
  enum { hasIsect = 1, hasTouch = 1, hasArea = 1, hasVolume = 1 };
  static B isect(const B &a, const B &b) { return rk::intersectionOf(a, b); }
  static bool disj(const B &a, const B &b) { return rk::disjoint(a, b); }
  static bool touch(const B &a, const B &b) { return rk::touchingOrOverlapping(a, b); }
  static S area(const B &a) { return rk::area(a); }
  static S volume(const B &a) { return rk::volume(a); }
  static V centerFree(const B &a) { return rk::center(a); }
};

// ------------------------------------------------------------------ lattice checker
static std::vector<std::string> g_types;

template <typename B>
struct BoxCheck
{
  typedef typename B::bound_t V;
  typedef VT<V> T;
  typedef typename T::S S;
  enum { N = T::N };
  typedef Fam<B, N> F;

  std::string tn;
  bool isInt;
  double step;
  int R, P;  // box bounds use lattice indices [-R,R], points [-P,P]
  int typeId;
  std::vector<V> pts;
  std::vector<double> pc;
  long nPts;
  long long perPoint;

  BoxCheck(const std::string &name, int id) : tn(name), typeId(id), perPoint(0)
  {
    isInt                = std::numeric_limits<S>::is_integer;
    step                 = isInt ? 1.0 : 0.5;
    static const int Rs[4] = {6, 4, 3, 2};
    R                    = Rs[N - 1];
    P                    = R + 1;
    int side             = 2 * P + 1;
    nPts                 = 1;
    for (int i = 0; i < N; ++i)
      nPts *= side;
    pts.reserve(nPts);
    pc.resize(nPts * N);
    for (long k = 0; k < nPts; ++k) {
      long q = k;
      S a[4];
      for (int i = 0; i < N; ++i) {
        double c      = ((q % side) - P) * step;
        q /= side;
        pc[k * N + i] = c;
        a[i]          = (S)c;
      }
      pts.push_back(T::make(a));
    }
    g_types.push_back(tn);
  }

  std::string key(const char *family, const std::string &what) const
  {
    return std::string("C05:") + family + "." + tn + ":" + what;
  }

  // ---- construction / read-back
  static V makeV(const double *c)
  {
    S a[4];
    for (int i = 0; i < N; ++i)
      a[i] = (S)c[i];
    return T::make(a);
  }
  static B makeBox(const RB &r)
  {
    if (r.canon)
      return B();
    return B(makeV(r.lo), makeV(r.hi));
  }
  static double glo(const B &b, int i) { return (double)T::get(b.lower, i); }
  static double ghi(const B &b, int i) { return (double)T::get(b.upper, i); }
  static std::string show(const B &b)
  {
    double l[4], h[4];
    for (int i = 0; i < N; ++i) {
      l[i] = glo(b, i);
      h[i] = ghi(b, i);
    }
    return "[" + tuple(l, N) + ".." + tuple(h, N) + "]";
  }
  static std::string showV(const V &v)
  {
    double l[4];
    for (int i = 0; i < N; ++i)
      l[i] = (double)T::get(v, i);
    return tuple(l, N);
  }
  // bounds of `got` equal the reference (an infinite reference bound stands for the
  // corresponding bound of the library's default-constructed box)
  static bool boundsMatch(const B &got, const RB &exp)
  {
    B d;
    for (int i = 0; i < N; ++i) {
      double el = exp.lo[i] == INFINITY ? glo(d, i) : exp.lo[i] == -INFINITY ? ghi(d, i) : exp.lo[i];
      double eh = exp.hi[i] == -INFINITY ? ghi(d, i) : exp.hi[i] == INFINITY ? glo(d, i) : exp.hi[i];
      if (glo(got, i) != el || ghi(got, i) != eh)
        return false;
    }
    return true;
  }
  static bool vecIs(const V &v, const double *exp)
  {
    for (int i = 0; i < N; ++i)
      if ((double)T::get(v, i) != exp[i])
        return false;
    return true;
  }

  // ---- generators (lattice index units)
  void fromIdx(RB &r, const int *kl, const int *kh) const
  {
    r.n     = N;
    r.canon = false;
    for (int i = 0; i < N; ++i) {
      r.lo[i] = kl[i] * step;
      r.hi[i] = kh[i] * step;
    }
  }
  RB genBox(vh::Rng &r) const
  {
    int kind = (int)r.below(100);
    if (kind < 6)
      return canonRB(N);
    int kl[4], kh[4];
    for (int i = 0; i < N; ++i) {
      int a = (int)r.range(-R, R), b = (int)r.range(-R, R);
      kl[i] = a < b ? a : b;
      kh[i] = a < b ? b : a;
    }
    if (kind < 14) {  // inverted on a non-empty subset of the axes
      bool any = false;
      for (int i = 0; i < N; ++i)
        if (r.chance(1, 2) || (i == N - 1 && !any)) {
          if (kl[i] == kh[i]) {
            if (kl[i] < R)
              kh[i] = kl[i] + 1;
            else
              kl[i] = kh[i] - 1;
          }
          int t = kl[i];
          kl[i] = kh[i];
          kh[i] = t;
          any   = true;
        }
    } else if (kind < 26) {  // degenerate on a non-empty subset of the axes
      bool any = false;
      for (int i = 0; i < N; ++i)
        if (r.chance(1, 2) || (i == N - 1 && !any)) {
          kh[i] = kl[i];
          any   = true;
        }
    }
    RB out;
    fromIdx(out, kl, kh);
    return out;
  }
  // a box placed relative to a non-empty lattice box `a`
  RB genRelated(vh::Rng &r, const RB &a, std::string &rel) const
  {
    int al[4], ah[4], kl[4], kh[4];
    for (int i = 0; i < N; ++i) {
      al[i] = (int)std::floor(a.lo[i] / step + 0.5);
      ah[i] = (int)std::floor(a.hi[i] / step + 0.5);
    }
    int mode = (int)r.below(6);
    // default: overlapping extent on every axis
    for (int i = 0; i < N; ++i) {
      int x = (int)r.range(al[i], ah[i]);  // a common coordinate
      kl[i] = (int)r.range(-P, x);
      kh[i] = (int)r.range(x, P);
    }
    int ax = (int)r.below(N);
    switch (mode) {
    case 0:
      rel = "equal";
      for (int i = 0; i < N; ++i)
        kl[i] = al[i], kh[i] = ah[i];
      break;
    case 1:
      rel = "nested";
      for (int i = 0; i < N; ++i) {
        kl[i] = (int)r.range(al[i], ah[i]);
        kh[i] = (int)r.range(kl[i], ah[i]);
      }
      break;
    case 2:
      rel = "touching-one-axis";
      if (r.chance(1, 2)) {
        kl[ax] = ah[ax];
        kh[ax] = (int)r.range(kl[ax], P);
      } else {
        kh[ax] = al[ax];
        kl[ax] = (int)r.range(-P, kh[ax]);
      }
      break;
    case 3:
      rel = "separated-by-one-step-on-one-axis";
      if (r.chance(1, 2)) {
        kl[ax] = ah[ax] + 1;
        kh[ax] = (int)r.range(kl[ax], P > kl[ax] ? P : kl[ax]);
      } else {
        kh[ax] = al[ax] - 1;
        kl[ax] = (int)r.range(-P < kh[ax] ? -P : kh[ax], kh[ax]);
      }
      break;
    case 4:
      rel = "corner-touch";
      for (int i = 0; i < N; ++i) {
        if (r.chance(1, 2)) {
          kl[i] = ah[i];
          kh[i] = (int)r.range(kl[i], P);
        } else {
          kh[i] = al[i];
          kl[i] = (int)r.range(-P, kh[i]);
        }
      }
      break;
    default:
      rel = "overlapping";
      break;
    }
    RB out;
    fromIdx(out, kl, kh);
    return out;
  }

  // ---- one pair of boxes: every family, every lattice point
  void pairCase(long k, const RB &ra, const RB &rb, vh::Rng &r, const std::string &rel)
  {
    B a = makeBox(ra), b = makeBox(rb);
    RB raW = ra;
    // an inverted operand is, half of the time, produced by the library itself as the
    // intersection of two disjoint non-empty boxes
    if (F::hasIsect && ra.inverted() && r.chance(1, 2)) {
      RB x, y;
      x.n = y.n = N;
      for (int i = 0; i < N; ++i) {
        x.lo[i] = ra.lo[i];
        x.hi[i] = ra.lo[i] > ra.hi[i] ? ra.lo[i] : ra.hi[i];
        y.lo[i] = ra.lo[i] < ra.hi[i] ? ra.lo[i] : ra.hi[i];
        y.hi[i] = ra.hi[i];
      }
      B viaLib = F::isect(makeBox(x), makeBox(y));
      if (boundsMatch(viaLib, ra)) {
        a       = viaLib;
        raW.how = "= intersectionOf(" + x.str() + "," + y.str() + ")";
        vh::count("inverted_operands_produced_by_intersectionOf");
      }
    }
    const std::string ctx = "#" + std::to_string(k) + " " + tn + " a=" + raW.str() + " b=" + rb.str() + (rel.empty() ? "" : " (" + rel + ")");
    const bool aEmpty = ra.empty(), bEmpty = rb.empty();
    const bool anyInverted = ra.inverted() || rb.inverted();
    long long evals = 0;

    // ---------------- empty()
    VH_CHECK(a.empty() == aEmpty, key("empty", aEmpty ? "empty-box-not-reported-empty" : "non-empty-box-reported-empty"),
             std::string("empty() returned ") + (a.empty() ? "true" : "false"), ctx);
    ++evals;

    // ---------------- pointer view
    {
      const V *pv = a;
      VH_CHECK(&pv[0] == &a.lower && T::get(pv[0], 0) == T::get(a.lower, 0) && T::get(pv[1], N - 1) == T::get(a.upper, N - 1),
               key("pointer-view", "not-lower-upper"), "operator const T*() does not expose {lower, upper}", ctx);
    }

    // ---------------- intersection / disjoint / touching
    const RB ri       = refIsect(ra, rb);
    const bool refDj  = refNoCommonPoint(ra, rb);
    B isec            = a;
    if (F::hasIsect) {
      isec          = F::isect(a, b);
      B isecR       = F::isect(b, a);
      const bool ie = isec.empty();
      std::string c2 = ctx + " intersectionOf=" + show(isec);
      VH_CHECK(ie == refDj, key("intersectionOf", refDj ? "non-empty-although-no-common-point" : "empty-although-common-point-exists"),
               std::string("intersectionOf(a,b).empty() is ") + (ie ? "true" : "false") + " but the boxes " + (refDj ? "share no point" : "share a point"), c2);
      if (!refDj)
        VH_CHECK(boundsMatch(isec, ri), key("intersectionOf", "bounds-not-max-lower-min-upper"), "expected " + ri.str(), c2);
      VH_CHECK(isecR.empty() == ie && (refDj || boundsMatch(isecR, ri)), key("intersectionOf", "not-symmetric"),
               "intersectionOf(b,a)=" + show(isecR), c2);
      bool dj[2] = {F::disj(a, b), F::disj(b, a)};
      for (int o = 0; o < 2; ++o) {
        if (dj[o] == refDj)
          continue;
        std::string what;
        if (anyInverted)
          what = "inverted-empty-operand-not-disjoint";
        else if (dj[o]) {
          bool onlyTouch = false;
          for (int i = 0; i < N; ++i)
            onlyTouch |= ri.lo[i] == ri.hi[i] && (ra.lo[i] != ra.hi[i] || rb.lo[i] != rb.hi[i]);
          what = onlyTouch ? "touching-boxes-reported-disjoint" : "overlapping-boxes-reported-disjoint";
        } else
          what = "separated-boxes-not-disjoint";
        vh::violation(key("disjoint", what),
                      std::string(o ? "disjoint(b,a)" : "disjoint(a,b)") + " returned " + (dj[o] ? "true" : "false") + ", intersectionOf(a,b).empty() is " + (ie ? "true" : "false") +
                          ", common point " + (refDj ? "does not exist" : "exists"),
                      c2);
      }
      evals += 4;
      if (F::hasTouch) {
        bool tc[2] = {F::touch(a, b), F::touch(b, a)};
        for (int o = 0; o < 2; ++o) {
          if (tc[o] == !refDj)
            continue;
          std::string what;
          if (anyInverted)
            what = "inverted-empty-operand-reported-touching";
          else if (!tc[o]) {
            bool onlyTouch = false;
            for (int i = 0; i < N; ++i)
              onlyTouch |= ri.lo[i] == ri.hi[i] && (ra.lo[i] != ra.hi[i] || rb.lo[i] != rb.hi[i]);
            what = onlyTouch ? "touching-boxes-rejected" : "overlapping-boxes-rejected";
          } else
            what = "separated-boxes-accepted";
          vh::violation(key("touchingOrOverlapping", what),
                        std::string(o ? "touchingOrOverlapping(b,a)" : "touchingOrOverlapping(a,b)") + " returned " + (tc[o] ? "true" : "false") + ", disjoint(a,b) is " +
                            (dj[0] ? "true" : "false") + ", intersectionOf(a,b).empty() is " + (ie ? "true" : "false"),
                        c2);
        }
        evals += 2;
      }
      if (anyInverted)
        vh::count("pairs_with_inverted_operand");
      else if (ra.canon || rb.canon)
        vh::count("pairs_with_default_empty_operand");
      else if (refDj)
        vh::count("pairs_separated");
      else {
        bool flat = false;
        for (int i = 0; i < N; ++i)
          flat |= ri.lo[i] == ri.hi[i];
        vh::count(flat ? "pairs_touching_or_flat_intersection" : "pairs_overlapping_with_volume");
      }
    }

    // ---------------- extend
    {
      // by a box: smallest box containing both = per-axis min/max.  Inverted operands are
      // not judged (the statement names only the default-constructed box as identity).
      if (!anyInverted) {
        B e = a;
        e.extend(b);
        RB rh = refHull(ra, rb);
        if (!boundsMatch(e, rh)) {
          std::string what = ra.canon ? "default-box-not-identity" : rb.canon ? "default-box-argument-changes-box" : "not-smallest-enclosing-box";
          vh::violation(key("extend-box", what), "a.extend(b)=" + show(e) + " expected " + rh.str(), ctx);
        }
        ++evals;
      } else
        vh::count("extend_cases_with_inverted_operand_not_judged");
      // by a point
      if (!ra.inverted()) {
        long qi          = (long)r.below(nPts);
        const double *qc = &pc[qi * N];
        RB rq;
        rq.n = N;
        for (int i = 0; i < N; ++i)
          rq.lo[i] = rq.hi[i] = qc[i];
        B e = a;
        e.extend(pts[qi]);
        RB rh = refHull(ra, rq);
        if (!boundsMatch(e, rh))
          vh::violation(key("extend-point", ra.canon ? "default-box-not-identity" : "not-smallest-enclosing-box"),
                        "a.extend(" + tuple(qc, N) + ")=" + show(e) + " expected " + rh.str(), ctx);
        ++evals;
      }
    }

    // ---------------- size / center / area / volume (bounds finite)
    if (!ra.canon) {
      double es[4], ec[4];
      for (int i = 0; i < N; ++i) {
        es[i] = ra.hi[i] - ra.lo[i];
        ec[i] = (ra.lo[i] + ra.hi[i]) / 2;
        if (isInt)
          ec[i] = ec[i] < 0 ? std::ceil(ec[i]) : std::floor(ec[i]);  // truncation toward zero
      }
      V sz = a.size();
      VH_CHECK(vecIs(sz, es), key("size", "not-upper-minus-lower"), "size()=" + showV(sz) + " expected " + tuple(es, N), ctx);
      V ce = a.center();
      VH_CHECK(vecIs(ce, ec), key("center", "not-midpoint"), "center()=" + showV(ce) + " expected " + tuple(ec, N), ctx);
      if (N > 1) {
        V cf = F::centerFree(a);
        VH_CHECK(vecIs(cf, ec), key("center-free", "not-midpoint"), "center(box)=" + showV(cf) + " expected " + tuple(ec, N), ctx);
      }
      evals += 2;
      if (!aEmpty) {
        if (F::hasArea) {
          double ea = N == 2 ? es[0] * es[1] : 2 * (es[0] * es[1] + es[0] * es[2] + es[1] * es[2]);
          S ga      = F::area(a);
          VH_CHECK((double)ga == (double)(S)ea, key("area", "not-by-definition"), "area()=" + num((double)ga) + " expected " + num(ea), ctx);
          ++evals;
        }
        if (F::hasVolume) {
          double ev = es[0] * es[1] * es[2];
          S gv      = F::volume(a);
          VH_CHECK((double)gv == (double)(S)ev, key("volume", "not-product-of-size"), "volume()=" + num((double)gv) + " expected " + num(ev), ctx);
          ++evals;
        }
      }
    }

    // ---------------- == / !=
    {
      bool same = ra.canon == rb.canon;
      if (same && !ra.canon)
        for (int i = 0; i < N; ++i)
          same &= ra.lo[i] == rb.lo[i] && ra.hi[i] == rb.hi[i];
      bool eq = a == b, ne = a != b;
      VH_CHECK(eq == same, key("operator==", same ? "equal-boxes-compare-unequal" : "different-boxes-compare-equal"), std::string("a==b is ") + (eq ? "true" : "false"), ctx);
      VH_CHECK(ne == !same, key("operator!=", "not-negation-of-equality"), std::string("a!=b is ") + (ne ? "true" : "false"), ctx);
      B c = a;
      VH_CHECK(a == c && !(a != c), key("operator==", "copy-compares-unequal"), "a copy of the box does not compare equal", ctx);
      if (!ra.canon) {
        // change exactly one bound component by one lattice step
        RB rm  = ra;
        int ax = (int)r.below(N);
        bool up = r.chance(1, 2);
        (up ? rm.hi[ax] : rm.lo[ax]) += r.chance(1, 2) ? step : -step;
        B m = makeBox(rm);
        VH_CHECK(!(a == m) && (a != m), key("operator==", "one-component-difference-missed"),
                 "boxes differing only in " + std::string(up ? "upper" : "lower") + "[" + std::to_string(ax) + "] compare equal: " + rm.str(), ctx);
      }
      evals += 3;
    }

    // ---------------- scale / translate: definition, then set semantics on the lattice
    double tv[4], sv[4], sdef[4];
    B at = a, as = a;
    const bool doXform = !ra.canon;  // int: INT_MAX + t would overflow in the caller's request
    if (doXform) {
      static const double scalesF[] = {0.5, 1, 2, 3};
      static const double scalesI[] = {1, 2, 3, 1};
      static const double defF[]    = {-2, -1, -0.5, 0, 0.5, 1, 2, 3};
      static const double defI[]    = {-2, -1, 0, 0, 1, 1, 2, 3};
      for (int i = 0; i < N; ++i) {
        tv[i]   = (double)r.range(-3, 3) * step;
        sv[i]   = (isInt ? scalesI : scalesF)[r.below(4)];
        sdef[i] = (isInt ? defI : defF)[r.below(8)];
      }
      V tV = makeV(tv), sV = makeV(sv), dV = makeV(sdef);
      at   = a + tV;
      B at2 = tV + a;
      as   = a * sV;
      B as2 = sV * a;
      B ad = a * dV, ad2 = dV * a;
      RB rt = ra, rs = ra, rd = ra;
      for (int i = 0; i < N; ++i) {
        rt.lo[i] += tv[i];
        rt.hi[i] += tv[i];
        rs.lo[i] *= sv[i];
        rs.hi[i] *= sv[i];
        rd.lo[i] *= sdef[i];
        rd.hi[i] *= sdef[i];
      }
      VH_CHECK(boundsMatch(at, rt), key("translate", "range-plus-t"), "a+" + tuple(tv, N) + "=" + show(at) + " expected " + rt.str(), ctx);
      VH_CHECK(boundsMatch(at2, rt), key("translate", "t-plus-range"), tuple(tv, N) + "+a=" + show(at2) + " expected " + rt.str(), ctx);
      VH_CHECK(boundsMatch(as, rs), key("scale", "range-times-s"), "a*" + tuple(sv, N) + "=" + show(as) + " expected " + rs.str(), ctx);
      VH_CHECK(boundsMatch(as2, rs), key("scale", "s-times-range"), tuple(sv, N) + "*a=" + show(as2) + " expected " + rs.str(), ctx);
      VH_CHECK(boundsMatch(ad, rd) && boundsMatch(ad2, rd), key("scale", "signed-factor"),
               "a*" + tuple(sdef, N) + "=" + show(ad) + " / " + show(ad2) + " expected bounds " + rd.str(), ctx);
      evals += 5;
    }

    // ---------------- lattice sweep
    long nIn = 0, nBd = 0;
    for (long q = 0; q < nPts; ++q) {
      const double *p = &pc[q * N];
      const V &pv     = pts[q];
      const bool inA = ra.contains(p), inB = rb.contains(p);
      bool got = a.contains(pv);
      if (got != inA) {
        std::string what = inA ? (ra.onBoundary(p) ? "boundary-point-rejected" : "interior-point-rejected") : "outside-point-accepted";
        vh::violation(key("contains", what), "a.contains(" + tuple(p, N) + ") returned " + (got ? "true" : "false"), ctx);
      }
      if (inA) {
        ++nIn;
        if (ra.onBoundary(p))
          ++nBd;
      }
      if (F::hasIsect) {
        bool gi = isec.contains(pv);
        if (gi != (inA && inB))
          vh::violation(key("intersectionOf", gi ? "contains-a-non-common-point" : "misses-a-common-point"),
                        "intersectionOf(a,b)=" + show(isec) + " .contains(" + tuple(p, N) + ") returned " + (gi ? "true" : "false") + ", a.contains=" + (inA ? "true" : "false") +
                            " b.contains=" + (inB ? "true" : "false"),
                        ctx);
      }
      if (!aEmpty) {
        double ec[4];
        for (int i = 0; i < N; ++i)
          ec[i] = p[i] < ra.lo[i] ? ra.lo[i] : p[i] > ra.hi[i] ? ra.hi[i] : p[i];
        V c = a.clamp(pv);
        if (!vecIs(c, ec))
          vh::violation(key("clamp", inA ? "contained-point-moved" : "not-nearest-contained-point"),
                        "a.clamp(" + tuple(p, N) + ")=" + showV(c) + " expected " + tuple(ec, N), ctx);
      }
      if (doXform) {
        double pt[4], ps[4];
        for (int i = 0; i < N; ++i) {
          pt[i] = p[i] + tv[i];
          ps[i] = p[i] * sv[i];
        }
        bool gt = at.contains(makeV(pt)), gs = as.contains(makeV(ps));
        // compared with the library's own a.contains(p): a defect of contains() is reported
        // once, under contains, and not again as a translate / scale defect
        if (gt != got)
          vh::violation(key("translate", "membership-not-preserved"),
                        "(a+" + tuple(tv, N) + ").contains(" + tuple(pt, N) + ") is " + (gt ? "true" : "false") + " but a.contains(" + tuple(p, N) + ") is " + (got ? "true" : "false"), ctx);
        if (gs != got)
          vh::violation(key("scale", "membership-not-preserved"),
                        "(a*" + tuple(sv, N) + ").contains(" + tuple(ps, N) + ") is " + (gs ? "true" : "false") + " but a.contains(" + tuple(p, N) + ") is " + (got ? "true" : "false"), ctx);
      }
    }
    perPoint += nPts * (1 + (F::hasIsect ? 1 : 0) + (!aEmpty ? 1 : 0) + (doXform ? 2 : 0));
    vh::count("lattice_points_inside_a", nIn);
    vh::count("lattice_points_on_boundary_of_a", nBd);

    // ---------------- floating point: neighbours of the faces
    if (!isInt && !aEmpty) {
      double mid[4];
      for (int i = 0; i < N; ++i)
        mid[i] = (ra.lo[i] + ra.hi[i]) / 2;
      for (int i = 0; i < N; ++i)
        for (int side = 0; side < 2; ++side)
          for (int dirn = 0; dirn < 2; ++dirn) {
            S a4[4];
            for (int j = 0; j < N; ++j)
              a4[j] = (S)mid[j];
            S face  = (S)(side ? ra.hi[i] : ra.lo[i]);
            a4[i]   = std::nextafter(face, dirn ? (S)1e30 : (S)-1e30);
            bool in = side ? !dirn : dirn;  // just inside the face?
            if (ra.lo[i] == ra.hi[i])
              in = false;  // degenerate axis: both neighbours are outside
            bool got = a.contains(T::make(a4));
            if (got != in)
              vh::violation(key("contains", in ? "point-one-ulp-inside-face-rejected" : "point-one-ulp-outside-face-accepted"),
                            "axis " + std::to_string(i) + (side ? " upper" : " lower") + " face, coordinate " + num((double)a4[i]) + " returned " + (got ? "true" : "false"), ctx);
            ++evals;
          }
    }

    vh::evaluatedN(evals);
    vh::evaluated(hashRB(hashRB(vh::hash64(5, typeId), ra), rb), !(aEmpty && bEmpty));
    if (k < 2)
      vh::sample(vh::J().kv("kind", "box-pair").kv("type", tn).kv("a", raW.str()).kv("b", rb.str()).kv("relation", rel).kv("lattice_points", (long long)nPts).str(), 24);
  }

  // ---- constructors and the default box as identity, incl. extreme arguments
  void directed()
  {
    const std::string ctx = tn + " directed";
    B d, e((rk::empty));
    VH_CHECK(d.empty() && e.empty(), key("constructor", "default-box-not-empty"), "default / EmptyTy constructed box is not empty(): " + show(d), ctx);
    VH_CHECK(boundsMatch(e, canonRB(N)), key("constructor", "EmptyTy-differs-from-default"), show(e) + " vs " + show(d), ctx);
    for (long q = 0; q < nPts; ++q)
      if (d.contains(pts[q])) {
        vh::violation(key("contains", "default-box-contains-a-point"), "default().contains(" + tuple(&pc[q * N], N) + ")", ctx);
        break;
      }
    // extreme values
    std::vector<S> ext;
    ext.push_back(std::numeric_limits<S>::lowest());
    ext.push_back(std::numeric_limits<S>::max());
    ext.push_back(S(0));
    ext.push_back(S(-1));
    if (std::numeric_limits<S>::has_infinity) {
      ext.push_back(std::numeric_limits<S>::infinity());
      ext.push_back(-std::numeric_limits<S>::infinity());
    }
    vh::Rng r(12345, 5);  // fixed: directed cases do not depend on the seed
    for (int rep = 0; rep < 400; ++rep) {
      double q1[4], q2[4];
      for (int i = 0; i < N; ++i) {
        S x = ext[r.below(ext.size())], y = ext[r.below(ext.size())];
        q1[i] = (double)(x < y ? x : y);
        q2[i] = (double)(x < y ? y : x);
      }
      V v1 = makeV(q1), v2 = makeV(q2);
      std::string c2 = ctx + " q1=" + tuple(q1, N) + " q2=" + tuple(q2, N);
      VH_CHECK(!d.contains(v1) && !d.contains(v2), key("contains", "default-box-contains-a-point"), "default box contains an extreme point", c2);
      B x;
      x.extend(v1);
      VH_CHECK(vecIs(x.lower, q1) && vecIs(x.upper, q1), key("extend-point", "default-box-not-identity"), "default().extend(q1)=" + show(x), c2);
      VH_CHECK(x.contains(v1) && !x.empty(), key("contains", "boundary-point-rejected"), "[q1,q1] does not contain q1", c2);
      B big(v1, v2);
      B y;
      y.extend(big);
      VH_CHECK(vecIs(y.lower, q1) && vecIs(y.upper, q2), key("extend-box", "default-box-not-identity"), "default().extend([q1,q2])=" + show(y), c2);
      B z = big;
      z.extend(d);
      VH_CHECK(vecIs(z.lower, q1) && vecIs(z.upper, q2), key("extend-box", "default-box-argument-changes-box"), "[q1,q2].extend(default())=" + show(z), c2);
      VH_CHECK(big.contains(v1) && big.contains(v2), key("contains", "boundary-point-rejected"), "[q1,q2] does not contain its corners", c2);
      V c1 = big.clamp(v1), c2v = big.clamp(v2);
      VH_CHECK(vecIs(c1, q1) && vecIs(c2v, q2), key("clamp", "contained-point-moved"), "clamp moved a corner of the box", c2);
      vh::evaluatedN(6);
    }
    // ZeroTy / OneTy / single value / pointer constructors
    {
      double z[4] = {0, 0, 0, 0}, o[4] = {1, 1, 1, 1};
      B bz((rk::zero)), bo((rk::one));
      VH_CHECK(vecIs(bz.lower, z) && vecIs(bz.upper, z), key("constructor", "ZeroTy"), show(bz), ctx);
      VH_CHECK(vecIs(bo.lower, z) && vecIs(bo.upper, o), key("constructor", "OneTy"), show(bo), ctx);
      for (int rep = 0; rep < 50; ++rep) {
        long i1 = (long)r.below(nPts), i2 = (long)r.below(nPts);
        B one(pts[i1]);
        VH_CHECK(vecIs(one.lower, &pc[i1 * N]) && vecIs(one.upper, &pc[i1 * N]), key("constructor", "single-value"), show(one), ctx);
        V arr[2] = {pts[i1], pts[i2]};
        B fromPtr((const V *)arr);
        VH_CHECK(vecIs(fromPtr.lower, &pc[i1 * N]) && vecIs(fromPtr.upper, &pc[i2 * N]), key("constructor", "from-pointer"), show(fromPtr), ctx);
        B two(pts[i1], pts[i2]);
        VH_CHECK(vecIs(two.lower, &pc[i1 * N]) && vecIs(two.upper, &pc[i2 * N]), key("constructor", "lower-upper"), show(two), ctx);
        vh::evaluatedN(3);
      }
    }
    // translation keeps a floating-point default box empty
    if (!isInt) {
      double t[4] = {1.5, -2, 0.5, 3};
      B m = d + makeV(t);
      VH_CHECK(m.empty() && boundsMatch(m, canonRB(N)), key("translate", "default-box-no-longer-empty"), show(m), ctx);
    }
    vh::count("directed_blocks_run");
  }

  // ---- drivers
  void runRandom(long nPairs, int stream)
  {
    for (long k = 0; k < nPairs; ++k) {
      if (!vh::wantCase(k))
        continue;
      vh::Rng r(vh::seed() * 1000003ull + (uint64_t)k, stream);
      RB ra = genBox(r), rb;
      std::string rel;
      if (!ra.empty() && r.chance(2, 5))
        rb = genRelated(r, ra, rel);
      else
        rb = genBox(r);
      if (r.chance(1, 2))
        pairCase(k, ra, rb, r, rel);
      else
        pairCase(k, rb, ra, r, rel.empty() ? rel : rel + ", operands swapped");
    }
    vh::count(("pairs." + tn).c_str(), nPairs);
  }
  // every (lower, upper) combination incl. inverted ones + the default box, all ordered pairs
  void runExhaustive1D()
  {
    std::vector<RB> all;
    all.push_back(canonRB(N));
    for (int l = -R; l <= R; ++l)
      for (int h = -R; h <= R; ++h) {
        RB b;
        int kl[4] = {l, l, l, l}, kh[4] = {h, h, h, h};
        fromIdx(b, kl, kh);
        all.push_back(b);
      }
    long k = 0;
    vh::Rng r(vh::seed(), 100 + typeId);
    for (size_t i = 0; i < all.size(); ++i)
      for (size_t j = 0; j < all.size(); ++j, ++k) {
        if (!vh::wantCase(k))
          continue;
        pairCase(k, all[i], all[j], r, "");
      }
    vh::count(("pairs." + tn).c_str(), k);
  }
  void finish()
  {
    vh::evaluatedN(perPoint);
    vh::count("lattice_point_evaluations", perPoint);
  }
};

// ------------------------------------------------------------------ converting constructor
template <typename BI, typename BF>
static void convCheck(BoxCheck<BI> &ci, BoxCheck<BF> &cf, long n)
{
  vh::Rng r(vh::seed(), 61);
  for (long k = 0; k < n; ++k) {
    RB ri = ci.genBox(r), rf = cf.genBox(r);
    if (!ri.canon) {
      BI bi = BoxCheck<BI>::makeBox(ri);
      BF conv(bi);
      VH_CHECK(BoxCheck<BF>::boundsMatch(conv, ri), cf.key("constructor", "converting-from-int"),
               BoxCheck<BF>::show(conv) + " from " + ri.str(), "#" + std::to_string(k));
    }
    if (!rf.canon) {
      BF bf = BoxCheck<BF>::makeBox(rf);
      BI conv(bf);
      RB rt = rf;
      for (int i = 0; i < rt.n; ++i) {
        rt.lo[i] = rt.lo[i] < 0 ? std::ceil(rt.lo[i]) : std::floor(rt.lo[i]);
        rt.hi[i] = rt.hi[i] < 0 ? std::ceil(rt.hi[i]) : std::floor(rt.hi[i]);
      }
      VH_CHECK(BoxCheck<BI>::boundsMatch(conv, rt), ci.key("constructor", "converting-from-float"),
               BoxCheck<BI>::show(conv) + " from " + rf.str(), "#" + std::to_string(k));
    }
    vh::evaluatedN(2);
  }
  vh::count("converting_constructor_cases", 2 * n);
}

// ------------------------------------------------------------------ intersectRayBox
template <typename S>
struct RayAcc;
template <>
struct RayAcc<float>
{
  static LD delta() { return ldexpl(1.0L, -20); }  // documented accuracy of rcp / rcp_safe
  static LD eps() { return 1e-7L; }
};
template <>
struct RayAcc<double>
{
  static LD delta() { return ldexpl(1.0L, -50); }
  static LD eps() { return 1e-13L; }
};

template <typename S, int N>
static void rayCases(const std::string &tn, long nCases, int stream)
{
  typedef rk::vec_t<S, N> V;
  typedef rk::box_t<S, N> B;
  typedef rk::range_t<S> Rg;
  typedef VT<V> T;
  g_types.push_back("intersectRayBox<" + tn + ">");
  const std::string K = "C05:intersectRayBox." + tn + ":";
  long nHit = 0, nMiss = 0, nPar = 0, nInside = 0, nOnFace = 0, nInsideJudged = 0, nOutsideJudged = 0, nEmptyBox = 0, nCustom = 0;
  for (long k = 0; k < nCases; ++k) {
    if (!vh::wantCase(k))
      continue;
    vh::Rng r(vh::seed() * 1000003ull + (uint64_t)k, stream);
    // ---- box (half-integer lattice [-3,3], sometimes arbitrary floats / empty)
    S lo[4], hi[4];
    int kind       = (int)r.below(100);
    bool canon     = kind < 4;
    bool inverted  = !canon && kind < 9;
    bool arbitrary = !canon && !inverted && kind < 25;
    for (int i = 0; i < N; ++i) {
      double a = arbitrary ? r.real(-3, 3) : (double)r.range(-6, 6) * 0.5, b = arbitrary ? r.real(-3, 3) : (double)r.range(-6, 6) * 0.5;
      if (!arbitrary && r.chance(1, 6))
        b = a;  // flat
      lo[i] = (S)(a < b ? a : b);
      hi[i] = (S)(a < b ? b : a);
    }
    if (inverted) {
      int ax = (int)r.below(N);
      if (lo[ax] == hi[ax])
        hi[ax] = lo[ax] + S(1);
      S t    = lo[ax];
      lo[ax] = hi[ax];
      hi[ax] = t;
    }
    // ---- sometimes the whole scene sits far from the origin (exactly representable offsets):
    // slab arithmetic that multiplies coordinates instead of differences by 1/dir then meets
    // overflow for axis-parallel rays (1/0 is clamped to 2^126)
    S off[4] = {S(0), S(0), S(0), S(0)};
    if (r.chance(1, 3))
      for (int i = 0; i < N; ++i) {
        static const double offs[] = {0, 8, -8, 64, -64, 1024, -1024};
        off[i]                     = (S)offs[r.below(7)];
        lo[i] += off[i];
        hi[i] += off[i];
      }
    B box = canon ? B() : B(T::make(lo), T::make(hi));
    const bool boxEmpty = canon || inverted;
    // ---- origin
    S og[4], dr[4];
    bool orgInside = true, orgOnFace = false;
    for (int i = 0; i < N; ++i) {
      S l = canon ? S(-1) + off[i] : (lo[i] < hi[i] ? lo[i] : hi[i]), h = canon ? S(1) + off[i] : (lo[i] < hi[i] ? hi[i] : lo[i]);
      switch ((int)r.below(6)) {
      case 0: og[i] = l; break;
      case 1: og[i] = h; break;
      case 2: og[i] = (S)(((double)l + (double)h) / 2); break;
      case 3: og[i] = (S)r.real((double)l, (double)h); break;
      case 4: og[i] = (S)((double)r.range(-8, 8) * 0.5) + off[i]; break;
      default: og[i] = (S)r.real(-5, 5) + off[i]; break;
      }
      if (!(og[i] >= l && og[i] <= h))
        orgInside = false;
      if (og[i] == l || og[i] == h)
        orgOnFace = true;
    }
    // ---- direction
    int nz = 0;
    for (int i = 0; i < N; ++i) {
      int c = (int)r.below(8);
      if (c < 2)
        dr[i] = c == 0 ? S(0) : -S(0);
      else if (c < 5) {
        static const double vals[] = {1, -1, 0.5, -0.5, 2, -2};
        dr[i]                      = (S)vals[r.below(6)];
      } else
        dr[i] = (S)((r.chance(1, 2) ? 1 : -1) * std::pow(2.0, r.real(-4, 2)));
      if (dr[i] != S(0))
        ++nz;
    }
    // ---- double rays only: sometimes one component is a tiny but normal double (far below FLT_MIN): a
    // reciprocal clamped at a float threshold would change the slab of that axis (own generator, so the
    // other cases stay what they were)
    bool tinyDir = false;
    if (sizeof(S) == 8) {
      vh::Rng r2(vh::seed() * 1000003ull + (uint64_t)k, stream + 7001);
      if (r2.chance(1, 6)) {
        int ax = (int)r2.below(N);
        dr[ax] = (S)((r2.chance(1, 2) ? 1 : -1) * std::ldexp(r2.real(1.0, 2.0), -(int)r2.range(130, 900)));
        if (dr[ax] != S(0) && !nz)
          ++nz;
        else if (dr[ax] != S(0)) {
          nz = 0;
          for (int i = 0; i < N; ++i)
            if (dr[i] != S(0))
              ++nz;
        }
        tinyDir = true;
        vh::count("tiny_double_direction_components");
      }
    }
    if (!nz) {
      int ax = (int)r.below(N);
      dr[ax] = r.chance(1, 2) ? S(1) : S(-0.75);
      nz     = 1;
    }
    if (r.chance(1, 8) && !tinyDir) {  // unit length, arbitrary mantissas (the squared tiny component underflows: not normalised)
      double len = 0;
      for (int i = 0; i < N; ++i)
        len += (double)dr[i] * (double)dr[i];
      len = std::sqrt(len);
      for (int i = 0; i < N; ++i)
        dr[i] = dr[i] == S(0) ? dr[i] : (S)((double)dr[i] / len);
    }
    // ---- tRange
    int tk = (int)r.below(20);
    LD trLo = 0, trHi = INFINITY;
    bool custom = tk >= 12;
    S trl = 0, trh = 0;
    if (custom) {
      if (tk == 12) {
        trl = -std::numeric_limits<S>::infinity();
        trh = std::numeric_limits<S>::infinity();
      } else if (tk == 13) {
        trl = S(2);
        trh = S(1);  // empty request
      } else {
        double a = (double)r.range(-16, 16) * 0.5, b = (double)r.range(-16, 16) * 0.5;
        trl      = (S)(a < b ? a : b);
        trh      = (S)(a < b ? b : a);
      }
      trLo = trl;
      trHi = trh;
      ++nCustom;
    }
    V org = T::make(og), dir = T::make(dr);
    Rg res = custom ? rk::intersectRayBox(org, dir, box, Rg(trl, trh)) : rk::intersectRayBox(org, dir, box);
    const LD t0 = res.lower, t1 = res.upper;

    // ---- description
    double dlo[4], dhi[4], dog[4], ddr[4];
    for (int i = 0; i < N; ++i) {
      dlo[i] = canon ? INFINITY : (double)lo[i];
      dhi[i] = canon ? -INFINITY : (double)hi[i];
      dog[i] = (double)og[i];
      ddr[i] = (double)dr[i];
    }
    std::string ctx = "#" + std::to_string(k) + " " + tn + " box=" + (canon ? std::string("default()") : "[" + tuple(dlo, N) + ".." + tuple(dhi, N) + "]") + " org=" + tuple(dog, N) +
                      " dir=" + tuple(ddr, N) + " tRange=" + (custom ? "[" + num((double)trl) + "," + num((double)trh) + "]" : std::string("default[0,inf]")) + " -> [" + numL(t0) + "," +
                      numL(t1) + "]";

    // ---- reference quantities
    LD Tmax = 0;      // largest finite slab parameter of a non-parallel axis
    bool parallel = false;
    for (int i = 0; i < N; ++i) {
      if (dr[i] == S(0)) {
        parallel = true;
        continue;
      }
      if (canon)
        continue;
      LD a = fabsl(((LD)lo[i] - (LD)og[i]) / (LD)dr[i]), b = fabsl(((LD)hi[i] - (LD)og[i]) / (LD)dr[i]);
      if (a > Tmax) Tmax = a;
      if (b > Tmax) Tmax = b;
    }
    const LD m   = 4 * RayAcc<S>::delta() * Tmax;
    const LD eps = RayAcc<S>::eps();
    // true interval (for choosing probes only)
    LD T0 = -INFINITY, T1 = INFINITY;
    bool trueMiss = boxEmpty;
    for (int i = 0; i < N && !boxEmpty; ++i) {
      if (dr[i] == S(0)) {
        if (!(og[i] >= lo[i] && og[i] <= hi[i]))
          trueMiss = true;
        continue;
      }
      LD a = ((LD)lo[i] - (LD)og[i]) / (LD)dr[i], b = ((LD)hi[i] - (LD)og[i]) / (LD)dr[i];
      if (a > b) { LD t = a; a = b; b = t; }
      if (a > T0) T0 = a;
      if (b < T1) T1 = b;
    }
    if (trLo > T0) T0 = trLo;
    if (trHi < T1) T1 = trHi;
    if (T0 > T1)
      trueMiss = true;

    // ---- the interval never leaves the requested parameter range
    VH_CHECK(t0 >= trLo && t1 <= trHi, K + "interval-exceeds-tRange", "returned interval is not inside tRange", ctx);
    VH_CHECK(t0 == t0 && t1 == t1, K + "nan-bound", "returned interval has a NaN bound", ctx);

    // ---- probes
    LD probes[16];
    int np = 0;
    LD big = 1.5L * m + 1e-3L;
    if (std::isfinite((double)t0)) {
      probes[np++] = t0 + 1.5L * m;
      probes[np++] = t0 - 1.5L * m - 1e-6L * (1 + fabsl(t0));
      probes[np++] = t0 - big;
      probes[np++] = t0 + big;
    }
    if (std::isfinite((double)t1)) {
      probes[np++] = t1 - 1.5L * m;
      probes[np++] = t1 + 1.5L * m + 1e-6L * (1 + fabsl(t1));
      probes[np++] = t1 + big;
      probes[np++] = t1 - big;
    }
    if (std::isfinite((double)t0) && std::isfinite((double)t1))
      probes[np++] = (t0 + t1) / 2;
    if (!trueMiss && std::isfinite((double)T0) && std::isfinite((double)T1)) {
      probes[np++] = (T0 + T1) / 2;
      probes[np++] = T0 + (T1 - T0) / 16;
      probes[np++] = T1 - (T1 - T0) / 16;
    }
    if (std::isfinite((double)trLo))
      probes[np++] = trLo;
    probes[np++] = (LD)r.real(-8, 8);
    probes[np++] = (LD)r.real(0, 4);
    bool fired = false;
    for (int pi = 0; pi < np && !fired; ++pi) {
      LD t = probes[pi];
      if (!(t >= trLo && t <= trHi) || !std::isfinite((double)t))
        continue;
      bool inInfl = !boxEmpty, inDefl = !boxEmpty;
      LD pt[4];
      for (int i = 0; i < N; ++i) {
        pt[i] = (LD)og[i] + t * (LD)dr[i];
        if (boxEmpty)
          continue;
        LD e = eps * (1 + fabsl(pt[i]));
        if (!(pt[i] >= (LD)lo[i] - e && pt[i] <= (LD)hi[i] + e))
          inInfl = false;
        if (!(pt[i] >= (LD)lo[i] + e && pt[i] <= (LD)hi[i] - e))
          inDefl = false;
      }
      double dp[4];
      for (int i = 0; i < N; ++i)
        dp[i] = (double)pt[i];
      if (t >= t0 + m && t <= t1 - m) {
        ++nInsideJudged;
        if (!inInfl) {
          vh::violation(K + (boxEmpty ? "empty-box-reported-hit" : "inside-parameter-maps-outside-box"),
                        "t=" + numL(t) + " lies inside the returned interval (margin " + numL(m) + ") but org+t*dir=" + tuple(dp, N) +
                            (boxEmpty ? " and the box is empty" : " is outside the box"),
                        ctx);
          fired = true;
        }
      } else if (t < t0 - m || t > t1 + m) {
        ++nOutsideJudged;
        if (inDefl) {
          vh::violation(K + "outside-parameter-maps-inside-box",
                        "t=" + numL(t) + " lies outside the returned interval (margin " + numL(m) + ") but org+t*dir=" + tuple(dp, N) + " is strictly inside the box", ctx);
          fired = true;
        }
      }
    }
    if (t0 <= t1) ++nHit; else ++nMiss;
    if (parallel) ++nPar;
    if (orgInside && !boxEmpty) ++nInside;
    if (orgOnFace && !boxEmpty) ++nOnFace;
    if (boxEmpty) ++nEmptyBox;
    uint64_t h = vh::hash64(9, stream);
    for (int i = 0; i < N; ++i) {
      h = vh::hash64(h, bitsOf(dlo[i]));
      h = vh::hash64(h, bitsOf(dhi[i]));
      h = vh::hash64(h, bitsOf(dog[i]));
      h = vh::hash64(h, bitsOf(ddr[i]));
    }
    h = vh::hash64(h, bitsOf((double)trLo));
    h = vh::hash64(h, bitsOf((double)trHi));
    vh::evaluated(h, !boxEmpty);
    if (k < 2)
      vh::sample(vh::J().kv("kind", "ray").kv("case", ctx).str(), 24);
  }
  vh::count(("rays." + tn).c_str(), nCases);
  vh::count("rays_hit_reported", nHit);
  vh::count("rays_miss_reported", nMiss);
  vh::count("rays_with_axis_parallel_component", nPar);
  vh::count("rays_origin_inside_box", nInside);
  vh::count("rays_origin_coordinate_on_face", nOnFace);
  vh::count("rays_against_empty_box", nEmptyBox);
  vh::count("rays_custom_tRange", nCustom);
  vh::count("ray_parameters_judged_inside", nInsideJudged);
  vh::count("ray_parameters_judged_outside", nOutsideJudged);
  vh::evaluatedN(nInsideJudged + nOutsideJudged);
}

// ------------------------------------------------------------------ xfmBounds
static void quatToMat(vh::Rng &r, double m[3][3])
{
  double q[4], n = 0;
  do {
    n = 0;
    for (int i = 0; i < 4; ++i) {
      q[i] = r.real(-1, 1);
      n += q[i] * q[i];
    }
  } while (n < 1e-3);
  n = std::sqrt(n);
  double w = q[0] / n, x = q[1] / n, y = q[2] / n, z = q[3] / n;
  m[0][0] = 1 - 2 * (y * y + z * z); m[0][1] = 2 * (x * y - w * z);     m[0][2] = 2 * (x * z + w * y);
  m[1][0] = 2 * (x * y + w * z);     m[1][1] = 1 - 2 * (x * x + z * z); m[1][2] = 2 * (y * z - w * x);
  m[2][0] = 2 * (x * z - w * y);     m[2][1] = 2 * (y * z + w * x);     m[2][2] = 1 - 2 * (x * x + y * y);
}

template <typename S, bool A>
static void xfmCases(const std::string &tn, long nCases, int stream)
{
  typedef rk::vec_t<S, 3, A> V;
  typedef rk::LinearSpace3<V> L;
  typedef rk::AffineSpaceT<L> AS;
  typedef rk::box_t<S, 3, A> B;
  g_types.push_back("xfmBounds<" + tn + ">");
  const std::string K = "C05:xfmBounds." + tn + ":";
  long nPtsChecked = 0, nSpecial = 0, nEmpty = 0;
  for (long k = 0; k < nCases; ++k) {
    if (!vh::wantCase(k))
      continue;
    vh::Rng r(vh::seed() * 1000003ull + (uint64_t)k, stream);
    // ---- map: M[row][col], image_i = sum_j M[i][j] p_j + t_i
    double Md[3][3] = {{0, 0, 0}, {0, 0, 0}, {0, 0, 0}};
    std::string mk;
    int mkind = (int)r.below(10);
    if (mkind == 0) {
      mk = "identity";
      Md[0][0] = Md[1][1] = Md[2][2] = 1;
    } else if (mkind == 1) {
      mk          = "signed-permutation";
      int perm[3] = {0, 1, 2};
      for (int i = 2; i > 0; --i) {
        int j = (int)r.below(i + 1), t = perm[i];
        perm[i] = perm[j];
        perm[j] = t;
      }
      for (int i = 0; i < 3; ++i)
        Md[i][perm[i]] = r.chance(1, 2) ? 1 : -1;
    } else if (mkind == 2) {
      mk                         = "axis-scale";
      static const double sc[] = {-2, -1, -0.5, 0.5, 1, 2, 3};
      for (int i = 0; i < 3; ++i)
        Md[i][i] = sc[r.below(7)];
    } else if (mkind == 3) {
      mk = "shear";
      Md[0][0] = Md[1][1] = Md[2][2] = 1;
      int i = (int)r.below(3), j = (i + 1 + (int)r.below(2)) % 3;
      Md[i][j] = (double)r.range(-4, 4) * 0.5;
    } else {
      mk = "R1*diag*R2 (cond<=64)";
      double r1[3][3], r2[3][3], s[3];
      quatToMat(r, r1);
      quatToMat(r, r2);
      for (int i = 0; i < 3; ++i)
        s[i] = std::pow(2.0, r.real(-3, 3));
      for (int i = 0; i < 3; ++i)
        for (int j = 0; j < 3; ++j)
          for (int l = 0; l < 3; ++l)
            Md[i][j] += r1[i][l] * s[l] * r2[l][j];
    }
    if (mkind < 4)
      ++nSpecial;
    S M[3][3], t[3];
    for (int i = 0; i < 3; ++i) {
      for (int j = 0; j < 3; ++j)
        M[i][j] = (S)Md[i][j];
      t[i] = (S)(r.chance(1, 2) ? (double)r.range(-6, 6) * 0.5 : r.real(-4, 4));
    }
    AS m(L(V(M[0][0], M[1][0], M[2][0]), V(M[0][1], M[1][1], M[2][1]), V(M[0][2], M[1][2], M[2][2])), V(t[0], t[1], t[2]));
    // ---- box
    S lo[3], hi[3];
    bool arbitrary = r.chance(1, 4), canon = r.chance(1, 40);
    for (int i = 0; i < 3; ++i) {
      double a = arbitrary ? r.real(-8, 8) : (double)r.range(-8, 8) * 0.5, b = arbitrary ? r.real(-8, 8) : (double)r.range(-8, 8) * 0.5;
      if (!arbitrary && r.chance(1, 8))
        b = a;
      lo[i] = (S)(a < b ? a : b);
      hi[i] = (S)(a < b ? b : a);
    }
    if (canon) {
      B out = rk::xfmBounds(m, B());  // only required not to crash; an empty box has no points
      (void)out;
      ++nEmpty;
      continue;
    }
    B b(V(lo[0], lo[1], lo[2]), V(hi[0], hi[1], hi[2]));
    B out = rk::xfmBounds(m, b);
    LD olo[3] = {(LD)out.lower.x, (LD)out.lower.y, (LD)out.lower.z}, ohi[3] = {(LD)out.upper.x, (LD)out.upper.y, (LD)out.upper.z};
    // ---- tolerance: xfmPoint is three float multiply-adds
    LD tol[3];
    for (int i = 0; i < 3; ++i) {
      LD sum = fabsl((LD)t[i]);
      for (int j = 0; j < 3; ++j) {
        LD mx = fabsl((LD)lo[j]) > fabsl((LD)hi[j]) ? fabsl((LD)lo[j]) : fabsl((LD)hi[j]);
        sum += fabsl((LD)M[i][j]) * mx;
      }
      tol[i] = 8 * (LD)FLT_EPSILON * sum + 1e-30L;
    }
    char buf[700];
    snprintf(buf, sizeof buf, "#%ld %s map=%s l=[%g %g %g; %g %g %g; %g %g %g] p=(%g,%g,%g) box=[(%g,%g,%g)..(%g,%g,%g)] -> [(%.9g,%.9g,%.9g)..(%.9g,%.9g,%.9g)]", k, tn.c_str(),
             mk.c_str(), (double)M[0][0], (double)M[0][1], (double)M[0][2], (double)M[1][0], (double)M[1][1], (double)M[1][2], (double)M[2][0], (double)M[2][1], (double)M[2][2],
             (double)t[0], (double)t[1], (double)t[2], (double)lo[0], (double)lo[1], (double)lo[2], (double)hi[0], (double)hi[1], (double)hi[2], (double)olo[0], (double)olo[1],
             (double)olo[2], (double)ohi[0], (double)ohi[1], (double)ohi[2]);
    std::string ctx = buf;
    bool nanOut = false;
    for (int i = 0; i < 3; ++i)
      nanOut |= olo[i] != olo[i] || ohi[i] != ohi[i];
    VH_CHECK(!nanOut, K + "nan-bound", "result has a NaN bound", ctx);
    // ---- points of the box: 8 corners, then edge / face / interior points
    LD touchLo[3] = {INFINITY, INFINITY, INFINITY}, touchHi[3] = {INFINITY, INFINITY, INFINITY};
    const int nExtra = 12;
    bool fired = false;
    for (int pi = 0; pi < 8 + nExtra && !fired; ++pi) {
      LD p[3];
      for (int j = 0; j < 3; ++j) {
        if (pi < 8)
          p[j] = ((pi >> (2 - j)) & 1) ? (LD)hi[j] : (LD)lo[j];
        else {
          int c = (int)r.below(4);
          LD u  = c == 0 ? 0 : c == 1 ? 1 : (LD)r.unit();
          p[j]  = (LD)lo[j] + u * ((LD)hi[j] - (LD)lo[j]);
          if (p[j] < (LD)lo[j]) p[j] = lo[j];
          if (p[j] > (LD)hi[j]) p[j] = hi[j];
        }
      }
      for (int i = 0; i < 3 && !fired; ++i) {
        LD q = (LD)t[i];
        for (int j = 0; j < 3; ++j)
          q += (LD)M[i][j] * p[j];
        if (!(q >= olo[i] - tol[i] && q <= ohi[i] + tol[i])) {
          vh::violation(K + (pi < 8 ? "image-of-corner-outside" : "image-of-box-point-outside"),
                        "point (" + numL(p[0]) + "," + numL(p[1]) + "," + numL(p[2]) + ") maps to coordinate " + std::to_string(i) + " = " + numL(q) + ", outside [" + numL(olo[i]) + "," +
                            numL(ohi[i]) + "] by more than " + numL(tol[i]),
                        ctx);
          fired = true;
        }
        if (pi < 8) {
          LD dl = fabsl(q - olo[i]), dh = fabsl(q - ohi[i]);
          if (dl < touchLo[i]) touchLo[i] = dl;
          if (dh < touchHi[i]) touchHi[i] = dh;
        }
      }
      ++nPtsChecked;
    }
    for (int i = 0; i < 3 && !fired; ++i)
      if (!(touchLo[i] <= tol[i] && touchHi[i] <= tol[i])) {
        vh::violation(K + "face-not-touched-by-any-corner-image",
                      "axis " + std::to_string(i) + ": nearest corner image is " + numL(touchLo[i]) + " from the lower and " + numL(touchHi[i]) + " from the upper face (tolerance " +
                          numL(tol[i]) + ")",
                      ctx);
        fired = true;
      }
    uint64_t h = vh::hash64(13, stream);
    for (int i = 0; i < 3; ++i) {
      for (int j = 0; j < 3; ++j)
        h = vh::hash64(h, bitsOf((double)M[i][j]));
      h = vh::hash64(h, bitsOf((double)t[i]));
      h = vh::hash64(h, bitsOf((double)lo[i]));
      h = vh::hash64(h, bitsOf((double)hi[i]));
    }
    vh::evaluated(h, mkind != 0);
    if (k < 2)
      vh::sample(vh::J().kv("kind", "xfmBounds").kv("case", ctx).str(), 24);
  }
  vh::count(("xfmBounds_cases." + tn).c_str(), nCases);
  vh::count("xfmBounds_box_points_checked", nPtsChecked);
  vh::count("xfmBounds_exact_special_maps", nSpecial);
  vh::count("xfmBounds_default_empty_box_runs", nEmpty);
  vh::evaluatedN(nPtsChecked);
}

// ------------------------------------------------------------------ main
// ---- integer boxes whose bounds sit at the far ends of the element type: the predicates are comparisons of bounds and
// must not depend on differences of coordinates fitting the type (UBSan watches the library for signed overflow)
template <int N>
static void extremeIntBoxes(const std::string &tn, long nPairs, int stream)
{
  typedef rk::box_t<int, N> B;
  typedef rk::vec_t<int, N> V;
  static const long long P[] = {-2147483647LL - 1, -2147483647LL, -2147483000LL, -7, -1, 0, 1, 5, 2147483000LL, 2147483646LL, 2147483647LL};
  vh::Rng r(vh::seed(), 5000 + (uint64_t)stream);
  long bad = 0;
  for (long k = 0; k < nPairs && bad < 3; ++k) {
    long long lo[2][4], up[2][4];
    B bx[2];
    for (int q = 0; q < 2; ++q)
      for (int i = 0; i < N; ++i) {
        long long a = P[r.below(11)], b = P[r.below(11)];
        if (a > b && !r.chance(1, 10)) {
          long long t = a;
          a = b, b = t;
        }
        lo[q][i] = a, up[q][i] = b;
        bx[q].lower[i] = (int)a, bx[q].upper[i] = (int)b;
      }
    bool ne[2] = {true, true}, meets = true;
    for (int q = 0; q < 2; ++q)
      for (int i = 0; i < N; ++i)
        ne[q] = ne[q] && lo[q][i] <= up[q][i];
    for (int i = 0; i < N; ++i)
      meets = meets && std::max(lo[0][i], lo[1][i]) <= std::min(up[0][i], up[1][i]);
    meets = meets && ne[0] && ne[1];
    std::string ctx = "#" + std::to_string(k) + " " + tn + " a=[" + std::to_string(lo[0][0]) + ".." + std::to_string(up[0][0]) + ",...] b=[" + std::to_string(lo[1][0]) + ".." + std::to_string(up[1][0]) + ",...] (bounds at the ends of int)";
    bool okk = bx[0].empty() == !ne[0] && bx[1].empty() == !ne[1];
    okk = okk && rk::disjoint(bx[0], bx[1]) == !meets && rk::disjoint(bx[1], bx[0]) == !meets;
    B is = rk::intersectionOf(bx[0], bx[1]);
    if (ne[0] && ne[1]) {
      okk = okk && is.empty() == !meets;
      for (int i = 0; i < N; ++i)
        okk = okk && is.lower[i] == (int)std::max(lo[0][i], lo[1][i]) && is.upper[i] == (int)std::min(up[0][i], up[1][i]);
    }
    V corner;
    for (int i = 0; i < N; ++i)
      corner[i] = bx[1].lower[i];
    bool inA = ne[0];
    for (int i = 0; i < N; ++i)
      inA = inA && lo[0][i] <= lo[1][i] && lo[1][i] <= up[0][i];
    okk = okk && bx[0].contains(corner) == inA;
    if (!okk) {
      ++bad;
      vh::violation("C05:extreme-int." + tn + ":predicates-disagree-with-bounds", "empty/disjoint/intersectionOf/contains of boxes with bounds near INT_MIN / INT_MAX disagree with the comparison of their bounds", ctx);
    }
    vh::count("extreme_int_box_pairs");
  }
}
template <int N>
static void extremeIntTouching(const std::string &tn, long nPairs, int stream)
{
  typedef rk::box_t<int, N> B;
  static const long long P[] = {-2147483647LL - 1, -2147483647LL, -7, 0, 5, 2147483646LL, 2147483647LL};
  vh::Rng r(vh::seed(), 5100 + (uint64_t)stream);
  long bad = 0;
  for (long k = 0; k < nPairs && bad < 3; ++k) {
    long long lo[2][3], up[2][3];
    B bx[2];
    bool ne[2] = {true, true}, meets = true;
    for (int q = 0; q < 2; ++q)
      for (int i = 0; i < N; ++i) {
        long long a = P[r.below(7)], b = P[r.below(7)];
        if (a > b && !r.chance(1, 10)) {
          long long t = a;
          a = b, b = t;
        }
        lo[q][i] = a, up[q][i] = b;
        bx[q].lower[i] = (int)a, bx[q].upper[i] = (int)b;
        ne[q] = ne[q] && a <= b;
      }
    for (int i = 0; i < N; ++i)
      meets = meets && std::max(lo[0][i], lo[1][i]) <= std::min(up[0][i], up[1][i]);
    meets = meets && ne[0] && ne[1];
    if (rk::touchingOrOverlapping(bx[0], bx[1]) != meets || rk::touchingOrOverlapping(bx[1], bx[0]) != meets) {
      ++bad;
      vh::violation("C05:extreme-int." + tn + ":touchingOrOverlapping", std::string("touchingOrOverlapping is ") + (meets ? "false" : "true") + " for boxes that " + (meets ? "have" : "have no") + " common point",
                    "#" + std::to_string(k) + " " + tn + " a.x=[" + std::to_string(lo[0][0]) + "," + std::to_string(up[0][0]) + "] b.x=[" + std::to_string(lo[1][0]) + "," + std::to_string(up[1][0]) + "] a.y=[" + std::to_string(lo[0][1]) + "," +
                        std::to_string(up[0][1]) + "] b.y=[" + std::to_string(lo[1][1]) + "," + std::to_string(up[1][1]) + "]");
    }
    vh::count("extreme_int_touching_pairs");
  }
}

int main(int argc, char **argv)
{
  vh::init(argc, argv);
  vh::rule(
      "boxes: bounds from an integer (int types) / half-integer (float types) lattice, index range +-6/4/3/2 for dimension 1/2/3/4; "
      "1-D ranges: every (lower,upper) combination incl. inverted + the default box, all ordered pairs; higher dimensions: seeded random pairs "
      "(6% default-empty, 8% inverted, 12% degenerate, 40% of second operands placed relative to the first: equal / nested / touching / one step apart / "
      "corner touch / overlapping); every pair is evaluated on every lattice point of the cube one step larger than the bound range. rays and affine maps: "
      "seeded random over lattice and arbitrary-float boxes; integer boxes with bounds at the ends of int against comparisons of their bounds. distinct = hash of (type, bounds of both boxes) resp. (box, ray, tRange) resp. (map, box); "
      "non-trivial = at least one operand non-empty / box non-empty / map not the identity");

  int id = 0;
  BoxCheck<rk::range1i> c1i("range1i", ++id);
  BoxCheck<rk::range1f> c1f("range1f", ++id);
  BoxCheck<rk::range_t<double> > c1d("range1d", ++id);
  BoxCheck<rk::box2i> c2i("box2i", ++id);
  BoxCheck<rk::box2f> c2f("box2f", ++id);
  BoxCheck<rk::box3i> c3i("box3i", ++id);
  BoxCheck<rk::box3f> c3f("box3f", ++id);
  BoxCheck<rk::box3fa> c3fa("box3fa", ++id);
  BoxCheck<rk::box4i> c4i("box4i", ++id);
  BoxCheck<rk::box4f> c4f("box4f", ++id);

  c1i.directed();
  c1f.directed();
  c1d.directed();
  c2i.directed();
  c2f.directed();
  c3i.directed();
  c3f.directed();
  c3fa.directed();
  c4i.directed();
  c4f.directed();

  c1i.runExhaustive1D();
  c1f.runExhaustive1D();
  c1d.runExhaustive1D();
  c2i.runRandom(vh::tier(12000, 400000), 21);
  c2f.runRandom(vh::tier(12000, 400000), 22);
  c3i.runRandom(vh::tier(6000, 150000), 31);
  c3f.runRandom(vh::tier(6000, 150000), 32);
  c3fa.runRandom(vh::tier(6000, 150000), 33);
  c4i.runRandom(vh::tier(2500, 40000), 41);
  c4f.runRandom(vh::tier(2500, 40000), 42);
  c1i.finish();
  c1f.finish();
  c1d.finish();
  c2i.finish();
  c2f.finish();
  c3i.finish();
  c3f.finish();
  c3fa.finish();
  c4i.finish();
  c4f.finish();

  extremeIntBoxes<2>("box2i", vh::tier(20000, 400000), 1);
  extremeIntBoxes<3>("box3i", vh::tier(20000, 400000), 2);
  extremeIntBoxes<4>("box4i", vh::tier(10000, 200000), 3);
  extremeIntTouching<2>("box2i", vh::tier(20000, 400000), 4);
  extremeIntTouching<3>("box3i", vh::tier(20000, 400000), 5);

  convCheck(c2i, c2f, 2000);
  convCheck(c3i, c3f, 2000);
  convCheck(c4i, c4f, 2000);
  convCheck(c1i, c1f, 2000);

  rayCases<float, 2>("box2f", vh::tier(100000, 1500000), 51);
  rayCases<float, 3>("box3f", vh::tier(100000, 1500000), 52);
  rayCases<double, 2>("box2d", vh::tier(100000, 1500000), 53);
  rayCases<double, 3>("box3d", vh::tier(100000, 1500000), 54);

  xfmCases<float, false>("box3f", vh::tier(60000, 1000000), 71);
  xfmCases<float, true>("box3fa", vh::tier(60000, 1000000), 72);
  xfmCases<double, false>("box3d", vh::tier(30000, 500000), 73);

  std::string types;
  for (size_t i = 0; i < g_types.size(); ++i)
    types += (i ? " " : "") + g_types[i];
  vh::note("types_instantiated", types);
  vh::note("families",
           "constructors(default,EmptyTy,ZeroTy,OneTy,value,lower/upper,pointer,converting) empty contains extend(point) extend(range) clamp size center center(box) "
           "area volume operator* (both orders) operator+ (both orders) operator== operator!= pointer-view intersectionOf disjoint touchingOrOverlapping "
           "intersectRayBox xfmBounds");
  vh::note("not_judged",
           "size/center/scale/translate of the default-constructed box (INT_MAX/INT_MIN arithmetic overflows for int), clamp on empty boxes, extend with an inverted "
           "operand, area/volume of empty boxes, xfmBounds of the default box (run, not judged), range_t::fromString (declared, never defined)");
  return vh::finish();
}
