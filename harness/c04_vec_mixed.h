// C04 - families over a pair of element types (T,U): mixed-type binary operators, compound
// assignment (incl. U == T) and converting construction.  Included by c04_vec_m?_<type>.cpp.
//
// To keep the amount of generated code down, one function handles all shapes of a family:
// the operand tuple and the scalar reference are computed once per tuple (4 components), then
// every shape (2, 3, 3a, 4 and the 3/3a mixtures) is driven with its leading components.
#pragma once
#include "c04_vec_same.h"

namespace c04 {

// The driver code of the (T,U) families only moves values through the data members of local
// vec_t objects; it is compiled without ASan instrumentation to bound the compile time of the
// ~10^4 instantiations.  The rkcommon templates it calls are not inlined into it (GCC does
// not inline across this attribute) and stay fully instrumented by ASan and UBSan.
#define C04_NOASAN __attribute__((no_sanitize_address))

  // triples of a (family set, T, U) block, created/destroyed out of line
  struct TripleSet
  {
    Triple *t[24];
    int n;
    TripleSet() : n(0) {}
  };
  __attribute__((noinline)) inline int addTriple(TripleSet &s, const char *fam, const char *t1, const char *shape, const char *t2)
  {
    s.t[s.n] = new Triple(fam, t1, shape, t2);
    return s.n++;
  }
  __attribute__((noinline)) inline void endTriples(TripleSet &s)
  {
    for (int i = 0; i < s.n; ++i)
      delete s.t[i];
    s.n = 0;
  }

  // ---------------------------------------------------------------- mixed binary operators (T != U)
  template <typename T, typename U, int OP, typename SH, typename C>
  C04_NOASAN inline void stepMixedBin(Triple **t, long k, const T *a, const U *b, const T *a2, U sb, T sa, const U *b2, const C *rvv, const C *rvs, const C *rsv)
  {
    typedef typename SH::template V<T>::type VT;
    typedef typename SH::template V<U>::type VU;
    typedef typename SH::template V<C>::type VR;  // same shape and alignment as the operands
    const int N = SH::N;
    VT va;
    VU vb;
    put(va, a);
    put(vb, b);
    C04_CHECK_VEC(VR, *t[0], k, ap(Op<OP>(), va, vb), rvv, N, "a", a, N, "b", b, N);
    t[0]->tick(k);
    put(va, a2);
    C04_CHECK_VEC(VR, *t[1], k, ap(Op<OP>(), va, sb), rvs, N, "a", a2, N, "s", &sb, 1);
    t[1]->tick(k);
    put(vb, b2);
    C04_CHECK_VEC(VR, *t[2], k, ap(Op<OP>(), sa, vb), rsv, N, "s", &sa, 1, "b", b2, N);
    t[2]->tick(k);
  }

  template <typename T, typename U, int OP>
  C04_NOASAN __attribute__((noinline)) void famMixedBin(vh::Rng &r)
  {
    typedef decltype(ap(Op<OP>(), T(), U())) C;
    TripleSet ts;
    static const char *shapes[4] = {"2", "3", "3a", "4"};
    for (int s = 0; s < 4; ++s)
      for (int f = 0; f < 3; ++f)
        addTriple(ts, famName(OP, f), TN<T>::name(), shapes[s], TN<U>::name());
    for (long k = 0; k < tuplesMixed(); ++k) {
      T a[4], a2[4], sa;
      U b[4], b2[4], sb;
      C rvv[4], rvs[4], rsv[4];
      drawVV<T, U, OP, false>(r, a, b);
      drawVS<T, U, OP, false>(r, a2, sb);
      drawSV<T, U, OP>(r, sa, b2);
      for (int i = 0; i < 4; ++i) {
        rvv[i] = ap(Op<OP>(), a[i], b[i]);
        rvs[i] = ap(Op<OP>(), a2[i], sb);
        rsv[i] = ap(Op<OP>(), sa, b2[i]);
      }
      if (k < 1 && OP == DIV) {
        Ops o, e;
        opsAdd(o, "a", a, 4);
        opsAdd(o, "b", b, 4);
        opsAdd(e, "reference", rvv, 4);
        sampleCase(*ts.t[9], o, e);
      }
      stepMixedBin<T, U, OP, S2, C>(ts.t + 0, k, a, b, a2, sb, sa, b2, rvv, rvs, rsv);
      stepMixedBin<T, U, OP, S3, C>(ts.t + 3, k, a, b, a2, sb, sa, b2, rvv, rvs, rsv);
      stepMixedBin<T, U, OP, S3a, C>(ts.t + 6, k, a, b, a2, sb, sa, b2, rvv, rvs, rsv);
      stepMixedBin<T, U, OP, S4, C>(ts.t + 9, k, a, b, a2, sb, sa, b2, rvv, rvs, rsv);
    }
    endTriples(ts);
  }

  // ---------------------------------------------------------------- compound assignment (any U)
  template <typename T, typename U, int OP, typename SA, typename SB>
  C04_NOASAN inline void stepAssignVV(Triple &tr, long k, const T *a, const U *b, const T *ref)
  {
    typedef typename SA::template V<T>::type VT;
    typedef typename SB::template V<U>::type VU;
    const int N = SA::N;
    VT va;
    VU vb;
    T got[4];
    put(va, a);
    put(vb, b);
    VT &ret = cap(Op<OP>(), va, vb);
    if (&ret != &va)
      failText(tr, k, "returned-reference", "compound assignment does not return its left operand", Ops());
    get(va, got);
    C04_CHECK_ARR(tr, k, "component-value", got, ref, N, "a", a, N, "b", b, N);
    tr.tick(k);
  }
  template <typename T, typename U, int OP, typename SH>
  C04_NOASAN inline void stepAssignVS(Triple &tr, long k, const T *a, U s, const T *ref)
  {
    typedef typename SH::template V<T>::type VT;
    const int N = SH::N;
    VT va;
    T got[4];
    put(va, a);
    VT &ret = cap(Op<OP>(), va, s);
    if (&ret != &va)
      failText(tr, k, "returned-reference", "compound assignment does not return its left operand", Ops());
    get(va, got);
    C04_CHECK_ARR(tr, k, "component-value", got, ref, N, "a", a, N, "s", &s, 1);
    tr.tick(k);
  }

  template <typename T, typename U, int OP>
  C04_NOASAN __attribute__((noinline)) void famAssign(vh::Rng &r)
  {
    TripleSet ts;
    const char *tn = TN<T>::name(), *un = TN<U>::name();
    const int v2 = addTriple(ts, famName(OP, 3), tn, "2", un), v3 = addTriple(ts, famName(OP, 3), tn, "3", un), v33a = addTriple(ts, famName(OP, 3), tn, "3x3a", un),
              v3a = addTriple(ts, famName(OP, 3), tn, "3a", un), v3a3 = addTriple(ts, famName(OP, 3), tn, "3ax3", un), v4 = addTriple(ts, famName(OP, 3), tn, "4", un),
              s2 = addTriple(ts, famName(OP, 4), tn, "2", un), s3 = addTriple(ts, famName(OP, 4), tn, "3", un), s3a = addTriple(ts, famName(OP, 4), tn, "3a", un),
              s4 = addTriple(ts, famName(OP, 4), tn, "4", un);
    for (long k = 0; k < tuplesMixed(); ++k) {
      T a[4], a2[4], rv[4], rs[4];
      U b[4], s;
      drawVV<T, U, OP, true>(r, a, b);
      drawVS<T, U, OP, true>(r, a2, s);
      for (int i = 0; i < 4; ++i) {
        T x = a[i];
        cap(Op<OP>(), x, b[i]);
        rv[i] = x;
        x     = a2[i];
        cap(Op<OP>(), x, s);
        rs[i] = x;
      }
      stepAssignVV<T, U, OP, S2, S2>(*ts.t[v2], k, a, b, rv);
      stepAssignVV<T, U, OP, S3, S3>(*ts.t[v3], k, a, b, rv);
      stepAssignVV<T, U, OP, S3, S3a>(*ts.t[v33a], k, a, b, rv);
      stepAssignVV<T, U, OP, S3a, S3a>(*ts.t[v3a], k, a, b, rv);
      stepAssignVV<T, U, OP, S3a, S3>(*ts.t[v3a3], k, a, b, rv);
      stepAssignVV<T, U, OP, S4, S4>(*ts.t[v4], k, a, b, rv);
      stepAssignVS<T, U, OP, S2>(*ts.t[s2], k, a2, s, rs);
      stepAssignVS<T, U, OP, S3>(*ts.t[s3], k, a2, s, rs);
      stepAssignVS<T, U, OP, S3a>(*ts.t[s3a], k, a2, s, rs);
      stepAssignVS<T, U, OP, S4>(*ts.t[s4], k, a2, s, rs);
    }
    endTriples(ts);
  }

  // ---------------------------------------------------------------- conversions U -> T
  template <typename T, typename U>
  struct ConvPred
  {
    bool operator()(U v) const { return convOk<T, U>(v); }
  };
  template <typename T, typename U>
  __attribute__((noinline)) void fillConv(vh::Rng &r, U *u)
  {
    int nb = Gen<T>::BITS - 1 < Gen<U>::NARROW ? Gen<T>::BITS - 1 : Gen<U>::NARROW;
    fillPred(r, u, ConvPred<T, U>(), nb);
  }

  // VT(vu), t = vu, and (same shape class) static_cast<VT>(vu), VT(scalar of type U)
  template <typename T, typename U, typename ST, typename SU>
  C04_NOASAN inline void stepConvert(Triple &tc, long k, const U *u, const T *ref)
  {
    typedef typename ST::template V<T>::type VT;
    typedef typename SU::template V<U>::type VU;
    const int N = ST::N;
    T got[4];
    VU vu;
    put(vu, u);
    VT t(vu);
    get(t, got);
    C04_CHECK_ARR(tc, k, "component-value", got, ref, N, "source", u, N);
    VT t2 = VT();
    t2    = vu;  // converting assignment goes through the same constructor / conversion operator
    get(t2, got);
    C04_CHECK_ARR(tc, k, "assign-component-value", got, ref, N, "source", u, N);
    tc.tick(k);
  }
  template <typename T, typename U, typename SH>
  C04_NOASAN inline void stepCast(Triple &tc, Triple &tb, long k, const U *u, const T *ref)
  {
    typedef typename SH::template V<T>::type VT;
    typedef typename SH::template V<U>::type VU;
    const int N = SH::N;
    T got[4];
    VU vu;
    put(vu, u);
    VT t = static_cast<VT>(vu);
    get(t, got);
    C04_CHECK_ARR(tc, k, "component-value", got, ref, N, "source", u, N);
    tc.tick(k);
    VT bc(u[0]);  // broadcast from a scalar of type U
    const T rb[4] = {ref[0], ref[0], ref[0], ref[0]};
    get(bc, got);
    C04_CHECK_ARR(tb, k, "component-value", got, rb, N, "s", u, 1);
    tb.tick(k);
  }

  template <typename T, typename U>
  C04_NOASAN __attribute__((noinline)) void famConvert(vh::Rng &r)
  {
    TripleSet ts;
    const char *tn = TN<T>::name(), *un = TN<U>::name();
    const int c2 = addTriple(ts, "convert_ctor", tn, "2", un), c3 = addTriple(ts, "convert_ctor", tn, "3", un), c33a = addTriple(ts, "convert_ctor", tn, "3<-3a", un),
              c3a = addTriple(ts, "convert_ctor", tn, "3a", un), c3a3 = addTriple(ts, "convert_ctor", tn, "3a<-3", un), c4 = addTriple(ts, "convert_ctor", tn, "4", un),
              k2 = addTriple(ts, "static_cast", tn, "2", un), k3 = addTriple(ts, "static_cast", tn, "3", un), k3a = addTriple(ts, "static_cast", tn, "3a", un),
              k4 = addTriple(ts, "static_cast", tn, "4", un), b2 = addTriple(ts, "ctor_broadcast_convert", tn, "2", un),
              b3 = addTriple(ts, "ctor_broadcast_convert", tn, "3", un), b3a = addTriple(ts, "ctor_broadcast_convert", tn, "3a", un),
              b4 = addTriple(ts, "ctor_broadcast_convert", tn, "4", un), e3 = addTriple(ts, "ctor_vec2_z", tn, "3", un), e3a = addTriple(ts, "ctor_vec2_z", tn, "3a", un),
              e22 = addTriple(ts, "ctor_vec2_vec2", tn, "4", un), e3w = addTriple(ts, "ctor_vec3_w", tn, "4<-3", un), e3aw = addTriple(ts, "ctor_vec3_w", tn, "4<-3a", un);
    for (long k = 0; k < tuplesMixed(); ++k) {
      U u[4], u2[4];
      T ref[4], w[4], got[4], e[4];
      fillConv<T, U>(r, u);
      fillConv<T, U>(r, u2);
      fillAny(r, w);
      for (int i = 0; i < 4; ++i)
        ref[i] = (T)u[i];
      stepConvert<T, U, S2, S2>(*ts.t[c2], k, u, ref);
      stepConvert<T, U, S3, S3>(*ts.t[c3], k, u, ref);
      stepConvert<T, U, S3, S3a>(*ts.t[c33a], k, u, ref);
      stepConvert<T, U, S3a, S3a>(*ts.t[c3a], k, u, ref);
      stepConvert<T, U, S3a, S3>(*ts.t[c3a3], k, u, ref);
      stepConvert<T, U, S4, S4>(*ts.t[c4], k, u, ref);
      stepCast<T, U, S2>(*ts.t[k2], *ts.t[b2], k, u, ref);
      stepCast<T, U, S3>(*ts.t[k3], *ts.t[b3], k, u, ref);
      stepCast<T, U, S3a>(*ts.t[k3a], *ts.t[b3a], k, u, ref);
      stepCast<T, U, S4>(*ts.t[k4], *ts.t[b4], k, u, ref);
      // vec3(vec2<U>, z), vec3a(vec2<U>, z)
      vec_t<U, 2> p, q;
      put(p, u);
      put(q, u2);
      e[0] = ref[0];
      e[1] = ref[1];
      e[2] = w[0];
      {
        vec_t<T, 3> t(p, w[0]);
        get(t, got);
        C04_CHECK_ARR(*ts.t[e3], k, "component-value", got, e, 3, "xy", u, 2, "z", w, 1);
        ts.t[e3]->tick(k);
        vec_t<T, 3, true> ta(p, w[0]);
        get(ta, got);
        C04_CHECK_ARR(*ts.t[e3a], k, "component-value", got, e, 3, "xy", u, 2, "z", w, 1);
        ts.t[e3a]->tick(k);
      }
      // vec4(vec2<U>, vec2<U>)
      e[2] = (T)u2[0];
      e[3] = (T)u2[1];
      {
        vec_t<T, 4> t(p, q);
        get(t, got);
        C04_CHECK_ARR(*ts.t[e22], k, "component-value", got, e, 4, "first", u, 2, "second", u2, 2);
        ts.t[e22]->tick(k);
      }
      // vec4(vec3<U>, w), vec4(vec3a<U>, w)
      e[2] = ref[2];
      e[3] = w[1];
      {
        vec_t<U, 3> s;
        put(s, u);
        vec_t<T, 4> t(s, w[1]);
        get(t, got);
        C04_CHECK_ARR(*ts.t[e3w], k, "component-value", got, e, 4, "xyz", u, 3, "w", w + 1, 1);
        ts.t[e3w]->tick(k);
        vec_t<U, 3, true> sa;
        put(sa, u);  // padding_ = u[3]: must not leak into w
        vec_t<T, 4> t2(sa, w[1]);
        get(t2, got);
        C04_CHECK_ARR(*ts.t[e3aw], k, "component-value", got, e, 4, "xyz", u, 3, "w", w + 1, 1);
        ts.t[e3aw]->tick(k);
      }
    }
    endTriples(ts);
  }

  // ---------------------------------------------------------------- one pair (T,U)
  template <typename T, typename U>
  inline void mixedBinAll(vh::Rng &r, std::true_type /*T != U*/)
  {
    famMixedBin<T, U, ADD>(r);
    famMixedBin<T, U, SUB>(r);
    famMixedBin<T, U, MUL>(r);
    famMixedBin<T, U, DIV>(r);
  }
  template <typename T, typename U> inline void mixedBinAll(vh::Rng &, std::false_type) { }
  template <typename T, typename U> inline void mixedModBin(vh::Rng &r, std::true_type) { famMixedBin<T, U, MOD>(r); }
  template <typename T, typename U> inline void mixedModBin(vh::Rng &, std::false_type) { }
  template <typename T, typename U>
  inline void mixedMod(vh::Rng &r, std::true_type /*both integral*/)
  {
    famAssign<T, U, MOD>(r);
    mixedModBin<T, U>(r, std::integral_constant<bool, !std::is_same<T, U>::value>());
  }
  template <typename T, typename U> inline void mixedMod(vh::Rng &, std::false_type) { }

  template <typename T, typename U>
  inline void runPair(vh::Rng &r)
  {
    mixedBinAll<T, U>(r, std::integral_constant<bool, !std::is_same<T, U>::value>());
    famAssign<T, U, ADD>(r);
    famAssign<T, U, SUB>(r);
    famAssign<T, U, MUL>(r);
    famAssign<T, U, DIV>(r);
    mixedMod<T, U>(r, std::integral_constant<bool, std::is_integral<T>::value && std::is_integral<U>::value>());
    famConvert<T, U>(r);
  }

}  // namespace c04
