// C16 - readXML: total + memory-safe on arbitrary bytes (deterministic truncation and
// substitution sweeps of generated documents under ASan/UBSan; the coverage-guided part is
// c16_fuzz.cpp), and faithful on the documented subset (generated tree -> independent
// serializer -> readXML -> compare).
#include "vh.h"

#include <iostream>
#include <map>
#include <stdexcept>

#include <sys/syscall.h>

#include "rkcommon/xml/XML.h"

using namespace rkcommon;

// ------------------------------------------------------------------ file plumbing
static int g_fd = -1;
static std::string g_path;
// readXML reads from a memfd (no disk I/O).  The bytes of the current input are also copied
// into a shared file mapping named after the pid: if the process dies inside readXML that file
// still holds the input that killed it and the driver attaches it to the violation.
static unsigned char *g_rec = 0;
static const size_t REC_CAP = 1 << 16;
static std::string g_recPath;
static void openScratch()
{
  g_fd   = (int)syscall(SYS_memfd_create, "c16", 0);
  g_path = "/proc/self/fd/" + std::to_string(g_fd);
  g_recPath = vh::st().outDir + "/input." + std::to_string((long long)getpid()) + ".bin";
  int rfd   = open(g_recPath.c_str(), O_RDWR | O_CREAT | O_TRUNC, 0644);
  if (rfd >= 0 && ftruncate(rfd, (off_t)REC_CAP) == 0) {
    void *m = mmap(0, REC_CAP, PROT_READ | PROT_WRITE, MAP_SHARED, rfd, 0);
    if (m != MAP_FAILED)
      g_rec = (unsigned char *)m;
  }
  if (rfd >= 0)
    close(rfd);
}
static void closeScratch()
{
  if (!g_recPath.empty())
    unlink(g_recPath.c_str());
}
static void putFile(const std::string &bytes)
{
  if (g_rec) {
    uint64_t n = bytes.size() < REC_CAP - 8 ? bytes.size() : REC_CAP - 8;
    memcpy(g_rec, &n, 8);
    memcpy(g_rec + 8, bytes.data(), (size_t)n);
  }
  if (ftruncate(g_fd, 0) != 0) {
  }
  size_t off = 0;
  while (off < bytes.size()) {
    ssize_t w = pwrite(g_fd, bytes.data() + off, bytes.size() - off, (off_t)off);
    if (w <= 0)
      break;
    off += (size_t)w;
  }
}

// Resource monitor: readXML must leave the process as it found it whether it returns or throws.
// The number of open descriptors is sampled around calls (cheap: counting /proc/self/fd every
// 64th call and around the first calls); growth means a stream was left open.
static int countOpenFds()
{
  int n = 0;
  for (int fd = 0; fd < 1024; ++fd)
    if (fcntl(fd, F_GETFD) != -1)
      ++n;
  return n;
}
static long g_parseCalls = 0;
static int g_fdBaseline  = -1;
static bool g_fdLeakReported = false;
static void checkFdLeak(const std::string &bytes, int rc)
{
  ++g_parseCalls;
  if (g_fdLeakReported || !(g_parseCalls <= 4 || (g_parseCalls & 63) == 0))
    return;
  int now = countOpenFds();
  if (g_fdBaseline < 0)
    g_fdBaseline = now;
  else if (now > g_fdBaseline) {
    g_fdLeakReported = true;
    std::string p;
    char b[8];
    for (size_t i = 0; i < bytes.size() && p.size() < 300; ++i) {
      unsigned char c = (unsigned char)bytes[i];
      if (c >= 0x20 && c < 0x7f && c != '\\')
        p += (char)c;
      else {
        snprintf(b, sizeof b, "\\x%02x", c);
        p += b;
      }
    }
    vh::violation("C16:readXML:file-left-open", std::to_string(now - g_fdBaseline) + " more open file descriptor(s) than before after " + std::to_string(g_parseCalls) +
                      " readXML calls of this process (streams are not closed on some path; last call " + (rc == 0 ? "returned" : "threw") + ")",
                  "last input: " + p);
  }
}

// returns 0 = document returned, 1 = std::runtime_error, 2 = other std::exception, 3 = something else
static int parseBytesImpl(const std::string &bytes, xml::XMLDoc *out, std::string *what);
static int parseBytes(const std::string &bytes, xml::XMLDoc *out, std::string *what)
{
  if (g_fdBaseline < 0 && g_parseCalls == 0)
    g_fdBaseline = countOpenFds();
  int rc = parseBytesImpl(bytes, out, what);
  checkFdLeak(bytes, rc);
  return rc;
}
static int parseBytesImpl(const std::string &bytes, xml::XMLDoc *out, std::string *what)
{
  putFile(bytes);
  try {
    xml::XMLDoc d = xml::readXML(g_path);
    if (out)
      *out = d;
    return 0;
  } catch (const std::runtime_error &e) {
    if (what)
      *what = e.what();
    return 1;
  } catch (const std::exception &e) {
    if (what)
      *what = e.what();
    return 2;
  } catch (...) {
    return 3;
  }
}

static std::string printable(const std::string &s)
{
  std::string o;
  char b[8];
  for (size_t i = 0; i < s.size() && o.size() < 600; ++i) {
    unsigned char c = (unsigned char)s[i];
    if (c >= 0x20 && c < 0x7f && c != '\\')
      o += (char)c;
    else {
      snprintf(b, sizeof b, "\\x%02x", c);
      o += b;
    }
  }
  return o;
}

// ------------------------------------------------------------------ tree generator + serializer
struct TNode
{
  std::string name;
  std::vector<std::pair<std::string, std::string>> props;  // unique names
  std::string content;                                      // trimmed, no '<'
  int contentPos;                                           // before which child the content run is written
  std::vector<TNode> child;
};

static std::string ident(vh::Rng &r)
{
  static const char first[] = "abcXYZ_q";
  static const char rest[]  = "abcXYZ_019.";
  std::string s(1, first[r.below(sizeof(first) - 1)]);
  int n = (int)r.below(6);
  for (int i = 0; i < n; ++i)
    s += rest[r.below(sizeof(rest) - 1)];
  return s;
}
static std::string valueText(vh::Rng &r, char quote)
{
  static const char alpha[] = "abc XYZ019_.,;:/=>!?-#()[]{}@&%+*~|^\t'\"";
  int n = (int)r.below(12);
  std::string s;
  for (int i = 0; i < n; ++i) {
    char c = alpha[r.below(sizeof(alpha) - 1)];
    if (c == quote)
      c = '_';
    s += c;
  }
  return s;
}
static std::string contentText(vh::Rng &r)
{
  static const char alpha[] = "abcXYZ019_.,;:/=>!?-#()[]{}@&%+*~|^'\" \t\n";
  int n = (int)r.range(1, 14);
  std::string s;
  for (int i = 0; i < n; ++i)
    s += alpha[r.below(sizeof(alpha) - 1)];
  // the reader trims surrounding white space: the model holds the trimmed text
  size_t b = 0, e = s.size();
  while (b < e && (s[b] == ' ' || s[b] == '\t' || s[b] == '\n'))
    ++b;
  while (e > b && (s[e - 1] == ' ' || s[e - 1] == '\t' || s[e - 1] == '\n'))
    --e;
  return s.substr(b, e - b);
}
static int g_maxFanout = 5;  // children per node: below 5, or (large documents) below a few hundred
static TNode genNode(vh::Rng &r, int depth, long &budget)
{
  TNode n;
  n.name = ident(r);
  int np = (int)r.below(4);
  for (int i = 0; i < np; ++i) {
    std::string pn = ident(r);
    bool dup       = false;
    for (size_t j = 0; j < n.props.size(); ++j)
      dup |= n.props[j].first == pn;
    if (!dup)
      n.props.push_back(std::make_pair(pn, std::string()));
  }
  int nc = depth > 0 && budget > 0 ? (int)r.below(g_maxFanout) : 0;
  for (int i = 0; i < nc && budget > 0; ++i) {
    --budget;
    n.child.push_back(genNode(r, depth - 1, budget));
  }
  if (r.chance(1, 3))
    n.content = contentText(r);
  n.contentPos = (int)r.below(n.child.size() + 1);
  return n;
}
static std::string ws(vh::Rng &r, bool atLeastOne)
{
  static const char *W[] = {" ", "  ", "\n", "\t", " \n  ", "\r\n"};
  if (!atLeastOne && r.chance(2, 3))
    return "";
  return W[r.below(6)];
}
static std::string comment(vh::Rng &r)
{
  static const char *C[] = {"<!-- a comment -->", "<!---->", "<!-- <not a=\"node\"/> -->", "<!-- dashes - - and > < -->", "<!--\n multi\n line \n-->"};
  if (r.chance(1, 2))
    return C[r.below(5)];
  // the reader's comment grammar: "<!--", then anything up to the FIRST "-->". Random bodies out of the characters
  // that matter to a scanner (dash runs of every length, '>', '<', quotes, node look-alikes), including banner
  // comments that end in a run of dashes; "--"+body never contains "-->", so the comment ends at its last '>'.
  static const char *B[] = {"-", "--", "---", "----", "-----", ">", "<", " ", " ", "a", "section", "->", "- ", " -", "\n", "<b x='1'/>", "\"", "'", "--!>", "=", "-- >"};
  std::string body;
  for (int tries = 0; tries < 20; ++tries) {
    body.clear();
    for (int i = 0, n = (int)r.below(7); i < n; ++i)
      body += B[r.below(sizeof(B) / sizeof(B[0]))];
    if (("--" + body).find("-->") == std::string::npos)  // the reader scans from right behind "<!"
      return "<!--" + body + "-->";
  }
  return "<!-- -->";
}
// a gap between nodes may hold any number of comments, with or without white space between them
static std::string comments(vh::Rng &r)
{
  std::string out;
  int n = r.chance(2, 3) ? 1 : (int)r.range(2, 3);
  for (int i = 0; i < n; ++i)
    out += comment(r) + ws(r, false);
  return out;
}
static void serialize(vh::Rng &r, TNode &n, std::string &out)
{
  out += "<" + n.name;
  for (size_t i = 0; i < n.props.size(); ++i) {
    char q             = r.chance(1, 2) ? '"' : '\'';
    n.props[i].second  = valueText(r, q);
    out += ws(r, true) + n.props[i].first + ws(r, false) + "=" + ws(r, false) + q + n.props[i].second + q;
  }
  out += ws(r, false);
  if (n.child.empty() && n.content.empty() && r.chance(1, 2)) {
    out += "/>";
    return;
  }
  out += ">";
  for (size_t i = 0; i <= n.child.size(); ++i) {
    out += ws(r, false);
    if (r.chance(1, 5))
      out += comments(r);
    if ((int)i == n.contentPos && !n.content.empty())
      out += n.content + ws(r, false);
    if (i < n.child.size())
      serialize(r, n.child[i], out);
  }
  out += "</" + n.name + ">";
}

static bool sameTree(const TNode &m, const xml::Node &x, std::string &why, const std::string &path)
{
  if (m.name != x.name) {
    why = path + ": name '" + x.name + "' expected '" + m.name + "'";
    return false;
  }
  if (x.properties.size() != m.props.size()) {
    why = path + "/" + m.name + ": " + std::to_string(x.properties.size()) + " properties, expected " + std::to_string(m.props.size());
    return false;
  }
  for (size_t i = 0; i < m.props.size(); ++i) {
    std::map<std::string, std::string>::const_iterator it = x.properties.find(m.props[i].first);
    if (it == x.properties.end() || it->second != m.props[i].second || !x.hasProp(m.props[i].first) || x.getProp(m.props[i].first) != m.props[i].second ||
        x.getProp(m.props[i].first, "fallback") != m.props[i].second) {
      why = path + "/" + m.name + ": property '" + m.props[i].first + "' is '" + (it == x.properties.end() ? "<missing>" : printable(it->second)) + "' expected '" + printable(m.props[i].second) + "'";
      return false;
    }
  }
  if (x.hasProp("no_such_property__") || x.getProp("no_such_property__", "fb") != "fb") {
    why = path + "/" + m.name + ": a property that was never written is reported";
    return false;
  }
  if (x.content != m.content) {
    why = path + "/" + m.name + ": content '" + printable(x.content) + "' expected '" + printable(m.content) + "'";
    return false;
  }
  if (x.child.size() != m.child.size()) {
    why = path + "/" + m.name + ": " + std::to_string(x.child.size()) + " children, expected " + std::to_string(m.child.size());
    return false;
  }
  for (size_t i = 0; i < m.child.size(); ++i)
    if (!sameTree(m.child[i], x.child[i], why, path + "/" + m.name + "[" + std::to_string(i) + "]"))
      return false;
  return true;
}

struct Doc
{
  std::vector<TNode> roots;
  std::string text;
};
static Doc genDoc(vh::Rng &r, int maxDepth, long budget)
{
  Doc d;
  if (r.chance(1, 2)) {
    static const char *H[] = {"<?xml version=\"1.0\"?>", "<?xml?>", "<?xml version='1.0' encoding=\"UTF-8\" ?>", "<?xml  version = \"1.+\"?>"};
    d.text += H[r.below(4)];
  }
  d.text += ws(r, false);
  int nroots = r.chance(3, 4) ? 1 : (int)r.range(0, 3);
  for (int i = 0; i < nroots; ++i) {
    if (r.chance(1, 5))
      d.text += comments(r);
    d.roots.push_back(genNode(r, g_maxFanout != 5 || maxDepth > 6 ? maxDepth : (int)r.below(maxDepth + 1), budget));
    serialize(r, d.roots.back(), d.text);
    d.text += ws(r, false);
  }
  if (r.chance(1, 6))
    d.text += comments(r);
  return d;
}

// ------------------------------------------------------------------ cases
static void roundTripCase(long k)
{
  vh::Rng r(vh::seed(), 16000 + (uint64_t)k);
  // most documents are small; one in a hundred is large: hundreds to thousands of nodes, wide and shallow or narrow
  // and deep (size is an input dimension of its own: counters, depth limits, buffers)
  bool large = k % 100 == 7;
  long budget = 40;
  int depth   = 6;
  if (large) {
    budget      = (long)r.pick(std::vector<long>{300, 1200, 5000});
    g_maxFanout = r.chance(2, 3) ? (int)r.pick(std::vector<int>{40, 400, 2000}) : 3;
    depth       = g_maxFanout > 3 ? (int)r.range(1, 3) : 40;
  }
  Doc d = genDoc(r, depth, budget);
  g_maxFanout = 5;
  std::string ctx = "#" + std::to_string(k) + " document: " + (large ? printable(d.text.substr(0, 1500)) + "... (" + std::to_string(d.text.size()) + " bytes)" : printable(d.text));
  if (large) {
    vh::count("roundtrip_large_documents");
    vh::maxi("roundtrip_largest_document_bytes", (long long)d.text.size());
  }
  xml::XMLDoc x;
  std::string what;
  int rc = parseBytes(d.text, &x, &what);
  if (rc != 0) {
    vh::violation("C16:roundtrip:valid-document-rejected", "a document of the documented subset was rejected: " + what, ctx);
    return;
  }
  std::string why;
  bool ok = x.child.size() == d.roots.size();
  if (!ok)
    why = std::to_string(x.child.size()) + " top-level nodes, expected " + std::to_string(d.roots.size());
  for (size_t i = 0; ok && i < d.roots.size(); ++i)
    ok = sameTree(d.roots[i], x.child[i], why, "");
  if (!ok)
    vh::violation("C16:roundtrip:tree-differs", why, ctx);
  vh::count("roundtrip_documents");
  vh::count("roundtrip_bytes", (long long)d.text.size());
  vh::evaluated(vh::hashStr(d.text, 16), !d.roots.empty());
  if (k % 4000 == 3)
    vh::sample(vh::J().kv("kind", "roundtrip").kv("document", printable(d.text)).str(), 3);
}

static void judgeHostile(const std::string &bytes, const std::string &how, long k)
{
  std::string what;
  int rc = parseBytes(bytes, 0, &what);
  if (rc >= 2)
    vh::violation("C16:totality:other-exception-type", std::string("readXML threw ") + (rc == 2 ? "a std::exception that is not std::runtime_error: " + what : "a non-standard exception"),
                  "#" + std::to_string(k) + " " + how + ": " + printable(bytes));
  vh::count(rc == 0 ? "hostile_inputs_returned" : "hostile_inputs_runtime_error");
}

static void sweepCase(long k)
{
  vh::Rng r(vh::seed(), 26000 + (uint64_t)k);
  Doc d = genDoc(r, 3, 8);
  const std::string &t = d.text;
  // every truncation point
  for (size_t L = 0; L <= t.size(); ++L)
    judgeHostile(t.substr(0, L), "truncated to " + std::to_string(L) + " bytes", k);
  // every single-byte substitution from a hostile byte set
  static const char hostile[] = {'\0', '"', '\'', '\\', '<', '>', '/', '!', '-', '?', '=', ' ', 'a', (char)0xff, '\n'};
  for (size_t i = 0; i < t.size(); ++i)
    for (size_t h = 0; h < sizeof(hostile); ++h) {
      if (t[i] == hostile[h])
        continue;
      std::string m = t;
      m[i]          = hostile[h];
      judgeHostile(m, "byte " + std::to_string(i) + " replaced by 0x" + std::to_string((int)(unsigned char)hostile[h]), k);
    }
  // single-byte deletions and insertions of a backslash / quote / NUL in front of every byte
  for (size_t i = 0; i < t.size(); ++i) {
    std::string m = t;
    m.erase(i, 1);
    judgeHostile(m, "byte " + std::to_string(i) + " deleted", k);
    static const char ins[] = {'\\', '"', '\0', '<'};
    for (int q = 0; q < 4; ++q) {
      std::string m2 = t;
      m2.insert(m2.begin() + i, ins[q]);
      judgeHostile(m2, "byte inserted at " + std::to_string(i), k);
    }
  }
  vh::count("sweep_documents");
  vh::evaluated(vh::hashStr(t, 17), true);
  if (k % 500 == 1)
    vh::sample(vh::J().kv("kind", "sweep").kv("document", printable(t)).kv("bytes", (long long)t.size()).str(), 5);
}

static void randomBytesCase(long k)
{
  vh::Rng r(vh::seed(), 36000 + (uint64_t)k);
  static const char *tok[] = {"<", ">", "/>", "</", "<!--", "-->", "<?xml", "?>", "=", "\"", "'", "\\", "a", "b1", " ", "\n", "<a", "<a>", "</a>", "x=\"", "x='", "\0"};
  for (int rep = 0; rep < 200; ++rep) {
    std::string s;
    int n = (int)r.range(0, 24);
    for (int i = 0; i < n; ++i) {
      if (r.chance(1, 6))
        s += (char)r.below(256);
      else {
        int t = (int)r.below(22);
        if (t == 21)
          s += '\0';
        else
          s += tok[t];
      }
    }
    judgeHostile(s, "token soup", k);
  }
  vh::count("token_soup_batches");
  vh::evaluated(vh::hash64(18, (uint64_t)k), true);
}

int main(int argc, char **argv)
{
  vh::init(argc, argv);
  vh::rule(
      "round trip: generated trees (depth <= 6, fan-out <= 4, unique property names, both quote styles, self-closing and open/close "
      "forms, comments and white space wherever the reader allows them, optional header, 0..3 root nodes) serialised by an independent "
      "writer and compared node by node; sweep: every truncation point, every single-byte substitution from a hostile byte set, every "
      "single-byte deletion and hostile insertion of generated documents, plus token soup; distinct = hash of the document text; "
      "non-trivial = the document has at least one node");
  std::cout.setstate(std::ios_base::failbit);  // the reader prints a warning for partial files
  long nRound = vh::tier(12000, 1000000), nSweep = vh::tier(250, 2000), nSoup = vh::tier(150, 5000);
  vh::forkedCases(
      nRound + nSweep + nSoup,
      [&](long k) {
        if (g_fd < 0)
          openScratch();
        if (k < nRound)
          roundTripCase(k);
        else if (k < nRound + nSweep)
          sweepCase(k);
        else
          randomBytesCase(k);
        // last case of this child's batch: the scratch file is no longer needed
        if ((k + 1) % 500 == 0 || k + 1 == nRound + nSweep + nSoup || vh::st().onlyCase >= 0)
          closeScratch();
      },
      30000, 500, [&](long k) { return std::string(k < nRound ? "C16-roundtrip #" : k < nRound + nSweep ? "C16-sweep #" : "C16-soup #") + std::to_string(k); });
  return vh::finish();
}
