// C04 - every vec_t operator is the component-wise lifting of its scalar definition.
//
// This file: driver, triple registry and the (non-template) reporting back end.
// The families live in c04_vec_same.h (one element type) and c04_vec_mixed.h (pairs of
// element types); they are instantiated per element type in c04_vec_s_<type>.cpp and
// c04_vec_ma_<type>.cpp / c04_vec_mb_<type>.cpp so that the translation units compile in parallel.
#include "c04_vec_common.h"


namespace c04 {

  // ---------------------------------------------------------------- registry
  static std::mutex g_m;
  // family -> shape -> set of type labels
  static std::map<std::string, std::map<std::string, std::set<std::string> > > g_triples;

  void regTriple(const char *fam, const std::string &types, const char *shape)
  {
    std::lock_guard<std::mutex> g(g_m);
    g_triples[fam][shape].insert(types);
  }
  long tuplesSame() { return (long)vh::tier(10000, 1000000); }
  long tuplesMixed() { return (long)vh::tier(10000, 500000); }

  const char *famName(int op, int form)
  {
    static const char *n[5][5] = {{"add_vv", "add_vs", "add_sv", "add_assign_vv", "add_assign_vs"},
                                  {"sub_vv", "sub_vs", "sub_sv", "sub_assign_vv", "sub_assign_vs"},
                                  {"mul_vv", "mul_vs", "mul_sv", "mul_assign_vv", "mul_assign_vs"},
                                  {"div_vv", "div_vs", "div_sv", "div_assign_vv", "div_assign_vs"},
                                  {"mod_vv", "mod_vs", "mod_sv", "mod_assign_vv", "mod_assign_vs"}};
    return n[op][form];
  }

  // ---------------------------------------------------------------- Triple
  Triple::Triple(const char *f, const char *t1, const char *s, const char *t2) : fam(f), types(t1), shape(s), bulk(0), hashed(0)
  {
    if (t2)
      types += std::string("*") + t2;
    regTriple(f, types, s);
    h = vh::hash64(vh::hashStr(std::string(f) + "|" + types + "|" + s), vh::seed());
  }
  Triple::~Triple()
  {
    if (bulk)
      vh::evaluatedN(bulk);
  }
  void Triple::tickHashed(long k)
  {
    ++hashed;
    vh::evaluated(vh::hash64(h, (uint64_t)k), true);
  }
  std::string Triple::key(const char *what) const { return std::string("C04:") + fam + "/" + shape + ":" + what; }
  // "#<part>": the driver replays exactly that part (same seed => same tuples)
  static int g_part = -1;
  std::string Triple::ctx(long k) const
  {
    return "#" + std::to_string(g_part) + " tuple=" + std::to_string(k) + " family=" + fam + " types=" + types + " shape=" + shape;
  }

  // ---------------------------------------------------------------- printing
  std::string numLD(LD v)
  {
    char b[80];
    if (v == 0)
      return std::signbit(v) ? "-0" : "0";
    if (v == v && v - v == 0 && v == floorl(v) && fabsl(v) < 1.9e19L)
      snprintf(b, sizeof b, "%.0Lf", v);
    else
      snprintf(b, sizeof b, "%.21Lg", v);
    return b;
  }
  static std::string showOps(const Ops &o)
  {
    std::string s;
    for (int i = 0; i < o.cnt; ++i) {
      s += (i ? " " : "") + std::string(o.name[i]) + "=";
      if (o.n[i] == 1)
        s += numLD(o.v[i][0]);
      else {
        s += "[";
        for (int j = 0; j < o.n[i]; ++j)
          s += (j ? "," : "") + numLD(o.v[i][j]);
        s += "]";
      }
    }
    return s;
  }

  // after three full reports of a key only count further occurrences (keeps floods cheap)
  static bool reportedEnough(const std::string &key)
  {
    static std::map<std::string, int> seen;
    bool enough;
    {
      std::lock_guard<std::mutex> g(g_m);
      enough = ++seen[key] > 3;
    }
    if (enough)
      vh::violation(key, "", "");
    return enough;
  }

  void failValue(const Triple &tr, long k, const char *what, int comp, const Ops &result, const Ops &operands)
  {
    if (reportedEnough(tr.key(what)))
      return;
    std::string d = std::string("component ") + "xyzw"[comp & 3] + ": got " + numLD(result.v[0][comp & 3]) + " expected " + numLD(result.v[1][comp & 3]) + "; " +
                    showOps(result);
    vh::violation(tr.key(what), d, tr.ctx(k) + " " + showOps(operands));
  }
  void failScalar(const Triple &tr, long k, const char *what, LD got, LD ref, const Ops &operands)
  {
    if (reportedEnough(tr.key(what)))
      return;
    vh::violation(tr.key(what), "got " + numLD(got) + " expected " + numLD(ref), tr.ctx(k) + " " + showOps(operands));
  }
  void failSum(const Triple &tr, long k, const char *what, LD got, LD ref, LD tol, const Ops &operands)
  {
    if (reportedEnough(tr.key(what)))
      return;
    char b[240];
    snprintf(b, sizeof b, "got %.21Lg reference %.21Lg |difference| %.6Lg > tolerance %.6Lg", got, ref, fabsl(got - ref), tol);
    vh::violation(tr.key(what), b, tr.ctx(k) + " " + showOps(operands));
  }
  void failText(const Triple &tr, long k, const char *what, const std::string &detail, const Ops &operands)
  {
    if (reportedEnough(tr.key(what)))
      return;
    vh::violation(tr.key(what), detail, tr.ctx(k) + " " + showOps(operands));
  }
  void failStream(const Triple &tr, long k, const std::string &got, const std::string &expected)
  {
    if (reportedEnough(tr.key("text")))
      return;
    vh::violation(tr.key("text"), "streamed '" + got + "' expected '" + expected + "'", tr.ctx(k));
  }
  void sampleCase(const Triple &tr, const Ops &operands, const Ops &reference)
  {
    vh::sample(vh::J().kv("family", tr.fam).kv("types", tr.types).kv("shape", tr.shape).kv("operands", showOps(operands)).kv("reference", showOps(reference)).str(), 8);
  }

  // ---------------------------------------------------------------- per-type entry points
#define C04_DECL(n)  \
  void run_s_##n();  \
  void run_ma_##n(); \
  void run_mb_##n();
  C04_DECL(u8)
  C04_DECL(i8)
  C04_DECL(u16)
  C04_DECL(i16)
  C04_DECL(u32)
  C04_DECL(i32)
  C04_DECL(u64)
  C04_DECL(i64)
  C04_DECL(f32)
  C04_DECL(f64)
#undef C04_DECL

}  // namespace c04

int main(int argc, char **argv)
{
  vh::init(argc, argv);
  vh::rule(
      "for every (operation family, element type(s), shape) triple that instantiates: seeded operand tuples with pairwise distinct "
      "components per operand, mixing boundary values (type extremes, -1, 0, +-0, +-inf, max, min, denormals), full-range random, "
      "half-/quarter-range random and small values; tuples whose scalar expression is undefined in the caller (signed overflow, "
      "integer division by zero, out-of-range float->int) are redrawn. evaluations = oracle evaluations (one per triple and tuple); "
      "distinct = hash of (family, types, shape, seed, tuple index) for the first 12 tuples of every triple (lower bound by construction); "
      "all tuples are non-trivial (distinct components) except the comparison families, which deliberately include equal operands");
  // Every (element type, part) runs in its own forked child, all in parallel: a sanitizer abort
  // inside one instantiation (e.g. UBSan signed overflow in a mutated overload) ends only that
  // child, is recorded as a crash of that part (the driver attaches the sanitizer log of the pid)
  // and the other parts still report.  Children hand their triple registry to the parent through
  // $VH_OUT/triples.<index>.
  struct Part
  {
    const char *name;
    void (*fn)();
  };
#define C04_FNS(n) {"same-type families " #n, c04::run_s_##n}, {"mixed families " #n " x {u8,i8,u16,i16,u32}", c04::run_ma_##n}, \
                   {"mixed families " #n " x {i32,u64,i64,f32,f64}", c04::run_mb_##n}
  const Part parts[] = {C04_FNS(u8),  C04_FNS(i8),  C04_FNS(u16), C04_FNS(i16), C04_FNS(u32),
                        C04_FNS(i32), C04_FNS(u64), C04_FNS(i64), C04_FNS(f32), C04_FNS(f64)};
  const int np = (int)(sizeof parts / sizeof parts[0]);
  std::vector<pid_t> pids(np, (pid_t)-1);
  fflush(stdout);
  for (int i = 0; i < np; ++i) {
    if (!vh::wantCase(i))
      continue;
    pid_t pid = fork();
    if (pid < 0) {
      vh::inconclusive(std::string("fork failed for part ") + parts[i].name);
      continue;
    }
    if (pid == 0) {
      {
        // sanitizer reports of this child go to $VH_OUT/san.<pid> (the name the driver attributes to crash records)
        std::string lp = vh::st().outDir + "/san." + std::to_string((long long)getpid());
        int fd = open(lp.c_str(), O_WRONLY | O_CREAT | O_APPEND, 0644);
        if (fd >= 0) {
          dup2(fd, 2);
          close(fd);
        }
      }
      c04::g_part = i;
      parts[i].fn();
      std::string path = vh::st().outDir + "/triples." + std::to_string(i);
      FILE *f = fopen(path.c_str(), "w");
      if (f) {
        for (std::map<std::string, std::map<std::string, std::set<std::string> > >::iterator fa = c04::g_triples.begin(); fa != c04::g_triples.end(); ++fa)
          for (std::map<std::string, std::set<std::string> >::iterator sh = fa->second.begin(); sh != fa->second.end(); ++sh)
            for (std::set<std::string>::iterator t = sh->second.begin(); t != sh->second.end(); ++t)
              fprintf(f, "%s %s %s\n", fa->first.c_str(), sh->first.c_str(), t->c_str());
        fclose(f);
      }
      vh::flushStats();
      _exit(0);
    }
    pids[i] = pid;
  }
  int crashed = 0;
  for (int i = 0; i < np; ++i) {
    if (pids[i] < 0)
      continue;
    int status = 0;
    waitpid(pids[i], &status, 0);
    {
      std::string lp = vh::st().outDir + "/san." + std::to_string((long long)pids[i]);
      struct stat sb;
      if (stat(lp.c_str(), &sb) == 0 && sb.st_size == 0)
        unlink(lp.c_str());
    }
    if (!(WIFEXITED(status) && WEXITSTATUS(status) == 0)) {
      ++crashed;
      vh::emit(vh::J()
                   .kv("t", "crash")
                   .kv("case", std::string("#") + std::to_string(i) + " " + parts[i].name)
                   .kv("index", (long long)i)
                   .kv("pid", (long long)pids[i])
                   .kv("sig", (long long)(WIFSIGNALED(status) ? WTERMSIG(status) : 0))
                   .kv("status", (long long)(WIFEXITED(status) ? WEXITSTATUS(status) : -1))
                   .str());
    }
    std::string path = vh::st().outDir + "/triples." + std::to_string(i);
    FILE *f = fopen(path.c_str(), "r");
    if (f) {
      char fa[64], sh[32], ty[32];
      while (fscanf(f, "%63s %31s %31s", fa, sh, ty) == 3)
        c04::g_triples[fa][sh].insert(ty);
      fclose(f);
    }
  }
  vh::count("parts_run", np - crashed);
  if (crashed)
    vh::count("parts_ended_by_sanitizer_or_signal", crashed);
  // coverage: which triples were instantiated and driven
  long total = 0;
  std::set<std::string> shapesSeen, typesSeen;
  for (std::map<std::string, std::map<std::string, std::set<std::string> > >::iterator f = c04::g_triples.begin(); f != c04::g_triples.end(); ++f) {
    long n = 0;
    std::string note;
    for (std::map<std::string, std::set<std::string> >::iterator s = f->second.begin(); s != f->second.end(); ++s) {
      n += (long)s->second.size();
      shapesSeen.insert(s->first);
      note += (note.empty() ? "" : " | ") + s->first + ":";
      // compact description: single types and (T*U) pairs counted separately
      std::vector<std::string> singles, pairs;
      for (std::set<std::string>::iterator t = s->second.begin(); t != s->second.end(); ++t)
        (t->find('*') == std::string::npos ? singles : pairs).push_back(*t);
      bool floatInvolved = false;
      for (size_t i = 0; i < singles.size(); ++i)
        floatInvolved = floatInvolved || singles[i][0] == 'f';
      for (size_t i = 0; i < pairs.size(); ++i)
        floatInvolved = floatInvolved || pairs[i].find('f') != std::string::npos;
      std::string part;
      if (!singles.empty()) {
        if (singles.size() == 10)
          part += "all 10 element types";
        else if (singles.size() == 8 && !floatInvolved)
          part += "the 8 integer types";
        else
          for (size_t i = 0; i < singles.size(); ++i)
            part += (i ? "," : "") + singles[i];
      }
      if (!pairs.empty()) {
        if (!part.empty())
          part += " + ";
        if (pairs.size() == 100)
          part += "all 100 (T*U) pairs";
        else if (pairs.size() == 90)
          part += "all 90 pairs T*U with T!=U";
        else if (pairs.size() == 64 && !floatInvolved)
          part += "all 64 (T*U) pairs of integer types";
        else if (pairs.size() == 56 && !floatInvolved)
          part += "all 56 pairs T*U of integer types with T!=U";
        else
          for (size_t i = 0; i < pairs.size(); ++i)
            part += (i ? "," : "") + pairs[i];
      }
      note += part;
    }
    total += n;
    vh::count(("fam_" + f->first).c_str(), n);
    vh::note(("triples_" + f->first).c_str(), note);
  }
  vh::count("triples_instantiated", total);
  vh::count("families_driven", (long long)c04::g_triples.size());
  if (c04::g_triples.size() < 60 && vh::st().onlyCase < 0 && !crashed)
    vh::inconclusive("fewer operation families driven than vec.h defines");
  return vh::finish();
}
