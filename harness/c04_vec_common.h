// C04 - shared machinery of the vec_t lifting check (included by every c04_vec_*.cpp).
//
// Ground truth conventions
//   * operands are written into the vec_t objects through the data members .x .y .z .w
//     (and .padding_ of the padded 3-vector, which receives a distinct junk value);
//   * results are read back through the data members;
//   * the reference is computed on plain arrays with the scalar expression of the
//     property (same C++ types, so promotion / wrap-around are the scalar definition's).
#pragma once

#include "vh.h"

#include <cmath>
#include <cstring>
#include <limits>
#include <sstream>
#include <string>
#include <type_traits>

#include "rkcommon/math/vec.h"

namespace c04 {

  using rkcommon::math::vec_t;
  typedef long double LD;
  typedef __int128 i128;
  typedef unsigned long long u64;

  // ---------------------------------------------------------------- registry (c04_vec.cpp)
  void regTriple(const char *fam, const std::string &types, const char *shape);
  long tuplesSame();   // tuples per same-type triple
  long tuplesMixed();  // tuples per mixed-type triple

  // ---------------------------------------------------------------- type names
  template <typename T> struct TN;
#define C04_TN(T, s, i)                       \
  template <> struct TN<T>                    \
  {                                           \
    static const char *name() { return s; }   \
    enum { idx = i };                         \
  };
  C04_TN(uint8_t, "u8", 0)
  C04_TN(int8_t, "i8", 1)
  C04_TN(uint16_t, "u16", 2)
  C04_TN(int16_t, "i16", 3)
  C04_TN(uint32_t, "u32", 4)
  C04_TN(int32_t, "i32", 5)
  C04_TN(uint64_t, "u64", 6)
  C04_TN(int64_t, "i64", 7)
  C04_TN(float, "f32", 8)
  C04_TN(double, "f64", 9)
#undef C04_TN

  // ---------------------------------------------------------------- shapes
  template <int N> struct Int { };

  struct S2
  {
    template <typename T> struct V { typedef vec_t<T, 2> type; };
    enum { N = 2, PAD = 0 };
    static const char *name() { return "2"; }
    typedef S2 Unpadded;
  };
  struct S3
  {
    template <typename T> struct V { typedef vec_t<T, 3> type; };
    enum { N = 3, PAD = 0 };
    static const char *name() { return "3"; }
    typedef S3 Unpadded;
  };
  struct S3a
  {
    template <typename T> struct V { typedef vec_t<T, 3, true> type; };
    enum { N = 3, PAD = 1 };
    static const char *name() { return "3a"; }
    typedef S3 Unpadded;
  };
  struct S4
  {
    template <typename T> struct V { typedef vec_t<T, 4> type; };
    enum { N = 4, PAD = 0 };
    static const char *name() { return "4"; }
    typedef S4 Unpadded;
  };

  // write operands through the members (a[3] is junk for the 3-shapes)
  template <typename T> inline void put(vec_t<T, 2> &v, const T *a) { v.x = a[0]; v.y = a[1]; }
  template <typename T> inline void put(vec_t<T, 3> &v, const T *a) { v.x = a[0]; v.y = a[1]; v.z = a[2]; }
  template <typename T> inline void put(vec_t<T, 3, true> &v, const T *a) { v.x = a[0]; v.y = a[1]; v.z = a[2]; v.padding_ = a[3]; }
  template <typename T> inline void put(vec_t<T, 4> &v, const T *a) { v.x = a[0]; v.y = a[1]; v.z = a[2]; v.w = a[3]; }

  // read results through the members; returns the component count
  template <typename T> inline int get(const vec_t<T, 2> &v, T *o) { o[0] = v.x; o[1] = v.y; return 2; }
  template <typename T> inline int get(const vec_t<T, 3> &v, T *o) { o[0] = v.x; o[1] = v.y; o[2] = v.z; return 3; }
  template <typename T> inline int get(const vec_t<T, 3, true> &v, T *o) { o[0] = v.x; o[1] = v.y; o[2] = v.z; return 3; }
  template <typename T> inline int get(const vec_t<T, 4> &v, T *o) { o[0] = v.x; o[1] = v.y; o[2] = v.z; o[3] = v.w; return 4; }

  // description of an arbitrary vec_t type (for result-type violations)
  template <typename V> struct VInfo { static std::string str() { return "not-a-vec_t"; } };
  template <typename T> struct VInfo<vec_t<T, 2> > { typedef T E; static std::string str() { return std::string("vec_t<") + TN<T>::name() + ",2>"; } };
  template <typename T> struct VInfo<vec_t<T, 3> > { typedef T E; static std::string str() { return std::string("vec_t<") + TN<T>::name() + ",3>"; } };
  template <typename T> struct VInfo<vec_t<T, 3, true> > { typedef T E; static std::string str() { return std::string("vec_t<") + TN<T>::name() + ",3,aligned>"; } };
  template <typename T> struct VInfo<vec_t<T, 4> > { typedef T E; static std::string str() { return std::string("vec_t<") + TN<T>::name() + ",4>"; } };

  // ---------------------------------------------------------------- exact equality
  template <typename R>
  inline bool same(R x, R y, std::true_type /*floating*/)
  {
    if (x != x || y != y)
      return x != x && y != y;  // NaN class only (payload/sign of NaN not compared)
    return memcmp(&x, &y, sizeof(R)) == 0;  // distinguishes -0 from +0
  }
  template <typename R> inline bool same(R x, R y, std::false_type) { return x == y; }
  template <typename R> inline bool same(R x, R y) { return same(x, y, std::is_floating_point<R>()); }

  // ---------------------------------------------------------------- reporting (out of line, c04_vec.cpp)
  // operand record, filled only when a monitor fires; long double holds every value of
  // the ten element types exactly
  struct Ops
  {
    int cnt;
    const char *name[6];
    LD v[6][4];
    int n[6];
    Ops() : cnt(0) {}
  };
  template <typename T>
  __attribute__((noinline)) void opsAdd(Ops &o, const char *name, const T *a, int n)
  {
    if (o.cnt >= 6)
      return;
    o.name[o.cnt] = name;
    o.n[o.cnt]    = n;
    for (int i = 0; i < n && i < 4; ++i)
      o.v[o.cnt][i] = (LD)a[i];
    o.cnt++;
  }
  std::string numLD(LD v);

  // one (family,type,shape) triple
  struct Triple
  {
    const char *fam;
    std::string types;
    const char *shape;
    uint64_t h;
    long bulk;
    int hashed;
    Triple(const char *fam, const char *t1, const char *shape, const char *t2 = 0);
    ~Triple();
    // one oracle evaluation on tuple k (the first 12 tuples of a triple are hashed, the rest counted)
    void tick(long k)
    {
      if (hashed < 12)
        tickHashed(k);
      else
        ++bulk;
    }
    void tickHashed(long k);
    std::string key(const char *what) const;
    std::string ctx(long k) const;
  };

  void failValue(const Triple &tr, long k, const char *what, int comp, const Ops &result, const Ops &operands);
  void failScalar(const Triple &tr, long k, const char *what, LD got, LD ref, const Ops &operands);
  void failSum(const Triple &tr, long k, const char *what, LD got, LD ref, LD tol, const Ops &operands);
  void failText(const Triple &tr, long k, const char *what, const std::string &detail, const Ops &operands);
  void failStream(const Triple &tr, long k, const std::string &got, const std::string &expected);
  void sampleCase(const Triple &tr, const Ops &operands, const Ops &reference);
  const char *famName(int op, int form);  // form 0 vv, 1 vs, 2 sv, 3 assign_vv, 4 assign_vs

  // index of the first component that differs from the reference, -1 if none
  template <typename R>
  inline int firstDiff(const R *got, const R *ref, int n)
  {
    for (int i = 0; i < n; ++i)
      if (!same(got[i], ref[i]))
        return i;
    return -1;
  }
  template <typename R>
  __attribute__((noinline, cold)) void failComponents(const Triple &tr, long k, const char *what, int comp, const R *got, const R *ref, int n, const Ops &operands)
  {
    Ops res;
    opsAdd(res, "result", got, n);
    opsAdd(res, "reference", ref, n);
    failValue(tr, k, what, comp, res, operands);
  }

  // result object `g` must have exactly the type EV; returns the index of the first wrong
  // component (-1 none, -2 wrong type: reported here)
  template <typename EV, typename GV, typename R>
  inline int vecDiffImpl(const Triple &, long, const GV &g, const R *ref, R *got, std::true_type)
  {
    int n = get(g, got);
    return firstDiff(got, ref, n);
  }
  template <typename EV, typename GV, typename R>
  inline int vecDiffImpl(const Triple &tr, long k, const GV &, const R *, R *, std::false_type)
  {
    failText(tr, k, "result-type", "operation returns " + VInfo<GV>::str() + ", the lifting returns " + VInfo<EV>::str(), Ops());
    return -2;
  }
  template <typename EV, typename GV, typename R>
  inline int vecDiff(const Triple &tr, long k, const GV &g, const R *ref, R *got)
  {
    return vecDiffImpl<EV, GV, R>(tr, k, g, ref, got, std::integral_constant<bool, std::is_same<EV, GV>::value>());
  }

// operand filler, run only when a monitor fires
#define C04_OPS(...) [&](Ops &o) { __VA_ARGS__; }
  template <typename F>
  __attribute__((noinline, cold)) void failSumF(const Triple &tr, long k, const char *what, LD got, LD ref, LD tol, const F &fill)
  {
    Ops o;
    fill(o);
    failSum(tr, k, what, got, ref, tol, o);
  }
  template <typename F>
  __attribute__((noinline, cold)) void failScalarF(const Triple &tr, long k, const char *what, LD got, LD ref, const F &fill)
  {
    Ops o;
    fill(o);
    failScalar(tr, k, what, got, ref, o);
  }
  template <typename F>
  __attribute__((noinline, cold)) void failTextF(const Triple &tr, long k, const char *what, const char *detail, const F &fill)
  {
    Ops o;
    fill(o);
    failText(tr, k, what, detail, o);
  }
  template <typename R, typename F>
  inline void cmpArr(const Triple &tr, long k, const R *got, const R *ref, int n, const F &fill, const char *what = "component-value")
  {
    int bad = firstDiff(got, ref, n);
    if (bad >= 0) {
      Ops o;
      fill(o);
      failComponents(tr, k, what, bad, got, ref, n, o);
    }
  }

  // cold paths with up to three named operand arrays (kept out of line: no Ops object in the callers)
  template <typename R, typename A>
  __attribute__((noinline, cold)) void failN(const Triple &tr, long k, const char *what, int bad, const R *got, const R *ref, int n, const char *na, const A *a, int ca)
  {
    Ops o;
    opsAdd(o, na, a, ca);
    failComponents(tr, k, what, bad, got, ref, n, o);
  }
  template <typename R, typename A, typename B>
  __attribute__((noinline, cold)) void failN(const Triple &tr, long k, const char *what, int bad, const R *got, const R *ref, int n, const char *na, const A *a, int ca,
                                             const char *nb, const B *b, int cb)
  {
    Ops o;
    opsAdd(o, na, a, ca);
    opsAdd(o, nb, b, cb);
    failComponents(tr, k, what, bad, got, ref, n, o);
  }
  template <typename R, typename A, typename B, typename C>
  __attribute__((noinline, cold)) void failN(const Triple &tr, long k, const char *what, int bad, const R *got, const R *ref, int n, const char *na, const A *a, int ca,
                                             const char *nb, const B *b, int cb, const char *nc, const C *c, int cc)
  {
    Ops o;
    opsAdd(o, na, a, ca);
    opsAdd(o, nb, b, cb);
    opsAdd(o, nc, c, cc);
    failComponents(tr, k, what, bad, got, ref, n, o);
  }

// check a vec_t result against reference components; trailing arguments: name, array, count (1..3 times)
#define C04_CHECK_VEC(EV, tr, k, expr, ref, n, ...)                                \
  do {                                                                             \
    auto g_ = (expr);                                                              \
    typename std::remove_cv<typename std::remove_reference<decltype(ref[0])>::type>::type got_[4]; \
    int bad_ = vecDiff<EV>(tr, k, g_, ref, got_);                                  \
    if (bad_ >= 0)                                                                 \
      failN(tr, k, "component-value", bad_, got_, ref, n, __VA_ARGS__);            \
  } while (0)
#define C04_CHECK_ARR(tr, k, what, got, ref, n, ...)                               \
  do {                                                                             \
    int bad_ = firstDiff(got, ref, n);                                             \
    if (bad_ >= 0)                                                                 \
      failN(tr, k, what, bad_, got, ref, n, __VA_ARGS__);                          \
  } while (0)

  // ---------------------------------------------------------------- scalar operators by tag
  enum { ADD = 0, SUB = 1, MUL = 2, DIV = 3, MOD = 4 };
  template <int OP> struct Op { };
  template <typename A, typename B> inline auto ap(Op<ADD>, const A &a, const B &b) -> decltype(a + b) { return a + b; }
  template <typename A, typename B> inline auto ap(Op<SUB>, const A &a, const B &b) -> decltype(a - b) { return a - b; }
  template <typename A, typename B> inline auto ap(Op<MUL>, const A &a, const B &b) -> decltype(a * b) { return a * b; }
  template <typename A, typename B> inline auto ap(Op<DIV>, const A &a, const B &b) -> decltype(a / b) { return a / b; }
  template <typename A, typename B> inline auto ap(Op<MOD>, const A &a, const B &b) -> decltype(a % b) { return a % b; }
  template <typename A, typename B> inline auto cap(Op<ADD>, A &a, const B &b) -> decltype(a += b) { return a += b; }
  template <typename A, typename B> inline auto cap(Op<SUB>, A &a, const B &b) -> decltype(a -= b) { return a -= b; }
  template <typename A, typename B> inline auto cap(Op<MUL>, A &a, const B &b) -> decltype(a *= b) { return a *= b; }
  template <typename A, typename B> inline auto cap(Op<DIV>, A &a, const B &b) -> decltype(a /= b) { return a /= b; }
  template <typename A, typename B> inline auto cap(Op<MOD>, A &a, const B &b) -> decltype(a %= b) { return a %= b; }

  // ---------------------------------------------------------------- "is this scalar expression defined?"
  // a op b evaluated in the common type C = decltype(T()+U()):  no signed overflow, no
  // division by zero, no MIN/-1.  Floating C: always defined (IEEE-754).
  template <typename T, typename U, int OP>
  inline bool safeBinImpl(T a, U b, std::true_type /*C integral*/)
  {
    typedef decltype(T() + U()) C;
    C ca = (C)a, cb = (C)b;
    if (OP == DIV || OP == MOD) {
      if (cb == 0)
        return false;
      if (std::is_signed<C>::value && ca == std::numeric_limits<C>::min() && cb == (C)-1)
        return false;
      return true;
    }
    if (!std::is_signed<C>::value)
      return true;
    i128 x = ca, y = cb;
    i128 r = OP == ADD ? x + y : OP == SUB ? x - y : x * y;
    return r >= (i128)std::numeric_limits<C>::min() && r <= (i128)std::numeric_limits<C>::max();
  }
  template <typename T, typename U, int OP>
  inline bool safeBinImpl(T, U, std::false_type)
  {
    return true;
  }
  template <typename T, typename U, int OP>
  inline bool safeBin(T a, U b)
  {
    typedef decltype(T() + U()) C;
    return safeBinImpl<T, U, OP>(a, b, std::is_integral<C>());
  }

  // is the conversion of the value r (type C) to T defined?
  template <typename T, typename C>
  inline bool convOk(C r)
  {
    if (std::is_floating_point<C>::value && std::is_integral<T>::value) {
      if (r != r)
        return false;
      LD x = (LD)r;
      return x > (LD)std::numeric_limits<T>::min() - 1 && x < (LD)std::numeric_limits<T>::max() + 1;
    }
    if (std::is_floating_point<C>::value && std::is_floating_point<T>::value && sizeof(T) < sizeof(C)) {
      if (r != r)
        return true;
      LD x = (LD)r;
      if (x < 0)
        x = -x;
      return x <= (LD)std::numeric_limits<T>::max() || x > (LD)std::numeric_limits<C>::max();  // finite in range, or infinite
    }
    return true;
  }

  // a op= b  (a of type T): the binary expression must be defined and its value convertible to T
  template <typename T, typename U, int OP>
  inline bool safeCompoundImpl(T a, U b, std::true_type /*C floating*/)
  {
    typedef decltype(T() + U()) C;
    C r = OP == ADD ? (C)a + (C)b : OP == SUB ? (C)a - (C)b : OP == MUL ? (C)a * (C)b : (C)a / (C)b;
    return convOk<T, C>(r);
  }
  template <typename T, typename U, int OP>
  inline bool safeCompoundImpl(T a, U b, std::false_type)
  {
    return safeBin<T, U, OP>(a, b);
  }
  template <typename T, typename U, int OP>
  inline bool safeCompound(T a, U b)
  {
    typedef decltype(T() + U()) C;
    return safeCompoundImpl<T, U, OP>(a, b, std::is_floating_point<C>());
  }

  // ---------------------------------------------------------------- value generators
  template <typename T, bool F = std::is_floating_point<T>::value> struct Gen;

  template <typename T>
  struct Gen<T, false>
  {
    typedef std::numeric_limits<T> L;
    enum { BITS = sizeof(T) * 8 - (std::is_signed<T>::value ? 1 : 0), NARROW = BITS - 2 };
    // magnitude below 2^bits, random sign for signed types
    static T ranged(vh::Rng &r, int bits)
    {
      if (bits < 1)
        bits = 1;
      if (bits > BITS)
        bits = BITS;
      u64 m = r.next() >> (64 - bits);
      if (std::is_signed<T>::value && r.chance(1, 2))
        return (T)(-(long long)m);
      return (T)m;
    }
    static T small(vh::Rng &r) { return (T)r.range(1, 11); }
    static T any(vh::Rng &r)
    {
      switch (r.below(8)) {
      case 0:
        return std::is_signed<T>::value ? (T)r.range(-20, 20) : (T)r.range(0, 40);
      case 1: {
        const T tab[8] = {L::min(), (T)(L::min() + 1), L::max(), (T)(L::max() - 1), (T)0, (T)1, (T)-1, (T)2};
        return tab[r.below(8)];
      }
      case 2:
      case 3:
        return (T)r.next();  // full range
      case 4:
      case 5:
        return ranged(r, BITS / 2);
      case 6:
        return ranged(r, BITS / 4 + 1);
      default:
        return (T)(L::max() / 2 + (T)r.range(-3, 3));
      }
    }
  };

  template <typename T>
  struct Gen<T, true>
  {
    typedef std::numeric_limits<T> L;
    enum { BITS = 24, NARROW = 20 };
    // sign * 2^[lo,hi] * [1,2)
    static T mag(vh::Rng &r, int lo, int hi)
    {
      T m = (T)(1.0 + r.unit());
      T v = std::ldexp(m, (int)r.range(lo, hi));
      return r.chance(1, 2) ? -v : v;
    }
    static T ranged(vh::Rng &r, int bits) { return mag(r, -bits, bits); }
    static T small(vh::Rng &r) { return (T)r.range(1, 11); }
    static T finiteBits(vh::Rng &r)
    {
      for (;;) {
        T v;
        u64 b = r.next();
        memcpy(&v, &b, sizeof(T));
        if (v == v && v - v == 0)
          return v;
      }
    }
    static T any(vh::Rng &r)
    {
      switch (r.below(8)) {
      case 0: {
        const T tab[14] = {(T)0, -(T)0, L::infinity(), -L::infinity(), L::max(), -L::max(), L::min(), -L::min(),
                           L::denorm_min(), -L::denorm_min(), (T)1, (T)-1, L::epsilon(), (T)0.5};
        return tab[r.below(14)];
      }
      case 1:
      case 2:
      case 3:
      case 4:
        return mag(r, -10, 10);
      case 5:
        return finiteBits(r);
      case 6:
        return (T)r.range(-20, 20);
      default:
        return r.chance(1, 2) ? mag(r, 40, L::max_exponent - 2) : mag(r, L::min_exponent, -40);
      }
    }
  };

  // are the first n entries pairwise different (by value)?
  template <typename T>
  inline bool distinct(const T *a, int n)
  {
    for (int i = 0; i < n; ++i)
      for (int j = i + 1; j < n; ++j)
        if (a[i] == a[j])
          return false;
    return true;
  }
  // always-distinct small values 1..11 (a permutation prefix)
  template <typename T>
  __attribute__((noinline)) void fillSmall(vh::Rng &r, T *a, int n = 4)
  {
    int start = (int)r.range(1, 4), step = (int)r.range(1, 2);
    bool rev = r.chance(1, 2);
    for (int i = 0; i < n; ++i)
      a[rev ? n - 1 - i : i] = (T)(start + i * step);  // <= 4+3*2 = 10
  }
  // fill a[0..3] with pairwise distinct values from Gen<T>::any
  template <typename T>
  __attribute__((noinline)) void fillAny(vh::Rng &r, T *a)
  {
    for (int t = 0; t < 6; ++t) {
      for (int i = 0; i < 4; ++i)
        a[i] = Gen<T>::any(r);
      if (distinct(a, 4))
        return;
    }
    fillSmall(r, a);
  }
  template <typename T>
  __attribute__((noinline)) void fillRanged(vh::Rng &r, T *a, int bits)
  {
    for (int t = 0; t < 6; ++t) {
      for (int i = 0; i < 4; ++i)
        a[i] = Gen<T>::ranged(r, bits);
      if (distinct(a, 4))
        return;
    }
    fillSmall(r, a);
  }

  // ---------------------------------------------------------------- integer sums of products
  // value of  sum_j sign_j * x_j * y_j  as the scalar expression over T yields it (type T):
  // computed in C = decltype(T()*T()).  Returns false if some evaluation order of the
  // scalar expression overflows a signed C (caller's UB): required sum |x_j*y_j| <= max(C).
  template <typename T>
  __attribute__((noinline)) bool intSumProd(const T *x, const T *y, const int *sign, int n, T &out)
  {
    typedef decltype(T() * T()) C;
    if (!std::is_signed<C>::value) {
      u64 acc = 0;
      for (int j = 0; j < n; ++j) {
        u64 p = (u64)(C)x[j] * (u64)(C)y[j];
        acc = sign[j] < 0 ? acc - p : acc + p;
      }
      out = (T)(C)acc;
      return true;
    }
    i128 acc = 0, mag = 0;
    const i128 lim = (i128)std::numeric_limits<C>::max();
    for (int j = 0; j < n; ++j) {
      i128 p = (i128)x[j] * (i128)y[j];  // |p| <= 2^126
      acc += sign[j] < 0 ? -p : p;
      mag += p < 0 ? -p : p;
      if (mag > lim)
        return false;
    }
    out = (T)(C)acc;
    return true;
  }
  // product of n values; false if a partial product (any order) may overflow a signed C
  template <typename T>
  __attribute__((noinline)) bool intProd(const T *x, int n, T &out)
  {
    typedef decltype(T() * T()) C;
    if (!std::is_signed<C>::value) {
      u64 acc = 1;
      for (int j = 0; j < n; ++j)
        acc *= (u64)(C)x[j];
      out = (T)(C)acc;
      return true;
    }
    i128 acc = 1, mag = 1;
    const i128 lim = (i128)std::numeric_limits<C>::max();
    for (int j = 0; j < n; ++j) {
      i128 v = x[j], m = v < 0 ? -v : v;
      if (m < 1)
        m = 1;
      acc *= v;
      mag *= m;
      if (mag > lim)
        return false;
      if (acc > lim || acc < -lim)
        return false;
    }
    out = (T)(C)acc;
    return true;
  }

  // ---------------------------------------------------------------- floating sums within rounding
  // judge `got` against sum of the terms (long double), allowing k*eps*sum|terms| + n*denorm_min.
  // returns 0 ok, 1 mismatch, -1 not judged (possible intermediate overflow)
  template <typename T>
  __attribute__((noinline)) int judgeSum(T got, const LD *term, int n, int k, LD *refOut, LD *tolOut)
  {
    typedef std::numeric_limits<T> L;
    bool anyNaN = false, pinf = false, ninf = false;
    LD s = 0, mag = 0;
    for (int j = 0; j < n; ++j) {
      LD t = term[j];
      if (t != t)
        anyNaN = true;
      else if (t - t != 0) {  // infinite term
        if (t > 0)
          pinf = true;
        else
          ninf = true;
      } else {
        s += t;
        mag += t < 0 ? -t : t;
      }
    }
    *refOut = s;
    *tolOut = 0;
    if (anyNaN || (pinf && ninf))
      return got != got ? 0 : 1;
    if (mag >= (LD)L::max() / 2)
      return -1;  // finite terms may overflow on the way, order dependent
    if (pinf || ninf) {
      *refOut = pinf ? (LD)L::infinity() : -(LD)L::infinity();
      return (got == (pinf ? L::infinity() : -L::infinity())) ? 0 : 1;
    }
    LD tol = (LD)k * (LD)L::epsilon() * mag + (LD)(n + 1) * (LD)L::denorm_min();
    *tolOut = tol;
    if (got != got)
      return 1;
    LD d = (LD)got - s;
    if (d < 0)
      d = -d;
    return d <= tol ? 0 : 1;
  }

}  // namespace c04
