// C03 - AsyncLoop start/stop/destroy protocol.
//
// Events (one global sequence counter): body enter/exit (first/last statement of the
// harness body), call/return of start(), stop(), destructor at the client boundary, and
// every RKCOMMON_VERIF hook point.  After each script the log is checked against
//   R1  no body begins or is running after a stop() return, until the next start() call
//   R2  after start() returns a body begins within the watchdog (re-run once; bounded liveness)
//   R3  the destructor returns (fork watchdog); with THREAD launch no body event after it
// Schedules: directed (pause role X at k-th arrival at point P until point Q of the other
// role, or tau ms), PCT-style random delays at hook points, and undelayed stress.
#include "vh.h"

#include <chrono>
#include <thread>

#include "rkcommon/tasking/AsyncLoop.h"
#include "rkcommon/tasking/tasking_system_init.h"

using namespace rkcommon::tasking;

// ------------------------------------------------------------------ points
static const char *kPoints[] = {
    // loop-thread hook points (0..8)
    "loop.alive_checked", "loop.running_checked", "loop.inside_published", "loop.body_done", "loop.inside_cleared",
    "loop.before_lock", "loop.pred_evaluated", "loop.wait_returned", "loop.exit",
    // controller hook points (9..22)
    "start.entry", "start.before_lock", "start.flag_set", "start.unlocked", "start.exit", "stop.entry",
    "stop.flag_cleared", "stop.spin", "stop.exit", "dtor.entry", "dtor.flags_cleared", "dtor.unlocked", "dtor.notified",
    "dtor.exit",
    // client-boundary pseudo points (23..30)
    "ctl.start_call", "ctl.start_ret", "ctl.stop_call", "ctl.stop_ret", "ctl.dtor_call", "ctl.dtor_ret", "body.enter",
    "body.exit",
    // bookkeeping
    "pause.begin", "pause.released", "pause.timeout"};
enum
{
  P_LOOP_FIRST   = 0,
  P_LOOP_EXIT    = 8,
  P_CTL_FIRST    = 9,
  P_CTL_LAST     = 22,
  P_START_CALL   = 23,
  P_START_RET    = 24,
  P_STOP_CALL    = 25,
  P_STOP_RET     = 26,
  P_DTOR_CALL    = 27,
  P_DTOR_RET     = 28,
  P_BODY_ENTER   = 29,
  P_BODY_EXIT    = 30,
  P_PAUSE_BEGIN  = 31,
  P_PAUSE_REL    = 32,
  P_PAUSE_TMO    = 33,
  P_COUNT        = 34
};
static int pointId(const char *n)
{
  for (int i = 0; i < P_COUNT; ++i)
    if (!strcmp(kPoints[i], n))
      return i;
  return -1;
}
static bool isLoopRolePoint(int p) { return p <= P_LOOP_EXIT || p == P_BODY_ENTER || p == P_BODY_EXIT; }

// ------------------------------------------------------------------ event log
struct Ev
{
  uint8_t point;
  uint8_t role;  // 1 = controller, 0 = other (loop thread)
  uint32_t script;
  const void *obj;
};
static const uint32_t LOGCAP = 1u << 18;
static Ev *g_log;
static std::atomic<uint32_t> g_seq(0);
static std::atomic<uint32_t> g_curScript(0);
static std::atomic<uint32_t> g_lastBodyEnterSeq(0);
static std::atomic<long> g_bodyCount(0);
static thread_local int tl_role = 0;
static thread_local uint64_t tl_rng = 0;

struct Directive
{
  bool active;
  int P, k, Q, tmoMs;
  std::atomic<int> arrivals;
  std::atomic<bool> released;
  std::atomic<bool> pausedAtP;       // the pause point was reached (k-th arrival)
  std::atomic<bool> releasedByQ;     // ... and it was released by Q (not by timeout)
};
static Directive g_dir;
static std::atomic<int> g_randomDelayPermille(0);
static uint64_t g_delaySeed = 0;

static inline void sleepUs(int us)
{
  if (us <= 0)
    std::this_thread::yield();
  else
    std::this_thread::sleep_for(std::chrono::microseconds(us));
}

static uint32_t logEvent(int point, const void *obj, uint32_t script)
{
  uint32_t s = g_seq.fetch_add(1, std::memory_order_seq_cst);
  if (s < LOGCAP) {
    g_log[s].point  = (uint8_t)point;
    g_log[s].role   = (uint8_t)tl_role;
    g_log[s].script = script;
    g_log[s].obj    = obj;
  }
  return s;
}

static bool g_noLog = false;  // tsan variant: no shared log (it would add happens-before edges)

static uint32_t atPoint(int p, const void *obj, uint32_t script)
{
  if (g_noLog)
    return 0;
  uint32_t s = logEvent(p, obj, script);
  if (p == P_BODY_ENTER) {
    uint32_t cur = g_lastBodyEnterSeq.load();
    while (cur < s && !g_lastBodyEnterSeq.compare_exchange_weak(cur, s)) {
    }
  }
  if (g_dir.active) {
    bool loopRolePoint = isLoopRolePoint(p);
    if (p == g_dir.Q && (tl_role == 1) == !loopRolePoint)
      g_dir.released.store(true);
    if (p == g_dir.P && (tl_role == 1) == !loopRolePoint && g_dir.arrivals.fetch_add(1) + 1 == g_dir.k) {
      g_dir.pausedAtP.store(true);
      logEvent(P_PAUSE_BEGIN, obj, script);
      double t0 = vh::now();
      bool rel  = false;
      while (!(rel = g_dir.released.load()) && (vh::now() - t0) * 1000.0 < g_dir.tmoMs)
        sleepUs(20);
      if (rel)
        g_dir.releasedByQ.store(true);
      logEvent(rel ? P_PAUSE_REL : P_PAUSE_TMO, obj, script);
    }
  }
  int pm = g_randomDelayPermille.load(std::memory_order_relaxed);
  if (pm > 0 && p <= P_CTL_LAST) {
    if (!tl_rng)
      tl_rng = g_delaySeed ^ (0x9E3779B97F4A7C15ull * (uint64_t)(tl_role + 1)) ^ (uint64_t)(uintptr_t)&tl_rng;
    tl_rng ^= tl_rng << 13;
    tl_rng ^= tl_rng >> 7;
    tl_rng ^= tl_rng << 17;
    if ((int)(tl_rng % 1000) < pm)
      sleepUs((int)((tl_rng >> 20) % 200));
  }
  return s;
}

static void hookFcn(const char *name, const void *obj)
{
  int p = pointId(name);
  if (p < 0)
    return;
  atPoint(p, obj, g_curScript.load(std::memory_order_relaxed));
}

// ------------------------------------------------------------------ scripts
struct Case
{
  std::string script;  // S start, W await body, T stop, G grace 300us, D destroy
  int launch;          // AsyncLoop::THREAD / TASK
  int bodyUs;
  int mode;            // 0 directed, 1 random delays, 2 stress (no hook delays)
  int P, k, Q;
  int delayPermille;
};

static std::string describeCase(const Case &c, long idx)
{
  std::string s = "#" + std::to_string(idx) + " script=" + (c.mode == 3 ? (c.script.compare(0, 2, "SW") == 0 && c.script[2] == 'F' ? "(SWFTg)x2000" : "S(W[F]TS)x2000") : c.script) + " launch=" + (c.launch == AsyncLoop::THREAD ? "THREAD" : "TASK") +
                  " bodyUs=" + std::to_string(c.bodyUs);
  if (c.mode == 0)
    s += std::string(" directed: pause at ") + kPoints[c.P] + " (arrival " + std::to_string(c.k) + ") until " + kPoints[c.Q];
  else if (c.mode == 1)
    s += " random-delays permille=" + std::to_string(c.delayPermille);
  else if (c.mode == 3)
    s += " raw-stress (no hook installed: nothing between the loop thread's flag store and flag load)";
  else
    s += " stress";
  return s;
}

static std::string dumpLog(uint32_t n, uint32_t script, uint32_t around)
{
  std::string o;
  uint32_t lo = around > 25 ? around - 25 : 0, hi = around + 15 < n ? around + 15 : n;
  for (uint32_t i = lo; i < hi; ++i) {
    if (g_log[i].script != script)
      continue;
    o += std::to_string(i) + ":" + (g_log[i].role ? "C:" : "L:") + kPoints[g_log[i].point] + " ";
  }
  return o;
}

struct RunResult
{
  bool r2Timeout;
  bool overflow;
  bool lostWakeupWitnessed;
};

static uint32_t g_scriptCounter = 0;

static RunResult runScript(const Case &c, long idx, bool judge)
{
  RunResult rr;
  rr.r2Timeout = false;
  rr.overflow  = false;
  rr.lostWakeupWitnessed = false;
  uint32_t script = ++g_scriptCounter;
  g_seq.store(0);
  g_lastBodyEnterSeq.store(0);
  g_curScript.store(script);
  g_dir.active = false;
  g_dir.arrivals.store(0);
  g_dir.released.store(false);
  g_dir.pausedAtP.store(false);
  g_dir.releasedByQ.store(false);
  if (c.mode == 0) {
    g_dir.P      = c.P;
    g_dir.k      = c.k;
    g_dir.Q      = c.Q;
    g_dir.tmoMs  = 30;
    g_dir.active = true;
  }
  g_randomDelayPermille.store(c.mode == 1 ? c.delayPermille : 0);
  g_delaySeed = vh::hash64(vh::seed(), (uint64_t)idx);
  tl_rng      = 0;

  const int bodyUs = c.bodyUs;
  auto body = [script, bodyUs]() {
    g_bodyCount.fetch_add(1, std::memory_order_relaxed);
    atPoint(P_BODY_ENTER, 0, script);
    if (bodyUs > 0) {
      double t0 = vh::now();
      while ((vh::now() - t0) * 1e6 < bodyUs) {
      }
      std::this_thread::yield();
    } else if (bodyUs < 0) {  // raw stress: |bodyUs| nanoseconds, no yield
      double t0 = vh::now();
      while ((vh::now() - t0) * 1e9 < -bodyUs) {
      }
    } else
      std::this_thread::yield();
    atPoint(P_BODY_EXIT, 0, script);
  };

  std::string ctx = describeCase(c, idx);
  // raw stress: the library runs without any hook callback, so that no fence of the harness sits
  // between the loop thread's store of insideLoopBody and its load of the running flag
  rkcommon::verif::HookFcn savedHook = rkcommon::verif::hook().load();
  if (c.mode == 3)
    rkcommon::verif::hook().store(nullptr);
  vh::Rng fr(vh::seed(), 555 + (uint64_t)idx);
  AsyncLoop *al   = new AsyncLoop(body, (AsyncLoop::LaunchMethod)c.launch);
  uint32_t lastStartRet = 0;
  long bodiesAtStart    = 0;
  bool started = false;
  for (size_t i = 0; i < c.script.size(); ++i) {
    char op = c.script[i];
    if (op == 'S') {
      atPoint(P_START_CALL, 0, script);
      al->start();
      lastStartRet   = atPoint(P_START_RET, 0, script);
      bodiesAtStart  = g_bodyCount.load(std::memory_order_relaxed);
      started = true;
    } else if (op == 'T') {
      atPoint(P_STOP_CALL, 0, script);
      al->stop();
      atPoint(P_STOP_RET, 0, script);
      started = false;
    } else if (op == 'G') {
      sleepUs(300);
    } else if (op == 'g') {  // short quiet period after stop(): a late body would log now
      double t0 = vh::now();
      while ((vh::now() - t0) * 1e6 < 3.0) {
      }
    } else if (op == 'F') {  // free-run for a random sub-microsecond time
      double t0 = vh::now(), us = fr.real(0.0, 1.5);
      while ((vh::now() - t0) * 1e6 < us) {
      }
    } else if (op == 'W') {
      if (!started)
        continue;
      double t0 = vh::now();
      while (g_noLog ? g_bodyCount.load(std::memory_order_relaxed) <= bodiesAtStart + 1
                     : g_lastBodyEnterSeq.load() <= lastStartRet) {
        if (vh::now() - t0 > 5.0) {
          rr.r2Timeout = true;
          break;
        }
        if (c.mode != 3)
          sleepUs(20);
      }
      if (!rr.r2Timeout)
        vh::count("r2_body_after_start_observed");
      else {
        // Logical witness for a lost wake-up (as opposed to a stalled machine): the loop
        // thread did nothing for 5 s although start() had returned, yet it responds at once
        // to a fresh stop()+start().  A starved thread would not.
        long before = g_bodyCount.load(std::memory_order_relaxed);
        al->stop();
        al->start();
        double p0 = vh::now();
        while (g_bodyCount.load(std::memory_order_relaxed) == before && vh::now() - p0 < 1.0)
          sleepUs(50);
        double took = vh::now() - p0;
        if (g_bodyCount.load(std::memory_order_relaxed) != before) {
          rr.lostWakeupWitnessed = true;
          char b[64];
          snprintf(b, sizeof b, "%.1f", took * 1000.0);
          vh::violation("C03:R2:lost-wakeup-after-start-returned",
                        std::string("no body began within 5 s after start() returned (step ") + std::to_string(i) + " of the script), but the loop thread ran a body " + b +
                            " ms after a fresh stop()+start(): it was asleep although the loop was started",
                        ctx);
        }
        break;  // the rest of the script is skipped
      }
    } else if (op == 'D') {
      break;
    }
  }
  atPoint(P_DTOR_CALL, 0, script);
  delete al;
  atPoint(P_DTOR_RET, 0, script);
  rkcommon::verif::hook().store(savedHook);
  g_dir.active = false;
  g_randomDelayPermille.store(0);
  // wait (bounded) for the loop function to return so that no stale thread logs into the next script
  if (!g_noLog && c.mode != 3) {
    // (after two loops of this process did not show their exit point, later ones are given
    // 20 ms only: stale events are filtered by script id anyway, and a tree that leaks every
    // TASK loop must not cost 2 s per script)
    static int notSeen = 0;
    const double patience = notSeen >= 2 ? 0.02 : 2.0;
    double t0   = vh::now();
    bool exited = false;
    while (!exited && vh::now() - t0 < patience) {
      uint32_t n = g_seq.load();
      if (n > LOGCAP)
        n = LOGCAP;
      for (uint32_t i = n; i-- > 0;)
        if (g_log[i].point == P_LOOP_EXIT && g_log[i].script == script) {
          exited = true;
          break;
        }
      if (!exited)
        sleepUs(50);
    }
    if (!exited) {
      ++notSeen;
      vh::count(c.launch == AsyncLoop::THREAD ? "loop_exit_point_not_seen_thread" : "loop_exit_point_not_seen_task");
    }
  }
  sleepUs(c.launch == AsyncLoop::THREAD ? 0 : 100);
  uint32_t n = g_seq.load();
  if (n > LOGCAP) {
    n           = LOGCAP;
    rr.overflow = true;
    vh::count("log_overflow_scripts");
  }
  vh::count("events_logged", n);
  if (!judge)
    return rr;

  // ---------------- offline rules over the log of this script
  // R1: after every stop return r: no body.enter in (r, next start call) and no body running at r
  long bodies = 0;
  {
    bool stopped       = false;  // between a stop return and the next start call
    uint32_t stopSeq   = 0;
    bool inBody        = false;
    uint32_t enterSeq  = 0;
    bool dtorReturned  = false;
    uint32_t dtorSeq   = 0;
    bool bodyAtStopRet = false;
    for (uint32_t i = 0; i < n; ++i) {
      const Ev &e = g_log[i];
      if (e.script != script)
        continue;
      switch (e.point) {
      case P_BODY_ENTER:
        ++bodies;
        inBody   = true;
        enterSeq = i;
        if (stopped)
          vh::violation("C03:R1:body-begins-after-stop-returned",
                        "body.enter at seq " + std::to_string(i) + " after stop() returned at seq " + std::to_string(stopSeq) +
                            " with no start() in between; log: " + dumpLog(n, script, i),
                        ctx);
        if (dtorReturned && c.launch == AsyncLoop::THREAD)
          vh::violation("C03:R3:body-begins-after-destructor-returned",
                        "body.enter at seq " + std::to_string(i) + " after the destructor returned at seq " + std::to_string(dtorSeq) +
                            "; log: " + dumpLog(n, script, i),
                        ctx);
        break;
      case P_BODY_EXIT:
        if (inBody && bodyAtStopRet && enterSeq < stopSeq)
          vh::violation("C03:R1:body-running-when-stop-returned",
                        "body interval [" + std::to_string(enterSeq) + "," + std::to_string(i) + "] contains the stop() return at seq " +
                            std::to_string(stopSeq) + "; log: " + dumpLog(n, script, stopSeq),
                        ctx);
        if (inBody && dtorReturned && enterSeq < dtorSeq && c.launch == AsyncLoop::THREAD)
          vh::violation("C03:R3:body-running-when-destructor-returned",
                        "body interval contains the destructor return; log: " + dumpLog(n, script, dtorSeq), ctx);
        inBody        = false;
        bodyAtStopRet = false;
        break;
      case P_STOP_RET:
        if (e.role == 1) {
          stopped       = true;
          stopSeq       = i;
          bodyAtStopRet = inBody;
        }
        break;
      case P_START_CALL:
        stopped       = false;
        bodyAtStopRet = false;
        break;
      case P_DTOR_RET:
        dtorReturned = true;
        dtorSeq      = i;
        break;
      default:
        break;
      }
    }
  }
  vh::count("bodies_observed", bodies);
  if (c.mode == 0) {
    vh::count("directed_requested");
    if (g_dir.pausedAtP.load())
      vh::count("directed_pause_point_reached");
    if (g_dir.releasedByQ.load())
      vh::count("directed_realised");
  }
  return rr;
}

// ------------------------------------------------------------------ case generation
static std::vector<Case> g_cases;

static void addDirected(const std::string &script, int launch, int bodyUs, int P, int k, int Q)
{
  Case c;
  c.script = script;
  c.launch = launch;
  c.bodyUs = bodyUs;
  c.mode   = 0;
  c.P      = P;
  c.k      = k;
  c.Q      = Q;
  c.delayPermille = 0;
  g_cases.push_back(c);
}

static void buildCases(bool tsan, bool taskOk, bool threadOk)
{
  vh::Rng r(vh::seed(), 3);
  const char *scriptsAll[] = {"ST", "SWT", "SWTG", "STGS", "SWTSWT", "STST", "SWTGSWTG", "SS", "SSWT", "T", "TT", "TS", "SD",
                              "SWD", "STD", "D", "SWGGT", "SWTSD", "STSWTD"};
  const int nScripts = sizeof(scriptsAll) / sizeof(scriptsAll[0]);
  std::vector<int> launches;
  if (threadOk)
    launches.push_back(AsyncLoop::THREAD);
  if (taskOk)
    launches.push_back(AsyncLoop::TASK);
  if (tsan) {
    // no hooks, no log: pure stress so that TSan sees the library's own synchronisation only
    long n = vh::tier(3000, 60000);
    for (long i = 0; i < n; ++i) {
      Case c;
      int len = (int)r.range(1, 8);
      for (int j = 0; j < len; ++j)
        c.script += "SSTTWG"[r.below(6)];
      c.launch = AsyncLoop::THREAD;
      c.bodyUs = (int)r.pick(std::vector<int>{0, 0, 5, 50});
      c.mode   = 2;
      c.P = c.k = c.Q = 0;
      c.delayPermille = 0;
      g_cases.push_back(c);
    }
    return;
  }
  // (a) directed schedules.  priority windows first (always run), then the other pairs
  // (sampled in quick, all in thorough)
  int prioP[]  = {1 /*running_checked*/, 2 /*inside_published*/, 6 /*pred_evaluated*/, 5 /*before_lock*/, 0 /*alive_checked*/, 7};
  int prioQ[]  = {P_STOP_RET, 15 /*stop.flag_cleared*/, 11 /*start.flag_set*/, 13 /*start.exit*/, P_START_RET, 19 /*dtor.flags_cleared*/,
                  21 /*dtor.notified*/, P_DTOR_RET, 12 /*start.unlocked*/, P_STOP_CALL};
  const char *prioScripts[] = {"STG", "SWTG", "SWTGSWTG", "STGSWTG", "SWD", "SD", "SWTSD", "SSWTG"};
  for (size_t l = 0; l < launches.size(); ++l)
    for (int pi = 0; pi < 6; ++pi)
      for (int qi = 0; qi < 10; ++qi)
        for (int si = 0; si < 8; ++si)
          for (int k = 1; k <= 3; ++k) {
            bool always = pi < 3 && qi < 8 && k <= 2 && si < 6;
            if (always || vh::thorough() || r.chance(1, 6))
              addDirected(prioScripts[si], launches[l], k == 3 ? 20 : 0, prioP[pi], k, prioQ[qi]);
          }
  // controller paused until a loop-thread point
  int ctlP[]   = {10 /*start.before_lock*/, 11, 12, 13, 14 /*stop.entry*/, 15, 16 /*stop.spin*/, 17, 18 /*dtor.entry*/, 19, 20, 21};
  int loopQ[]  = {0, 1, 2, 3, 4, 5, 6, 7, P_BODY_ENTER, P_BODY_EXIT};
  for (size_t l = 0; l < launches.size(); ++l)
    for (int pi = 0; pi < 12; ++pi)
      for (int qi = 0; qi < 10; ++qi)
        for (int si = 0; si < nScripts; ++si)
          for (int k = 1; k <= 2; ++k)
            if (vh::thorough() ? r.chance(1, 2) : r.chance(1, 40))
              addDirected(scriptsAll[si], launches[l], (int)r.pick(std::vector<int>{0, 0, 20, 300}), ctlP[pi], k, loopQ[qi]);
  // all loop-point x controller-point pairs over all scripts (sampled)
  for (size_t l = 0; l < launches.size(); ++l)
    for (int P = 0; P <= 7; ++P)
      for (int Q = P_CTL_FIRST; Q <= P_DTOR_RET; ++Q)
        for (int si = 0; si < nScripts; ++si)
          for (int k = 1; k <= 3; ++k)
            if (vh::thorough() ? r.chance(1, 3) : r.chance(1, 60))
              addDirected(scriptsAll[si], launches[l], (int)r.pick(std::vector<int>{0, 0, 20, 300}), P, k, Q);
  // (b) random delays at hook points, random scripts
  long nRandom = vh::tier(600, 40000);
  for (long i = 0; i < nRandom; ++i) {
    Case c;
    int len = (int)r.range(1, 8);
    for (int j = 0; j < len; ++j)
      c.script += "SSTTWGD"[r.below(6 + (j == len - 1))];
    c.launch        = launches[r.below(launches.size())];
    c.bodyUs        = (int)r.pick(std::vector<int>{0, 0, 10, 100, 1000});
    c.mode          = 1;
    c.delayPermille = (int)r.pick(std::vector<int>{50, 200, 500});
    c.P = c.k = c.Q = 0;
    g_cases.push_back(c);
  }
  // (d) raw stress: thousands of start/await/free-run/stop cycles on one loop with no hook
  // installed; decides what no interleaving of hook points can show (hardware store->load
  // reordering between the loop thread's flag store and flag load)
  {
    long nRaw = vh::tier(80, 1500);
    for (long i = 0; i < nRaw; ++i) {
      Case c;
      int cycles = 2000;
      c.script.reserve((size_t)cycles * 5);
      if (i % 2 == 0)
        for (int j = 0; j < cycles; ++j)
          c.script += "SWFTg";
      else {
        // stop() immediately followed by start(): the loop thread is on its way into the wait
        c.script += "S";
        for (int j = 0; j < cycles; ++j)
          c.script += (j % 3 == 0) ? "WFTS" : "WTS";
      }
      c.launch        = launches[i % launches.size()];
      c.bodyUs        = -(int)r.pick(std::vector<int>{200, 400, 400, 1000});
      c.mode          = 3;
      c.delayPermille = 0;
      c.P = c.k = c.Q = 0;
      g_cases.push_back(c);
    }
  }
  // (c) stress without delays (hooks only log)
  long nStress = vh::tier(600, 40000);
  for (long i = 0; i < nStress; ++i) {
    Case c;
    int len = (int)r.range(1, 8);
    for (int j = 0; j < len; ++j)
      c.script += "SSTTWG"[r.below(6)];
    c.launch        = launches[r.below(launches.size())];
    c.bodyUs        = (int)r.pick(std::vector<int>{0, 0, 0, 5, 50});
    c.mode          = 2;
    c.delayPermille = 0;
    c.P = c.k = c.Q = 0;
    g_cases.push_back(c);
  }
}

// ---- default launch method: several loops constructed without naming a launch method, over tasking systems of
// different sizes (not initialised at all, 2, 4, 6 threads). Whatever the loop picks for itself, the protocol is the
// same: every loop's body runs after its start() returned, is quiet after stop() returned, runs again after a restart.
static void defaultLaunchScenario(long k)
{
  static const int NT[] = {0, 2, 4, 6, 3, 1};
  int nThreads = NT[k % 6];
  int nLoops   = 1 + (int)((k / 6) % 4);  // 1..4 (with 6 threads every loop may take a worker: 5 are there)
  std::string ctx = "#" + std::to_string(k) + " default launch method, " + (nThreads ? "initTaskingSystem(" + std::to_string(nThreads) + ")" : std::string("tasking system not initialised")) + ", " +
                    std::to_string(nLoops) + " loop(s) alive at the same time";
  if (nThreads)
    initTaskingSystem(nThreads);
  struct L
  {
    std::atomic<long> bodies;
    std::atomic<int> inside;
    std::unique_ptr<AsyncLoop> loop;
    L() : bodies(0), inside(0) {}
  };
  // the records are never freed: a loop that runs as a task may still be inside its body after the AsyncLoop object
  // was destroyed (only a loop that owns its thread is joined by the destructor)
  std::vector<L *> ls;
  for (int i = 0; i < nLoops; ++i) {
    ls.push_back(new L());
    L *me = ls.back();
    me->loop.reset(new AsyncLoop([me]() {
      me->inside.store(1);
      me->bodies.fetch_add(1);
      std::this_thread::sleep_for(std::chrono::microseconds(50));
      me->inside.store(0);
    }));
  }
  auto waitBodies = [&](L *l, long above, double seconds) {
    double t0 = vh::now();
    while (l->bodies.load() <= above && vh::now() - t0 < seconds)
      std::this_thread::sleep_for(std::chrono::microseconds(200));
    return l->bodies.load() > above;
  };
  bool bad = false;
  for (int round = 0; round < 2 && !bad; ++round) {
    for (int i = 0; i < nLoops; ++i)
      ls[i]->loop->start();
    for (int i = 0; i < nLoops && !bad; ++i) {
      long seen = ls[i]->bodies.load();
      if (!waitBodies(ls[i], seen, 6.0) && !waitBodies(ls[i], seen, 6.0)) {
        vh::violation("C03:R2:no-body-after-start-returned", "loop " + std::to_string(i) + " of " + std::to_string(nLoops) + ": no body began within 12 s after start() returned (round " + std::to_string(round) + ")", ctx);
        bad = true;
      }
    }
    for (int i = 0; i < nLoops && !bad; ++i) {
      ls[i]->loop->stop();
      long b0 = ls[i]->bodies.load();
      int in0 = ls[i]->inside.load();
      std::this_thread::sleep_for(std::chrono::milliseconds(2));
      if (in0 || ls[i]->bodies.load() != b0) {
        vh::violation("C03:R1:body-running-when-stop-returned", "loop " + std::to_string(i) + ": the body was executing / began again after stop() returned", ctx);
        bad = true;
      }
    }
  }
  if (!bad) {
    for (int i = 0; i < nLoops; ++i)
      ls[i]->loop->start();
    for (int i = 0; i < nLoops; ++i)
      waitBodies(ls[i], ls[i]->bodies.load(), 6.0);
  }
  // destroyed while running (the fork watchdog covers a destructor that does not return)
  for (int i = 0; i < nLoops; ++i)
    ls[i]->loop.reset();
  vh::count("default_launch_scenarios");
  vh::evaluated(vh::hash64(vh::hash64(333, (uint64_t)nThreads), (uint64_t)nLoops), true);
}

int main(int argc, char **argv)
{
  vh::init(argc, argv);
  std::string variant = vh::st().variant;
  const bool tsan     = variant.find("tsan") != std::string::npos;
  const bool debugBackend = variant.find("debug") != std::string::npos;
  vh::rule(
      "case = (call script over {S start, W await body, T stop, G grace, D destroy}, launch method, body duration, schedule "
      "directive | random-delay rate | stress); distinct = hash of that tuple; non-trivial = the script starts the loop at least "
      "once. Verdicts from rules R1-R3 over the sequence-numbered event log of each script");
  // TASK launch needs a threaded backend (under the serial debug backend schedule() is synchronous)
  buildCases(tsan, !debugBackend, true);
  g_log   = (Ev *)calloc(LOGCAP, sizeof(Ev));
  g_noLog = tsan;

  static bool inited = false;
  auto runCase = [&](long k) {
    if (!inited) {
      inited  = true;
      tl_role = 1;
      initTaskingSystem(6);
      if (!tsan)
        rkcommon::verif::hook().store(&hookFcn);
    }
    const Case &c = g_cases[k];
    RunResult rr  = runScript(c, k, !tsan);
    // every R2 expiry costs seconds: a tree on which the loop systematically fails to run must not
    // take hours - after a few of them this child stops (its violations are on record)
    static int r2Expiries = 0;
    if (rr.r2Timeout && ++r2Expiries >= 4) {
      if (!rr.lostWakeupWitnessed)
        vh::violation("C03:R2:no-body-after-start-returned", "no body began within 5 s after start() returned (4th expiry in this process; remaining scripts of the batch skipped)", describeCase(c, k));
      vh::abandonChild();
    }
    if (rr.r2Timeout && !rr.lostWakeupWitnessed) {
      // bounded liveness: a watchdog expiry alone is inconclusive -> re-run the same schedule once
      RunResult r2 = runScript(c, k, true);
      if (r2.r2Timeout && !r2.lostWakeupWitnessed) {
        uint32_t n = g_seq.load() < LOGCAP ? g_seq.load() : LOGCAP;
        vh::violation("C03:R2:no-body-after-start-returned",
                      "no body began within 5 s after start() returned, twice in a row on the same schedule; log tail: " +
                          dumpLog(n, g_scriptCounter, n > 15 ? n - 15 : 0),
                      describeCase(c, k));
      } else if (!r2.r2Timeout)
        vh::inconclusive("R2 watchdog expired once and not on the re-run: " + describeCase(c, k));
    }
    uint64_t h = vh::hashStr(c.script, 31);
    h          = vh::hash64(h, (uint64_t)c.launch * 1000003u + (uint64_t)c.bodyUs);
    h          = vh::hash64(h, (uint64_t)c.mode * 7919u + (uint64_t)c.P * 131u + (uint64_t)c.k * 17u + (uint64_t)c.Q);
    vh::evaluated(h, c.script.find('S') != std::string::npos);
    vh::count(c.mode == 0 ? "scripts_directed" : c.mode == 1 ? "scripts_random_delay" : c.mode == 3 ? "scripts_raw_stress" : "scripts_stress");
    if (c.mode == 3)
      vh::count("raw_stress_start_stop_cycles", (long long)c.script.size() / 5);
    vh::count(c.launch == AsyncLoop::THREAD ? "scripts_thread_launch" : "scripts_task_launch");
    if (k % 997 == 0)
      vh::sample(vh::J().kv("case", describeCase(c, k)).str(), 8);
  };
  vh::forkedCases((long)g_cases.size(), runCase, 30000, 400,
                  [&](long k) { return std::string("C03-script ") + describeCase(g_cases[k], k); });
  vh::count("cases_generated", (long long)g_cases.size());
  if (!tsan) {
    // fresh process per scenario: the size of the tasking system is part of the scenario
    vh::forkedCases(vh::tier(24, 96), defaultLaunchScenario, 60000, 1, [](long k) { return std::string("C03-default-launch #") + std::to_string(k); });
  }
  return vh::finish();
}
