// C17 - index maps are bijections and the 3D array adaptors address the right cell.
//
// Oracle: 128-bit integer reference for flatten / reshape / longIndex / coordsOf / longProduct /
// indexOf / numElements; reference enumeration (z outer, y, x inner) for range-for and for_each;
// arrays whose cells hold their own unique flattened id, so that every read names its cell.
// Exhaustive for all small extents (non-cubic included), seeded random for extents whose product
// exceeds 2^31 / 2^32 (index functions only, or a sparse NORESERVE mapping touched at a few cells).
#include "vh.h"

#include <algorithm>

#include <climits>
#include <cstring>
#include <map>
#include <memory>
#include <stdexcept>
#include <string>
#include <vector>

#include "rkcommon/array3D/Array3D.h"
#include "rkcommon/array3D/for_each.h"
#include "rkcommon/utility/multidim_index_sequence.h"

using namespace rkcommon;
using namespace rkcommon::math;
using namespace rkcommon::array3D;

typedef unsigned __int128 u128;

static std::string s128(u128 v)
{
  if (v == 0)
    return "0";
  std::string s;
  while (v) {
    s = char('0' + (int)(v % 10)) + s;
    v /= 10;
  }
  return s;
}
static std::string sv(const vec3i &v)
{
  return "(" + std::to_string(v.x) + "," + std::to_string(v.y) + "," + std::to_string(v.z) + ")";
}
static std::string sv(const vec_t<size_t, 3> &v)
{
  return "(" + std::to_string(v.x) + "," + std::to_string(v.y) + "," + std::to_string(v.z) + ")";
}
static std::string sv(const vec_t<size_t, 2> &v)
{
  return "(" + std::to_string(v.x) + "," + std::to_string(v.y) + ")";
}
static bool same(const vec3i &a, const vec3i &b) { return a.x == b.x && a.y == b.y && a.z == b.z; }

// ------------------------------------------------------------------ dimension helpers for 2D / 3D sequences
template <int N>
struct Dim;
template <>
struct Dim<3>
{
  typedef vec_t<size_t, 3> V;
  static const char *name() { return "seq3D"; }
  static V make(size_t x, size_t y, size_t z) { return V(x, y, z); }
  static size_t z(const V &v) { return v.z; }
  static bool eq(const V &a, const V &b) { return a.x == b.x && a.y == b.y && a.z == b.z; }
};
template <>
struct Dim<2>
{
  typedef vec_t<size_t, 2> V;
  static const char *name() { return "seq2D"; }
  static V make(size_t x, size_t y, size_t) { return V(x, y); }
  static size_t z(const V &) { return 0; }
  static bool eq(const V &a, const V &b) { return a.x == b.x && a.y == b.y; }
};

// reference maps (128 bit)
static u128 refFlatten(u128 x, u128 y, u128 z, u128 dx, u128 dy) { return x + dx * (y + dy * z); }
static void refReshape(u128 i, u128 dx, u128 dy, u128 &x, u128 &y, u128 &z)
{
  x = i % dx;
  y = (i / dx) % dy;
  z = i / (dx * dy);
}

// iterator arithmetic at position p (p + 3 <= total is not required: only current() is inspected
// beyond the end, dereference only inside)
template <int N>
static void iteratorOps(const multidim_index_sequence<N> &seq, size_t dx, size_t dy, size_t dz, size_t total, size_t p, const std::string &ctx)
{
  typedef typename Dim<N>::V V;
  std::string K = std::string("C17:") + Dim<N>::name() + ":iterator:";
  multidim_index_iterator<N> it = seq.begin();
  VH_CHECK(it.current() == 0, K + "begin", "begin() does not start at index 0", ctx);
  VH_CHECK(seq.end().current() == total, K + "end", "end() is not at total_indices(): " + std::to_string(seq.end().current()), ctx);
  it.jump_to(p);
  VH_CHECK(it.current() == p, K + "jump_to", "current() after jump_to(p) is " + std::to_string(it.current()), ctx + " p=" + std::to_string(p));
  u128 x, y, z;
  if (p < total) {
    refReshape(p, dx, dy, x, y, z);
    V c = *it;
    VH_CHECK(Dim<N>::eq(c, Dim<N>::make((size_t)x, (size_t)y, (size_t)z)), K + "dereference", "*it is " + sv(c) + " at index " + std::to_string(p), ctx);
  }
  {
    multidim_index_iterator<N> r = ++it;  // prefix: advances and returns the advanced position
    VH_CHECK(it.current() == p + 1 && r.current() == p + 1, K + "pre-increment",
             "after ++it: it at " + std::to_string(it.current()) + ", result at " + std::to_string(r.current()) + ", expected " + std::to_string(p + 1), ctx);
    VH_CHECK(r == it && !(r != it), K + "comparison", "the result of ++it does not compare equal to it", ctx);
    if (p + 1 < total) {
      refReshape(p + 1, dx, dy, x, y, z);
      VH_CHECK(Dim<N>::eq(*r, Dim<N>::make((size_t)x, (size_t)y, (size_t)z)), K + "dereference", "*(++it) is " + sv(*r) + " at index " + std::to_string(p + 1), ctx);
    }
  }
  it++;
  VH_CHECK(it.current() == p + 2, K + "post-increment", "it++ left the iterator at " + std::to_string(it.current()) + ", expected " + std::to_string(p + 2), ctx);
  {
    multidim_index_iterator<N> r = --it;
    VH_CHECK(it.current() == p + 1 && r.current() == p + 1, K + "pre-decrement", "after --it the iterator is at " + std::to_string(it.current()), ctx);
  }
  it--;
  VH_CHECK(it.current() == p, K + "post-decrement", "it-- left the iterator at " + std::to_string(it.current()) + ", expected " + std::to_string(p), ctx);
  {
    it.jump_to(p);
    size_t got = (it + (size_t)3).current();
    VH_CHECK(got == p + 3, K + "plus-offset", "(it + 3) is at " + std::to_string(got) + ", expected " + std::to_string(p + 3), ctx);
    it.jump_to(p + 5);
    got = (it - (size_t)2).current();
    VH_CHECK(got == p + 3, K + "minus-offset", "(it - 2) is at " + std::to_string(got) + ", expected " + std::to_string(p + 3), ctx);
    multidim_index_iterator<N> a = seq.begin(), b = seq.begin();
    a.jump_to(p);
    b.jump_to(4);
    got = (a + b).current();
    VH_CHECK(got == p + 4, K + "plus-iterator", "(a + b) is at " + std::to_string(got) + ", expected " + std::to_string(p + 4), ctx);
    a.jump_to(p + 4);
    got = (a - b).current();
    VH_CHECK(got == p, K + "minus-iterator", "(a - b) is at " + std::to_string(got) + ", expected " + std::to_string(p), ctx);
  }
  {
    multidim_index_iterator<N> a = seq.begin(), b = seq.begin();
    a.jump_to(p);
    b.jump_to(p);
    VH_CHECK(a == b && !(a != b), K + "comparison", "two iterators of one sequence at the same index compare unequal", ctx);
    b.jump_to(p + 1);
    VH_CHECK(a != b && !(a == b), K + "comparison", "two iterators at different indices compare equal", ctx);
  }
  vh::count("iterator_positions_checked");
}

// exhaustive check of one small extent
template <int N>
static void checkSeqSmall(size_t dx, size_t dy, size_t dz)
{
  typedef typename Dim<N>::V V;
  std::string K   = std::string("C17:") + Dim<N>::name() + ":";
  V d             = Dim<N>::make(dx, dy, dz);
  std::string ctx = std::string(Dim<N>::name()) + " dims=" + sv(d);
  multidim_index_sequence<N> seq(d);
  size_t total = dx * dy * (N == 3 ? dz : 1);
  if (N == 2)
    dz = 1;
  VH_CHECK(seq.total_indices() == total, K + "total_indices", "total_indices()=" + std::to_string(seq.total_indices()) + " expected " + std::to_string(total), ctx);
  VH_CHECK(Dim<N>::eq(seq.dimensions(), d), K + "dimensions", "dimensions() is " + sv(seq.dimensions()), ctx);
  // every coordinate and every index
  size_t expect = 0;
  if (total > 0) {
    for (size_t z = 0; z < dz; ++z)
      for (size_t y = 0; y < dy; ++y)
        for (size_t x = 0; x < dx; ++x, ++expect) {
          V c        = Dim<N>::make(x, y, z);
          size_t i   = seq.flatten(c);
          u128 iref  = refFlatten(x, y, z, dx, dy);
          std::string cc = ctx + " c=" + sv(c);
          if (i != iref || i != expect) {
            // which slip?  (transposed axes give the index of the swapped coordinate)
            bool transposed = (N == 3 && dx != dy && i == refFlatten(y, x, z, dx, dy)) || (i == y + dy * (x + dx * z) && dx != dy);
            vh::violation(K + (transposed ? "flatten:transposed" : "flatten:value"), "flatten=" + std::to_string(i) + " expected " + s128(iref) + " (x-fastest order)", cc);
          }
          VH_CHECK(i < total || i != iref, K + "flatten:out-of-range", "flatten=" + std::to_string(i) + " >= total " + std::to_string(total), cc);
          V r = seq.reshape(expect);
          VH_CHECK(Dim<N>::eq(r, c), K + "reshape:value", "reshape(" + std::to_string(expect) + ")=" + sv(r) + " expected " + sv(c), cc);
          VH_CHECK(Dim<N>::eq(seq.reshape(i), c), K + "roundtrip:reshape-of-flatten", "reshape(flatten(c))=" + sv(seq.reshape(i)), cc);
          VH_CHECK(seq.flatten(r) == expect, K + "roundtrip:flatten-of-reshape", "flatten(reshape(i))=" + std::to_string(seq.flatten(r)) + " for i=" + std::to_string(expect), cc);
        }
  }
  // range-for: every coordinate exactly once, in flattened order
  {
    size_t n = 0, x = 0, y = 0, z = 0;
    bool reported = false;
    for (V c : seq) {
      if (n >= total) {
        vh::violation(K + "iteration:too-many", "range-for visits more than total_indices()=" + std::to_string(total) + " coordinates; extra " + sv(c), ctx);
        reported = true;
        break;
      }
      if (!Dim<N>::eq(c, Dim<N>::make(x, y, z)) && !reported) {
        vh::violation(K + "iteration:order", "visit " + std::to_string(n) + " is " + sv(c) + " expected " + sv(Dim<N>::make(x, y, z)), ctx);
        reported = true;
      }
      ++n;
      if (++x == dx) {
        x = 0;
        if (++y == dy) {
          y = 0;
          ++z;
        }
      }
    }
    if (!reported)
      VH_CHECK(n == total, K + "iteration:too-few", "range-for visits " + std::to_string(n) + " of " + std::to_string(total) + " coordinates", ctx);
    if (total == 0)
      VH_CHECK(seq.begin() == seq.end(), K + "iteration:empty", "begin() != end() for an empty extent", ctx);
    else
      VH_CHECK(seq.begin() != seq.end(), K + "iterator:comparison", "begin() == end() for a non-empty extent", ctx);
  }
  if (total > 0) {
    iteratorOps<N>(seq, dx, dy, dz, total, 0, ctx);
    iteratorOps<N>(seq, dx, dy, dz, total, total / 2, ctx);
    iteratorOps<N>(seq, dx, dy, dz, total, total - 1, ctx);
  }
  vh::evaluated(vh::hash64(vh::hash64(vh::hash64(N, dx), dy), dz), total > 1 && (dx != dy || (N == 3 && dy != dz)));
  vh::count(N == 3 ? "seq3D_extents_exhaustive" : "seq2D_extents_exhaustive");
  vh::count("seq_coordinates_checked", (long long)total);
}

// random extent of `dimsN` axes with lo < product <= hi (all axes >= 1)
static void randomExtent(vh::Rng &r, int n, u128 lo, u128 hi, u128 axisMax, u128 *d)
{
  for (;;) {
    int shape = (int)r.below(4);
    u128 p    = 1;
    for (int a = 0; a < n; ++a) {
      int bits;
      if (shape == 0)
        bits = (int)r.range(1, 24);
      else if (shape == 1)
        bits = a == 0 ? (int)r.range(20, 40) : (int)r.range(0, 12);  // long x
      else if (shape == 2)
        bits = a == n - 1 ? (int)r.range(20, 40) : (int)r.range(0, 12);  // long last axis
      else
        bits = (int)r.range(8, 31);
      u128 v = 1;
      if (bits > 0)
        v = (u128)(r.next() >> (64 - bits)) | ((u128)1 << (bits - 1));
      if (v > axisMax)
        v = axisMax - r.below(1000);
      d[a] = v;
      p *= v;
    }
    if (p > lo && p <= hi)
      return;
  }
}

template <int N>
static void checkSeqBig(vh::Rng &r, long k)
{
  typedef typename Dim<N>::V V;
  std::string K = std::string("C17:") + Dim<N>::name() + ":big:";
  u128 d[3]     = {1, 1, 1};
  u128 lo       = k % 3 == 0 ? ((u128)1 << 31) : ((u128)1 << 32);
  u128 hi       = k % 3 == 0 ? ((u128)1 << 32) : k % 3 == 1 ? ((u128)1 << 40) : ((u128)1 << 62);
  randomExtent(r, N, lo, hi, (u128)1 << 62, d);
  size_t dx = (size_t)d[0], dy = (size_t)d[1], dz = N == 3 ? (size_t)d[2] : 1;
  u128 total = (u128)dx * dy * dz;
  V dv       = Dim<N>::make(dx, dy, dz);
  multidim_index_sequence<N> seq(dv);
  std::string ctx = std::string(Dim<N>::name()) + " dims=" + sv(dv) + " total=" + s128(total);
  VH_CHECK(seq.total_indices() == total, K + "total_indices", "total_indices()=" + std::to_string(seq.total_indices()), ctx);
  // corners, coordinates next to the 2^31 / 2^32 index boundaries, random coordinates
  std::vector<u128> idx;
  idx.push_back(0);
  idx.push_back(total - 1);
  for (int c = 0; c < 8; ++c)
    idx.push_back(refFlatten((c & 1) ? dx - 1 : 0, (c & 2) ? dy - 1 : 0, (c & 4) ? dz - 1 : 0, dx, dy));
  u128 marks[] = {(u128)1 << 31, (u128)1 << 32, (u128)1 << 33, (u128)1 << 48};
  for (int m = 0; m < 4; ++m)
    for (int o = -1; o <= 1; ++o)
      if (marks[m] + o < total)
        idx.push_back(marks[m] + o);
  for (int j = 0; j < 24; ++j)
    idx.push_back((((u128)r.next() << 64) | r.next()) % total);
  for (size_t j = 0; j < idx.size(); ++j) {
    u128 x, y, z;
    refReshape(idx[j], dx, dy, x, y, z);
    V c           = Dim<N>::make((size_t)x, (size_t)y, (size_t)z);
    size_t i      = seq.flatten(c);
#define CC (ctx + " c=" + sv(c) + " index=" + s128(idx[j]))  // built only when a monitor fires
    if (i != idx[j])
      vh::violation(K + ((u128)(uint32_t)i == (idx[j] & 0xffffffffu) && (i >> 32) == 0 ? "flatten:32-bit-truncation" : "flatten:value"),
                    "flatten=" + std::to_string(i) + " expected " + s128(idx[j]), CC);
    V rr = seq.reshape((size_t)idx[j]);
    VH_CHECK(Dim<N>::eq(rr, c), K + "reshape:value", "reshape=" + sv(rr) + " expected " + sv(c), CC);
    VH_CHECK(seq.flatten(rr) == idx[j] || !Dim<N>::eq(rr, c), K + "roundtrip", "flatten(reshape(i)) != i", CC);
    multidim_index_iterator<N> it = seq.begin();
    it.jump_to((size_t)idx[j]);
    VH_CHECK(Dim<N>::eq(*it, c), K + "iterator:dereference", "*it=" + sv(*it) + " expected " + sv(c), CC);
    if (idx[j] + 1 < total) {
      refReshape(idx[j] + 1, dx, dy, x, y, z);
      multidim_index_iterator<N> nx = ++it;
      VH_CHECK(Dim<N>::eq(*nx, Dim<N>::make((size_t)x, (size_t)y, (size_t)z)), K + "iterator:successor", "*(++it)=" + sv(*nx) + " is not the next coordinate in flattened order", CC);
    }
#undef CC
    vh::count("big_coordinates_checked");
  }
  VH_CHECK(seq.end().current() == total, K + "iterator:end", "end() is at " + std::to_string(seq.end().current()), ctx);
  {
    multidim_index_iterator<N> it = seq.begin();
    it.jump_to((size_t)(total - 1));
    multidim_index_iterator<N> nx = ++it;
    VH_CHECK(nx == seq.end() && it == seq.end(), K + "iterator:end", "incrementing the iterator at the last index does not give end()", ctx);
  }
  vh::evaluated(vh::hash64(vh::hash64(vh::hash64(1000 + N, dx), dy), dz), true);
  vh::count(total > ((u128)1 << 32) ? "seq_big_extents_above_2^32" : "seq_big_extents_above_2^31");
  vh::sample(vh::J().kv("kind", std::string(Dim<N>::name()) + " big extent").kv("dims", sv(dv)).kv("total", s128(total)).str(), 4);
}

// ------------------------------------------------------------------ for_each.h index functions
static void checkLongSmall(int dx, int dy, int dz)
{
  vec3i d(dx, dy, dz);
  std::string ctx = "dims=" + sv(d);
  u128 total      = (u128)dx * dy * dz;
  VH_CHECK(longProduct(d) == total, "C17:longProduct:value", "longProduct=" + std::to_string(longProduct(d)) + " expected " + s128(total), ctx);
  if (total == 0)
    return;
  size_t expect = 0;
  for (int z = 0; z < dz; ++z)
    for (int y = 0; y < dy; ++y)
      for (int x = 0; x < dx; ++x, ++expect) {
        vec3i c(x, y, z);
        size_t i = longIndex(c, d);
        std::string cc = ctx + " c=" + sv(c);
        if (i != expect) {
          bool transposed = dx != dy && i == refFlatten(y, x, z, dx, dy);
          vh::violation(transposed ? "C17:longIndex:transposed" : "C17:longIndex:value", "longIndex=" + std::to_string(i) + " expected " + std::to_string(expect), cc);
        }
        vec3i r = coordsOf(expect, d);
        VH_CHECK(same(r, c), "C17:coordsOf:value", "coordsOf(" + std::to_string(expect) + ")=" + sv(r) + " expected " + sv(c), cc);
        if (i < total)
          VH_CHECK(same(coordsOf(i, d), c), "C17:roundtrip:coordsOf-of-longIndex", "coordsOf(longIndex(c))=" + sv(coordsOf(i, d)), cc);
      }
  vh::evaluated(vh::hash64(vh::hash64(vh::hash64(31, dx), dy), dz), total > 1 && (dx != dy || dy != dz));
  vh::count("longIndex_extents_exhaustive");
}

static vec3i bigVec3iExtent(vh::Rng &r, long k, u128 &total)
{
  u128 d[3];
  u128 lo = k % 3 == 0 ? ((u128)1 << 31) : ((u128)1 << 32);
  u128 hi = k % 3 == 0 ? ((u128)1 << 32) : k % 3 == 1 ? ((u128)1 << 40) : ((u128)1 << 62);
  randomExtent(r, 3, lo, hi, 2147483647, d);
  total = d[0] * d[1] * d[2];
  return vec3i((int)d[0], (int)d[1], (int)d[2]);
}

static void checkLongBig(vh::Rng &r, long k)
{
  u128 total;
  vec3i d         = bigVec3iExtent(r, k, total);
  u128 dx = d.x, dy = d.y, dz = d.z;
  std::string ctx = "dims=" + sv(d) + " total=" + s128(total);
  VH_CHECK(longProduct(d) == total, "C17:longProduct:big", "longProduct=" + std::to_string(longProduct(d)) + " expected " + s128(total), ctx);
  std::vector<u128> idx;
  idx.push_back(total - 1);
  for (int c = 0; c < 8; ++c)
    idx.push_back(refFlatten((c & 1) ? dx - 1 : 0, (c & 2) ? dy - 1 : 0, (c & 4) ? dz - 1 : 0, dx, dy));
  u128 marks[] = {(u128)1 << 31, (u128)1 << 32, (u128)1 << 33, (u128)1 << 48};
  for (int m = 0; m < 4; ++m)
    for (int o = -1; o <= 1; ++o)
      if (marks[m] + o < total)
        idx.push_back(marks[m] + o);
  for (int j = 0; j < 24; ++j)
    idx.push_back((((u128)r.next() << 64) | r.next()) % total);
  // an array object over no memory at all: only its index functions are used
  ActualArray3D<unsigned char> ghost(d, (void *)64);
  VH_CHECK(ghost.numElements() == total, "C17:ActualArray3D:numElements:big", "numElements=" + std::to_string(ghost.numElements()) + " expected " + s128(total), ctx);
  VH_CHECK(same(ghost.size(), d), "C17:ActualArray3D:size", "size()=" + sv(ghost.size()), ctx);
  for (size_t j = 0; j < idx.size(); ++j) {
    u128 x, y, z;
    refReshape(idx[j], dx, dy, x, y, z);
    vec3i c((int)x, (int)y, (int)z);
#define CC (ctx + " c=" + sv(c) + " index=" + s128(idx[j]))  // built only when a monitor fires
    size_t i = longIndex(c, d);
    if (i != idx[j])
      vh::violation(((u128)(uint32_t)i == (idx[j] & 0xffffffffu) && (i >> 32) == 0) ? "C17:longIndex:32-bit-truncation" : "C17:longIndex:big", "longIndex=" + std::to_string(i) + " expected " + s128(idx[j]), CC);
    size_t i2 = ghost.indexOf(c);
    VH_CHECK(i2 == idx[j], "C17:ActualArray3D:indexOf:big", "indexOf=" + std::to_string(i2) + " expected " + s128(idx[j]), CC);
    vec3i rr = coordsOf((size_t)idx[j], d);
    VH_CHECK(same(rr, c), "C17:coordsOf:big", "coordsOf=" + sv(rr) + " expected " + sv(c), CC);
#undef CC
    vh::count("big_coordinates_checked");
  }
  // numElements of the adaptors is a 64-bit product as well
  {
    std::shared_ptr<Array3D<unsigned char> > g = std::make_shared<ActualArray3D<unsigned char> >(d, (void *)64);
    IndexShiftedArray3D<unsigned char> sh(g, vec3i(1, 2, 3));
    VH_CHECK(sh.numElements() == total, "C17:IndexShifted:numElements", "numElements=" + std::to_string(sh.numElements()), ctx);
    Array3DAccessor<unsigned char, float> ac(g);
    VH_CHECK(ac.numElements() == total, "C17:Accessor:numElements", "numElements=" + std::to_string(ac.numElements()), ctx);
    vec3i lo((int)r.below(d.x), (int)r.below(d.y), (int)r.below(d.z));
    if (r.chance(1, 2))
      lo = vec3i(0);
    box3i clip(lo, d);
    SubBoxArray3D<unsigned char> sb(g, clip);
    u128 st = (u128)(d.x - lo.x) * (u128)(d.y - lo.y) * (u128)(d.z - lo.z);
    VH_CHECK(sb.numElements() == st, "C17:SubBox:numElements", "numElements=" + std::to_string(sb.numElements()) + " expected " + s128(st), ctx + " clip.lower=" + sv(lo));
    VH_CHECK(same(sb.size(), d - lo), "C17:SubBox:size", "size()=" + sv(sb.size()), ctx + " clip.lower=" + sv(lo));
    Array3DRepeater<unsigned char> rp(g, d);
    VH_CHECK(rp.numElements() == total && same(rp.size(), d), "C17:Repeater:numElements", "numElements=" + std::to_string(rp.numElements()), ctx);
    // multi slice: slices of (dx,dy,1), dz of them would need dz objects; use a few slices
    std::vector<std::shared_ptr<Array3D<unsigned char> > > sl;
    int ns = (int)r.range(1, 5);
    for (int s = 0; s < ns; ++s)
      sl.push_back(std::make_shared<ActualArray3D<unsigned char> >(vec3i(d.x, d.y, 1), (void *)64));
    MultiSliceArray3D<unsigned char> ms(sl);
    VH_CHECK(ms.numElements() == (u128)dx * dy * ns, "C17:MultiSlice:numElements", "numElements=" + std::to_string(ms.numElements()), ctx + " slices=" + std::to_string(ns));
  }
  vh::evaluated(vh::hash64(vh::hash64(vh::hash64(32, d.x), d.y), d.z), true);
  vh::count(total > ((u128)1 << 32) ? "vec3i_big_extents_above_2^32" : "vec3i_big_extents_above_2^31");
  vh::sample(vh::J().kv("kind", "vec3i big extent").kv("dims", sv(d)).kv("total", s128(total)).str(), 8);
}

// ------------------------------------------------------------------ for_each over regions
struct Runaway
{
};

struct VisitLog
{
  vec3i lo, hi;
  long long n, expected;
  int ex, ey, ez;  // next expected coordinate
  bool bad;
  std::string firstBad, klass;
  VisitLog(const vec3i &l, const vec3i &h) : lo(l), hi(h), n(0), bad(false)
  {
    long long a = (long long)h.x - l.x, b = (long long)h.y - l.y, c = (long long)h.z - l.z;
    expected    = (a > 0 && b > 0 && c > 0) ? a * b * c : 0;
    ex = l.x, ey = l.y, ez = l.z;
  }
  void operator()(const vec3i &idx)
  {
    if (!bad) {
      bool inside = idx.x >= lo.x && idx.x < hi.x && idx.y >= lo.y && idx.y < hi.y && idx.z >= lo.z && idx.z < hi.z;
      if (!inside) {
        bad = true, klass = "outside-region", firstBad = "visit " + std::to_string(n) + " is " + sv(idx) + ", outside [lower,upper)";
      } else if (n >= expected) {
        bad = true, klass = "cells-repeated", firstBad = "visit " + std::to_string(n) + " is " + sv(idx) + " after every cell of the region has been visited";
      } else if (idx.x != ex || idx.y != ey || idx.z != ez) {
        bad = true, klass = "order", firstBad = "visit " + std::to_string(n) + " is " + sv(idx) + " expected " + sv(vec3i(ex, ey, ez));
      }
      if (++ex >= hi.x) {
        ex = lo.x;
        if (++ey >= hi.y) {
          ey = lo.y;
          ++ez;
        }
      }
    }
    ++n;
    if (n > expected + 4096)
      throw Runaway();
  }
};

static void judgeVisits(const VisitLog &v, const char *overload, const std::string &ctx)
{
  std::string K = std::string("C17:for_each:") + overload + ":";
  if (v.bad)
    vh::violation(K + v.klass, v.firstBad + "; " + std::to_string(v.n) + " visits, " + std::to_string(v.expected) + " cells in the region", ctx);
  else if (v.n != v.expected)
    vh::violation(K + (v.n < v.expected ? "cells-missed" : "cells-repeated"), std::to_string(v.n) + " visits, " + std::to_string(v.expected) + " cells in the region", ctx);
}

static void checkForEachBox(const vec3i &lo, const vec3i &hi)
{
  std::string ctx = "for_each lower=" + sv(lo) + " upper=" + sv(hi);
  {
    VisitLog v(lo, hi);
    try {
      for_each(lo, hi, [&](const vec3i &i) { v(i); });
    } catch (const Runaway &) {
    }
    judgeVisits(v, "lower-upper", ctx);
  }
  {
    VisitLog v(lo, hi);
    box3i b(lo, hi);
    try {
      for_each(b, [&](const vec3i &i) { v(i); });
    } catch (const Runaway &) {
    }
    judgeVisits(v, "box", ctx);
  }
  if (lo.x == 0 && lo.y == 0 && lo.z == 0) {
    VisitLog v(lo, hi);
    long long k = 0;
    bool tied   = hi.x > 0 && hi.y > 0 && hi.z > 0;
    try {
      for_each(hi, [&](const vec3i &i) {
        // the k-th visit is the cell with flattened index k
        if (k >= v.expected)
          tied = false;
        if (tied && !same(i, coordsOf((size_t)k, hi))) {
          tied = false;
          vh::violation("C17:for_each:size:not-in-flattened-order", "visit " + std::to_string(k) + " is " + sv(i) + " but coordsOf gives " + sv(coordsOf((size_t)k, hi)), ctx);
        }
        if (tied && longIndex(i, hi) != (size_t)k) {
          tied = false;
          vh::violation("C17:for_each:size:not-in-flattened-order", "visit " + std::to_string(k) + " has longIndex " + std::to_string(longIndex(i, hi)), ctx);
        }
        ++k;
        v(i);
      });
    } catch (const Runaway &) {
    }
    judgeVisits(v, "size", ctx);
    vh::count("for_each_size_overload_regions");
  }
  long long a = (long long)hi.x - lo.x, b = (long long)hi.y - lo.y, c = (long long)hi.z - lo.z;
  bool empty  = !(a > 0 && b > 0 && c > 0);
  vh::count(empty ? "for_each_regions_empty" : (a == 1 && b == 1 && c == 1) ? "for_each_regions_single_cell" : "for_each_regions_multi_cell");
  uint64_t h = vh::hash64(vh::hash64(vh::hash64(41, (uint32_t)lo.x), (uint32_t)lo.y), (uint32_t)lo.z);
  vh::evaluated(vh::hash64(vh::hash64(vh::hash64(h, (uint32_t)hi.x), (uint32_t)hi.y), (uint32_t)hi.z), !empty && a * b * c > 1);
}

// ------------------------------------------------------------------ arrays and adaptors
static const int ID0 = 1000;  // id of cell 0 (non-zero so that "never written" shows)

static inline bool same3(const vec3i &a, const vec3i &b) { return a.x == b.x && a.y == b.y && a.z == b.z; }
static int clampi(long long v, int lo, int hi) { return v < lo ? lo : v > hi ? hi : (int)v; }

struct Grid  // reference: which id lives where
{
  vec3i d;
  std::vector<int> ids;  // by reference flattened index
  int at(long long x, long long y, long long z) const  // clamped
  {
    int cx = clampi(x, 0, d.x - 1), cy = clampi(y, 0, d.y - 1), cz = clampi(z, 0, d.z - 1);
    return ids[(size_t)cx + (size_t)d.x * ((size_t)cy + (size_t)d.y * (size_t)cz)];
  }
};

static void fill(ActualArray3D<int> &a, const Grid &g)
{
  for (int z = 0; z < g.d.z; ++z)
    for (int y = 0; y < g.d.y; ++y)
      for (int x = 0; x < g.d.x; ++x)
        a.set(vec3i(x, y, z), g.at(x, y, z));
}

static void refRange(const Grid &g, const vec3i &b, const vec3i &e, int &mn, int &mx)
{
  mn = INT_MAX, mx = INT_MIN;
  for (int z = b.z; z < e.z; ++z)
    for (int y = b.y; y < e.y; ++y)
      for (int x = b.x; x < e.x; ++x) {
        int v = g.at(x, y, z);
        mn    = v < mn ? v : mn;
        mx    = v > mx ? v : mx;
      }
}

static void checkArrays(int dx, int dy, int dz, vh::Rng &r)
{
  vec3i d(dx, dy, dz);
  std::string ctx = "array dims=" + sv(d);
  size_t total    = (size_t)dx * dy * dz;
  // zero extents: only the size queries are meaningful (there is no valid cell)
  if (total == 0) {
    ActualArray3D<int> a(d);
    VH_CHECK(a.numElements() == 0, "C17:ActualArray3D:numElements", "numElements=" + std::to_string(a.numElements()) + " for an empty extent", ctx);
    VH_CHECK(same(a.size(), d), "C17:ActualArray3D:size", "size()=" + sv(a.size()), ctx);
    vh::count("array_extents_empty");
    return;
  }
  Grid g, s;  // g: id = ID0 + flattened index; s: a permutation of those ids (for value ranges)
  g.d = s.d = d;
  for (size_t i = 0; i < total; ++i)
    g.ids.push_back(ID0 + (int)i);
  s.ids = g.ids;
  for (size_t i = total - 1; i > 0; --i)
    std::swap(s.ids[i], s.ids[r.below(i + 1)]);

  std::shared_ptr<ActualArray3D<int> > A = std::make_shared<ActualArray3D<int> >(d);
  std::shared_ptr<ActualArray3D<int> > S = std::make_shared<ActualArray3D<int> >(d);
  ActualArray3D<int> &a = *A;
  // ---- set: every cell written once lands in its own slot of the store
  a.clear(-1);
  for (size_t i = 0; i < total; ++i)
    if (a.value[i] != -1) {
      vh::violation("C17:ActualArray3D:clear", "clear(-1) left cell " + std::to_string(i) + " at " + std::to_string(a.value[i]), ctx);
      break;
    }
  fill(a, g);
  fill(*S, s);
  for (size_t i = 0; i < total; ++i)
    if (a.value[i] != g.ids[i]) {
      vh::violation("C17:ActualArray3D:set:wrong-cell", "after set(c, id(c)) for every c, slot " + std::to_string(i) + " of the store holds " + std::to_string(a.value[i]) + " expected " + std::to_string(g.ids[i]), ctx);
      break;
    }
  VH_CHECK(a.numElements() == total, "C17:ActualArray3D:numElements", "numElements=" + std::to_string(a.numElements()) + " expected " + std::to_string(total), ctx);
  VH_CHECK(same(a.size(), d), "C17:ActualArray3D:size", "size()=" + sv(a.size()), ctx);
  // ---- get inside, indexOf, clamped get around the extent
  for (int pass = 0; pass < 2; ++pass)  // valid coordinates first
  for (int z = -2; z <= dz + 1; ++z)
    for (int y = -2; y <= dy + 1; ++y)
      for (int x = -2; x <= dx + 1; ++x) {
        vec3i c(x, y, z);
        bool inside = x >= 0 && x < dx && y >= 0 && y < dy && z >= 0 && z < dz;
        if (inside != (pass == 0))
          continue;
        int got = a.get(c), exp = g.at(x, y, z);
        if (got != exp)
          vh::violation(inside ? "C17:ActualArray3D:get:inside" : "C17:ActualArray3D:get:clamped", "get" + sv(c) + "=" + std::to_string(got) + " expected " + std::to_string(exp) + (inside ? "" : " (nearest cell)"), ctx);
        if (inside) {
          size_t i = a.indexOf(c);
          VH_CHECK(i == (size_t)(exp - ID0), "C17:ActualArray3D:indexOf", "indexOf" + sv(c) + "=" + std::to_string(i) + " expected " + std::to_string(exp - ID0), ctx);
        }
      }
  {
    const int far[] = {INT_MIN, INT_MIN + 1, -1000000, 1000000, INT_MAX - 1, INT_MAX};
    for (int i = 0; i < 6; ++i)
      for (int j = 0; j < 6; ++j) {
        vec3i c(far[i], far[j], far[(i + j) % 6]);
        int got = a.get(c), exp = g.at(c.x, c.y, c.z);
        VH_CHECK(got == exp, "C17:ActualArray3D:get:clamped", "get" + sv(c) + "=" + std::to_string(got) + " expected " + std::to_string(exp) + " (nearest cell)", ctx);
        vec3i c2(far[i], (int)r.below(dy), far[j]);
        got = a.get(c2), exp = g.at(c2.x, c2.y, c2.z);
        VH_CHECK(got == exp, "C17:ActualArray3D:get:clamped", "get" + sv(c2) + "=" + std::to_string(got) + " expected " + std::to_string(exp) + " (nearest cell)", ctx);
      }
  }
  // ---- set/get round trip on single cells: only that cell changes
  for (int t = 0; t < 4; ++t) {
    vec3i c((int)r.below(dx), (int)r.below(dy), (int)r.below(dz));
    if (t == 0)
      c = vec3i(dx - 1, dy - 1, dz - 1);
    if (t == 1)
      c = vec3i(dx - 1, 0, 0);
    int old = g.at(c.x, c.y, c.z);
    a.set(c, -5);
    VH_CHECK(a.get(c) == -5, "C17:ActualArray3D:set-get-roundtrip", "get(c) after set(c,-5) is " + std::to_string(a.get(c)), ctx + " c=" + sv(c));
    size_t changed = 0;
    for (size_t i = 0; i < total; ++i)
      changed += a.value[i] != g.ids[i];
    VH_CHECK(changed == 1 && a.value[old - ID0] == -5, "C17:ActualArray3D:set:wrong-cell", "set(c,v) changed " + std::to_string(changed) + " cells / not the cell of c", ctx + " c=" + sv(c));
    a.set(c, old);
  }
  // ---- value ranges
  {
    range_t<int> all = S->getValueRange();
    VH_CHECK(all.lower == ID0 && all.upper == ID0 + (int)total - 1, "C17:getValueRange:whole",
             "getValueRange()=[" + std::to_string(all.lower) + "," + std::to_string(all.upper) + "] expected [" + std::to_string(ID0) + "," + std::to_string(ID0 + (int)total - 1) + "]", ctx);
    int nb = 24;
    for (int t = 0; t < nb; ++t) {
      vec3i b((int)r.range(-2, dx), (int)r.range(-2, dy), (int)r.range(-2, dz));
      vec3i e((int)r.range(b.x + 1, dx + 2), (int)r.range(b.y + 1, dy + 2), (int)r.range(b.z + 1, dz + 2));
      if (t % 3 == 0) {  // inside the extent
        b = vec3i((int)r.below(dx), (int)r.below(dy), (int)r.below(dz));
        e = vec3i((int)r.range(b.x + 1, dx), (int)r.range(b.y + 1, dy), (int)r.range(b.z + 1, dz));
      }
      if (t == 1)
        e = b + vec3i(1);  // single cell
      int mn, mx;
      refRange(s, b, e, mn, mx);
      range_t<int> got = S->getValueRange(b, e);
      std::string cc   = ctx + " begin=" + sv(b) + " end=" + sv(e);
      if (got.lower != mn || got.upper != mx)
        vh::violation((got.lower <= mn && got.upper >= mx) ? "C17:getValueRange:not-tight" : "C17:getValueRange:does-not-bound",
                      "getValueRange=[" + std::to_string(got.lower) + "," + std::to_string(got.upper) + "] reference [" + std::to_string(mn) + "," + std::to_string(mx) + "]", cc);
      vh::count("value_range_regions");
    }
  }
  std::shared_ptr<Array3D<int> > base = A, sbase = S;
  // ---- IndexShifted: get(w) = actual((w + shift) mod size)
  {
    // quick: 6 boundary shifts per axis; thorough: every shift in [-size, size+2] per axis
    std::vector<int> sx, sy, sz;
    if (vh::thorough()) {
      for (int v = -dx; v <= dx + 2; ++v)
        sx.push_back(v);
      for (int v = -dy; v <= dy + 2; ++v)
        sy.push_back(v);
      for (int v = -dz; v <= dz + 2; ++v)
        sz.push_back(v);
    } else {
      int ax[6] = {-dx, -1, 0, 1, dx - 1, dx + 2}, ay[6] = {-dy, -1, 0, 1, dy - 1, dy + 2}, az[6] = {-dz, -1, 0, 1, dz - 1, dz + 2};
      sx.assign(ax, ax + 6), sy.assign(ay, ay + 6), sz.assign(az, az + 6);
    }
    for (size_t i = 0; i < sx.size(); ++i)
      for (size_t j = 0; j < sy.size(); ++j)
        for (size_t k = 0; k < sz.size(); ++k) {
          vec3i sh(sx[i], sy[j], sz[k]);
          IndexShiftedArray3D<int> v(base, sh);
          std::string cc = ctx + " shift=" + sv(sh);
          VH_CHECK(same(v.size(), d) && v.numElements() == total, "C17:IndexShifted:size", "size()/numElements() differ from the underlying array", cc);
          bool done = false;
          for (int z = 0; z < dz && !done; ++z)
            for (int y = 0; y < dy && !done; ++y)
              for (int x = 0; x < dx && !done; ++x) {
                int exp = g.at(((x + sh.x) % dx + dx) % dx, ((y + sh.y) % dy + dy) % dy, ((z + sh.z) % dz + dz) % dz);
                int got = v.get(vec3i(x, y, z));
                if (got != exp) {
                  int neg = g.at(((x - sh.x) % dx + dx) % dx, ((y - sh.y) % dy + dy) % dy, ((z - sh.z) % dz + dz) % dz);
                  vh::violation(got == neg ? "C17:IndexShifted:get:shift-sign" : "C17:IndexShifted:get:wrong-cell",
                                "get" + sv(vec3i(x, y, z)) + " returned cell id " + std::to_string(got) + " expected " + std::to_string(exp) + " = cell ((w+shift) mod size)", cc);
                  done = true;
                }
              }
          vh::count("shifted_views");
        }
    IndexShiftedArray3D<int> v(sbase, vec3i(1, dy - 1, -1));
    range_t<int> rr = v.getValueRange();
    VH_CHECK(rr.lower == ID0 && rr.upper == ID0 + (int)total - 1, "C17:IndexShifted:getValueRange", "[" + std::to_string(rr.lower) + "," + std::to_string(rr.upper) + "] over the whole shifted view", ctx);
  }
  // ---- SubBox: get(w) = actual(w + clip.lower), size = clip.size()
  {
    std::vector<box3i> clips;
    long long nAll = (long long)(dx * (dx + 1) / 2) * (dy * (dy + 1) / 2) * (dz * (dz + 1) / 2);
    if (nAll <= vh::tier(1000, 50000)) {
      for (int lx = 0; lx < dx; ++lx)
        for (int hx = lx + 1; hx <= dx; ++hx)
          for (int ly = 0; ly < dy; ++ly)
            for (int hy = ly + 1; hy <= dy; ++hy)
              for (int lz = 0; lz < dz; ++lz)
                for (int hz = lz + 1; hz <= dz; ++hz)
                  clips.push_back(box3i(vec3i(lx, ly, lz), vec3i(hx, hy, hz)));
    } else {
      for (int t = 0; t < 300; ++t) {
        vec3i lo((int)r.below(dx), (int)r.below(dy), (int)r.below(dz));
        vec3i hi((int)r.range(lo.x + 1, dx), (int)r.range(lo.y + 1, dy), (int)r.range(lo.z + 1, dz));
        clips.push_back(box3i(lo, hi));
      }
      clips.push_back(box3i(vec3i(0), d));
      clips.push_back(box3i(d - vec3i(1), d));
    }
    // empty clip boxes: size queries only
    clips.push_back(box3i(vec3i(dx / 2, 0, 0), vec3i(dx / 2, dy, dz)));
    for (size_t ci = 0; ci < clips.size(); ++ci) {
      const box3i &cb = clips[ci];
      SubBoxArray3D<int> v(base, cb);
      vec3i sz = cb.upper - cb.lower;
      std::string cc = ctx + " clip=[" + sv(cb.lower) + "," + sv(cb.upper) + ")";
      VH_CHECK(same(v.size(), sz), "C17:SubBox:size", "size()=" + sv(v.size()) + " expected " + sv(sz), cc);
      VH_CHECK(v.numElements() == (size_t)sz.x * sz.y * sz.z, "C17:SubBox:numElements", "numElements=" + std::to_string(v.numElements()), cc);
      bool done = false;
      for (int z = 0; z < sz.z && !done; ++z)
        for (int y = 0; y < sz.y && !done; ++y)
          for (int x = 0; x < sz.x && !done; ++x) {
            int exp = g.at(x + cb.lower.x, y + cb.lower.y, z + cb.lower.z);
            int got = v.get(vec3i(x, y, z));
            if (got != exp) {
              vh::violation(got == g.at(x, y, z) ? "C17:SubBox:get:offset-dropped" : "C17:SubBox:get:wrong-cell",
                            "get" + sv(vec3i(x, y, z)) + " returned cell id " + std::to_string(got) + " expected " + std::to_string(exp) + " = cell (w + clip.lower)", cc);
              done = true;
            }
          }
      if (sz.x > 0 && sz.y > 0 && sz.z > 0 && ci % 7 == 0) {
        SubBoxArray3D<int> vs(sbase, cb);
        int mn, mx;
        refRange(s, cb.lower, cb.upper, mn, mx);
        range_t<int> got = vs.getValueRange();
        VH_CHECK(got.lower == mn && got.upper == mx, "C17:SubBox:getValueRange",
                 "[" + std::to_string(got.lower) + "," + std::to_string(got.upper) + "] reference [" + std::to_string(mn) + "," + std::to_string(mx) + "]", cc);
      }
      vh::count("subbox_views");
    }
  }
  // ---- Accessor: get(w) = (out_t) actual(w)   (coordinates outside are clamped by the actual array)
  {
    Array3DAccessor<int, double> vd(base);
    Array3DAccessor<int, float> vf(base);
    Array3DAccessor<int, unsigned char> vu(base);
    VH_CHECK(same(vd.size(), d) && vd.numElements() == total && same(vu.size(), d) && vf.numElements() == total, "C17:Accessor:size", "size()/numElements() differ from the underlying array", ctx);
    bool done = false;
    for (int z = -1; z <= dz && !done; ++z)
      for (int y = -1; y <= dy && !done; ++y)
        for (int x = -1; x <= dx && !done; ++x) {
          int id = g.at(x, y, z);
          vec3i c(x, y, z);
          if (vd.get(c) != (double)id || vf.get(c) != (float)id || vu.get(c) != (unsigned char)id) {
            vh::violation("C17:Accessor:get", "get" + sv(c) + " is not the converted value of cell id " + std::to_string(id) + ": double " + std::to_string(vd.get(c)) + " float " + std::to_string(vf.get(c)) + " uchar " + std::to_string((int)vu.get(c)), ctx);
            done = true;
          }
        }
    // value ranges of a converting view, asked for through the view's own (static) type: they bound the CONVERTED
    // values of the region tightly, also when the conversion is not monotone (int -> unsigned char wraps)
    {
      vh::Rng rr2(vh::hashStr(ctx.c_str(), 3), 17);
      for (int q = 0; q < 6; ++q) {
        vec3i b((int)rr2.range(-1, dx), (int)rr2.range(-1, dy), (int)rr2.range(-1, dz));
        vec3i e((int)rr2.range(b.x + 1, dx + 1), (int)rr2.range(b.y + 1, dy + 1), (int)rr2.range(b.z + 1, dz + 1));
        if (q == 0)
          b = vec3i(0), e = d;
        int lo = 255, hi = 0;
        float flo = 0, fhi = 0;
        bool first = true;
        for (int z = b.z; z < e.z; ++z)
          for (int y = b.y; y < e.y; ++y)
            for (int x = b.x; x < e.x; ++x) {
              int u   = (int)(unsigned char)g.at(x, y, z);
              float f = (float)g.at(x, y, z);
              lo = u < lo ? u : lo, hi = u > hi ? u : hi;
              flo = first || f < flo ? f : flo, fhi = first || f > fhi ? f : fhi;
              first = false;
            }
        range_t<unsigned char> ru = vu.getValueRange(b, e);
        range_t<float> rf         = vf.getValueRange(b, e);
        if ((int)ru.lower != lo || (int)ru.upper != hi || rf.lower != flo || rf.upper != fhi) {
          vh::violation("C17:Accessor:getValueRange(region)", "region " + sv(b) + ".." + sv(e) + ": Accessor<int,uchar> says [" + std::to_string((int)ru.lower) + "," + std::to_string((int)ru.upper) + "], the converted cells span [" +
                                                                  std::to_string(lo) + "," + std::to_string(hi) + "]; Accessor<int,float> says [" + std::to_string(rf.lower) + "," + std::to_string(rf.upper) + "], cells span [" + std::to_string(flo) + "," + std::to_string(fhi) + "]", ctx);
          break;
        }
        if (q == 0) {
          range_t<unsigned char> rw = vu.getValueRange();
          VH_CHECK((int)rw.lower == lo && (int)rw.upper == hi, "C17:Accessor:getValueRange", "whole-volume range of Accessor<int,uchar> is [" + std::to_string((int)rw.lower) + "," + std::to_string((int)rw.upper) + "], the converted cells span [" + std::to_string(lo) + "," + std::to_string(hi) + "]", ctx);
        }
        vh::count("accessor_region_ranges");
      }
    }
    Array3DAccessor<int, float> vs(sbase);
    range_t<float> rr = vs.getValueRange();
    VH_CHECK(rr.lower == (float)ID0 && rr.upper == (float)(ID0 + (int)total - 1), "C17:Accessor:getValueRange", "[" + std::to_string(rr.lower) + "," + std::to_string(rr.upper) + "]", ctx);
    vh::count("accessor_views", 3);
  }
  // ---- MultiSlice: dz slices of (dx,dy,1); get(w) = slice[clamp(w.z)](w.x, w.y, 0)
  {
    std::vector<std::shared_ptr<Array3D<int> > > sl;
    for (int z = 0; z < dz; ++z) {
      std::shared_ptr<ActualArray3D<int> > one = std::make_shared<ActualArray3D<int> >(vec3i(dx, dy, 1));
      for (int y = 0; y < dy; ++y)
        for (int x = 0; x < dx; ++x)
          one->set(vec3i(x, y, 0), g.at(x, y, z));
      sl.push_back(one);
    }
    MultiSliceArray3D<int> v(sl);
    VH_CHECK(same(v.size(), d), "C17:MultiSlice:size", "size()=" + sv(v.size()) + " expected " + sv(d), ctx);
    VH_CHECK(v.numElements() == total, "C17:MultiSlice:numElements", "numElements=" + std::to_string(v.numElements()), ctx);
    bool done = false;
    // valid coordinates first, then the ones that are clamped (slice index by MultiSlice, x/y by the slice)
    for (int pass = 0; pass < 2 && !done; ++pass)
      for (int z = -2; z <= dz + 1 && !done; ++z)
        for (int y = -1; y <= dy && !done; ++y)
          for (int x = -1; x <= dx && !done; ++x) {
            bool inside = z >= 0 && z < dz && y >= 0 && y < dy && x >= 0 && x < dx;
            if (inside != (pass == 0))
              continue;
            int exp = g.at(x, y, z), got = v.get(vec3i(x, y, z));
            if (got != exp) {
              vh::violation(inside ? "C17:MultiSlice:get:wrong-cell" : "C17:MultiSlice:get:clamped", "get" + sv(vec3i(x, y, z)) + " returned cell id " + std::to_string(got) + " expected " + std::to_string(exp), ctx);
              done = true;
            }
          }
    range_t<int> rr = v.getValueRange();
    VH_CHECK(rr.lower == ID0 && rr.upper == ID0 + (int)total - 1, "C17:MultiSlice:getValueRange", "[" + std::to_string(rr.lower) + "," + std::to_string(rr.upper) + "]", ctx);
    // the adaptor names the slices it was BUILT from: what the caller does with its own vector afterwards (permute it,
    // reuse it for another volume, let it go) changes nothing
    {
      std::reverse(sl.begin(), sl.end());
      if (dz > 1)
        sl.pop_back();
      bool same = same3(v.size(), d) && v.numElements() == total;
      for (int z = 0; z < dz && same; ++z)
        same = v.get(vec3i(dx - 1, dy - 1, z)) == g.at(dx - 1, dy - 1, z) && v.get(vec3i(0, 0, z)) == g.at(0, 0, z);
      std::vector<std::shared_ptr<Array3D<int> > >().swap(sl);  // the caller's vector is gone (a stale reference is an ASan report)
      for (int z = 0; z < dz && same; ++z)
        same = v.get(vec3i(0, dy - 1, z)) == g.at(0, dy - 1, z);
      same = same && same3(v.size(), d);
      VH_CHECK(same, "C17:MultiSlice:depends-on-the-callers-vector", "after the caller permuted / shortened / released the vector the adaptor was built from, the adaptor's cells or size changed", ctx);
      vh::count("multislice_checked_after_callers_vector_changed");
    }
    vh::count("multislice_views");
    vh::maxi("multislice_max_slices", dz);
  }
  // ---- MultiSlice over slices that are not one layer thick: by definition only layer 0 of the slice that z names
  //      is ever read. (a) every slice a SubBox view (lower.z = z) of the one base volume, which does not clamp;
  //      (b) slices 2..3 layers thick whose other layers hold ids that belong to no cell.
  {
    std::vector<std::shared_ptr<Array3D<int> > > views, thick;
    for (int z = 0; z < dz; ++z) {
      views.push_back(std::make_shared<SubBoxArray3D<int> >(base, box3i(vec3i(0, 0, z), vec3i(dx, dy, dz))));
      int k = 2 + (z & 1);
      std::shared_ptr<ActualArray3D<int> > t = std::make_shared<ActualArray3D<int> >(vec3i(dx, dy, k));
      for (int l = 0; l < k; ++l)
        for (int y = 0; y < dy; ++y)
          for (int x = 0; x < dx; ++x)
            t->set(vec3i(x, y, l), l == 0 ? g.at(x, y, z) : -1000 - l);
      thick.push_back(t);
    }
    MultiSliceArray3D<int> mv(views), mt(thick);
    VH_CHECK(mv.size().z == dz && mt.size().z == dz && mv.size().x == dx && mt.size().y == dy, "C17:MultiSlice:size", "size() over thick/view slices: " + sv(mv.size()) + " / " + sv(mt.size()), ctx);
    bool done = false;
    for (int z = -2; z <= dz + 1 && !done; ++z)
      for (int y = 0; y < dy && !done; ++y)
        for (int x = 0; x < dx && !done; ++x) {
          int exp = g.at(x, y, z), gv = mv.get(vec3i(x, y, z)), gt = mt.get(vec3i(x, y, z));
          if (gv != exp || gt != exp) {
            vh::violation(gv != exp ? "C17:MultiSlice:get:not-layer-0-of-view-slice" : "C17:MultiSlice:get:not-layer-0-of-thick-slice",
                          "get" + sv(vec3i(x, y, z)) + " returned cell id " + std::to_string(gv != exp ? gv : gt) + " expected " + std::to_string(exp) + " (layer 0 of slice " + std::to_string(clampi(z, 0, dz - 1)) + ")", ctx);
            done = true;
          }
        }
    vh::count("multislice_thick_or_view_slices", 2 * dz);
  }
  // ---- value ranges describe the cells as they are NOW: the same adaptor object, asked again after the array it wraps
  //      was written, reports the new values (and again the old ones once the cell is restored)
  {
    Array3DAccessor<int, float> acc(sbase);
    IndexShiftedArray3D<int> sh(sbase, vec3i(0));
    SubBoxArray3D<int> sb(sbase, box3i(vec3i(0), d));
    std::vector<std::shared_ptr<Array3D<int> > > one(1, sbase);
    bool ok1 = true, ok2 = true, ok3 = true;
    const int lo0 = ID0, hi0 = ID0 + (int)total - 1;
    auto asked = [&](int lo, int hi) {
      range_t<float> ra = acc.getValueRange();
      range_t<int> rs = sh.getValueRange(), rb = sb.getValueRange(), rS = S->getValueRange();
      return ra.lower == (float)lo && ra.upper == (float)hi && rs.lower == lo && rs.upper == hi && rb.lower == lo && rb.upper == hi && rS.lower == lo && rS.upper == hi;
    };
    ok1 = asked(lo0, hi0);
    vec3i cell(dx - 1, dy - 1, dz - 1);
    int old = S->get(cell);
    S->set(cell, hi0 + 1000);
    int lo1 = lo0, hi1 = hi0 + 1000;
    if (total > 1 && old == lo0)
      lo1 = lo0 + 1;
    if (total == 1)
      lo1 = hi1;
    ok2 = asked(lo1, hi1);
    S->set(cell, old);
    ok3 = asked(lo0, hi0);
    if (!(ok1 && ok2 && ok3))
      vh::violation("C17:getValueRange:stale-after-write", std::string("whole-volume getValueRange() of an adaptor / the array, asked ") + (!ok1 ? "first" : !ok2 ? "again after a cell of the wrapped array was set to a new maximum" : "again after the cell was restored") +
                                                             ", does not bound the cells as they are", ctx);
    vh::count("value_ranges_asked_again_after_a_write");
  }
  // ---- Repeater, as defined: w' = w mod R per axis, mirrored when (w / R) is odd; get = actual(w')
  {
    vec3i Rs[3] = {vec3i(2 * dx, 2 * dy + 1, 3 * dz), vec3i(dx, dy, dz), vec3i(dx > 1 ? dx - 1 : 1, dy + 2, dz > 2 ? dz - 2 : 1)};
    for (int ri = 0; ri < 3; ++ri) {
      vec3i R = Rs[ri];
      Array3DRepeater<int> v(base, R);
      std::string cc = ctx + " repeatedSize=" + sv(R);
      VH_CHECK(same(v.size(), R) && v.numElements() == (size_t)R.x * R.y * R.z, "C17:Repeater:size", "size()=" + sv(v.size()) + " numElements=" + std::to_string(v.numElements()), cc);
      bool done = false;
      for (int z = 0; z < 2 * R.z + 1 && !done; ++z)
        for (int y = 0; y < 2 * R.y + 1 && !done; ++y)
          for (int x = 0; x < 2 * R.x + 1 && !done; ++x) {
            int wx = x % R.x, wy = y % R.y, wz = z % R.z;
            if ((x / R.x) % 2)
              wx = R.x - 1 - wx;
            if ((y / R.y) % 2)
              wy = R.y - 1 - wy;
            if ((z / R.z) % 2)
              wz = R.z - 1 - wz;
            int exp = g.at(wx, wy, wz), got = v.get(vec3i(x, y, z));
            if (got != exp) {
              vh::violation("C17:Repeater:get", "get" + sv(vec3i(x, y, z)) + " returned cell id " + std::to_string(got) + " expected " + std::to_string(exp) + " = cell " + sv(vec3i(wx, wy, wz)) + " (clamped)", cc);
              done = true;
            }
            bool valid = x < R.x && y < R.y && z < R.z;
            if (valid && (x >= dx || y >= dy || z >= dz)) {
              // a valid coordinate of the repeated volume beyond the input: repeated or clamped?
              int tiled = g.at(x % dx, y % dy, z % dz);
              vh::count(got == tiled && tiled != g.at(x, y, z) ? "repeater_reads_beyond_input_tiled" : "repeater_reads_beyond_input_clamped_to_border");
            }
          }
      vh::count("repeater_views");
    }
  }
  // ---- a chain of adaptors: Accessor(SubBox(IndexShifted(actual)))
  {
    vec3i sh((int)r.range(-dx, dx), (int)r.range(-dy, dy), (int)r.range(-dz, dz));
    vec3i lo((int)r.below(dx), (int)r.below(dy), (int)r.below(dz));
    std::shared_ptr<Array3D<int> > v1 = std::make_shared<IndexShiftedArray3D<int> >(base, sh);
    std::shared_ptr<Array3D<int> > v2 = std::make_shared<SubBoxArray3D<int> >(v1, box3i(lo, d));
    Array3DAccessor<int, double> v3(v2);
    std::string cc = ctx + " chain shift=" + sv(sh) + " clip.lower=" + sv(lo);
    VH_CHECK(same(v3.size(), d - lo), "C17:chain:size", "size()=" + sv(v3.size()), cc);
    bool done = false;
    for (int z = 0; z < dz - lo.z && !done; ++z)
      for (int y = 0; y < dy - lo.y && !done; ++y)
        for (int x = 0; x < dx - lo.x && !done; ++x) {
          int exp = g.at(((x + lo.x + sh.x) % dx + dx) % dx, ((y + lo.y + sh.y) % dy + dy) % dy, ((z + lo.z + sh.z) % dz + dz) % dz);
          double got = v3.get(vec3i(x, y, z));
          if (got != (double)exp) {
            vh::violation("C17:chain:get", "get" + sv(vec3i(x, y, z)) + " returned " + std::to_string(got) + " expected cell id " + std::to_string(exp), cc);
            done = true;
          }
        }
  }
  vh::evaluated(vh::hash64(vh::hash64(vh::hash64(51, dx), dy), dz), total > 1 && (dx != dy || dy != dz));
  vh::count("array_extents_exhaustive");
  vh::count("array_cells_filled", (long long)total);
}

// ------------------------------------------------------------------ arrays larger than 2^31 / 2^32 cells (sparse mapping)
static void checkSparse(vh::Rng &r, long k)
{
  u128 total;
  vec3i d;
  // k mod 4: cells in (2^31,2^32] | (2^32,3*2^32] | thin in x with dims.y*dims.z > 2^32 | thin in z with
  // dims.x*dims.y > 2^32 (every partial product of the index formula exceeds 32 bits somewhere).
  // At most 20 GiB of address space, a few pages of it touched.
  for (;;) {
    u128 e[3];
    int shape = (int)(k % 4);
    if (shape < 2) {
      randomExtent(r, 3, shape ? ((u128)1 << 32) : ((u128)1 << 31), shape ? ((u128)3 << 32) : ((u128)1 << 32), 2147483647, e);
    } else {
      u128 thin = (u128)r.range(2, 3);
      u128 a    = (u128)r.range(40000, 120000);
      u128 b    = (((u128)1 << 32) + (u128)r.range(1, 1 << 30)) / a + 1;  // a*b in (2^32, 1.25*2^32 + a]
      e[shape == 2 ? 0 : 2] = thin;
      e[1]                  = shape == 2 ? a : b;
      e[shape == 2 ? 2 : 0] = shape == 2 ? b : a;
    }
    d     = vec3i((int)e[0], (int)e[1], (int)e[2]);
    total = e[0] * e[1] * e[2];
    if (d.x >= 2 && d.y >= 2 && d.z >= 2 && total <= ((u128)5 << 32))
      break;
  }
  std::string ctx = "sparse array<uchar> dims=" + sv(d) + " cells=" + s128(total);
  size_t bytes    = (size_t)total;
  void *mem       = mmap(0, bytes, PROT_READ | PROT_WRITE, MAP_PRIVATE | MAP_ANONYMOUS | MAP_NORESERVE, -1, 0);
  if (mem == MAP_FAILED) {
    vh::count("sparse_mappings_refused");
    return;
  }
  {
    ActualArray3D<unsigned char> a(d, mem);
    unsigned char *raw = (unsigned char *)mem;
    u128 dx = d.x, dy = d.y;
    std::map<size_t, unsigned char> written;
    std::vector<vec3i> cs;
    for (int c = 0; c < 8; ++c)
      cs.push_back(vec3i((c & 1) ? d.x - 1 : 0, (c & 2) ? d.y - 1 : 0, (c & 4) ? d.z - 1 : 0));
    u128 marks[] = {(u128)1 << 31, (u128)1 << 32, (u128)1 << 33};
    for (int m = 0; m < 3; ++m)
      for (int o = -1; o <= 1; ++o)
        if (marks[m] + o < total) {
          u128 x, y, z;
          refReshape(marks[m] + o, dx, dy, x, y, z);
          cs.push_back(vec3i((int)x, (int)y, (int)z));
        }
    for (int j = 0; j < 40; ++j)
      cs.push_back(vec3i((int)r.below(d.x), (int)r.below(d.y), (int)r.below(d.z)));
    VH_CHECK(a.numElements() == total, "C17:ActualArray3D:numElements:big", "numElements=" + std::to_string(a.numElements()), ctx);
    for (size_t j = 0; j < cs.size(); ++j) {
      vec3i c         = cs[j];
      size_t ri       = (size_t)refFlatten(c.x, c.y, c.z, dx, dy);
      unsigned char v = (unsigned char)(1 + r.below(255));
      std::string cc  = ctx + " c=" + sv(c) + " index=" + std::to_string(ri);
      a.set(c, v);
      if (raw[ri] != v)
        vh::violation("C17:ActualArray3D:set:wrong-cell:big", "set(c,v) did not write slot " + std::to_string(ri) + " of the store (indexOf gives " + std::to_string(a.indexOf(c)) + ")", cc);
      raw[ri]     = v;  // keep the reference store consistent even if set went elsewhere
      written[ri] = v;
      unsigned char got = a.get(c);
      VH_CHECK(got == v, "C17:ActualArray3D:get:big", "get(c)=" + std::to_string((int)got) + " after set(c," + std::to_string((int)v) + ")", cc);
      vh::count("sparse_cells_written");
    }
    for (std::map<size_t, unsigned char>::iterator it = written.begin(); it != written.end(); ++it)
      VH_CHECK(raw[it->first] == it->second, "C17:ActualArray3D:set:wrong-cell:big", "slot " + std::to_string(it->first) + " was overwritten by a set to another coordinate", ctx);
    // clamped reads beyond the far corner
    {
      size_t far = (size_t)(total - 1);
      int exp    = raw[far];
      vec3i cs2[3] = {vec3i(d.x, d.y, d.z), vec3i(d.x + 7, d.y - 1, d.z + 100), vec3i(INT_MAX, INT_MAX, INT_MAX)};
      for (int j = 0; j < 3; ++j) {
        int got = a.get(cs2[j]);
        VH_CHECK(got == exp, "C17:ActualArray3D:get:clamped:big", "get" + sv(cs2[j]) + "=" + std::to_string(got) + " expected the far corner cell " + std::to_string(exp), ctx);
      }
      // value range of the 2x2x2 block at the far corner
      int mn = 256, mx = -1;
      for (int z = d.z - 2; z < d.z; ++z)
        for (int y = d.y - 2; y < d.y; ++y)
          for (int x = d.x - 2; x < d.x; ++x) {
            int v = raw[(size_t)refFlatten(x, y, z, dx, dy)];
            mn    = v < mn ? v : mn;
            mx    = v > mx ? v : mx;
          }
      range_t<unsigned char> rr = a.getValueRange(d - vec3i(2), d);
      VH_CHECK(rr.lower == mn && rr.upper == mx, "C17:getValueRange:big", "[" + std::to_string((int)rr.lower) + "," + std::to_string((int)rr.upper) + "] reference [" + std::to_string(mn) + "," + std::to_string(mx) + "]", ctx);
    }
    vh::evaluated(vh::hash64(vh::hash64(vh::hash64(61, d.x), d.y), d.z), true);
    vh::count(total > ((u128)1 << 32) ? "sparse_arrays_above_2^32_cells" : "sparse_arrays_above_2^31_cells");
    if ((u128)d.y * d.z > ((u128)1 << 32))
      vh::count("sparse_arrays_with_dims.y*dims.z_above_2^32");
    if ((u128)d.x * d.y > ((u128)1 << 32))
      vh::count("sparse_arrays_with_dims.x*dims.y_above_2^32");
    vh::sample(vh::J().kv("kind", "sparse ActualArray3D<uchar>").kv("dims", sv(d)).kv("cells", s128(total)).str(), 10);
  }
  munmap(mem, bytes);
}


// ------------------------------------------------------------------ forked cases with a crash budget
// vh::forkedCases attributes a crash to its case and goes on with the next one.  When a defect makes
// (nearly) every case die, that costs a sanitizer report per case; so the cases are handed over in
// chunks and the run stops (recorded as inconclusive for the remainder) once more than `maxLost`
// cases did not complete.
struct GuardShared
{
  volatile long done;
};
static GuardShared *g_guard = 0;

static bool guardedCases(long n, void (*fn)(long), int timeoutMs, long chunk, std::string (*desc)(long), const char *what, long maxLost)
{
  if (!g_guard) {
    g_guard       = (GuardShared *)mmap(0, sizeof(GuardShared), PROT_READ | PROT_WRITE, MAP_SHARED | MAP_ANONYMOUS, -1, 0);
    g_guard->done = 0;
  }
  if (vh::st().onlyCase >= 0) {  // replay of one case
    vh::forkedCases(n, fn, timeoutMs, chunk, desc);
    return true;
  }
  long lost = 0;
  for (long base = 0; base < n; base += chunk) {
    long cnt    = base + chunk < n ? chunk : n - base;
    long before = g_guard->done;
    vh::forkedCases(
        cnt,
        [=](long i) {
          fn(base + i);
          __sync_fetch_and_add(&g_guard->done, 1);
        },
        timeoutMs, cnt, [=](long i) { return desc(base + i); });
    lost += cnt - (g_guard->done - before);
    if (lost > maxLost) {
      vh::inconclusive(std::string(what) + ": stopped at case " + std::to_string(base + cnt) + " of " + std::to_string(n) + " after " + std::to_string(lost) +
                       " cases crashed or hung (each one is reported)");
      return false;
    }
  }
  return true;
}

// ------------------------------------------------------------------ case tables
static int E3, E2, FLO, FHI;  // exhaustive bounds: 3D extents 0..E3, 2D extents 0..E2, for_each bounds FLO..FHI
static long nBig, nSparse;

static void caseSeq3(long k)
{
  int n = E3 + 1;
  int dz = (int)(k % n), dy = (int)((k / n) % n), dx = (int)(k / n / n);
  checkSeqSmall<3>(dx, dy, dz);
  checkLongSmall(dx, dy, dz);
}
static void caseSeq2(long k)
{
  int n = E2 + 1;
  checkSeqSmall<2>((size_t)(k / n), (size_t)(k % n), 1);
}
static void caseBig(long k)
{
  vh::Rng r(vh::seed(), 170000 + (uint64_t)k);
  checkSeqBig<3>(r, k);
  checkSeqBig<2>(r, k);
  checkLongBig(r, k);
}
static void caseForEach(long k)
{
  // k selects (lo.z, hi.z); all (lo.x,hi.x,lo.y,hi.y) inside
  int n  = FHI - FLO + 1;
  int lz = FLO + (int)(k / n), hz = FLO + (int)(k % n);
  for (int lx = FLO; lx <= FHI; ++lx)
    for (int hx = FLO; hx <= FHI; ++hx)
      for (int ly = FLO; ly <= FHI; ++ly)
        for (int hy = FLO; hy <= FHI; ++hy)
          checkForEachBox(vec3i(lx, ly, lz), vec3i(hx, hy, hz));
}
static void caseForEachExtreme(long)
{
  const int e[] = {INT_MIN, INT_MIN + 2, -3, 0, 2, INT_MAX - 2, INT_MAX};
  for (int a = 0; a < 7; ++a)
    for (int b = 0; b < 7; ++b)
      for (int c = 0; c < 7; ++c) {
        // regions of at most 3 cells per axis anchored at extreme coordinates (and inverted ones)
        vec3i lo(e[a], e[b], e[c]);
        for (int w = 0; w < 4; ++w) {
          vec3i hi(e[a] > INT_MAX - 3 ? INT_MAX : e[a] + (w & 1 ? 2 : 1), e[b] > INT_MAX - 3 ? INT_MAX : e[b] + (w & 2 ? 2 : 1), e[c] > INT_MAX - 3 ? INT_MAX : e[c] + 1);
          checkForEachBox(lo, hi);
          if (w == 3)
            checkForEachBox(hi, lo);  // inverted: empty
        }
      }
  vh::count("for_each_extreme_anchor_sets");
}
static void caseArrays(long k)
{
  int n  = E3 + 1;
  int dz = (int)(k % n), dy = (int)((k / n) % n), dx = (int)(k / n / n);
  vh::Rng r(vh::seed(), 171000 + (uint64_t)k);
  checkArrays(dx, dy, dz, r);
}
static void caseSparse(long k)
{
  vh::Rng r(vh::seed(), 172000 + (uint64_t)k);
  checkSparse(r, k);
}

static std::string dSeq3(long k) { return "seq3D/longIndex extent #" + std::to_string(k); }
static std::string dSeq2(long k) { return "seq2D extent #" + std::to_string(k); }
static std::string dBig(long k) { return "big-extent #" + std::to_string(k); }
static std::string dFor(long k) { return "for_each z-range #" + std::to_string(k); }
static std::string dArr(long k)
{
  int n = E3 + 1;
  return "arrays dims=(" + std::to_string(k / n / n) + "," + std::to_string((k / n) % n) + "," + std::to_string(k % n) + ")";
}
static std::string dSparse(long k) { return "sparse-array #" + std::to_string(k); }

int main(int argc, char **argv)
{
  vh::init(argc, argv);
  E3      = (int)vh::tier(6, 8);
  E2      = (int)vh::tier(12, 20);
  FLO     = (int)vh::tier(-1, -2);
  FHI     = (int)vh::tier(6, 7);
  nBig    = (long)vh::tier(20000, 1000000);
  nSparse = (long)vh::tier(24, 200);
  vh::rule(
      "exhaustive: every 3D extent in [0..E3]^3 (E3=6 quick / 8 thorough) and 2D extent in [0..E2]^2 (12 / 20) with every coordinate and "
      "index; for_each over every box with per-axis bounds lower,upper in [FLO..FHI]^2 (inverted and empty included) + boxes anchored at "
      "INT_MIN/INT_MAX; every array extent in [0..E3]^3 with all adaptors; seeded random extents with product in (2^31,2^32], (2^32,2^40], "
      "(2^32,2^62]. distinct = hash(family, extent or box); non-trivial = more than one cell and not a cube (transpositions show) / "
      "region of more than one cell / product above 2^31");
  vh::note("bounds", "E3=" + std::to_string(E3) + " E2=" + std::to_string(E2) + " for_each bounds=[" + std::to_string(FLO) + "," + std::to_string(FHI) + "]");
  {
    void *probe = mmap(0, (size_t)20 << 30, PROT_READ | PROT_WRITE, MAP_PRIVATE | MAP_ANONYMOUS | MAP_NORESERVE, -1, 0);
    if (probe == MAP_FAILED)
      vh::inconclusive("cannot reserve 20 GiB of address space: arrays above 2^32 cells are checked through their index functions only");
    else
      munmap(probe, (size_t)20 << 30);
  }
  long n3 = (long)(E3 + 1) * (E3 + 1) * (E3 + 1);
  guardedCases(n3, caseSeq3, 60000, 64, dSeq3, "seq3D/longIndex extents", 20);
  guardedCases((long)(E2 + 1) * (E2 + 1), caseSeq2, 60000, 64, dSeq2, "seq2D extents", 20);
  guardedCases(nBig, caseBig, 60000, 200, dBig, "big extents", 20);
  long nf = (long)(FHI - FLO + 1) * (FHI - FLO + 1);
  guardedCases(nf, caseForEach, (int)vh::tier(40000, 120000), 4, dFor, "for_each regions", 3);  // a loop that does not end costs two watchdog periods
  guardedCases(1, caseForEachExtreme, 60000, 1, dFor, "for_each extreme regions", 1);
  guardedCases(n3, caseArrays, 120000, 32, dArr, "array extents", 40);
  guardedCases(nSparse, caseSparse, 120000, 4, dSparse, "sparse arrays", 8);
  vh::note("families",
           "multidim_index_sequence<2|3>: flatten, reshape, dimensions, total_indices, begin/end, range-for, iterator ++/--/+/-/==/!=/jump_to/current; "
           "array3D: longProduct, longIndex, coordsOf, for_each(lower,upper) / (size) / (box3i); ActualArray3D set/get/clamped get/clear/indexOf/"
           "numElements/size, getValueRange(whole, region); IndexShifted, SubBox, Accessor<int,double|float|uchar>, MultiSlice, Repeater, adaptor chain; "
           "sparse >2^31 / >2^32 cell arrays over a NORESERVE mapping");
  return vh::finish();
}
