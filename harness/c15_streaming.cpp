// C15 - DataStreaming: typed round trip over exact-size buffers, every truncation point,
// WriteSizeCalculator, FixedBufferWriter accept/reject model.
#include "vh.h"

#include <array>
#include <memory>
#include <stdexcept>

#include "rkcommon/networking/DataStreaming.h"

using namespace rkcommon::networking;
using namespace rkcommon::utility;

struct Pod
{
  int a;
  double b;
  bool operator==(const Pod &o) const { return a == o.a && b == o.b; }
};
// a trivially copyable type with stream operators of its own: on the wire it is id + weight (12 bytes), the cached field
// is recomputed by the reader. Whatever contains such elements has to go through these operators, in both directions.
struct Compact
{
  int32_t id;
  float weight;
  uint64_t cached;
  bool operator==(const Compact &o) const { return id == o.id && weight == o.weight && cached == o.cached; }
};
static Compact mkCompact(uint64_t v)
{
  Compact c;
  c.id     = (int32_t)(v * 2654435761u);
  c.weight = (float)(v & 0xffff) * 0.5f;
  c.cached = (uint64_t)(uint32_t)c.id * 3 + 1;
  return c;
}
static WriteStream &operator<<(WriteStream &w, const Compact &c)
{
  w.write(&c.id, 4);
  w.write(&c.weight, 4);
  uint32_t tag = 0xC0FFEE01u;
  w.write(&tag, 4);
  return w;
}
static ReadStream &operator>>(ReadStream &r, Compact &c)
{
  uint32_t tag = 0;
  r.read(&c.id, 4);
  r.read(&c.weight, 4);
  r.read(&tag, 4);
  c.cached = tag == 0xC0FFEE01u ? (uint64_t)(uint32_t)c.id * 3 + 1 : 0;
  return r;
}

static Pod mkPod(uint64_t v)
{
  Pod p;
  memset(&p, 0, sizeof p);  // padding bytes are part of the stream: keep them defined
  p.a = (int)(v * 31);
  p.b = (double)v * 0.25;
  return p;
}

enum Kind
{
  K_U8,
  K_I32,
  K_U64,
  K_F64,
  K_POD,
  K_STRING,
  K_CSTR,
  K_VEC_INT,
  K_VEC_POD,
  K_VEC_STRING,
  K_VEC_VEC_INT,
  K_VEC_COMPACT,
  K_ARR_VIEW_INT,
  K_ARR_OWNED_DOUBLE,
  K_ARR_FIXED_INT,
  K_ARR_FIXEDVIEW_U8,
  K_COUNT
};
static const char *kKindNames[] = {"u8", "i32", "u64", "f64", "pod", "string", "cstr", "vec<int>", "vec<pod>", "vec<string>", "vec<vec<int>>", "vec<compact>",
                                   "ArrayView<int>", "OwnedArray<double>", "FixedArray<int>", "FixedArrayView<u8>"};

struct Item
{
  Kind kind;
  uint64_t scalar;
  std::string str;
  std::vector<int> vi;
  std::vector<double> vd;
  std::vector<uint8_t> vb;
  std::vector<Pod> vp;
  std::vector<Compact> vc;
  std::vector<std::string> vs;
  std::vector<std::vector<int>> vvi;
  size_t bytes;  // model size in the stream
};

// std::string payloads are binary-safe (embedded NUL bytes are frequent); only the const char*
// form, which measures with strlen, gets NUL-free text
static std::string rndString(vh::Rng &r, size_t n, bool allowNul)
{
  std::string s(n, ' ');
  for (size_t i = 0; i < n; ++i)
    s[i] = allowNul && r.chance(1, 6) ? '\0' : (char)r.range(allowNul ? 0 : 1, 255);
  return s;
}
static size_t rndLen(vh::Rng &r)
{
  // empty, tiny, and sizes that cross vector growth boundaries
  static const int L[] = {0, 0, 1, 2, 3, 7, 8, 9, 15, 16, 17, 31, 32, 33, 63, 64, 65, 100, 127, 128, 129, 300};
  return (size_t)L[r.below(sizeof(L) / sizeof(L[0]))];
}

static Item genItem(vh::Rng &r)
{
  Item it;
  it.kind   = (Kind)r.below(K_COUNT);
  it.scalar = r.next();
  size_t n  = rndLen(r);
  switch (it.kind) {
  case K_U8: it.bytes = 1; break;
  case K_I32: it.bytes = 4; break;
  case K_U64: it.bytes = 8; break;
  case K_F64: it.bytes = 8; break;
  case K_POD: it.bytes = sizeof(Pod); break;
  case K_STRING:
  case K_CSTR:
    it.str   = rndString(r, n, it.kind == K_STRING);
    it.bytes = 8 + n;
    break;
  case K_VEC_INT:
  case K_ARR_VIEW_INT:
  case K_ARR_FIXED_INT:
    for (size_t i = 0; i < n; ++i)
      it.vi.push_back((int)r.next());
    it.bytes = 8 + 4 * n;
    break;
  case K_ARR_OWNED_DOUBLE:
    for (size_t i = 0; i < n; ++i)
      it.vd.push_back((double)(int64_t)r.next() * 0.5);
    it.bytes = 8 + 8 * n;
    break;
  case K_ARR_FIXEDVIEW_U8:
    for (size_t i = 0; i < n; ++i)
      it.vb.push_back((uint8_t)r.next());
    it.bytes = 8 + n;
    break;
  case K_VEC_POD:
    for (size_t i = 0; i < n; ++i)
      it.vp.push_back(mkPod(r.next() & 0xffff));
    it.bytes = 8 + sizeof(Pod) * n;
    break;
  case K_VEC_COMPACT:
    n %= 64;
    for (size_t i = 0; i < n; ++i)
      it.vc.push_back(mkCompact(r.next()));
    it.bytes = 8 + 12 * n;
    break;
  case K_VEC_STRING: {
    size_t m = r.below(6);
    it.bytes = 8;
    for (size_t i = 0; i < m; ++i) {
      it.vs.push_back(rndString(r, rndLen(r) % 40, true));
      it.bytes += 8 + it.vs.back().size();
    }
    break;
  }
  default: {
    size_t m = r.below(5);
    it.bytes = 8;
    for (size_t i = 0; i < m; ++i) {
      std::vector<int> row;
      size_t k = rndLen(r) % 20;
      for (size_t j = 0; j < k; ++j)
        row.push_back((int)r.next());
      it.vvi.push_back(row);
      it.bytes += 8 + 4 * k;
    }
    break;
  }
  }
  return it;
}

static void writeItem(WriteStream &w, Item &it)
{
  switch (it.kind) {
  case K_U8: w << (uint8_t)it.scalar; break;
  case K_I32: w << (int32_t)it.scalar; break;
  case K_U64: w << (uint64_t)it.scalar; break;
  case K_F64: w << (double)(int64_t)it.scalar; break;
  case K_POD: w << mkPod(it.scalar & 0xffff); break;
  case K_STRING: w << it.str; break;
  case K_CSTR: w << it.str.c_str(); break;
  case K_VEC_INT: w << it.vi; break;
  case K_VEC_POD: w << it.vp; break;
  case K_VEC_COMPACT: w << it.vc; break;
  case K_VEC_STRING: w << it.vs; break;
  case K_VEC_VEC_INT: w << it.vvi; break;
  case K_ARR_VIEW_INT: {
    ArrayView<int> av(it.vi);
    const AbstractArray<int> &a = av;  // the operator the header declares
    w << a;
    break;
  }
  case K_ARR_OWNED_DOUBLE: {
    OwnedArray<double> oa(it.vd);
    const AbstractArray<double> &a = oa;
    w << a;
    break;
  }
  case K_ARR_FIXED_INT: {
    FixedArray<int> fa(it.vi);
    const AbstractArray<int> &a = fa;
    w << a;
    break;
  }
  default: {
    std::shared_ptr<FixedArray<uint8_t>> fa = std::make_shared<FixedArray<uint8_t>>(it.vb);
    FixedArrayView<uint8_t> fv(fa, 0, it.vb.size());
    const AbstractArray<uint8_t> &a = fv;
    w << a;
    break;
  }
  }
}

// reads one item and compares; returns "" when equal
static std::string readItem(BufferReader &rd, const Item &it, int how)
{
  switch (it.kind) {
  case K_U8: {
    uint8_t v = 0;
    rd >> v;
    return v == (uint8_t)it.scalar ? "" : "u8 differs";
  }
  case K_I32: {
    int32_t v = 0;
    rd >> v;
    return v == (int32_t)it.scalar ? "" : "i32 differs";
  }
  case K_U64: {
    uint64_t v = 0;
    rd >> v;
    return v == it.scalar ? "" : "u64 differs";
  }
  case K_F64: {
    double v = 0;
    rd >> v;
    return v == (double)(int64_t)it.scalar ? "" : "f64 differs";
  }
  case K_POD: {
    Pod v;
    rd >> v;
    return v == mkPod(it.scalar & 0xffff) ? "" : "pod differs";
  }
  case K_STRING:
  case K_CSTR: {
    std::string s;
    if (how & 2)
      s = (how & 4) ? "x" : std::string(40, 'j');  // a destination that is being reused
    rd >> s;
    return s == it.str ? "" : (how & 2) ? "string differs (destination was not empty before the read)" : "string differs";
  }
  case K_VEC_INT:
  case K_ARR_VIEW_INT:
  case K_ARR_FIXED_INT: {
    std::vector<int> v;
    if (how & 2)
      v.assign((how & 4) ? 1 : 50, -77);
    rd >> v;
    return v == it.vi ? "" : "int sequence differs";
  }
  case K_ARR_OWNED_DOUBLE: {
    std::vector<double> v;
    if (how & 2)
      v.assign((how & 4) ? 1 : 50, -7.5);
    rd >> v;
    return v == it.vd ? "" : "double sequence differs";
  }
  case K_ARR_FIXEDVIEW_U8: {
    if (how & 1) {
      // size, then a zero-copy view of the bytes
      size_t n = 0;
      rd >> n;
      if (n != it.vb.size())
        return "byte array length differs";
      size_t before = rd.cursor;
      std::shared_ptr<ArrayView<uint8_t>> view = rd.getView<uint8_t>(n);
      if (view->size() != n || (n && view->data() != rd.buffer->begin() + before) || rd.cursor != before + n)
        return "getView does not describe the bytes at the cursor";
      for (size_t i = 0; i < n; ++i)
        if ((*view)[i] != it.vb[i])
          return "byte array (view) differs";
      return "";
    }
    std::vector<uint8_t> v;
    if (how & 2)
      v.assign((how & 4) ? 1 : 50, 0xEE);
    rd >> v;
    return v == it.vb ? "" : "byte sequence differs";
  }
  case K_VEC_POD: {
    std::vector<Pod> v;
    if (how & 2)
      v.assign((how & 4) ? 1 : 20, mkPod(0x1234));
    rd >> v;
    return v == it.vp ? "" : "pod vector differs";
  }
  case K_VEC_COMPACT: {
    std::vector<Compact> v;
    if (how & 2)
      v.assign((how & 4) ? 1 : 20, mkCompact(77));
    rd >> v;
    return v == it.vc ? "" : "vector of elements with their own stream operators differs";
  }
  case K_VEC_STRING: {
    std::vector<std::string> v;
    if (how & 2)
      v.assign((how & 4) ? 1 : 12, std::string((how & 4) ? 30 : 3, 'j'));
    rd >> v;
    return v == it.vs ? "" : (how & 2) ? "string vector differs (destination was not empty before the read)" : "string vector differs";
  }
  default: {
    std::vector<std::vector<int>> v;
    if (how & 2)
      v.assign((how & 4) ? 1 : 9, std::vector<int>(5, -3));
    rd >> v;
    return v == it.vvi ? "" : "nested vector differs";
  }
  }
}

// an exact-size heap copy of the first n bytes, wrapped as the reader's buffer type
struct ExactBuf
{
  std::unique_ptr<uint8_t[]> mem;
  std::shared_ptr<AbstractArray<uint8_t>> arr;
  ExactBuf(const uint8_t *src, size_t n, bool owned)
  {
    mem.reset(new uint8_t[n ? n : 1]);
    if (n)
      memcpy(mem.get(), src, n);
    if (owned)
      arr = std::make_shared<OwnedArray<uint8_t>>(mem.get(), n);  // its own exact-size vector
    else
      arr = std::make_shared<ArrayView<uint8_t>>(mem.get(), n);
    if (owned)
      mem.reset();
  }
};

static void roundTripCase(long k)
{
  vh::Rng r(vh::seed(), 15000 + (uint64_t)k);
  int nItems = (int)r.range(0, 9);
  std::vector<Item> items;
  std::string desc = "#" + std::to_string(k) + " schema:";
  size_t total     = 0;
  uint64_t h       = 15;
  for (int i = 0; i < nItems; ++i) {
    items.push_back(genItem(r));
    total += items.back().bytes;
    desc += std::string(" ") + kKindNames[items.back().kind] + "(" + std::to_string(items.back().bytes) + "B)";
    h = vh::hash64(h, (uint64_t)items.back().kind * 4096 + items.back().bytes);
    vh::count((std::string("item_") + kKindNames[items.back().kind]).c_str());
  }
  BufferWriter bw;
  WriteSizeCalculator calc;
  std::vector<size_t> ends;
  for (int i = 0; i < nItems; ++i) {
    writeItem(bw, items[i]);
    writeItem(calc, items[i]);
    ends.push_back(bw.buffer->size());
    if (bw.buffer->size() != calc.writtenSize) {
      vh::violation("C15:WriteSizeCalculator:size-mismatch", "after item " + std::to_string(i) + " BufferWriter holds " + std::to_string(bw.buffer->size()) + " bytes, the calculator predicts " + std::to_string(calc.writtenSize), desc);
      return;
    }
  }
  if (bw.buffer->size() != total) {
    vh::violation("C15:BufferWriter:bytes-written", "stream has " + std::to_string(bw.buffer->size()) + " bytes, the format (8-byte length + raw elements) gives " + std::to_string(total), desc);
    return;
  }
  // ---- full round trip over an exact-size buffer
  {
    ExactBuf eb(bw.buffer->data(), total, r.chance(1, 2));
    BufferReader rd(eb.arr);
    int how = (int)r.below(8);  // bit 0: views instead of copies; bit 1: destinations hold earlier values (bit 2: short ones)
    for (int i = 0; i < nItems; ++i) {
      if (rd.end()) {
        vh::violation("C15:BufferReader:end-true-too-early", "end() is true before item " + std::to_string(i) + " of " + std::to_string(nItems) + " was read", desc);
        return;
      }
      std::string why;
      try {
        why = readItem(rd, items[i], how);
      } catch (const std::exception &e) {
        why = std::string("reading threw: ") + e.what();
      }
      if (!why.empty()) {
        vh::violation(std::string("C15:roundtrip:") + kKindNames[items[i].kind], why + " (item " + std::to_string(i) + ")", desc);
        return;
      }
      if (rd.cursor != ends[i]) {
        vh::violation("C15:BufferReader:bytes-consumed", "after item " + std::to_string(i) + " the cursor is " + std::to_string(rd.cursor) + ", the writer had written " + std::to_string(ends[i]), desc);
        return;
      }
    }
    VH_CHECK(rd.end(), "C15:BufferReader:end-false-after-last", "end() is false after everything written was read back", desc);
    // one more byte: must throw
    bool threw = false;
    try {
      uint8_t x;
      rd >> x;
    } catch (const std::exception &) {
      threw = true;
    }
    VH_CHECK(threw, "C15:BufferReader:read-past-end-no-throw", "reading one byte past the end did not throw", desc);
    threw = false;
    try {
      (void)rd.getView<uint8_t>(1);
    } catch (const std::exception &) {
      threw = true;
    }
    VH_CHECK(threw, "C15:BufferReader:view-past-end-no-throw", "getView(1) at the end did not throw", desc);
    try {
      std::shared_ptr<ArrayView<uint8_t>> v0 = rd.getView<uint8_t>(0);
      VH_CHECK(v0->size() == 0, "C15:BufferReader:empty-view", "getView(0) is not empty", desc);
    } catch (const std::exception &) {
      vh::violation("C15:BufferReader:empty-view", "getView(0) at the end threw although it extends past nothing", desc);
    }
  }
  // ---- a cursor that lies beyond the data: the buffer under the reader got shorter (its other owner re-seated the
  //      view / reset the owned array to a shorter exact-size block), or the public cursor was moved past the end.
  //      Every read and view of at least one byte then extends past the data: it must throw, copy nothing, and
  //      leave the cursor where it was.
  if (total >= 2) {
    bool owned = r.chance(1, 2);
    ExactBuf eb(bw.buffer->data(), total, owned);
    BufferReader rd(eb.arr);
    size_t c = 1 + r.below(total);  // consumed so far (1..total)
    std::vector<uint8_t> sink(c);
    rd.read(sink.data(), c);
    int how = (int)r.below(3);
    size_t newLen = r.below(c);  // < c
    std::unique_ptr<uint8_t[]> shorter(new uint8_t[newLen ? newLen : 1]);
    if (newLen)
      memcpy(shorter.get(), bw.buffer->data(), newLen);
    std::string cc = desc + " | stale cursor: consumed " + std::to_string(c) + " of " + std::to_string(total) + " bytes, then ";
    if (how == 2) {
      rd.cursor = total + 1 + r.below(64);
      cc += "cursor member set to " + std::to_string(rd.cursor);
    } else if (owned) {
      static_cast<OwnedArray<uint8_t> *>(eb.arr.get())->reset(shorter.get(), newLen);
      cc += "owned buffer reset to " + std::to_string(newLen) + " bytes";
    } else {
      static_cast<ArrayView<uint8_t> *>(eb.arr.get())->reset(shorter.get(), newLen);
      cc += "viewed range re-seated to " + std::to_string(newLen) + " bytes";
    }
    size_t cur0 = rd.cursor;
    size_t sizes[] = {1, 8, c, total, (size_t)-1, ((size_t)-1) / 2};
    for (int q = 0; q < 6; ++q) {
      uint64_t dst[2] = {0x5555555555555555ull, 0x5555555555555555ull};
      bool threw = false;
      try {
        rd.read(sizes[q] <= 16 ? (void *)dst : (void *)0, sizes[q]);
      } catch (const std::exception &) {
        threw = true;
      }
      if (!threw || rd.cursor != cur0 || dst[0] != 0x5555555555555555ull) {
        vh::violation("C15:BufferReader:read-accepted-with-cursor-beyond-data",
                      std::string("read(") + std::to_string(sizes[q]) + ") " + (threw ? "threw" : "did NOT throw") + ", cursor " + std::to_string(cur0) + " -> " + std::to_string(rd.cursor) +
                          (dst[0] != 0x5555555555555555ull ? ", destination was written" : ""),
                      cc);
        rd.cursor = cur0;
        break;
      }
      threw = false;
      try {
        (void)rd.getView<uint8_t>(sizes[q]);
      } catch (const std::exception &) {
        threw = true;
      }
      if (!threw || rd.cursor != cur0) {
        vh::violation("C15:BufferReader:view-accepted-with-cursor-beyond-data", std::string("getView(") + std::to_string(sizes[q]) + ") " + (threw ? "threw but moved the cursor" : "did not throw"), cc);
        rd.cursor = cur0;
        break;
      }
    }
    VH_CHECK(rd.end(), "C15:BufferReader:end-false-beyond-data", "end() is false with the cursor beyond the data", cc);
    vh::count("stale_cursor_scenarios");
  }
  // ---- truncation: every prefix length for small streams, sampled for large ones
  std::vector<size_t> cuts;
  if (total <= 160)
    for (size_t L = 0; L < total; ++L)
      cuts.push_back(L);
  else {
    for (int q = 0; q < 48; ++q)
      cuts.push_back(r.below(total));
    for (size_t i = 0; i < ends.size(); ++i) {  // around every item boundary
      if (ends[i] > 0)
        cuts.push_back(ends[i] - 1);
      if (ends[i] < total)
        cuts.push_back(ends[i]);
      if (ends[i] + 1 < total)
        cuts.push_back(ends[i] + 1);
    }
  }
  for (size_t ci = 0; ci < cuts.size(); ++ci) {
    size_t L = cuts[ci];
    ExactBuf eb(bw.buffer->data(), L, (ci & 1) != 0);
    BufferReader rd(eb.arr);
    int firstNotFitting = 0;
    while (firstNotFitting < nItems && ends[firstNotFitting] <= L)
      ++firstNotFitting;
    for (int i = 0; i < nItems; ++i) {
      bool threw = false;
      std::string why;
      try {
        why = readItem(rd, items[i], (int)(ci & 7));
      } catch (const std::exception &) {
        threw = true;
      }
      if (i < firstNotFitting) {
        if (threw || !why.empty()) {
          vh::violation("C15:truncation:complete-item-unreadable", "item " + std::to_string(i) + " lies completely inside the first " + std::to_string(L) + " bytes but " + (threw ? "reading threw" : why), desc);
          break;
        }
      } else {
        if (!threw)
          vh::violation("C15:truncation:no-throw-past-end", "item " + std::to_string(i) + " (" + kKindNames[items[i].kind] + ") extends past the " + std::to_string(L) + " available bytes but reading it did not throw", desc);
        break;
      }
    }
    vh::count("truncation_points");
  }
  vh::evaluated(h, nItems > 0);
  if (k % 1000 < 2)
    vh::sample(vh::J().kv("case", desc).kv("bytes", (long long)total).kv("truncations", (long long)cuts.size()).str(), 3);
}

// a single read whose size makes cursor+size wrap around must throw (own forked case)
static void overflowProbe(long k)
{
  vh::Rng r(vh::seed(), 77 + (uint64_t)k);
  size_t n = 16 + r.below(64);
  std::vector<uint8_t> data(n, 7);
  ExactBuf eb(data.data(), n, false);
  BufferReader rd(eb.arr);
  uint8_t tmp[8];
  rd.read(tmp, 8);
  size_t huge = (size_t)-1 - (r.below(7));  // cursor + huge wraps to a small number
  std::string desc = "#" + std::to_string(k) + " BufferReader(" + std::to_string(n) + " bytes) cursor=8 read(mem, " + std::to_string(huge) + ")";
  bool threw = false;
  try {
    rd.read(0, huge);  // mem == null: nothing is copied even if the check is passed
  } catch (const std::exception &) {
    threw = true;
  }
  VH_CHECK(threw, "C15:BufferReader:size-overflow-not-rejected", "a read far larger than the buffer was accepted (cursor + size wrapped around); cursor is now " + std::to_string(rd.cursor), desc);
  bool threw2 = false;
  try {
    (void)rd.getView<uint8_t>(huge);
  } catch (const std::exception &) {
    threw2 = true;
  }
  VH_CHECK(threw2, "C15:BufferReader:view-size-overflow-not-rejected", "a view far larger than the buffer was handed out (cursor + size wrapped around)", desc);
  // the write side: something written already (cursor > 0), then a size that wraps cursor + size
  {
    FixedBufferWriter fw(n);
    size_t pre = 1 + r.below(n);  // 1 .. n bytes already in the buffer
    fw.write(data.data(), pre);
    size_t hugeW     = (size_t)-1 - pre + 1 + r.below(pre);  // SIZE_MAX - cursor + 1 .. SIZE_MAX: every one wraps
    std::string wdesc = "#" + std::to_string(k) + " FixedBufferWriter(" + std::to_string(n) + ") cursor=" + std::to_string(pre) + " size=" + std::to_string(hugeW);
    size_t availBefore = fw.available();
    bool threwW = false;
    try {
      fw.write(0, hugeW);  // mem == null: nothing is copied even if the check is passed
    } catch (const std::exception &) {
      threwW = true;
    }
    VH_CHECK(threwW, "C15:FixedBufferWriter:write-size-overflow-not-rejected", "a write far larger than the buffer was accepted (cursor + size wrapped around); available() went from " + std::to_string(availBefore) + " to " + std::to_string(fw.available()), wdesc);
    FixedBufferWriter fr(n);
    fr.write(data.data(), pre);
    bool threwR = false;
    try {
      (void)fr.reserve(hugeW);
    } catch (const std::exception &) {
      threwR = true;
    }
    VH_CHECK(threwR, "C15:FixedBufferWriter:reserve-size-overflow-not-rejected", "a reservation far larger than the buffer was accepted (cursor + size wrapped around); available() is now " + std::to_string(fr.available()), wdesc);
    vh::count("writer_overflow_probes");
  }
  vh::count("overflow_probes");
  vh::evaluated(vh::hash64(991, huge), true);
}

// ------------------------------------------------------------------ FixedBufferWriter
static void fixedWriterCase(long k)
{
  vh::Rng r(vh::seed(), 25000 + (uint64_t)k);
  size_t cap = (size_t)r.range(0, 64);
  FixedBufferWriter fw(cap);
  std::vector<uint8_t> model;  // bytes written so far
  std::string desc = "#" + std::to_string(k) + " FixedBufferWriter(" + std::to_string(cap) + "):";
  uint64_t h       = vh::hash64(33, cap);
  int steps        = (int)r.range(1, 12);
  for (int s = 0; s < steps; ++s) {
    size_t remaining = cap - model.size();
    size_t sz;
    switch (r.below(6)) {
    case 0: sz = remaining; break;                       // exact fit
    case 1: sz = remaining + 1; break;                   // one byte over
    case 2: sz = 0; break;
    case 3: sz = remaining ? r.below(remaining) : 0; break;
    case 4: sz = remaining + 1 + r.below(100); break;
    default: sz = r.below(20); break;
    }
    int op       = (int)r.below(3);  // 0 write, 1 reserve, 2 typed <<
    if (op == 2)
      sz = r.chance(1, 2) ? 4 : 8;
    bool fits    = sz <= remaining;
    size_t cur0  = fw.cursor;
    std::vector<uint8_t> payload(sz ? sz : 1);
    for (size_t i = 0; i < sz; ++i)
      payload[i] = (uint8_t)r.next();
    desc += std::string(" ") + (op == 0 ? "write" : op == 1 ? "reserve" : "<<") + "(" + std::to_string(sz) + (fits ? ",fits" : ",too-big") + ")";
    h = vh::hash64(h, (uint64_t)op * 100000 + sz * 2 + (fits ? 1 : 0));
    bool threw = false;
    void *res  = 0;
    try {
      if (op == 0)
        fw.write(payload.data(), sz);
      else if (op == 1) {
        res = fw.reserve(sz);
        if (sz)
          memcpy(res, payload.data(), sz);
      } else if (sz == 4) {
        int32_t v;
        memcpy(&v, payload.data(), 4);
        fw << v;
      } else {
        uint64_t v;
        memcpy(&v, payload.data(), 8);
        fw << v;
      }
    } catch (const std::exception &) {
      threw = true;
    }
    std::string fam = op == 1 ? "C15:FixedBufferWriter:reserve" : "C15:FixedBufferWriter:write";
    if (fits && threw) {
      vh::violation(fam + (sz == remaining ? "-exact-fit-rejected" : "-fitting-request-rejected"),
                    std::to_string(sz) + " bytes fit into the remaining " + std::to_string(remaining) + " but the call threw", desc);
      return;
    }
    if (!fits && !threw) {
      vh::violation(fam + "-too-large-accepted", std::to_string(sz) + " bytes do not fit into the remaining " + std::to_string(remaining) + " but the call returned", desc);
      return;
    }
    if (fits) {
      if (op == 1 && sz > 0 && res != (void *)(fw.buffer->begin() + cur0))
        vh::violation("C15:FixedBufferWriter:reserve-address", "reserve() did not return buffer + old cursor", desc);
      model.insert(model.end(), payload.begin(), payload.begin() + sz);
      vh::count(sz == remaining ? "fixed_exact_fits" : "fixed_accepts");
    } else
      vh::count(sz == remaining + 1 ? "fixed_one_over_rejects" : "fixed_rejects");
    // state after the call
    if (fw.cursor != model.size() || fw.capacity() != cap || fw.available() + fw.cursor != fw.capacity()) {
      vh::violation("C15:FixedBufferWriter:accounting", "cursor=" + std::to_string(fw.cursor) + " available=" + std::to_string(fw.available()) + " capacity=" + std::to_string(fw.capacity()) + ", model has " + std::to_string(model.size()) + " of " + std::to_string(cap) + " bytes written", desc);
      return;
    }
    std::shared_ptr<FixedArray<uint8_t>::View> view = fw.getWrittenView();
    bool same = view->size() == model.size();
    for (size_t i = 0; same && i < model.size(); ++i)
      same = (*view)[i] == model[i];
    if (!same) {
      vh::violation("C15:FixedBufferWriter:written-view", "getWrittenView() does not hold exactly the bytes written so far (" + std::to_string(model.size()) + ")", desc);
      return;
    }
  }
  vh::evaluated(h, true);
  if (k % 1000 == 5)
    vh::sample(vh::J().kv("case", desc).str(), 3);
}

int main(int argc, char **argv)
{
  vh::init(argc, argv);
  vh::rule(
      "case = a generated typed schema (0..9 items of 16 kinds: arithmetic, POD, string, const char*, vector<POD>, vector<string>, vector of a trivially copyable type with its own stream operators, "
      "vector<vector<int>>, the four array wrapper types through AbstractArray<T>) written through BufferWriter and WriteSizeCalculator "
      "and read back over an exact-size buffer (then again after the buffer was shortened under the reader or the cursor moved past the end) into fresh destinations or (half of the cases) destinations that already hold longer or "
      "shorter earlier values, plus every truncation point of small streams; or a FixedBufferWriter capacity 0..64 with a "
      "sequence of write/reserve/<< sizes incl. exact fit and one over. distinct = hash of the schema / size sequence; non-trivial = "
      "at least one item");
  long n = vh::tier(30000, 1000000);
  vh::forkedCases(
      n,
      [&](long k) {
        if (k % 3 == 2)
          fixedWriterCase(k);
        else if (k % 50 == 1)
          overflowProbe(k);
        else
          roundTripCase(k);
      },
      20000, 1000, [&](long k) { return std::string("C15-case #") + std::to_string(k) + (k % 3 == 2 ? " FixedBufferWriter" : k % 50 == 1 ? " overflow probe" : " round trip"); });
  return vh::finish();
}
