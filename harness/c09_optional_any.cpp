// C09 - Optional<T> and Any as value types: reference model (engaged? + value) stepped in
// lock-step, lifetime registry of an instrumented payload, alignment of the stored value,
// crash-free comparisons/printing.  Every history runs inside a forked child.
#include "vh.h"

#include <stdexcept>

#include "rkcommon/utility/Any.h"
#include "rkcommon/utility/Optional.h"
#include "rkcommon/utility/getEnvVar.h"

using rkcommon::utility::Any;
using rkcommon::utility::make_optional;
using rkcommon::utility::Optional;

static vh::Lifetime *g_reg;
static std::string g_ctx;

// ------------------------------------------------------------------ instrumented payload
// failpoint: when armed, the n-th constructor / assignment of the instrumented payload from now on fails the way a
// heap-owning payload fails (it throws before the object exists / before the target is changed)
struct InjectedFault
{
};
static int g_failIn      = 0;
static long g_faultsHit  = 0;
static inline void failpoint()
{
  if (g_failIn > 0 && --g_failIn == 0) {
    ++g_faultsHit;
    throw InjectedFault();
  }
}

struct Tracked
{
  std::string payload;
  int v;
  Tracked() : payload("default"), v(-1)
  {
    failpoint();
    g_reg->onConstruct(this, g_ctx);
  }
  Tracked(int x) : payload("tracked-payload-on-the-heap-" + std::to_string(x)), v(x)
  {
    failpoint();
    g_reg->onConstruct(this, g_ctx);
  }
  Tracked(const Tracked &o) : v(-2)
  {
    failpoint();
    if (g_reg->requireLive(&o, "copy-from", g_ctx)) {
      payload = o.payload;
      v       = o.v;
    }
    g_reg->onConstruct(this, g_ctx);
  }
  Tracked(Tracked &&o) : v(-2)
  {
    failpoint();
    if (g_reg->requireLive(&o, "move-from", g_ctx)) {
      payload = o.payload;  // a move that leaves the source intact
      v       = o.v;
    }
    g_reg->onConstruct(this, g_ctx);
  }
  Tracked &operator=(const Tracked &o)
  {
    failpoint();
    if (!g_reg->requireLive(this, "assign-to", g_ctx) || !g_reg->requireLive(&o, "assign-from", g_ctx))
      return *this;
    payload = o.payload;
    v       = o.v;
    return *this;
  }
  Tracked &operator=(Tracked &&o)
  {
    failpoint();
    if (!g_reg->requireLive(this, "assign-to", g_ctx) || !g_reg->requireLive(&o, "assign-from", g_ctx))
      return *this;
    payload = o.payload;
    v       = o.v;
    return *this;
  }
  ~Tracked() { g_reg->onDestroy(this, g_ctx); }
  bool operator==(const Tracked &o) const { return v == o.v && payload == o.payload; }
  bool operator<(const Tracked &o) const { return v < o.v; }
  bool operator<=(const Tracked &o) const { return v <= o.v; }
  bool operator>(const Tracked &o) const { return v > o.v; }
  bool operator>=(const Tracked &o) const { return v >= o.v; }
};

struct alignas(32) Aligned32
{
  double d[4];
  Aligned32() { d[0] = d[1] = d[2] = d[3] = -1; }
  Aligned32(int x)
  {
    for (int i = 0; i < 4; ++i)
      d[i] = x + i;
  }
  bool operator==(const Aligned32 &o) const { return d[0] == o.d[0] && d[3] == o.d[3]; }
  bool operator<(const Aligned32 &o) const { return d[0] < o.d[0]; }
  bool operator<=(const Aligned32 &o) const { return d[0] <= o.d[0]; }
  bool operator>(const Aligned32 &o) const { return d[0] > o.d[0]; }
  bool operator>=(const Aligned32 &o) const { return d[0] >= o.d[0]; }
};

// a payload that knows where it lives: no destructor of its own (trivially destructible), but every copy has to go
// through its copy constructor / assignment, or `self` points at somebody else
struct SelfPtr
{
  int v;
  const SelfPtr *self;
  SelfPtr() : v(-1), self(this) {}
  SelfPtr(int x) : v(x), self(this) {}
  SelfPtr(const SelfPtr &o) : v(o.v), self(this) {}
  SelfPtr &operator=(const SelfPtr &o)
  {
    v = o.v;
    return *this;
  }
  bool operator==(const SelfPtr &o) const { return v == o.v; }
  bool operator<(const SelfPtr &o) const { return v < o.v; }
  bool operator<=(const SelfPtr &o) const { return v <= o.v; }
  bool operator>(const SelfPtr &o) const { return v > o.v; }
  bool operator>=(const SelfPtr &o) const { return v >= o.v; }
};

struct NoEq  // a type without operator==
{
  int x;
  std::string s;
  NoEq(int v = 0) : x(v), s("noeq-" + std::to_string(v)) {}
};

// ------------------------------------------------------------------ payload traits
template <typename T>
struct P;
template <>
struct P<int>
{
  typedef short Src;  // a type convertible to T, for Optional<Src> -> Optional<T>
  static const char *name() { return "int"; }
  static int make(int k) { return 1000 + k; }
  static Src src(int k) { return (short)(1000 + k); }
  static bool eq(const int &a, int k) { return a == make(k); }
  static bool movedFromKnown() { return true; }
};
template <>
struct P<double>
{
  typedef int Src;
  static const char *name() { return "double"; }
  static double make(int k) { return 1000 + k; }
  static Src src(int k) { return 1000 + k; }
  static bool eq(const double &a, int k) { return a == make(k); }
  static bool movedFromKnown() { return true; }
};
template <>
struct P<std::string>
{
  typedef const char *Src;
  static const char *name() { return "string"; }
  static const char *lit(int k)
  {
    static const char *L[] = {"heap-sized-string-value-number-zero-0000000", "heap-sized-string-value-number-one-11111111", "heap-sized-string-value-number-two-22222222",
                              "heap-sized-string-value-number-three-333333", "s4", "", "heap-sized-string-value-number-six-66666666", "heap-sized-string-value-number-seven-777777"};
    return L[k & 7];
  }
  static std::string make(int k) { return lit(k); }
  static Src src(int k) { return lit(k); }
  static bool eq(const std::string &a, int k) { return a == lit(k); }
  static bool movedFromKnown() { return false; }
};
template <>
struct P<std::vector<int>>
{
  typedef std::vector<int> Src;
  static const char *name() { return "vector<int>"; }
  static std::vector<int> make(int k) { return std::vector<int>((size_t)(k % 5) * 8 + 1, k); }
  static Src src(int k) { return make(k); }
  static bool eq(const std::vector<int> &a, int k) { return a == make(k); }
  static bool movedFromKnown() { return false; }
};
template <>
struct P<Tracked>
{
  typedef int Src;
  static const char *name() { return "Tracked"; }
  static Tracked make(int k) { return Tracked(k); }
  static Src src(int k) { return k; }
  static bool eq(const Tracked &a, int k) { return a.v == k && a.payload == "tracked-payload-on-the-heap-" + std::to_string(k); }
  static bool movedFromKnown() { return true; }
};
template <>
struct P<SelfPtr>
{
  typedef int Src;
  static const char *name() { return "SelfPtr"; }
  static SelfPtr make(int k) { return SelfPtr(k); }
  static Src src(int k) { return k; }
  static bool eq(const SelfPtr &a, int k) { return a.v == k && a.self == &a; }
  static bool movedFromKnown() { return true; }
};
template <typename T>
struct Faulty  // can operations of this payload be made to fail, and is the storage of an engaged wrapper live
{
  static bool can() { return false; }
  static bool live(const T &, const std::string &) { return true; }
};
template <>
struct Faulty<Tracked>
{
  static bool can() { return true; }
  static bool live(const Tracked &t, const std::string &ctx) { return g_reg->requireLive(&t, "has_value()-reported", ctx); }
};
template <>
struct P<Aligned32>
{
  typedef int Src;
  static const char *name() { return "Aligned32"; }
  static Aligned32 make(int k) { return Aligned32(k); }
  static Src src(int k) { return k; }
  static bool eq(const Aligned32 &a, int k) { return a.d[0] == k && a.d[3] == k + 3; }
  static bool movedFromKnown() { return true; }
};

// ------------------------------------------------------------------ Optional history
struct M
{
  bool engaged;
  bool known;
  int k;
  M() : engaged(false), known(true), k(0) {}
};

static const char *kOptOps[] = {"reset", "assign-value-lvalue", "assign-value-rvalue", "emplace", "copy-assign", "move-assign", "copy-construct", "move-construct",
                                "convert-copy-construct", "convert-move-construct", "convert-copy-assign", "convert-move-assign", "value_or", "make_optional", "compare", "toString",
                                "self-copy-assign"};
static const int kNumOptOps = 17;

template <typename T>
static void checkOne(const Optional<T> &w, const M &m, const std::string &what, const std::string &ctx)
{
  std::string fam = std::string("C09:Optional<") + P<T>::name() + ">:";
  if (w.has_value() != m.engaged || (bool)w != m.engaged) {
    vh::violation(fam + (m.engaged ? "lost-value-after-" : "engaged-after-") + what,
                  std::string("has_value()=") + (w.has_value() ? "true" : "false") + " but the model says " + (m.engaged ? "engaged" : "empty"), ctx);
    return;
  }
  if (m.engaged) {
    if (!Faulty<T>::live(w.value(), ctx))
      return;
    if ((uintptr_t)&w.value() % alignof(T) != 0)
      vh::violation(fam + "misaligned-storage", "address of the stored value is not a multiple of alignof(T)=" + std::to_string(alignof(T)), ctx);
    else if (m.known && !(P<T>::eq(w.value(), m.k) && P<T>::eq(*w, m.k) && &w.value() == w.operator->()))
      vh::violation(fam + "wrong-value-after-" + what, "stored value differs from the model's (k=" + std::to_string(m.k) + ")", ctx);
  }
}

template <typename T>
static void optionalHistory(vh::Rng &r, long caseIdx, int len)
{
  typedef typename P<T>::Src U;
  std::string ctx = "#" + std::to_string(caseIdx) + " Optional<" + P<T>::name() + "> ops:";
  g_ctx           = ctx;
  size_t live0    = g_reg->liveCount();
  uint64_t h      = vh::hashStr(P<T>::name(), 99);
  {
    // wrappers live in separately allocated blocks so that ASan sees overruns
    std::unique_ptr<Optional<T>> w[3];
    M m[3];
    for (int i = 0; i < 3; ++i) {
      if (r.chance(1, 3)) {
        int k = (int)r.below(8);
        w[i].reset(new Optional<T>(P<T>::make(k)));
        m[i].engaged = true;
        m[i].k       = k;
        ctx += " init" + std::to_string(i) + "=" + std::to_string(k);
      } else
        w[i].reset(new Optional<T>());
      checkOne(*w[i], m[i], "construction", ctx);
    }
    for (int step = 0; step < len; ++step) {
      int op = (int)r.below(kNumOptOps);
      int i = (int)r.below(3), j = (int)r.below(3), k = (int)r.below(8);
      if (i == j && op != 16)
        j = (i + 1) % 3;
      ctx += std::string(" ") + kOptOps[op] + "(" + std::to_string(i) + "," + std::to_string(j) + "," + std::to_string(k) + (m[j].engaged ? ",src-engaged" : ",src-empty") + ")";
      g_ctx = ctx;
      h     = vh::hash64(h, (uint64_t)op * 64 + (uint64_t)i * 16 + (uint64_t)j * 4 + (m[j].engaged ? 1 : 0) + (m[i].engaged ? 2 : 0));
      vh::count((std::string("opt_op_") + kOptOps[op]).c_str());
      // a quarter of the steps on the instrumented payload run with the failpoint armed: one of the next 1..3
      // payload constructions / assignments throws
      bool armed = Faulty<T>::can() && r.chance(1, 4);
      if (armed) {
        g_failIn = 1 + (int)r.below(3);
        ctx += "[fail#" + std::to_string(g_failIn) + "]";
        g_ctx = ctx;
      }
      try {
      switch (op) {
      case 0:
        w[i]->reset();
        m[i].engaged = false;
        m[i].known   = true;
        break;
      case 1: {
        T v   = P<T>::make(k);
        *w[i] = v;
        m[i].engaged = true, m[i].known = true, m[i].k = k;
        break;
      }
      case 2:
        *w[i] = P<T>::make(k);
        m[i].engaged = true, m[i].known = true, m[i].k = k;
        break;
      case 3: {
        T &ref = w[i]->emplace(P<T>::make(k));
        m[i].engaged = true, m[i].known = true, m[i].k = k;
        VH_CHECK(&ref == &w[i]->value(), std::string("C09:Optional<") + P<T>::name() + ">:emplace-reference", "emplace() did not return the stored object", ctx);
        break;
      }
      case 4: {
        const Optional<T> &src = *w[j];  // copy assignment is reachable through a const lvalue only
        *w[i]                  = src;
        m[i]                   = m[j];
        break;
      }
      case 5:
        *w[i] = std::move(*w[j]);
        m[i]  = m[j];
        if (m[j].engaged && !P<T>::movedFromKnown())
          m[j].known = false;
        break;
      case 6: {
        const Optional<T> &src = *w[j];
        Optional<T> tmp(src);
        checkOne(tmp, m[j], "copy-construct", ctx);
        // independence: changing the copy leaves the source alone
        tmp = P<T>::make((m[j].k + 1) & 7);
        tmp.reset();
        checkOne(*w[j], m[j], "copy-construct(source)", ctx);
        break;
      }
      case 7: {
        M before = m[j];
        Optional<T> tmp(std::move(*w[j]));
        checkOne(tmp, before, "move-construct", ctx);
        if (m[j].engaged && !P<T>::movedFromKnown())
          m[j].known = false;
        break;
      }
      case 8: {
        Optional<U> su;
        bool eng = r.chance(2, 3);
        if (eng)
          su = P<T>::src(k);
        const Optional<U> &csu = su;
        Optional<T> tmp(csu);
        M mm;
        mm.engaged = eng, mm.k = k;
        checkOne(tmp, mm, "convert-copy-construct", ctx + (eng ? " [U engaged]" : " [U empty]"));
        break;
      }
      case 9: {
        Optional<U> su;
        bool eng = r.chance(2, 3);
        if (eng)
          su = P<T>::src(k);
        Optional<T> tmp(std::move(su));
        M mm;
        mm.engaged = eng, mm.k = k;
        checkOne(tmp, mm, "convert-move-construct", ctx + (eng ? " [U engaged]" : " [U empty]"));
        break;
      }
      case 10: {
        Optional<U> su;
        bool eng = r.chance(2, 3);
        if (eng)
          su = P<T>::src(k);
        const Optional<U> &csu = su;
        *w[i]                  = csu;
        m[i].engaged = eng, m[i].known = true, m[i].k = k;
        ctx += eng ? "[U engaged]" : "[U empty]";
        break;
      }
      case 11: {
        Optional<U> su;
        bool eng = r.chance(2, 3);
        if (eng)
          su = P<T>::src(k);
        *w[i]        = std::move(su);
        m[i].engaged = eng, m[i].known = true, m[i].k = k;
        ctx += eng ? "[U engaged]" : "[U empty]";
        break;
      }
      case 12: {
        T d = w[i]->value_or(P<T>::make(k));
        if (m[i].engaged ? (m[i].known && !P<T>::eq(d, m[i].k)) : !P<T>::eq(d, k))
          vh::violation(std::string("C09:Optional<") + P<T>::name() + ">:value_or", "value_or returned neither the stored value nor the default as the state requires", ctx);
        break;
      }
      case 13: {
        Optional<T> tmp = make_optional<T>(P<T>::make(k));
        M mm;
        mm.engaged = true, mm.k = k;
        checkOne(tmp, mm, "make_optional", ctx);
        break;
      }
      case 14: {
        // every comparison on every engaged/empty combination must return (results with an
        // empty side are not asserted)
        const Optional<T> &a = *w[i], &b = *w[j];
        bool e = (a == b), ne = (a != b), lt = (a < b), le = (a <= b), gt = (a > b), ge = (a >= b);
        if (m[i].engaged && m[j].engaged && m[i].known && m[j].known) {
          bool same = m[i].k == m[j].k;
          if (e != same || ne == same)
            vh::violation(std::string("C09:Optional<") + P<T>::name() + ">:compare-engaged", "==/!= of two engaged wrappers disagree with their values", ctx);
        }
        (void)lt, (void)le, (void)gt, (void)ge;
        vh::count(m[i].engaged ? (m[j].engaged ? "opt_cmp_engaged_engaged" : "opt_cmp_engaged_empty") : (m[j].engaged ? "opt_cmp_empty_engaged" : "opt_cmp_empty_empty"));
        break;
      }
      case 15: {
        std::string s = w[i]->toString();
        VH_CHECK(!s.empty(), std::string("C09:Optional<") + P<T>::name() + ">:toString", "empty string", ctx);
        break;
      }
      default: {
        const Optional<T> &self = *w[i];
        *w[i]                   = self;
        break;
      }
      }
      } catch (const InjectedFault &) {
        // the operation failed half way. What the target now reports is up to the wrapper (engaged with an
        // unspecified value, or empty); what is demanded is that it is true: an engaged wrapper holds a live
        // payload (checkOne), nothing is destroyed twice or left behind (registry), sources of copies are intact.
        ctx += "[threw]";
        g_ctx = ctx;
        vh::count((std::string("opt_fault_in_") + kOptOps[op]).c_str());
        m[i].engaged = w[i]->has_value();
        m[i].known   = false;
        if (op == 5 || op == 7)
          m[j].known = false;
      }
      g_failIn = 0;
      for (int q = 0; q < 3; ++q)
        checkOne(*w[q], m[q], kOptOps[op], ctx);
    }
  }
  size_t live1 = g_reg->liveCount();
  if (live1 != live0)
    vh::violation(std::string("C09:Optional<") + P<T>::name() + ">:payload-lifetime-imbalance",
                  std::to_string((long long)live1 - (long long)live0) + " payload object(s) alive after all wrappers were destroyed (constructed " + std::to_string(g_reg->constructed) +
                      ", destroyed " + std::to_string(g_reg->destroyed) + ")",
                  ctx);
  vh::evaluated(h, len > 0);
  if (caseIdx % 1000 == 7)
    vh::sample(vh::J().kv("case", ctx).str(), 3);
}

// Optional<double> at an odd offset inside a packed neighbourhood
static void alignmentInAggregate()
{
  struct S1
  {
    char c;
    Optional<double> o;
    char d;
    Optional<long long> p;
  };
  S1 s;
  s.o = 1.5;
  s.p = 7LL;
  std::string ctx = "struct { char; Optional<double>; char; Optional<long long>; } offsetof(o)=" + std::to_string((size_t)((char *)&s.o - (char *)&s)) +
                    " alignof(Optional<double>)=" + std::to_string(alignof(Optional<double>));
  VH_CHECK((uintptr_t)&s.o.value() % alignof(double) == 0, "C09:Optional<double>:misaligned-storage", "stored double is misaligned inside an aggregate", ctx);
  VH_CHECK((uintptr_t)&s.p.value() % alignof(long long) == 0, "C09:Optional<long long>:misaligned-storage", "stored long long is misaligned inside an aggregate", ctx);
  VH_CHECK(alignof(Optional<Aligned32>) >= alignof(Aligned32), "C09:Optional<Aligned32>:misaligned-storage", "alignof(Optional<T>) < alignof(T)", ctx);
  VH_CHECK(s.o.value() == 1.5 && s.p.value() == 7, "C09:Optional<double>:wrong-value-after-assign-value", "value lost in aggregate", ctx);
  vh::evaluated(4242, true);
}

// value_or across payload / default types: an engaged wrapper returns ITS value, bit for bit, whatever the type of the
// default handed in (a narrower or a floating default must not drag the stored value through that type); an empty one
// returns the default converted to the payload type
template <typename T, typename U>
static void valueOrPair(const char *tn, const char *un, const std::vector<T> &values, U dflt)
{
  for (size_t i = 0; i < values.size(); ++i) {
    Optional<T> o(values[i]);
    T got = o.value_or(dflt);
    if (!(got == values[i]))
      vh::violation(std::string("C09:Optional<") + tn + ">:value_or", std::string("engaged value_or(") + un + " default) returned " + std::to_string(got) + ", the stored value is " + std::to_string(values[i]), "value_or across types");
    const Optional<T> c(o);
    if (!(c.value_or(dflt) == values[i]) || !(*c == values[i]))
      vh::violation(std::string("C09:Optional<") + tn + ">:value_or", "const copy: value_or / operator* differ from the stored value", "value_or across types");
  }
  Optional<T> e;
  if (!(e.value_or(dflt) == static_cast<T>(dflt)))
    vh::violation(std::string("C09:Optional<") + tn + ">:value_or", std::string("empty value_or(") + un + " default) is not the default converted to the payload type", "value_or across types");
  vh::count("value_or_across_types", (long long)values.size() + 1);
}
static void valueOrAcrossTypes()
{
  std::vector<int> vi;
  std::vector<long long> vl;
  std::vector<unsigned> vu;
  for (int sh = 20; sh <= 30; ++sh)
    for (int d = -1; d <= 1; ++d)
      vi.push_back((1 << sh) + d), vi.push_back(-((1 << sh) + d)), vu.push_back((1u << sh) + (unsigned)d);
  vi.push_back(2147483647), vi.push_back(-2147483647 - 1), vu.push_back(4294967295u), vu.push_back(3000000001u);
  for (int sh = 50; sh <= 62; ++sh)
    for (int d = -1; d <= 1; ++d)
      vl.push_back((1LL << sh) + d), vl.push_back(-((1LL << sh) + d));
  valueOrPair<int, float>("int", "float", vi, 0.5f);
  valueOrPair<int, double>("int", "double", vi, 2.5);
  valueOrPair<int, short>("int", "short", vi, (short)7);
  valueOrPair<int, long long>("int", "int64", vi, 9LL);
  valueOrPair<unsigned, float>("unsigned", "float", vu, 1.5f);
  valueOrPair<unsigned, int>("unsigned", "int", vu, 3);
  valueOrPair<long long, double>("int64", "double", vl, 0.0);
  valueOrPair<long long, float>("int64", "float", vl, 1.0f);
  valueOrPair<long long, int>("int64", "int", vl, 5);
  std::vector<double> vd;
  vd.push_back(0.1), vd.push_back(1e300), vd.push_back(-2.5e-300), vd.push_back(16777217.0);
  valueOrPair<double, float>("double", "float", vd, 0.25f);
  valueOrPair<double, int>("double", "int", vd, 4);
  vh::evaluated(4244, true);
}

static void envVars(long caseIdx)
{
  std::string ctx = "#" + std::to_string(caseIdx) + " getEnvVar";
  setenv("VH_C09_INT", "42", 1);
  setenv("VH_C09_FLT", "2.5", 1);
  setenv("VH_C09_STR", "a string value that is long enough for the heap", 1);
  unsetenv("VH_C09_NONE");
  using rkcommon::utility::getEnvVar;
  Optional<int> i   = getEnvVar<int>("VH_C09_INT");
  Optional<float> f = getEnvVar<float>("VH_C09_FLT");
  Optional<std::string> s = getEnvVar<std::string>("VH_C09_STR");
  VH_CHECK(i.has_value() && i.value() == 42, "C09:getEnvVar:int", "wrong result for a set variable", ctx);
  VH_CHECK(f.has_value() && f.value() == 2.5f, "C09:getEnvVar:float", "wrong result for a set variable", ctx);
  VH_CHECK(s.has_value() && s.value() == "a string value that is long enough for the heap", "C09:getEnvVar:string", "wrong result for a set variable", ctx);
  VH_CHECK(!getEnvVar<int>("VH_C09_NONE").has_value() && !getEnvVar<float>("VH_C09_NONE").has_value() && !getEnvVar<std::string>("VH_C09_NONE").has_value(),
           "C09:getEnvVar:unset", "an unset variable produced an engaged Optional", ctx);
  VH_CHECK(getEnvVar<int>("VH_C09_NONE").value_or(5) == 5, "C09:getEnvVar:value_or", "value_or on an unset variable", ctx);
  vh::evaluated(4243, true);
}

// ------------------------------------------------------------------ Any history
struct AM
{
  int type;  // -1 empty, 0 int, 1 string, 2 vector<int>, 3 Tracked, 4 NoEq
  int k;
  AM() : type(-1), k(0) {}
};
static const char *kAnyTypes[] = {"int", "string", "vector<int>", "Tracked", "NoEq"};

static Any makeAny(int type, int k)
{
  switch (type) {
  case 0: return Any(P<int>::make(k));
  case 1: return Any(P<std::string>::make(k));
  case 2: return Any(P<std::vector<int>>::make(k));
  case 3: return Any(Tracked(k));
  default: return Any(NoEq(k));
  }
}
static void assignAny(Any &a, int type, int k)
{
  switch (type) {
  case 0: a = P<int>::make(k); break;
  case 1: a = P<std::string>::make(k); break;
  case 2: a = P<std::vector<int>>::make(k); break;
  case 3: a = Tracked(k); break;
  default: a = NoEq(k); break;
  }
}

template <typename T>
static bool getThrowsRuntimeError(const Any &a, bool &otherException)
{
  otherException = false;
  try {
    (void)a.get<T>();
    return false;
  } catch (const std::runtime_error &) {
    return true;
  } catch (...) {
    otherException = true;
    return true;
  }
}

static void checkAny(Any &a, const AM &m, const std::string &what, const std::string &ctx)
{
  const Any &ca = a;
  if (a.valid() != (m.type >= 0)) {
    vh::violation(std::string("C09:Any:") + (m.type >= 0 ? "lost-value-after-" : "valid-after-") + what, std::string("valid()=") + (a.valid() ? "true" : "false"), ctx);
    return;
  }
  bool isv[5] = {a.is<int>(), a.is<std::string>(), a.is<std::vector<int>>(), a.is<Tracked>(), a.is<NoEq>()};
  for (int t = 0; t < 5; ++t)
    if (isv[t] != (t == m.type))
      vh::violation("C09:Any:is-wrong-type-after-" + what, std::string("is<") + kAnyTypes[t] + ">() is " + (isv[t] ? "true" : "false") + " while the stored type is " + (m.type < 0 ? "none" : kAnyTypes[m.type]), ctx);
  // get<T>: succeeds only for the stored type, otherwise throws std::runtime_error
  bool other[5];
  bool thr[5] = {getThrowsRuntimeError<int>(ca, other[0]), getThrowsRuntimeError<std::string>(ca, other[1]), getThrowsRuntimeError<std::vector<int>>(ca, other[2]),
                 getThrowsRuntimeError<Tracked>(ca, other[3]), getThrowsRuntimeError<NoEq>(ca, other[4])};
  for (int t = 0; t < 5; ++t) {
    if (other[t])
      vh::violation("C09:Any:get-throws-other-exception", std::string("get<") + kAnyTypes[t] + ">() threw something that is not std::runtime_error", ctx);
    if (thr[t] != (t != m.type))
      vh::violation(std::string("C09:Any:get-") + (t == m.type ? "throws-for-stored-type" : "succeeds-for-wrong-type"), std::string("get<") + kAnyTypes[t] + ">() while the stored type is " + (m.type < 0 ? "none" : kAnyTypes[m.type]), ctx);
  }
  // a type never stored anywhere
  bool oth;
  VH_CHECK(getThrowsRuntimeError<double>(ca, oth) && !oth && getThrowsRuntimeError<char>(ca, oth) && !oth, "C09:Any:get-succeeds-for-wrong-type", "get<double>/get<char> did not throw std::runtime_error", ctx);
  if (a.valid() == (m.type >= 0) && m.type >= 0 && isv[m.type]) {
    bool ok = true;
    switch (m.type) {
    case 0: ok = P<int>::eq(a.get<int>(), m.k) && P<int>::eq(ca.get<int>(), m.k); break;
    case 1: ok = P<std::string>::eq(a.get<std::string>(), m.k); break;
    case 2: ok = P<std::vector<int>>::eq(a.get<std::vector<int>>(), m.k); break;
    case 3: ok = P<Tracked>::eq(a.get<Tracked>(), m.k); break;
    default: ok = a.get<NoEq>().x == m.k && a.get<NoEq>().s == "noeq-" + std::to_string(m.k); break;
    }
    if (!ok)
      vh::violation("C09:Any:wrong-value-after-" + what, std::string("get<") + kAnyTypes[m.type] + ">() differs from the model value k=" + std::to_string(m.k), ctx);
  }
}

static const char *kAnyOps[] = {"assign-value", "copy-assign", "copy-construct", "compare", "toString", "assign-empty", "self-assign", "mutate-through-get"};

static void anyHistory(vh::Rng &r, long caseIdx, int len)
{
  std::string ctx = "#" + std::to_string(caseIdx) + " Any ops:";
  g_ctx           = ctx;
  size_t live0    = g_reg->liveCount();
  uint64_t h      = 777;
  {
    std::unique_ptr<Any> w[3];
    AM m[3];
    for (int i = 0; i < 3; ++i) {
      if (r.chance(1, 2)) {
        m[i].type = (int)r.below(5);
        m[i].k    = (int)r.below(8);
        w[i].reset(new Any(makeAny(m[i].type, m[i].k)));
        ctx += " init" + std::to_string(i) + "=" + kAnyTypes[m[i].type] + ":" + std::to_string(m[i].k);
      } else
        w[i].reset(new Any());
      checkAny(*w[i], m[i], "construction", ctx);
    }
    for (int step = 0; step < len; ++step) {
      int op = (int)r.below(8);
      int i = (int)r.below(3), j = (int)r.below(3), k = (int)r.below(8), t = (int)r.below(5);
      if (i == j)
        j = (i + 1) % 3;
      ctx += std::string(" ") + kAnyOps[op] + "(" + std::to_string(i) + "," + std::to_string(j) + "," + kAnyTypes[t] + ":" + std::to_string(k) + "," + (m[i].type < 0 ? "lhs-empty" : "lhs-valid") +
             "," + (m[j].type < 0 ? "rhs-empty" : "rhs-valid") + ")";
      g_ctx = ctx;
      h     = vh::hash64(h, (uint64_t)op * 1000 + (uint64_t)(m[i].type + 1) * 100 + (uint64_t)(m[j].type + 1) * 10 + (uint64_t)t);
      vh::count((std::string("any_op_") + kAnyOps[op]).c_str());
      switch (op) {
      case 0:
        assignAny(*w[i], t, k);
        m[i].type = t, m[i].k = k;
        break;
      case 1:
        *w[i] = *w[j];
        m[i]  = m[j];
        break;
      case 2: {
        Any tmp(*w[j]);
        checkAny(tmp, m[j], "copy-construct", ctx);
        assignAny(tmp, (m[j].type + 1) % 5, k);  // independence
        checkAny(*w[j], m[j], "copy-construct(source)", ctx);
        break;
      }
      case 3: {
        // must return for every valid/empty combination
        bool e = (*w[i] == *w[j]), ne = (*w[i] != *w[j]);
        if (m[i].type >= 0 && m[j].type >= 0) {
          bool expect = m[i].type == m[j].type && m[i].k == m[j].k && m[i].type != 4;
          if (e != expect || ne == expect)
            vh::violation("C09:Any:compare-valid", "==/!= of two valid Any objects disagree with their contents", ctx);
        }
        vh::count(m[i].type >= 0 ? (m[j].type >= 0 ? "any_cmp_valid_valid" : "any_cmp_valid_empty") : (m[j].type >= 0 ? "any_cmp_empty_valid" : "any_cmp_empty_empty"));
        break;
      }
      case 4: {
        std::string s = w[i]->toString();
        VH_CHECK(!s.empty(), "C09:Any:toString", "empty string", ctx);
        vh::count(m[i].type >= 0 ? "any_toString_valid" : "any_toString_empty");
        break;
      }
      case 5: {
        Any empty;
        *w[i]     = empty;
        m[i].type = -1;
        break;
      }
      case 6: {
        const Any &self = *w[i];
        *w[i]           = self;
        break;
      }
      default:
        if (m[i].type == 0) {
          w[i]->get<int>() = P<int>::make(k);
          m[i].k           = k;
        } else if (m[i].type == 1) {
          Any copy(*w[i]);
          w[i]->get<std::string>() = P<std::string>::make(k);
          checkAny(copy, m[i], "mutation-of-the-original", ctx);  // the copy is unaffected
          m[i].k = k;
        }
        break;
      }
      for (int q = 0; q < 3; ++q)
        checkAny(*w[q], m[q], kAnyOps[op], ctx);
    }
  }
  size_t live1 = g_reg->liveCount();
  if (live1 != live0)
    vh::violation("C09:Any:payload-lifetime-imbalance", std::to_string((long long)live1 - (long long)live0) + " payload object(s) alive after all Any objects were destroyed", ctx);
  vh::evaluated(h, len > 0);
  if (caseIdx % 1000 == 8)
    vh::sample(vh::J().kv("case", ctx).str(), 3);
}

int main(int argc, char **argv)
{
  vh::init(argc, argv);
  vh::rule(
      "case = one random history (<= 12 operations over 3 wrappers, random initial engagement) for one payload type; operations: value / "
      "copy / move / converting construction and assignment from engaged AND empty sources, emplace, reset, value_or, make_optional, "
      "comparisons, toString; on the lifetime-instrumented payload a quarter of the operations run with a failpoint armed (one of the "
      "next 1..3 payload constructions / assignments throws); distinct = hash of (payload, operation, operands, engagement of target and source) over the history; "
      "non-trivial = at least one operation");
  g_reg = new vh::Lifetime("C09:payload");
  long n = vh::tier(45000, 1000000);
  vh::forkedCases(
      n,
      [&](long k) {
        vh::Rng r(vh::seed(), 9000 + (uint64_t)k);
        int len = (int)r.range(1, 12);
        switch (k % 9) {
        case 0: optionalHistory<int>(r, k, len); break;
        case 1: optionalHistory<double>(r, k, len); break;
        case 2: optionalHistory<std::string>(r, k, len); break;
        case 3: optionalHistory<std::vector<int>>(r, k, len); break;
        case 4: optionalHistory<Tracked>(r, k, len); break;
        case 5: optionalHistory<Aligned32>(r, k, len); break;
        case 6:
        case 7: anyHistory(r, k, len); break;
        default:
          if (k % 2)
            alignmentInAggregate();
          else
            envVars(k);
          if (k % 90 == 8)
            valueOrAcrossTypes();
          if (k % 4 < 2)
            optionalHistory<Tracked>(r, k, len);
          else
            optionalHistory<SelfPtr>(r, k, len);
          break;
        }
      },
      20000, 1000, [&](long k) {
        const char *kinds[] = {"Optional<int>", "Optional<double>", "Optional<string>", "Optional<vector<int>>", "Optional<Tracked>", "Optional<Aligned32>", "Any", "Any", "aggregate/env/Optional<Tracked|SelfPtr>"};
        return std::string("C09-history #") + std::to_string(k) + " " + kinds[k % 9];
      });
  return vh::finish();
}
