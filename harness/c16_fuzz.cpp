// C16 - libFuzzer target: readXML on arbitrary bytes must return or throw std::runtime_error;
// ASan/UBSan watch the reads.  Built with clang (-fsanitize=fuzzer,address,undefined).
#include <fcntl.h>
#include <stdint.h>
#include <stdio.h>
#include <stdlib.h>
#include <unistd.h>
#include <sys/syscall.h>

#include <iostream>
#include <stdexcept>
#include <string>

#include "rkcommon/xml/XML.h"

static int g_fd = -1;
static std::string g_path;

extern "C" int LLVMFuzzerInitialize(int *, char ***)
{
  std::cout.setstate(std::ios_base::failbit);  // the reader prints a warning for partial files
  g_fd   = (int)syscall(SYS_memfd_create, "c16fuzz", 0);
  g_path = "/proc/self/fd/" + std::to_string(g_fd);
  return 0;
}

extern "C" int LLVMFuzzerTestOneInput(const uint8_t *data, size_t size)
{
  if (ftruncate(g_fd, 0) != 0)
    return 0;
  size_t off = 0;
  while (off < size) {
    ssize_t w = pwrite(g_fd, data + off, size - off, (off_t)off);
    if (w <= 0)
      return 0;
    off += (size_t)w;
  }
  try {
    rkcommon::xml::XMLDoc d = rkcommon::xml::readXML(g_path);
    (void)d;
  } catch (const std::runtime_error &) {
  } catch (const std::exception &e) {
    fprintf(stderr, "VH-FUZZ-VIOLATION key=C16:totality:other-exception-type what=%s\n", e.what());
    abort();
  } catch (...) {
    fprintf(stderr, "VH-FUZZ-VIOLATION key=C16:totality:other-exception-type what=non-standard\n");
    abort();
  }
  return 0;
}
