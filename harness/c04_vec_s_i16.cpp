// C04 - families over the single element type int16_t (see c04_vec.cpp)
#include "c04_vec_same.h"
namespace c04 {
  void run_s_i16()
  {
    vh::Rng r(vh::seed(), 400 + TN<int16_t>::idx);
    runSame<int16_t>(r);
  }
}  // namespace c04
