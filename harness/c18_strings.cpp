// C18 - string / URL / path / argument helpers: reference implementations and
// recomposition laws evaluated over exhaustive small-alphabet strings + seeded random.
#include "vh.h"

#include <cmath>
#include <cstring>
#include <stdexcept>

#include "rkcommon/common.h"
#include "rkcommon/os/FileName.h"
#include "rkcommon/utility/ArgumentList.h"
#include "rkcommon/utility/PseudoURL.h"
#include "rkcommon/utility/StringManip.h"

using namespace rkcommon;
using namespace rkcommon::utility;
typedef std::vector<std::string> SV;

static std::string show(const SV &v)
{
  std::string o = "[";
  for (size_t i = 0; i < v.size(); ++i)
    o += (i ? "," : "") + std::string("'") + v[i] + "'";
  return o + "]";
}

// ------------------------------------------------------------------ references
static SV refNonEmptyTokens(const std::string &s, const std::string &delims)
{
  SV out;
  std::string cur;
  for (size_t i = 0; i <= s.size(); ++i) {
    if (i == s.size() || delims.find(s[i]) != std::string::npos) {
      if (!cur.empty())
        out.push_back(cur);
      cur.clear();
    } else
      cur += s[i];
  }
  return out;
}
static std::string stripDelims(const std::string &s, const std::string &delims)
{
  std::string o;
  for (size_t i = 0; i < s.size(); ++i)
    if (delims.find(s[i]) == std::string::npos)
      o += s[i];
  return o;
}
static SV nonEmpty(const SV &v)
{
  SV o;
  for (size_t i = 0; i < v.size(); ++i)
    if (!v[i].empty())
      o.push_back(v[i]);
  return o;
}
static std::string concat(const SV &v)
{
  std::string o;
  for (size_t i = 0; i < v.size(); ++i)
    o += v[i];
  return o;
}
static bool anyHasDelim(const SV &v, const std::string &d)
{
  for (size_t i = 0; i < v.size(); ++i)
    if (v[i].find_first_of(d) != std::string::npos)
      return true;
  return false;
}

// ------------------------------------------------------------------ split / tokenize
static void checkSplitFamily(const std::string &s)
{
  uint64_t h = vh::hashStr(s, 11);
  bool hasOneChar = false;
  {
    SV r = refNonEmptyTokens(s, ":");
    for (size_t i = 0; i < r.size(); ++i)
      hasOneChar |= r[i].size() == 1;
  }
  // split(char)
  {
    SV t   = split(s, ':');
    SV ref = refNonEmptyTokens(s, ":");
    std::string ctx = "split('" + s + "',':') -> " + show(t);
    VH_CHECK(!anyHasDelim(t, ":"), "C18:split-char:token-contains-delimiter", "token contains the delimiter", ctx);
    VH_CHECK(concat(t) == stripDelims(s, ":"), "C18:split-char:content-changed", "re-joined tokens differ from the input without delimiters", ctx);
    VH_CHECK(nonEmpty(t) == ref, "C18:split-char:non-empty-tokens", "non-empty tokens differ from reference " + show(ref), ctx);
    vh::evaluated(vh::hash64(h, 1), !ref.empty());
  }
  // split(set) plain and keepDelim, two delimiter sets
  const char *sets[] = {":", ":.", "/=:"};
  for (int si = 0; si < 3; ++si) {
    std::string d = sets[si];
    SV t   = split(s, d);
    SV ref = refNonEmptyTokens(s, d);
    std::string ctx = "split('" + s + "','" + d + "') -> " + show(t);
    VH_CHECK(!anyHasDelim(t, d), "C18:split-set:token-contains-delimiter", "token contains a delimiter", ctx);
    VH_CHECK(t == ref, "C18:split-set:tokens", "tokens differ from reference " + show(ref), ctx);
    VH_CHECK(concat(t) == stripDelims(s, d), "C18:split-set:content-changed", "re-joined tokens differ from input without delimiters", ctx);
    SV k = split(s, d, true);
    std::string ctxk = "split('" + s + "','" + d + "',keepDelim) -> " + show(k);
    VH_CHECK(k.size() == ref.size(), "C18:split-keep:count", "token count differs from the plain form", ctxk);
    if (k.size() == ref.size()) {
      size_t pos = 0;
      for (size_t i = 0; i < k.size(); ++i) {
        // token i of the plain form starts at position p in the input; the keepDelim
        // form must be that token, preceded by the delimiter in front of it if any
        size_t p = s.find_first_not_of(d, pos);
        std::string expect = (p > 0 ? std::string(1, s[p - 1]) : std::string()) + ref[i];
        VH_CHECK(k[i] == expect, "C18:split-keep:token", "keepDelim token is not delimiter+token ('" + expect + "')", ctxk);
        pos = p + ref[i].size();
      }
    }
    vh::evaluated(vh::hash64(h, 10 + si), !ref.empty());
  }
  // tokenize
  {
    SV t;
    tokenize(s, ':', t);
    SV ref = refNonEmptyTokens(s, ":");
    std::string ctx = "tokenize('" + s + "',':') -> " + show(t) + " expected " + show(ref);
    VH_CHECK(!anyHasDelim(t, ":"), "C18:tokenize:token-contains-delimiter", "token contains the delimiter", ctx);
    if (t != ref) {
      // classify: are exactly the one-character tokens missing?
      SV refLong;
      for (size_t i = 0; i < ref.size(); ++i)
        if (ref[i].size() > 1)
          refLong.push_back(ref[i]);
      if (t == refLong)
        vh::violation("C18:tokenize:one-char-token-dropped", "one-character tokens are dropped", ctx);
      else
        vh::violation("C18:tokenize:tokens", "tokens differ from reference", ctx);
    }
    vh::evaluated(vh::hash64(h, 2), !ref.empty());
    if (hasOneChar)
      vh::count("inputs_with_one_char_token");
  }
}

static void checkPrefix(const std::string &a, const std::string &b)
{
  size_t n = 0;
  while (n < a.size() && n < b.size() && a[n] == b[n])
    ++n;
  std::string ctx = "a='" + a + "' b='" + b + "'";
  std::string m   = longestBeginningMatch(a, b);
  VH_CHECK(m == a.substr(0, n), "C18:longestBeginningMatch", "not the longest common prefix: '" + m + "'", ctx);
  bool bw = beginsWith(a, b);
  bool ref = a.size() >= b.size() && a.compare(0, b.size(), b) == 0;
  VH_CHECK(bw == ref, "C18:beginsWith", std::string("beginsWith returned ") + (bw ? "true" : "false"), ctx);
  vh::evaluated(vh::hash64(vh::hashStr(a, 3), vh::hashStr(b)), n > 0);
}

static void checkCase(const std::string &s)
{
  std::string lo = lowerCase(s), up = upperCase(s);
  bool ok = lo.size() == s.size() && up.size() == s.size();
  for (size_t i = 0; ok && i < s.size(); ++i) {
    char c = s[i];
    char el = (c >= 'A' && c <= 'Z') ? char(c - 'A' + 'a') : c;
    char eu = (c >= 'a' && c <= 'z') ? char(c - 'a' + 'A') : c;
    ok = lo[i] == el && up[i] == eu;
  }
  VH_CHECK(ok, "C18:case-conversion", "lowerCase/upperCase is not the per-character map", "'" + s + "' -> '" + lo + "' / '" + up + "'");
  vh::evaluated(vh::hashStr(s, 5));
}

// ------------------------------------------------------------------ PseudoURL
static std::string randWord(vh::Rng &r, const std::string &alpha, int minLen, int maxLen)
{
  int n = (int)r.range(minLen, maxLen);
  std::string s;
  for (int i = 0; i < n; ++i)
    s += alpha[r.below(alpha.size())];
  return s;
}

static void checkURL(vh::Rng &r, long k)
{
  // parts: type (may be empty = no separator), file (non-empty, no ':'), pairs
  bool hasType      = r.chance(3, 4);
  std::string type  = hasType ? randWord(r, "ab.t", 0, 4) : "";
  std::string file  = randWord(r, "ab./=f", 1, r.chance(1, 3) ? 1 : 6);
  if (!hasType && file.find("://") != std::string::npos)
    file = "f";
  int np            = (int)r.range(0, 4);
  std::vector<std::pair<std::string, std::string> > pairs;
  std::string url = (hasType ? type + "://" : std::string()) + file;
  bool oneChar    = file.size() == 1;
  for (int i = 0; i < np; ++i) {
    std::string name = randWord(r, "kab", 1, 2);
    int form         = (int)r.below(3);  // 0: k=v  1: k=  2: k (no equal sign)
    std::string val  = form == 0 ? randWord(r, "v1=./", 1, 4) : "";
    pairs.push_back(std::make_pair(name, val));
    std::string tok = name + (form == 2 ? "" : "=" + val);
    oneChar |= tok.size() == 1;
    url += ":" + tok;
    if (r.chance(1, 8))
      url += ":";  // repeated delimiter: documented to be skipped
  }
  std::string ctx = "#" + std::to_string(k) + " PseudoURL('" + url + "')";
  PseudoURL u(url);
  bool bad = false;
  if (u.getType() != type) {
    vh::violation("C18:PseudoURL:type", "type '" + u.getType() + "' != '" + type + "'", ctx);
    bad = true;
  }
  if (u.getFileName() != file) {
    vh::violation(oneChar ? "C18:PseudoURL:one-char-component" : "C18:PseudoURL:fileName",
                  "file name '" + u.getFileName() + "' != '" + file + "'", ctx);
    bad = true;
  }
  for (size_t i = 0; i < pairs.size() && !bad; ++i) {
    const std::string &name = pairs[i].first;
    std::string expect;
    for (size_t j = 0; j < pairs.size(); ++j)
      if (pairs[j].first == name)
        expect = pairs[j].second;  // last duplicate wins
    if (!u.hasParam(name)) {
      vh::violation(oneChar ? "C18:PseudoURL:one-char-component" : "C18:PseudoURL:hasParam",
                    "hasParam('" + name + "') is false for a given parameter", ctx);
      bad = true;
      break;
    }
    try {
      std::string got = u.getValue(name);
      if (got != expect) {
        vh::violation(oneChar ? "C18:PseudoURL:one-char-component" : "C18:PseudoURL:getValue",
                      "getValue('" + name + "')='" + got + "' expected '" + expect + "'", ctx);
        bad = true;
      }
    } catch (const std::runtime_error &) {
      vh::violation("C18:PseudoURL:getValue-throws", "getValue('" + name + "') threw for a given parameter", ctx);
      bad = true;
    }
  }
  // absent parameter: hasParam false, getValue throws runtime_error
  {
    std::string absent = "zz";
    VH_CHECK(!u.hasParam(absent), "C18:PseudoURL:hasParam-absent", "hasParam true for a parameter never given", ctx);
    bool threw = false;
    try {
      (void)u.getValue(absent);
    } catch (const std::runtime_error &) {
      threw = true;
    }
    VH_CHECK(threw, "C18:PseudoURL:getValue-absent", "getValue of a missing parameter did not throw", ctx);
  }
  vh::evaluated(vh::hashStr(url, 7), np > 0);
  if (np > 0)
    vh::count("urls_with_params");
  vh::sample(vh::J().kv("kind", "url").kv("url", url).kv("file", file).kv("params", (long long)np).str(), 2);
}

// ------------------------------------------------------------------ FileName
static std::string refNormalize(const std::string &in)
{
  std::string f = in;
  for (size_t i = 0; i < f.size(); ++i)
    if (f[i] == '\\')
      f[i] = '/';
  while (!f.empty() && f[f.size() - 1] == '/')
    f.resize(f.size() - 1);
  return f;
}

static void checkFileName(const std::string &raw)
{
  FileName fn(raw);
  std::string s   = fn.str();
  std::string ctx = "FileName('" + raw + "') str='" + s + "'";
  VH_CHECK(s == refNormalize(raw), "C18:FileName:normalise", "separators not normalised / trailing separators kept", ctx);
  // reference decomposition on the normalised string
  size_t sl            = s.find_last_of('/');
  std::string rpath    = sl == std::string::npos ? "" : s.substr(0, sl + 1);
  std::string rbase    = sl == std::string::npos ? s : s.substr(sl + 1);
  size_t dot           = rbase.find_last_of('.');
  bool hasDot          = dot != std::string::npos;
  std::string rname    = hasDot ? rbase.substr(0, dot) : rbase;
  std::string rext     = hasDot ? rbase.substr(dot + 1) : "";
  bool dotOnlyInDir    = !hasDot && rpath.find('.') != std::string::npos;
  std::string stem     = hasDot ? s.substr(0, s.size() - rext.size() - 1) : s;

  VH_CHECK(fn.path() + fn.base() == s, "C18:FileName:path+base", "path()+base() != str()", ctx);
  VH_CHECK(fn.path() == rpath, "C18:FileName:path", "path()='" + fn.path() + "' expected '" + rpath + "'", ctx);
  VH_CHECK(fn.base() == rbase, "C18:FileName:base", "base()='" + fn.base() + "' expected '" + rbase + "'", ctx);
  VH_CHECK(fn.name() == rname, "C18:FileName:name", "name()='" + fn.name() + "' expected '" + rname + "'", ctx);
  if (fn.ext() != rext)
    vh::violation(dotOnlyInDir ? "C18:FileName:ext-dot-in-directory" : "C18:FileName:ext",
                  "ext()='" + fn.ext() + "' expected '" + rext + "'", ctx);
  if (hasDot)
    VH_CHECK(fn.base() == fn.name() + "." + fn.ext(), "C18:FileName:base=name.ext", "base() != name()+'.'+ext()", ctx);
  else
    VH_CHECK(fn.base() == fn.name(), "C18:FileName:base=name", "base() != name() for a component without a dot", ctx);
  {
    std::string got = fn.dropExt().str(), exp = refNormalize(stem);
    if (got != exp)
      vh::violation(dotOnlyInDir ? "C18:FileName:dropExt-dot-in-directory" : "C18:FileName:dropExt",
                    "dropExt()='" + got + "' expected '" + exp + "'", ctx);
  }
  const char *exts[] = {"", ".x", ".tar.gz"};
  for (int i = 0; i < 3; ++i) {
    std::string e = exts[i];
    std::string got = fn.setExt(e).str(), exp = refNormalize(stem + e);
    VH_CHECK(got == exp, "C18:FileName:setExt", "setExt('" + e + "')='" + got + "' expected '" + exp + "'", ctx);
    got = fn.addExt(e).str();
    exp = refNormalize(s + e);
    VH_CHECK(got == exp, "C18:FileName:addExt", "addExt('" + e + "')='" + got + "' expected '" + exp + "'", ctx);
  }
  const char *others[] = {"b", "d.e/f.g", ""};
  for (int i = 0; i < 3; ++i) {
    std::string o   = others[i];
    std::string exp = s.empty() ? refNormalize(o) : refNormalize(s + "/" + refNormalize(o));
    std::string g1  = (fn + FileName(o)).str();
    std::string g2  = (fn + o).str();
    VH_CHECK(g1 == exp && g2 == exp, "C18:FileName:operator+", "operator+('" + o + "')='" + g1 + "'/'" + g2 + "' expected '" + exp + "'", ctx);
  }
  VH_CHECK(fn == FileName(s) && !(fn != FileName(s)), "C18:FileName:equality", "FileName not equal to one built from its own str()", ctx);
  (void)(fn - FileName("a"));  // only required not to crash
  vh::evaluated(vh::hashStr(raw, 9), !s.empty());
  if (dotOnlyInDir)
    vh::count("paths_with_dot_only_in_directory");
}

// ------------------------------------------------------------------ arguments
struct ScriptedParser : public ArgumentsParser
{
  // consume[i] = how many arguments to take when positioned at ORIGINAL argument i
  std::vector<int> consume;
  std::vector<std::string> orig;
  std::vector<std::string> seen;
  std::string ctx;
  int tryConsume(ArgumentList &al, int argID) override
  {
    std::string a = al[argID];
    seen.push_back(a);
    // arguments are unique strings "a<i>": recover the original index
    int oi = atoi(a.c_str() + 1);
    int c  = consume[oi];
    if (argID + c > al.size())
      c = al.size() - argID;
    return c;
  }
};

static void checkArguments(vh::Rng &r, long k)
{
  int n = (int)r.range(0, 8);
  std::vector<std::string> store;
  store.push_back("prog");
  for (int i = 0; i < n; ++i)
    store.push_back("a" + std::to_string(i));
  std::vector<const char *> av;
  for (size_t i = 0; i < store.size(); ++i)
    av.push_back(store[i].c_str());
  std::string ctx = "#" + std::to_string(k) + " args n=" + std::to_string(n);

  // ArgumentList basics + remove
  {
    ArgumentList al((int)av.size(), av.data());
    std::vector<std::string> model(store.begin() + 1, store.end());
    bool ok = al.size() == (int)model.size() && al.empty() == model.empty();
    for (int step = 0; step < 4 && ok; ++step) {
      if (model.empty())
        break;
      int where = (int)r.below(model.size());
      int how   = (int)r.range(0, (int64_t)model.size() - where);
      al.remove(where, how);
      model.erase(model.begin() + where, model.begin() + where + how);
      ctx += " remove(" + std::to_string(where) + "," + std::to_string(how) + ")";
      ok = al.size() == (int)model.size() && al.empty() == model.empty();
      for (int i = 0; ok && i < al.size(); ++i)
        ok = al[i] == model[i];
    }
    VH_CHECK(ok, "C18:ArgumentList:remove", "remaining arguments differ from the reference list", ctx);
  }
  // parseAndRemove with a scripted consumer
  {
    ArgumentList al((int)av.size(), av.data());
    ScriptedParser p;
    std::string pat;
    for (int i = 0; i < n; ++i) {
      int c = r.chance(1, 2) ? 0 : (int)r.range(1, 3);
      p.consume.push_back(c);
      pat += char('0' + c);
    }
    // reference: walk the original list
    std::vector<std::string> remain;
    for (int i = 0; i < n;) {
      int c = p.consume[i];
      if (i + c > n)
        c = n - i;
      if (c == 0) {
        remain.push_back(store[1 + i]);
        ++i;
      } else
        i += c;
    }
    p.parseAndRemove(al);
    bool ok = al.size() == (int)remain.size();
    for (int i = 0; ok && i < al.size(); ++i)
      ok = al[i] == remain[i];
    std::string got;
    for (int i = 0; i < al.size(); ++i)
      got += al[i] + " ";
    VH_CHECK(ok, "C18:ArgumentsParser:parseAndRemove", "unconsumed arguments differ from the reference: got " + got, ctx + " consume=" + pat);
    vh::evaluated(vh::hash64(vh::hashStr(pat, 13), n), n > 0);
    vh::sample(vh::J().kv("kind", "parseAndRemove").kv("n", (long long)n).kv("consume", pat).kv("remaining", got).str(), 4);
  }
  // removeArgs on a raw argv
  {
    std::vector<const char *> v(av);
    int ac            = (int)v.size();
    const char **avp  = v.data();
    std::vector<std::string> model(store);
    for (int step = 0; step < 3 && ac > 1; ++step) {
      int where = (int)r.range(1, ac - 1);
      int how   = (int)r.range(0, ac - where);
      removeArgs(ac, avp, where, how);
      model.erase(model.begin() + where, model.begin() + where + how);
      bool ok = ac == (int)model.size();
      for (int i = 0; ok && i < ac; ++i)
        ok = model[i] == avp[i];
      VH_CHECK(ok, "C18:removeArgs", "argv after removeArgs differs from the reference", ctx + " removeArgs(" + std::to_string(where) + "," + std::to_string(how) + ")");
    }
  }
}

// ------------------------------------------------------------------ pretty printing
static int suffixExp(char c, bool &ok)
{
  ok = true;
  switch (c) {
  case 'E': return 18;
  case 'P': return 15;
  case 'T': return 12;
  case 'G': return 9;
  case 'M': return 6;
  case 'k': return 3;
  case 'm': return -3;
  case 'u': return -6;
  case 'n': return -9;
  case 'p': return -12;
  case 'f': return -15;
  }
  ok = false;
  return 0;
}

// returns "" if fine, otherwise a description; `cls` receives the violation class
static std::string judgePretty(const std::string &out, long double input, std::string &cls)
{
  if (out.empty()) {
    cls = "empty";
    return "empty output";
  }
  char last = out[out.size() - 1];
  bool hasSuffix;
  int e = suffixExp(last, hasSuffix);
  std::string mant = hasSuffix ? out.substr(0, out.size() - 1) : out;
  char *endp = 0;
  long double m = strtold(mant.c_str(), &endp);
  if (endp == mant.c_str() || *endp) {
    cls = "unparsable";
    return "cannot parse mantissa '" + mant + "'";
  }
  long double am = fabsl(m);
  if (!(am >= 1.0L && am <= 1000.0L)) {
    cls = "mantissa-range";
    return "mantissa " + mant + " is outside [1,1000]";
  }
  // printed precision: digits after the decimal point
  size_t dp       = mant.find('.');
  int decimals    = dp == std::string::npos ? 0 : (int)(mant.size() - dp - 1);
  long double ulp = powl(10.0L, -decimals);
  long double tol = (0.5L * ulp + 2e-6L * am + (decimals == 0 ? 0.0L : 0.0L)) * powl(10.0L, e);
  if (decimals == 0)
    tol = 0.0L;  // integers are printed exactly
  long double back = m * powl(10.0L, e);
  if (fabsl(back - input) > tol) {
    cls = "value";
    char b[200];
    snprintf(b, sizeof b, "'%s' reads back as %.6Lg, input %.17Lg", out.c_str(), back, input);
    return b;
  }
  return "";
}

static void checkPrettyNumber(size_t v)
{
  std::string out = prettyNumber(v);
  std::string cls;
  std::string why = v == 0 ? "" : judgePretty(out, (long double)v, cls);
  if (v == 0 && out != "0")
    why = "prettyNumber(0) is '" + out + "'", cls = "value";
  if (!why.empty()) {
    bool peta = v >= 999999986991104ull && v < 1000000000000000000ull;
    vh::violation(peta ? "C18:prettyNumber:peta-range" : "C18:prettyNumber:" + cls, why, "prettyNumber(" + std::to_string(v) + ")='" + out + "'");
  }
  vh::evaluated(vh::hash64(17, v), v >= 1000);
}

static void checkPrettyDouble(double v)
{
  std::string out = prettyDouble(v);
  std::string cls;
  std::string why = judgePretty(out, (long double)v, cls);
  if (!why.empty()) {
    double a  = fabs(v);
    bool peta = a >= 9.9e14 && a < 1.0e18;
    char b[64];
    snprintf(b, sizeof b, "%.17g", v);
    vh::violation(peta ? "C18:prettyDouble:peta-range" : "C18:prettyDouble:" + cls, why, std::string("prettyDouble(") + b + ")='" + out + "'");
  }
  uint64_t bits;
  memcpy(&bits, &v, 8);
  vh::evaluated(vh::hash64(19, bits), true);
}

// ------------------------------------------------------------------ main
static void enumerate(const std::string &alpha, int maxLen, const std::function<void(const std::string &)> &f)
{
  std::string s;
  std::function<void(int)> rec = [&](int left) {
    f(s);
    if (!left)
      return;
    for (size_t i = 0; i < alpha.size(); ++i) {
      s.push_back(alpha[i]);
      rec(left - 1);
      s.pop_back();
    }
  };
  rec(maxLen);
}

int main(int argc, char **argv)
{
  vh::init(argc, argv);
  vh::rule(
      "strings: exhaustive over alphabet {a,b,:,.,/,=} up to length 6 (7 thorough) + seeded random to length 12; "
      "paths: exhaustive over {a,.,/,\\} up to length 7 (8); URLs/argument vectors/magnitudes: seeded random + every "
      "SI boundary +-ulp. distinct = hash of (function family, input); non-trivial = input yields at least one "
      "token / non-empty path / parameters / value >= 1000");
  vh::Rng r(vh::seed(), 18);
  long nStr = 0;
  enumerate("ab:./=", (int)vh::tier(6, 7), [&](const std::string &s) {
    checkSplitFamily(s);
    ++nStr;
  });
  enumerate("aB:.", 5, [&](const std::string &s) { checkCase(s); });
  for (long i = 0; i < vh::tier(20000, 1000000); ++i) {
    std::string s = randWord(r, "ab:./=xyz", 7, 12);
    checkSplitFamily(s);
    if (i < 3)
      vh::sample(vh::J().kv("kind", "split/tokenize").kv("input", s).str(), 6);
    std::string a = randWord(r, "ab", 0, 8), b = randWord(r, "ab", 0, 8);
    checkPrefix(a, b);
    checkPrefix(a + b, a);
    checkCase(randWord(r, "aZbQ:m.0", 0, 10));
  }
  vh::count("strings_enumerated", nStr);
  long nPath = 0;
  enumerate("a./\\", (int)vh::tier(7, 8), [&](const std::string &s) {
    checkFileName(s);
    ++nPath;
  });
  for (long i = 0; i < vh::tier(20000, 500000); ++i) {
    std::string p = randWord(r, "ab../\\_", 0, 14);
    checkFileName(p);
    if (i < 2)
      vh::sample(vh::J().kv("kind", "path").kv("input", p).str(), 8);
  }
  vh::count("paths_enumerated", nPath);
  for (long i = 0; i < vh::tier(20000, 1000000); ++i)
    checkURL(r, i);
  for (long i = 0; i < vh::tier(20000, 500000); ++i)
    checkArguments(r, i);

  // magnitudes: every power of ten boundary +-k, log-uniform random
  {
    long double p = 1;
    for (int e = 0; e <= 19; ++e, p *= 10) {
      for (int d = -3; d <= 3; ++d) {
        long double v = p + d;
        if (v >= 0 && v <= 18446744073709551615.0L)
          checkPrettyNumber((size_t)v);
      }
      if (p * 5 <= 18446744073709551615.0L)
        checkPrettyNumber((size_t)(p * 5));
    }
    checkPrettyNumber(~(size_t)0);
    for (long i = 0; i < vh::tier(100000, 3000000); ++i) {
      int bits = (int)r.range(1, 64);
      size_t v = (size_t)(r.next() >> (64 - bits));
      checkPrettyNumber(v);
    }
    for (int e = -15; e <= 20; ++e) {
      double b = pow(10.0, e);
      double vals[] = {b, nextafter(b, 0.0), nextafter(b, 1e300), b * 1.0000001, b * 0.9999999, b * 3.3, b * 9.99, b * 5};
      for (int i = 0; i < 8; ++i) {
        double v = vals[i];
        if (fabs(v) < 1.0000001e-15 || fabs(v) >= 0.9999e21)
          continue;
        checkPrettyDouble(v);
        checkPrettyDouble(-v);
      }
    }
    for (long i = 0; i < vh::tier(100000, 3000000); ++i) {
      double e = r.real(-14.99, 20.99);
      double v = pow(10.0, e) * (r.chance(1, 2) ? 1 : -1);
      checkPrettyDouble(v);
      if (i < 2) {
        vh::sample(vh::J().kv("kind", "prettyDouble").kv("input", v).kv("output", prettyDouble(v)).str(), 10);
      }
    }
  }
  return vh::finish();
}
