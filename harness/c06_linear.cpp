// C06 - linear / affine / quaternion transforms obey their algebra and agree.
//
// Oracle: an independent long-double (64-bit mantissa) reference for 2x2/3x3 algebra,
// Rodrigues rotation and quaternion algebra (namespace ref), plus cross-checks between
// rkcommon's own constructions.  Tolerances are c * eps_T * (forward error factor of the
// operation), the factor being computed per case from the actual (rounded) inputs:
//   det            : product of the column norms
//   adjoint        : |M|_F^2
//   inverse        : |M|_F^2/|det| + |M^-1|_F * prod|col| / |det|     (adjugate / det)
//   M*inverse(M)-I : |M|_F^3/|det|                                   (<= 3*sqrt(3)*kappa^2)
// Inputs are M = R1*diag(s)*R2 with s in [1/8,8] (kappa <= 64).
//
// Conventions of the real code (read from the headers, asserted below):
//   LinearSpace stores COLUMNS vx,vy(,vz); the scalar constructors take row-major data;
//   M*v = v.x*vx + v.y*vy + v.z*vz; AffineSpace (l,p): x -> l*x + p, (A*B)(x) = A(B(x));
//   quaternion (r,i,j,k), Hamilton product, q*v = q (0,v) conj(q), LinearSpace3(q)*v = q*v;
//   lookat(eye,point,up): vz = normalize(point-eye), vx = normalize(vz x up), vy = vx x vz, p = eye;
//   frame(N): (dx,dy,N) right handed, dx = normalize(e x N) for e = ex or ey (the longer cross product).
#include "vh.h"

#include <cmath>
#include <cstdio>
#include <cstring>
#include <limits>
#include <string>

#include "rkcommon/math/AffineSpace.h"
#include "rkcommon/math/LinearSpace.h"
#include "rkcommon/math/Quaternion.h"

namespace rk = rkcommon::math;
typedef long double LD;

// ------------------------------------------------------------------ reference model
namespace ref {

static const LD PI = 3.14159265358979323846264338327950288L;

struct V
{
  LD a[3];
};
struct M
{
  LD m[3][3];  // m[row][col]; 2D matrices are embedded with m[2][2] = 1
  int n;
};
struct Q
{
  LD r, i, j, k;
};

static V vec(LD x, LD y, LD z = 0)
{
  V v;
  v.a[0] = x;
  v.a[1] = y;
  v.a[2] = z;
  return v;
}
static LD dot(const V &a, const V &b)
{
  return a.a[0] * b.a[0] + a.a[1] * b.a[1] + a.a[2] * b.a[2];
}
static V cross(const V &a, const V &b)
{
  return vec(a.a[1] * b.a[2] - a.a[2] * b.a[1], a.a[2] * b.a[0] - a.a[0] * b.a[2], a.a[0] * b.a[1] - a.a[1] * b.a[0]);
}
static LD len(const V &a)
{
  return sqrtl(dot(a, a));
}
static V mul(const V &a, LD s)
{
  return vec(a.a[0] * s, a.a[1] * s, a.a[2] * s);
}
static V add(const V &a, const V &b)
{
  return vec(a.a[0] + b.a[0], a.a[1] + b.a[1], a.a[2] + b.a[2]);
}
static V sub(const V &a, const V &b)
{
  return vec(a.a[0] - b.a[0], a.a[1] - b.a[1], a.a[2] - b.a[2]);
}
static V normalize(const V &a)
{
  return mul(a, 1.0L / len(a));
}
static LD dist(const V &a, const V &b)
{
  return len(sub(a, b));
}

static M ident(int n)
{
  M r;
  r.n = n;
  for (int i = 0; i < 3; ++i)
    for (int j = 0; j < 3; ++j)
      r.m[i][j] = i == j ? 1 : 0;
  return r;
}
static M zeroM(int n)
{
  M r = ident(n);
  for (int i = 0; i < n; ++i)
    r.m[i][i] = 0;
  return r;
}
static M diag(int n, LD a, LD b, LD c = 1)
{
  M r    = ident(n);
  r.m[0][0] = a;
  r.m[1][1] = b;
  if (n == 3)
    r.m[2][2] = c;
  return r;
}
static M mul(const M &a, const M &b)
{
  M r;
  r.n = a.n;
  for (int i = 0; i < 3; ++i)
    for (int j = 0; j < 3; ++j) {
      LD s = 0;
      for (int k = 0; k < 3; ++k)
        s += a.m[i][k] * b.m[k][j];
      r.m[i][j] = s;
    }
  return r;
}
static V mul(const M &a, const V &v)
{
  V r;
  for (int i = 0; i < 3; ++i)
    r.a[i] = a.m[i][0] * v.a[0] + a.m[i][1] * v.a[1] + (a.n == 3 ? a.m[i][2] * v.a[2] : 0);
  if (a.n == 2)
    r.a[2] = 0;
  return r;
}
static M mul(const M &a, LD s)
{
  M r = a;
  for (int i = 0; i < a.n; ++i)
    for (int j = 0; j < a.n; ++j)
      r.m[i][j] = a.m[i][j] * s;
  return r;
}
static M add(const M &a, const M &b, LD sb = 1)
{
  M r = a;
  for (int i = 0; i < a.n; ++i)
    for (int j = 0; j < a.n; ++j)
      r.m[i][j] = a.m[i][j] + sb * b.m[i][j];
  return r;
}
static M transpose(const M &a)
{
  M r = a;
  for (int i = 0; i < 3; ++i)
    for (int j = 0; j < 3; ++j)
      r.m[i][j] = a.m[j][i];
  return r;
}
static V col(const M &a, int j)
{
  return vec(a.m[0][j], a.m[1][j], a.m[2][j]);
}
// Laplace expansion along the first row (for the embedded 2D case this is ad-bc)
static LD det(const M &a)
{
  return a.m[0][0] * (a.m[1][1] * a.m[2][2] - a.m[1][2] * a.m[2][1]) - a.m[0][1] * (a.m[1][0] * a.m[2][2] - a.m[1][2] * a.m[2][0]) +
         a.m[0][2] * (a.m[1][0] * a.m[2][1] - a.m[1][1] * a.m[2][0]);
}
// classical adjoint: adj[i][j] = (-1)^(i+j) * minor(j,i)
static M adj(const M &a)
{
  M r;
  r.n = a.n;
  for (int i = 0; i < 3; ++i)
    for (int j = 0; j < 3; ++j) {
      // minor obtained by deleting row j and column i
      int r0 = j == 0 ? 1 : 0, r1 = j == 2 ? 1 : 2;
      int c0 = i == 0 ? 1 : 0, c1 = i == 2 ? 1 : 2;
      LD mn     = a.m[r0][c0] * a.m[r1][c1] - a.m[r0][c1] * a.m[r1][c0];
      r.m[i][j] = ((i + j) & 1) ? -mn : mn;
    }
  if (a.n == 2) {  // drop the embedding row/column again
    r.m[2][2] = 1;
    r.m[0][2] = r.m[1][2] = r.m[2][0] = r.m[2][1] = 0;
  }
  return r;
}
static M inverse(const M &a)
{
  M r = mul(adj(a), 1.0L / det(a));
  if (a.n == 2)
    r.m[2][2] = 1;
  return r;
}
static LD normF(const M &a)
{
  LD s = 0;
  for (int i = 0; i < a.n; ++i)
    for (int j = 0; j < a.n; ++j)
      s += a.m[i][j] * a.m[i][j];
  return sqrtl(s);
}
static LD maxDiff(const M &a, const M &b)
{
  LD s = 0;
  for (int i = 0; i < a.n; ++i)
    for (int j = 0; j < a.n; ++j) {
      LD d = fabsl(a.m[i][j] - b.m[i][j]);
      if (!(d <= s))
        s = d;  // NaN propagates as "large"
    }
  return s;
}
static LD maxDiff(const V &a, const V &b)
{
  LD s = 0;
  for (int i = 0; i < 3; ++i) {
    LD d = fabsl(a.a[i] - b.a[i]);
    if (!(d <= s))
      s = d;
  }
  return s;
}
static LD colNormProduct(const M &a)
{
  LD p = 1;
  for (int j = 0; j < a.n; ++j)
    p *= len(vec(a.m[0][j], a.m[1][j], a.n == 3 ? a.m[2][j] : 0));
  return p;
}

// rotation about the unit axis u by th, right handed:  v -> v_par + cos*v_perp + sin*(u x v_perp)
static V rotateVec(const V &u, LD th, const V &v)
{
  V par  = mul(u, dot(u, v));
  V perp = sub(v, par);
  return add(par, add(mul(perp, cosl(th)), mul(cross(u, perp), sinl(th))));
}
static M rotation(const V &u, LD th)
{
  M r = ident(3);
  for (int j = 0; j < 3; ++j) {
    V e = vec(j == 0, j == 1, j == 2);
    V c = rotateVec(u, th, e);
    for (int i = 0; i < 3; ++i)
      r.m[i][j] = c.a[i];
  }
  return r;
}
static M rotation2(LD th)
{
  M r       = ident(2);
  r.m[0][0] = cosl(th);
  r.m[0][1] = -sinl(th);
  r.m[1][0] = sinl(th);
  r.m[1][1] = cosl(th);
  return r;
}

// quaternions (Hamilton)
static Q quat(LD r, LD i, LD j, LD k)
{
  Q q;
  q.r = r;
  q.i = i;
  q.j = j;
  q.k = k;
  return q;
}
static Q qmul(const Q &a, const Q &b)
{
  // (ar + av)(br + bv) = ar*br - av.bv + ar*bv + br*av + av x bv
  V av = vec(a.i, a.j, a.k), bv = vec(b.i, b.j, b.k);
  V v = add(add(mul(bv, a.r), mul(av, b.r)), cross(av, bv));
  return quat(a.r * b.r - dot(av, bv), v.a[0], v.a[1], v.a[2]);
}
static Q qconj(const Q &a)
{
  return quat(a.r, -a.i, -a.j, -a.k);
}
static LD qdot(const Q &a, const Q &b)
{
  return a.r * b.r + a.i * b.i + a.j * b.j + a.k * b.k;
}
static LD qnorm(const Q &a)
{
  return sqrtl(qdot(a, a));
}
static Q qscale(const Q &a, LD s)
{
  return quat(a.r * s, a.i * s, a.j * s, a.k * s);
}
static Q qadd(const Q &a, const Q &b, LD sb = 1)
{
  return quat(a.r + sb * b.r, a.i + sb * b.i, a.j + sb * b.j, a.k + sb * b.k);
}
static Q qnormalize(const Q &a)
{
  return qscale(a, 1.0L / qnorm(a));
}
static Q qinv(const Q &a)
{
  return qscale(qconj(a), 1.0L / qdot(a, a));
}
static Q qaxis(const V &u, LD th)
{
  LD s = sinl(th / 2);
  return quat(cosl(th / 2), s * u.a[0], s * u.a[1], s * u.a[2]);
}
static V qrot(const Q &q, const V &v)  // vector part of q (0,v) conj(q)   (scaled by |q|^2 if q is not unit)
{
  Q p = qmul(qmul(q, quat(0, v.a[0], v.a[1], v.a[2])), qconj(q));
  return vec(p.i, p.j, p.k);
}
static M qmat(const Q &q)  // columns are the images of the basis vectors
{
  M r = ident(3);
  for (int j = 0; j < 3; ++j) {
    V c = qrot(q, vec(j == 0, j == 1, j == 2));
    for (int i = 0; i < 3; ++i)
      r.m[i][j] = c.a[i];
  }
  return r;
}
static LD qdiff(const Q &a, const Q &b)
{
  LD d = fabsl(a.r - b.r);
  LD e = fabsl(a.i - b.i);
  if (!(e <= d))
    d = e;
  e = fabsl(a.j - b.j);
  if (!(e <= d))
    d = e;
  e = fabsl(a.k - b.k);
  if (!(e <= d))
    d = e;
  return d;
}
static LD qdiffPM(const Q &a, const Q &b)  // as rotations: q and -q are the same
{
  LD d1 = qdiff(a, b), d2 = qdiff(a, qscale(b, -1));
  if (d1 != d1 || d2 != d2)
    return d1 + d2;
  return d1 < d2 ? d1 : d2;
}
// angle between two 4-vectors, accurate for small angles
static LD qangle(const Q &a, const Q &b)
{
  return 2 * atan2l(qnorm(qadd(a, b, -1)), qnorm(qadd(a, b)));
}

}  // namespace ref

// ------------------------------------------------------------------ glue: types, conversion, printing
template <class V>
struct VT;
template <>
struct VT<rk::vec3f>
{
  typedef float S;
  static const char *tag() { return "3f"; }
  enum { id = 1 };
};
template <>
struct VT<rk::vec3fa>
{
  typedef float S;
  static const char *tag() { return "3fa"; }
  enum { id = 2 };
};
template <>
struct VT<rk::vec3d>
{
  typedef double S;
  static const char *tag() { return "3d"; }
  enum { id = 3 };
};
template <>
struct VT<rk::vec2f>
{
  typedef float S;
  static const char *tag() { return "2f"; }
  enum { id = 4 };
};
template <>
struct VT<rk::vec2d>
{
  typedef double S;
  static const char *tag() { return "2d"; }
  enum { id = 5 };
};
template <class S>
struct ST;
template <>
struct ST<float>
{
  static const char *tag() { return "f"; }
  enum { id = 1 };
};
template <>
struct ST<double>
{
  static const char *tag() { return "d"; }
  enum { id = 3 };
};

template <class S>
static LD EPS()
{
  return (LD)std::numeric_limits<S>::epsilon();
}

static std::string key(const char *fam, const char *tag, const char *what)
{
  return std::string("C06:") + fam + tag + ":" + what;
}
static std::string num(LD v)
{
  char b[64];
  snprintf(b, sizeof b, "%.21Lg", v);
  return b;
}
static std::string sci(LD v)
{
  char b[64];
  snprintf(b, sizeof b, "%.3Lg", v);
  return b;
}
static std::string show(const ref::V &v, int n = 3)
{
  std::string s = "(" + num(v.a[0]) + "," + num(v.a[1]);
  if (n == 3)
    s += "," + num(v.a[2]);
  return s + ")";
}
static std::string show(const ref::M &m)  // printed as columns, the way the library stores them
{
  std::string s = "{";
  for (int j = 0; j < m.n; ++j) {
    s += j == 0 ? "vx=" : j == 1 ? " vy=" : " vz=";
    s += show(ref::col(m, j), m.n);
  }
  return s + "}";
}
static std::string show(const ref::Q &q)
{
  return "{r=" + num(q.r) + " i=" + num(q.i) + " j=" + num(q.j) + " k=" + num(q.k) + "}";
}
static std::string offBy(LD d, LD tol)
{
  return "max|got-expected|=" + sci(d) + " > tol " + sci(tol);
}

// library -> reference (exact: every float/double is a long double)
template <class V>
static ref::V rv3(const V &v)
{
  return ref::vec(v.x, v.y, v.z);
}
template <class V>
static ref::V rv2(const V &v)
{
  return ref::vec(v.x, v.y, 0);
}
template <class V>
static ref::M rm3(const rk::LinearSpace3<V> &l)
{
  ref::M m = ref::ident(3);
  m.m[0][0] = l.vx.x, m.m[1][0] = l.vx.y, m.m[2][0] = l.vx.z;
  m.m[0][1] = l.vy.x, m.m[1][1] = l.vy.y, m.m[2][1] = l.vy.z;
  m.m[0][2] = l.vz.x, m.m[1][2] = l.vz.y, m.m[2][2] = l.vz.z;
  return m;
}
template <class V>
static ref::M rm2(const rk::LinearSpace2<V> &l)
{
  ref::M m = ref::ident(2);
  m.m[0][0] = l.vx.x, m.m[1][0] = l.vx.y;
  m.m[0][1] = l.vy.x, m.m[1][1] = l.vy.y;
  return m;
}
template <class S>
static ref::Q rq(const rk::QuaternionT<S> &q)
{
  return ref::quat(q.r, q.i, q.j, q.k);
}
// reference -> library (rounds to the scalar type)
template <class V>
static V mk3(const ref::V &v)
{
  typedef typename VT<V>::S S;
  return V(S(v.a[0]), S(v.a[1]), S(v.a[2]));
}
template <class V>
static V mk2(const ref::V &v)
{
  typedef typename VT<V>::S S;
  return V(S(v.a[0]), S(v.a[1]));
}
template <class V>
static rk::LinearSpace3<V> mkL3(const ref::M &m)  // through the column constructor
{
  return rk::LinearSpace3<V>(mk3<V>(ref::col(m, 0)), mk3<V>(ref::col(m, 1)), mk3<V>(ref::col(m, 2)));
}
template <class V>
static rk::LinearSpace2<V> mkL2(const ref::M &m)
{
  return rk::LinearSpace2<V>(mk2<V>(ref::col(m, 0)), mk2<V>(ref::col(m, 1)));
}
template <class S>
static rk::QuaternionT<S> mkQ(const ref::Q &q)
{
  return rk::QuaternionT<S>(S(q.r), S(q.i), S(q.j), S(q.k));
}

static uint64_t hd(uint64_t h, LD v)
{
  double d = (double)v;
  uint64_t b;
  memcpy(&b, &d, 8);
  return vh::hash64(h, b);
}
static uint64_t hm(uint64_t h, const ref::M &m)
{
  for (int i = 0; i < m.n; ++i)
    for (int j = 0; j < m.n; ++j)
      h = hd(h, m.m[i][j]);
  return h;
}
static uint64_t hv(uint64_t h, const ref::V &v)
{
  return hd(hd(hd(h, v.a[0]), v.a[1]), v.a[2]);
}
static uint64_t hq(uint64_t h, const ref::Q &q)
{
  return hd(hd(hd(hd(h, q.r), q.i), q.j), q.k);
}

// ------------------------------------------------------------------ generators
static vh::Rng caseRng(long k, int stream)
{
  return vh::Rng(vh::seed() * 1000003ull + (uint64_t)k, (uint64_t)stream);
}
static LD gauss(vh::Rng &r)
{
  LD u1 = (LD)r.unit(), u2 = (LD)r.unit();
  if (u1 < 1e-300L)
    u1 = 1e-300L;
  return sqrtl(-2 * logl(u1)) * cosl(2 * ref::PI * u2);
}
static ref::Q randUnitQ(vh::Rng &r)
{
  for (;;) {
    ref::Q q = ref::quat(gauss(r), gauss(r), gauss(r), gauss(r));
    if (ref::qnorm(q) > 1e-3L)
      return ref::qnormalize(q);
  }
}
static ref::V randUnitV(vh::Rng &r)
{
  for (;;) {
    ref::V v = ref::vec(gauss(r), gauss(r), gauss(r));
    if (ref::len(v) > 1e-3L)
      return ref::normalize(v);
  }
}
// unit axes: coordinate axes, face and space diagonals, random
static ref::V hostileAxis(vh::Rng &r)
{
  int m = (int)r.below(10);
  if (m < 5)
    return randUnitV(r);
  if (m < 7) {
    int a = (int)r.below(3);
    LD s  = r.chance(1, 2) ? 1 : -1;
    return ref::vec(a == 0 ? s : 0, a == 1 ? s : 0, a == 2 ? s : 0);
  }
  if (m < 9) {
    int a = (int)r.below(3);  // the zero component
    LD s1 = r.chance(1, 2) ? 1 : -1, s2 = r.chance(1, 2) ? 1 : -1;
    ref::V v = ref::vec(a == 0 ? 0 : s1, a == 1 ? 0 : (a == 0 ? s1 : s2), a == 2 ? 0 : s2);
    return ref::normalize(v);
  }
  return ref::normalize(ref::vec(r.chance(1, 2) ? 1 : -1, r.chance(1, 2) ? 1 : -1, r.chance(1, 2) ? 1 : -1));
}
// angles in [-2pi,2pi]: random, multiples of pi/2 and pi/3 (trace = 0 boundary at 2pi/3), near pi, tiny
static LD hostileAngle(vh::Rng &r)
{
  int m = (int)r.below(12);
  if (m < 6)
    return (LD)r.real(-2 * (double)ref::PI, 2 * (double)ref::PI);
  if (m < 8)
    return (LD)r.range(-4, 4) * ref::PI / 2;
  if (m < 9)
    return (LD)r.range(-6, 6) * ref::PI / 3;
  if (m < 10)
    return (r.chance(1, 2) ? 1 : -1) * (ref::PI + (LD)r.real(-1e-3, 1e-3));
  if (m < 11)
    return (LD)r.real(-1, 1) * (r.chance(1, 2) ? 1e-3L : 1e-6L);
  // between 2pi/3 and 4pi/3: trace < 0, the three non-default quaternion-from-matrix branches
  return (r.chance(1, 2) ? 1 : -1) * (LD)r.real(2.1, 4.18);
}
static LD logUniform(vh::Rng &r, LD lo, LD hi)
{
  return expl(logl(lo) + (logl(hi) - logl(lo)) * (LD)r.unit());
}
// singular values in [1/8,8]
static LD singular(vh::Rng &r, int mode)
{
  if (mode == 1)
    return r.chance(1, 2) ? 8.0L : 0.125L;
  if (mode == 2) {
    static const LD pick[] = {0.125L, 0.25L, 0.5L, 1, 2, 4, 8, 3, 1.0L / 3};
    return pick[r.below(9)];
  }
  return logUniform(r, 0.125L, 8);
}
// M = R1 * diag(s) * R2, kappa <= 64; `trivial` is set for diagonal / identity-like results
static ref::M genMatrix(vh::Rng &r, int n, bool &trivial)
{
  int mode = (int)r.below(16);
  trivial  = false;
  int smode = mode < 8 ? 0 : mode < 10 ? 1 : mode < 12 ? 2 : 0;
  LD s0 = singular(r, smode), s1 = singular(r, smode), s2 = singular(r, smode);
  if (mode == 12)
    s1 = s2 = s0;  // multiple of an orthogonal matrix
  if (mode == 13)
    s0 = s1 = s2 = 1;  // pure rotation / reflection
  if (r.chance(1, 3))
    s0 = -s0;  // orientation reversing maps are part of the domain
  ref::M D = ref::diag(n, s0, s1, s2);
  if (mode == 14) {  // diagonal
    trivial = true;
    return D;
  }
  if (mode == 15) {  // identity
    trivial = true;
    return ref::ident(n);
  }
  if (n == 2)
    return ref::mul(ref::mul(ref::rotation2(hostileAngle(r)), D), ref::rotation2(hostileAngle(r)));
  ref::M R1 = r.chance(1, 6) ? ref::rotation(hostileAxis(r), hostileAngle(r)) : ref::qmat(randUnitQ(r));
  ref::M R2 = r.chance(1, 6) ? ref::ident(3) : ref::qmat(randUnitQ(r));
  return ref::mul(ref::mul(R1, D), R2);
}
static ref::V genPoint(vh::Rng &r, int n)
{
  int m = (int)r.below(10);
  ref::V v;
  if (m == 0)
    v = ref::vec(0, 0, 0);
  else if (m == 1) {
    int a = (int)r.below(n);
    v     = ref::vec(a == 0, a == 1, a == 2);
  } else if (m == 2)
    v = ref::vec((LD)r.range(-8, 8), (LD)r.range(-8, 8), (LD)r.range(-8, 8));
  else
    v = ref::vec((LD)r.real(-8, 8), (LD)r.real(-8, 8), (LD)r.real(-8, 8));
  if (n == 2)
    v.a[2] = 0;
  return v;
}
static LD genScalar(vh::Rng &r)  // |s| in [1/4,4]
{
  LD s = logUniform(r, 0.25L, 4);
  return r.chance(1, 2) ? s : -s;
}

// per-matrix facts the tolerances are derived from
struct MInfo
{
  ref::M m, inv, adj;
  LD det, nF, nFinv, P;
  LD kInv;  // |fl(inverse) - inverse| <= c*eps*kInv
  LD kRes;  // |M*fl(inverse) - I|     <= c*eps*kRes
};
static MInfo info(const ref::M &m)
{
  MInfo i;
  i.m     = m;
  i.det   = ref::det(m);
  i.adj   = ref::adj(m);
  i.inv   = ref::inverse(m);
  i.nF    = ref::normF(m);
  i.nFinv = ref::normF(i.inv);
  i.P     = ref::colNormProduct(m);
  i.kInv  = i.nF * i.nF / fabsl(i.det) + i.nFinv * i.P / fabsl(i.det) + i.nFinv;
  i.kRes  = i.nF * i.nF * i.nF / fabsl(i.det) + i.nF * i.nFinv;
  return i;
}
static const LD C = 16;  // constant in front of every derived bound

// ------------------------------------------------------------------ dimension policies
template <class V>
struct D3
{
  typedef rk::LinearSpace3<V> L;
  typedef typename VT<V>::S S;
  enum { n = 3 };
  static ref::M rm(const L &l) { return rm3(l); }
  static L mk(const ref::M &m) { return mkL3<V>(m); }
  static ref::V rv(const V &v) { return rv3(v); }
  static V mkv(const ref::V &v) { return mk3<V>(v); }
  static L rowMajor(const ref::M &m)
  {
    return L(S(m.m[0][0]), S(m.m[0][1]), S(m.m[0][2]), S(m.m[1][0]), S(m.m[1][1]), S(m.m[1][2]), S(m.m[2][0]), S(m.m[2][1]), S(m.m[2][2]));
  }
  static S &entry(L &l, int row, int c)
  {
    V &v = c == 0 ? l.vx : c == 1 ? l.vy : l.vz;
    return row == 0 ? v.x : row == 1 ? v.y : v.z;
  }
  static ref::V row(const L &l, int i) { return rv(i == 0 ? l.row0() : i == 1 ? l.row1() : l.row2()); }
};
template <class V>
struct D2
{
  typedef rk::LinearSpace2<V> L;
  typedef typename VT<V>::S S;
  enum { n = 2 };
  static ref::M rm(const L &l) { return rm2(l); }
  static L mk(const ref::M &m) { return mkL2<V>(m); }
  static ref::V rv(const V &v) { return rv2(v); }
  static V mkv(const ref::V &v) { return mk2<V>(v); }
  static L rowMajor(const ref::M &m) { return L(S(m.m[0][0]), S(m.m[0][1]), S(m.m[1][0]), S(m.m[1][1])); }
  static S &entry(L &l, int row, int c)
  {
    V &v = c == 0 ? l.vx : l.vy;
    return row == 0 ? v.x : v.y;
  }
  static ref::V row(const L &l, int i) { return rv(i == 0 ? l.row0() : l.row1()); }
};

static bool sameM(const ref::M &a, const ref::M &b)  // exact
{
  for (int i = 0; i < a.n; ++i)
    for (int j = 0; j < a.n; ++j)
      if (!(a.m[i][j] == b.m[i][j]))
        return false;
  return true;
}

// how much of each tolerance the unchanged code uses: max over all comparisons of error/tolerance, per family (evidence)
#include <map>
static std::map<const char *, LD> g_use;
static inline void useOf(const char *fam, LD d, LD t)
{
  if (t > 0 && d == d) {
    LD &m = g_use[fam];
    LD q  = d / t;
    if (q > m)
      m = q;
  }
}

// ------------------------------------------------------------------ LinearSpace2 / LinearSpace3 algebra
#define CK(cond, what, detail)                                 \
  do {                                                         \
    if (!(cond))                                               \
      vh::violation(key(FAM, TAG, what), (detail), ctx());     \
  } while (0)
// compare a library matrix with the reference within tol
#define CKM(got, exp, tol, what)                                                                                         \
  do {                                                                                                                   \
    ref::M g_ = (got), e_ = (exp);                                                                                       \
    LD d_ = ref::maxDiff(g_, e_), t_ = (tol);                                                                            \
    useOf(FAM, d_, t_);                                                                                                  \
    if (!(d_ <= t_))                                                                                                     \
      vh::violation(key(FAM, TAG, what), offBy(d_, t_) + " got " + show(g_) + " expected " + show(e_), ctx());            \
  } while (0)
#define CKV(got, exp, tol, what)                                                                                         \
  do {                                                                                                                   \
    ref::V g_ = (got), e_ = (exp);                                                                                       \
    LD d_ = ref::maxDiff(g_, e_), t_ = (tol);                                                                            \
    useOf(FAM, d_, t_);                                                                                                  \
    if (!(d_ <= t_))                                                                                                     \
      vh::violation(key(FAM, TAG, what), offBy(d_, t_) + " got " + show(g_) + " expected " + show(e_), ctx());            \
  } while (0)
#define CKS(got, exp, tol, what)                                                                                         \
  do {                                                                                                                   \
    LD g_ = (got), e_ = (exp), t_ = (tol);                                                                               \
    LD d_ = fabsl(g_ - e_);                                                                                              \
    useOf(FAM, d_, t_);                                                                                                  \
    if (!(d_ <= t_))                                                                                                     \
      vh::violation(key(FAM, TAG, what), offBy(d_, t_) + " got " + num(g_) + " expected " + num(e_), ctx());              \
  } while (0)

template <class V, class D>
static void checkLinearCommon(long k, ref::M &aOut, ref::M &bOut, bool &nontrivial)
{
  typedef typename D::L L;
  typedef typename D::S S;
  const char *FAM = "linear";
  const char *TAG = VT<V>::tag();
  const int n     = D::n;
  const LD e      = EPS<S>();
  vh::Rng r       = caseRng(k, 100 + VT<V>::id);
  bool ta, tb;
  L A = D::mk(genMatrix(r, n, ta)), B = D::mk(genMatrix(r, n, tb));
  const ref::M a = D::rm(A), b = D::rm(B);
  aOut = a, bOut = b;
  nontrivial = !ta;
  const MInfo ia = info(a), ib = info(b);
  V x            = D::mkv(genPoint(r, n));
  const ref::V xr = D::rv(x);
  S sc            = S(genScalar(r));
  auto ctx = [&]() {
    return "#" + std::to_string(k) + " LinearSpace" + TAG + " A=" + show(a) + " B=" + show(b) + " x=" + show(xr, n) + " s=" + num(sc) +
           " cond-factor(A)=" + sci(ia.kRes);
  };
  const ref::M I = ref::ident(n);

  // storage conventions: column constructor, row-major scalar constructor, rows
  {
    L rmj = D::rowMajor(a);
    CK(sameM(D::rm(rmj), a), "row-major-constructor", "scalar constructor is not row-major: " + show(D::rm(rmj)));
    for (int i = 0; i < n; ++i) {
      ref::V row = D::row(A, i);
      bool ok    = true;
      for (int j = 0; j < n; ++j)
        ok &= row.a[j] == a.m[i][j];
      CK(ok, i == 0 ? "row0" : i == 1 ? "row1" : "row2", "row is " + show(row, n));
    }
    CK(sameM(D::rm(A.transposed()), ref::transpose(a)), "transposed", "got " + show(D::rm(A.transposed())));
    L cp(A), as;
    as = A;
    CK(sameM(D::rm(cp), a) && sameM(D::rm(as), a), "copy", "copy constructor / assignment changed the matrix");
    CK(sameM(D::rm(L(rk::zero)), ref::zeroM(n)) && sameM(D::rm(L(rk::one)), I), "constants", "L(zero)/L(one) are not the zero / identity matrix");
  }
  // det, adjoint, inverse against the reference and against their defining identities
  {
    CKS(A.det(), ia.det, C * e * ia.P, "det");
    CKM(D::rm(A.adjoint()), ia.adj, C * e * ia.nF * ia.nF, "adjoint");
    CKM(ref::mul(D::rm(A.adjoint()), a), ref::mul(I, (LD)A.det()), C * e * ia.nF * ia.nF * ia.nF, "adjoint*M=det*I");
    L inv = A.inverse();
    CKM(D::rm(inv), ia.inv, C * e * ia.kInv, "inverse");
    CKM(D::rm(rk::rcp(A)), D::rm(inv), 0, "rcp=inverse");
    // M*inverse(M) = I, both with the library's product and with the exact product of the library's inverse
    CKM(ref::mul(a, D::rm(inv)), I, C * e * ia.kRes, "M*inverse(M)=I");
    CKM(D::rm(A * inv), I, C * e * ia.kRes, "M*inverse(M)=I");
    CKM(D::rm(inv * A), I, C * e * ia.kRes, "inverse(M)*M=I");
  }
  // products
  {
    L AB           = A * B;
    const ref::M ab = ref::mul(a, b);
    CKM(D::rm(AB), ab, C * e * ia.nF * ib.nF, "M*N");
    CKV(D::rv(A * x), ref::mul(a, xr), C * e * ia.nF * ref::len(xr), "M*v");
    // (A*B)x = A(Bx)
    LD tolc = C * e * ia.nF * ib.nF * ref::len(xr) * 2;
    CKV(D::rv(AB * x), D::rv(A * (B * x)), tolc, "(A*B)x=A(Bx)");
    // det multiplicative.  |det(AB+E)-det(AB)| <= |adj(AB)|_F |E|_F <= (|A|_F|B|_F)^(n-1) * n*eps*|A|_F|B|_F, the three
    // computed determinants add at most 7*eps*(product of column norms) each
    LD told = C * e * powl(ia.nF * ib.nF, n);
    CKS((LD)AB.det(), (LD)A.det() * (LD)B.det(), told, "det-multiplicative");
    L q = A / B;
    CKM(D::rm(q), ref::mul(a, ib.inv), C * e * (ia.nF * ib.kInv + ia.nF * ib.nFinv), "M/N");
    L m1 = A;
    m1 *= B;
    CKM(D::rm(m1), D::rm(AB), 0, "operator*=");
    L m2 = A;
    m2 /= B;
    CKM(D::rm(m2), D::rm(q), 0, "operator/=");
  }
  // entry-wise operators (one rounding each)
  {
    LD t1 = 2 * e * (ia.nF + ib.nF);
    CKM(D::rm(A + B), ref::add(a, b), t1, "operator+");
    CKM(D::rm(A - B), ref::add(a, b, -1), t1, "operator-");
    CKM(D::rm(-A), ref::mul(a, -1), 0, "unary-minus");
    CKM(D::rm(+A), a, 0, "unary-plus");
    CKM(D::rm(sc * A), ref::mul(a, (LD)sc), 2 * e * fabsl(sc) * ia.nF, "scalar*M");
    CKM(D::rm(A / sc), ref::mul(a, 1 / (LD)sc), 2 * e * ia.nF / fabsl(sc), "M/scalar");
    V sv = D::mkv(ref::vec(sc, -2 * (LD)sc, 0.5L));
    ref::V svr = D::rv(sv);
    L sm       = L::scale(sv);
    CK(sameM(D::rm(sm), ref::diag(n, svr.a[0], svr.a[1], svr.a[2])), "scale", "scale(s) is not diag(s): " + show(D::rm(sm)));
  }
  // == / != : equal to itself, different as soon as any single entry differs
  {
    L same(A);
    CK((A == same) && !(A != same), "equality", "matrix not equal to its copy");
    int pos = (int)r.below(n * n);
    L diff(A);
    S &en = D::entry(diff, pos / n, pos % n);
    en    = en + (en == 0 ? S(1) : en);  // doubles the entry (or sets 1): certainly different
    CK(!(A == diff) && (A != diff), "equality",
       "matrices differing only in entry (row " + std::to_string(pos / n) + ",col " + std::to_string(pos % n) + ") compare equal");
  }
}

template <class V>
static void checkLinear3(long k)
{
  typedef D3<V> D;
  typedef typename D::L L;
  typedef typename D::S S;
  const char *FAM = "linear";
  const char *TAG = VT<V>::tag();
  ref::M a, b;
  bool nontrivial;
  checkLinearCommon<V, D>(k, a, b, nontrivial);
  const LD e = EPS<S>();
  vh::Rng r  = caseRng(k, 200 + VT<V>::id);
  L A        = D::mk(a);
  const MInfo ia = info(a);
  V x             = D::mkv(genPoint(r, 3));
  const ref::V xr = D::rv(x);
  auto ctx        = [&]() { return "#" + std::to_string(k) + " LinearSpace" + TAG + " A=" + show(a) + " x=" + show(xr) + " cond-factor(A)=" + sci(ia.kRes); };
  // xfmPoint / xfmVector: the full linear map; xfmNormal: the inverse transpose.
  // For the double instantiation a result that is right to float accuracy but not to double accuracy is reported under
  // one key of its own (xfm-double-instantiation3d:only-float-accurate); anything worse under the regular keys.
  {
    const char *FAM = "xfm";
    const LD ef     = VT<V>::id == 3 ? EPS<float>() : e;
    V t2            = D::mkv(genPoint(r, 3));
    struct Item
    {
      const char *what;
      ref::V got, exp;
      LD factor;
    } items[3] = {{"xfmPoint", D::rv(rk::xfmPoint(A, x)), ref::mul(a, xr), ia.nF * ref::len(xr)},
                  {"xfmVector", D::rv(rk::xfmVector(A, x)), ref::mul(a, xr), ia.nF * ref::len(xr)},
                  {"xfmNormal", D::rv(rk::xfmNormal(A, x)), ref::mul(ref::transpose(ia.inv), xr), (ia.kInv + ia.nFinv) * ref::len(xr)}};
    for (int i = 0; i < 3; ++i) {
      LD d = ref::maxDiff(items[i].got, items[i].exp), tol = C * e * items[i].factor, tolF = C * ef * items[i].factor;
      if (d <= tol) {
        useOf(FAM, d, tol);
        continue;
      }
      std::string det = std::string(items[i].what) + ": " + offBy(d, tol) + " got " + show(items[i].got) + " expected " + show(items[i].exp);
      if (d <= tolF)
        vh::violation("C06:xfm-double-instantiation3d:only-float-accurate", det + " (within the float tolerance " + sci(tolF) + ")", ctx());
      else
        vh::violation(key(FAM, TAG, items[i].what), det, ctx());
    }
    // a normal stays perpendicular to transformed tangents:  (l^-T n).(l t) = n.t
    LD lhs = ref::dot(items[2].got, D::rv(rk::xfmVector(A, t2)));
    LD rhs = ref::dot(xr, D::rv(t2));
    LD tn  = C * ef * ((ia.kInv + ia.nFinv) * ia.nF + ia.nFinv * ia.nF) * ref::len(xr) * ref::len(D::rv(t2)) * 2;
    CKS(lhs, rhs, tn, "xfmNormal.xfmVector=n.t");
  }
  // clamp: every entry clamped to [-1,1]
  {
    ref::M c = a;
    for (int i = 0; i < 3; ++i)
      for (int j = 0; j < 3; ++j)
        c.m[i][j] = a.m[i][j] < -1 ? -1 : a.m[i][j] > 1 ? 1 : a.m[i][j];
    CK(sameM(D::rm(rk::clamp(A)), c), "clamp", "got " + show(D::rm(rk::clamp(A))));
  }
  vh::evaluated(hm(hm(vh::hash64(1, VT<V>::id), a), b), nontrivial);
  vh::count((std::string("cases_linear") + TAG).c_str());
  if (nontrivial && k < 2)
    vh::sample(vh::J().kv("family", std::string("linear") + TAG).kv("A", show(a)).kv("kappa_factor", (double)ia.kRes).str(), 24);
}

// 2D: common algebra + rotate(r) + orthogonal()
template <class V>
static void checkLinear2(long k)
{
  typedef D2<V> D;
  typedef typename D::L L;
  typedef typename D::S S;
  const char *FAM = "linear";
  const char *TAG = VT<V>::tag();
  ref::M a, b;
  bool nontrivial;
  checkLinearCommon<V, D>(k, a, b, nontrivial);
  const LD e = EPS<S>();
  vh::Rng r  = caseRng(k, 300 + VT<V>::id);
  L A        = D::mk(a);
  const MInfo ia = info(a);
  S th           = S(hostileAngle(r));
  auto ctx       = [&]() { return "#" + std::to_string(k) + " LinearSpace" + TAG + " A=" + show(a) + " angle=" + num(th); };
  const ref::M I = ref::ident(2);
  // rotate(r): proper counter-clockwise rotation by r
  {
    L R            = L::rotate(th);
    const ref::M rr = D::rm(R);
    CKM(rr, ref::rotation2((LD)th), 4 * e, "rotate");
    CKM(ref::mul(ref::transpose(rr), rr), I, C * e, "rotate-orthonormal");
    CKS(ref::det(rr), 1, C * e, "rotate-det");
    // e_x is turned towards e_y for a small positive angle (orientation), and by exactly th in general
    V ex       = D::mkv(ref::vec(1, 0, 0));
    ref::V img = D::rv(R * ex);
    CKV(img, ref::vec(cosl((LD)th), sinl((LD)th), 0), C * e, "rotate-sense");
  }
  // orthogonal(): the closest orthogonal matrix = orthogonal polar factor U of A = U*P (P symmetric positive definite).
  // det A > 0: U is the rotation by atan2(c-b, a+d); det A < 0: U = polar(A*diag(-1,1)) * diag(-1,1).
  {
    const char *FAM = "orthogonal";
    L O             = A.orthogonal();
    const ref::M o  = D::rm(O);
    ref::M am       = a;
    bool mirrored   = ia.det < 0;
    if (mirrored)
      am.m[0][0] = -am.m[0][0], am.m[1][0] = -am.m[1][0];
    ref::M u = ref::rotation2(atan2l(am.m[1][0] - am.m[0][1], am.m[0][0] + am.m[1][1]));
    if (mirrored)
      u.m[0][0] = -u.m[0][0], u.m[1][0] = -u.m[1][0];
    // conditioning of the polar factor: |dU| <= 2|dA|/(s1+s2); the iteration is stopped at a step^2 < 1e-8, the
    // following (quadratically convergent) step leaves an error below 1e-8; rounding inside the iteration is
    // amplified by at most kappa in the early steps but contracted quadratically afterwards.
    LD tol = C * e * 4 + 2e-8L;
    CKM(o, u, tol, "closest-orthogonal");
    CKM(ref::mul(ref::transpose(o), o), I, tol * 2, "orthonormal");
    CKS(ref::det(o), mirrored ? -1 : 1, tol * 2, "keeps-orientation");
    // P = U^T A must be symmetric positive definite
    ref::M p = ref::mul(ref::transpose(o), a);
    CKS(p.m[0][1], p.m[1][0], tol * ia.nF * 2, "polar-factor-symmetric");
    CK(p.m[0][0] + p.m[1][1] > 0 && ref::det(p) > 0, "polar-factor-positive", "U^T*A is not positive definite: " + show(p));
    vh::count(mirrored ? "orthogonal_mirrored_inputs" : "orthogonal_proper_inputs");
  }
  vh::evaluated(hd(hm(hm(vh::hash64(2, VT<V>::id), a), b), th), nontrivial);
  vh::count((std::string("cases_linear") + TAG).c_str());
  if (nontrivial && k < 2)
    vh::sample(vh::J().kv("family", std::string("linear") + TAG).kv("A", show(a)).kv("kappa_factor", (double)ia.kRes).str(), 24);
}

// ------------------------------------------------------------------ AffineSpace (3D)
template <class V>
static void checkAffine3(long k)
{
  typedef D3<V> D;
  typedef typename D::L L;
  typedef typename D::S S;
  typedef rk::AffineSpaceT<L> A3;
  const char *FAM = "affine";
  const char *TAG = VT<V>::tag();
  const LD e      = EPS<S>();
  vh::Rng r       = caseRng(k, 400 + VT<V>::id);
  bool ta, tb;
  const L la = D::mk(genMatrix(r, 3, ta)), lb = D::mk(genMatrix(r, 3, tb));
  const V pa = D::mkv(genPoint(r, 3)), pb = D::mkv(genPoint(r, 3));
  const V x  = D::mkv(genPoint(r, 3));
  const S sc = S(genScalar(r));
  const A3 A(la, pa), B(lb, pb);
  const ref::M a = D::rm(la), b = D::rm(lb);
  const ref::V par = D::rv(pa), pbr = D::rv(pb), xr = D::rv(x);
  const MInfo ia = info(a), ib = info(b);
  const LD nx = ref::len(xr), npa = ref::len(par), npb = ref::len(pbr);
  auto ctx = [&]() {
    return "#" + std::to_string(k) + " AffineSpace" + TAG + " A={l=" + show(a) + " p=" + show(par) + "} B={l=" + show(b) + " p=" + show(pbr) + "} x=" + show(xr) +
           " cond-factor(A)=" + sci(ia.kRes);
  };
  const ref::M I  = ref::ident(3);
  const ref::V Z0 = ref::vec(0, 0, 0);
  // constructors and constants
  {
    CK(sameM(D::rm(A.l), a) && ref::maxDiff(D::rv(A.p), par) == 0, "constructor(l,p)", "members differ from the arguments");
    A3 c4(la.vx, la.vy, la.vz, pa);
    CK(c4 == A && !(c4 != A), "constructor(vx,vy,vz,p)", "differs from (l,p) construction");
    A3 fromL(la);
    CK(sameM(D::rm(fromL.l), a) && ref::maxDiff(D::rv(fromL.p), Z0) == 0, "constructor(l)", "translation is not zero: " + show(D::rv(fromL.p)));
    A3 cp(A), as;
    as = A;
    CK(cp == A && as == A, "copy", "copy differs");
    A3 one(rk::one), zero(rk::zero);
    CK(sameM(D::rm(one.l), I) && ref::maxDiff(D::rv(one.p), Z0) == 0, "constants", "AffineSpace(one) is not the identity");
    CK(sameM(D::rm(zero.l), ref::zeroM(3)) && ref::maxDiff(D::rv(zero.p), Z0) == 0, "constants", "AffineSpace(zero) is not zero");
    A3 tr = A3::translate(pa);
    CK(sameM(D::rm(tr.l), I) && ref::maxDiff(D::rv(tr.p), par) == 0, "translate", "translate(p) is not (identity,p): l=" + show(D::rm(tr.l)) + " p=" + show(D::rv(tr.p)));
    CKV(D::rv(rk::xfmPoint(tr, x)), ref::add(xr, par), 2 * e * (nx + npa), "translate-moves-point");
    CKV(D::rv(rk::xfmVector(tr, x)), xr, 0, "translate-keeps-vector");
    A3 scl = A3::scale(pa);
    CK(sameM(D::rm(scl.l), ref::diag(3, par.a[0], par.a[1], par.a[2])) && ref::maxDiff(D::rv(scl.p), Z0) == 0, "scale",
       "scale(s) is not (diag(s),0): l=" + show(D::rm(scl.l)) + " p=" + show(D::rv(scl.p)));
  }
  // xfmPoint: full map; xfmVector: linear part; xfmNormal: inverse transpose of the linear part
  {
    CKV(D::rv(rk::xfmPoint(A, x)), ref::add(ref::mul(a, xr), par), C * e * (ia.nF * nx + npa), "xfmPoint");
    CKV(D::rv(rk::xfmVector(A, x)), ref::mul(a, xr), C * e * ia.nF * nx, "xfmVector");
    CKV(D::rv(rk::xfmNormal(A, x)), ref::mul(ref::transpose(ia.inv), xr), C * e * (ia.kInv + ia.nFinv) * nx, "xfmNormal");
  }
  // composition: (A*B)(x) = A(B(x)), and member-wise
  {
    A3 AB = A * B;
    CKM(D::rm(AB.l), ref::mul(a, b), C * e * ia.nF * ib.nF, "compose-linear-part");
    CKV(D::rv(AB.p), ref::add(ref::mul(a, pbr), par), C * e * (ia.nF * npb + npa), "compose-translation");
    LD t = C * e * (ia.nF * ib.nF * nx + ia.nF * npb + npa) * 2;
    CKV(D::rv(rk::xfmPoint(AB, x)), D::rv(rk::xfmPoint(A, rk::xfmPoint(B, x))), t, "(A*B)x=A(Bx)");
    CKV(D::rv(rk::xfmPoint(AB, x)), ref::add(ref::mul(a, ref::add(ref::mul(b, xr), pbr)), par), t, "(A*B)x=A(Bx)");
    A3 m = A;
    m *= B;
    CK(m == AB, "operator*=", "a*=b differs from a*b");
  }
  // inverse: rcp(A)*A = A*rcp(A) = identity
  {
    A3 iA = rk::rcp(A);
    CKM(D::rm(iA.l), ia.inv, C * e * ia.kInv, "rcp-linear-part");
    CKV(D::rv(iA.p), ref::mul(ref::mul(ia.inv, par), -1), C * e * (ia.kInv + ia.nFinv) * npa, "rcp-translation");
    A3 l = iA * A, rr = A * iA;
    LD tp = C * e * (ia.nF * (ia.kInv + ia.nFinv) + 1) * (npa + 1);
    CKM(D::rm(l.l), I, C * e * ia.kRes, "rcp(A)*A=I");
    CKV(D::rv(l.p), Z0, tp, "rcp(A)*A=I");
    CKM(D::rm(rr.l), I, C * e * ia.kRes, "A*rcp(A)=I");
    CKV(D::rv(rr.p), Z0, tp, "A*rcp(A)=I");
    // a point mapped forth and back
    LD tb = C * e * ((ia.kInv + ia.nFinv) * (ia.nF * nx + npa) + ia.nFinv * (ia.nF * nx + npa)) * 2;
    CKV(D::rv(rk::xfmPoint(iA, rk::xfmPoint(A, x))), xr, tb, "rcp(A)(A(x))=x");
    A3 q = B / A;
    A3 q2 = B;
    q2 /= A;
    CK(q == B * iA && q2 == q, "operator/", "b/a differs from b*rcp(a)");
  }
  // member-wise operators
  {
    A3 s = A + B, d = A - B, ng = -A, ps = +A, sm = sc * A;
    CKM(D::rm(s.l), ref::add(a, b), 2 * e * (ia.nF + ib.nF), "operator+");
    CKV(D::rv(s.p), ref::add(par, pbr), 2 * e * (npa + npb), "operator+");
    CKM(D::rm(d.l), ref::add(a, b, -1), 2 * e * (ia.nF + ib.nF), "operator-");
    CKV(D::rv(d.p), ref::sub(par, pbr), 2 * e * (npa + npb), "operator-");
    CK(sameM(D::rm(ng.l), ref::mul(a, -1)) && ref::maxDiff(D::rv(ng.p), ref::mul(par, -1)) == 0, "unary-minus", "-A is not (-l,-p)");
    CK(ps == A, "unary-plus", "+A differs from A");
    CKM(D::rm(sm.l), ref::mul(a, (LD)sc), 2 * e * fabsl(sc) * ia.nF, "scalar*A");
    CKV(D::rv(sm.p), ref::mul(par, (LD)sc), 2 * e * fabsl(sc) * npa, "scalar*A");
    // equality: any single differing member makes them different
    A3 diff(A);
    int pos = (int)r.below(12);
    S &en   = pos < 9 ? D::entry(diff.l, pos / 3, pos % 3) : (pos == 9 ? diff.p.x : pos == 10 ? diff.p.y : diff.p.z);
    en      = en + (en == 0 ? S(1) : en);
    CK(!(A == diff) && (A != diff), "equality", "maps differing only in member #" + std::to_string(pos) + " compare equal");
  }
  vh::evaluated(hv(hv(hm(hm(vh::hash64(3, VT<V>::id), a), b), par), xr), !ta);
  vh::count((std::string("cases_affine") + TAG).c_str());
}

// ------------------------------------------------------------------ AffineSpace2f (no xfmPoint in 2D: the map is l*x + p)
static void checkAffine2(long k)
{
  typedef rk::vec2f V;
  typedef D2<V> D;
  typedef D::L L;
  typedef float S;
  typedef rk::AffineSpace2f A2;
  const char *FAM = "affine";
  const char *TAG = "2f";
  const LD e      = EPS<S>();
  vh::Rng r       = caseRng(k, 450);
  bool ta, tb;
  const L la = D::mk(genMatrix(r, 2, ta)), lb = D::mk(genMatrix(r, 2, tb));
  const V pa = D::mkv(genPoint(r, 2)), pb = D::mkv(genPoint(r, 2)), x = D::mkv(genPoint(r, 2));
  const S th = S(hostileAngle(r));
  const S sc = S(genScalar(r));
  const A2 A(la, pa), B(lb, pb);
  const ref::M a = D::rm(la), b = D::rm(lb);
  const ref::V par = D::rv(pa), pbr = D::rv(pb), xr = D::rv(x);
  const MInfo ia = info(a), ib = info(b);
  const LD nx = ref::len(xr), npa = ref::len(par), npb = ref::len(pbr);
  auto ctx = [&]() {
    return "#" + std::to_string(k) + " AffineSpace2f A={l=" + show(a) + " p=" + show(par, 2) + "} B={l=" + show(b) + " p=" + show(pbr, 2) + "} x=" + show(xr, 2) +
           " angle=" + num(th);
  };
  const ref::M I  = ref::ident(2);
  const ref::V Z0 = ref::vec(0, 0, 0);
#define APPLY2(T_, x_) ((T_).l * (x_) + (T_).p)
  {
    A2 fromL(la), one(rk::one), tr = A2::translate(pa), scl = A2::scale(pa), rot = A2::rotate(th);
    CK(sameM(D::rm(fromL.l), a) && ref::maxDiff(D::rv(fromL.p), Z0) == 0, "constructor(l)", "translation is not zero");
    CK(sameM(D::rm(one.l), I) && ref::maxDiff(D::rv(one.p), Z0) == 0, "constants", "AffineSpace(one) is not the identity");
    CK(sameM(D::rm(tr.l), I) && ref::maxDiff(D::rv(tr.p), par) == 0, "translate", "translate(p) is not (identity,p)");
    CK(sameM(D::rm(scl.l), ref::diag(2, par.a[0], par.a[1])) && ref::maxDiff(D::rv(scl.p), Z0) == 0, "scale", "scale(s) is not (diag(s),0): " + show(D::rm(scl.l)));
    CKM(D::rm(rot.l), ref::rotation2((LD)th), 4 * e, "rotate");
    CK(ref::maxDiff(D::rv(rot.p), Z0) == 0, "rotate", "rotate(r) has a translation");
  }
  {
    A2 AB = A * B;
    CKM(D::rm(AB.l), ref::mul(a, b), C * e * ia.nF * ib.nF, "compose-linear-part");
    CKV(D::rv(AB.p), ref::add(ref::mul(a, pbr), par), C * e * (ia.nF * npb + npa), "compose-translation");
    LD t = C * e * (ia.nF * ib.nF * nx + ia.nF * npb + npa) * 2;
    V bx = APPLY2(B, x);
    CKV(D::rv(APPLY2(AB, x)), D::rv(APPLY2(A, bx)), t, "(A*B)x=A(Bx)");
    A2 m = A;
    m *= B;
    CK(m == AB, "operator*=", "a*=b differs from a*b");
    A2 iA = rk::rcp(A);
    CKM(D::rm(iA.l), ia.inv, C * e * ia.kInv, "rcp-linear-part");
    CKV(D::rv(iA.p), ref::mul(ref::mul(ia.inv, par), -1), C * e * (ia.kInv + ia.nFinv) * npa, "rcp-translation");
    A2 l = iA * A, rr = A * iA;
    LD tp = C * e * (ia.nF * (ia.kInv + ia.nFinv) + 1) * (npa + 1);
    CKM(D::rm(l.l), I, C * e * ia.kRes, "rcp(A)*A=I");
    CKV(D::rv(l.p), Z0, tp, "rcp(A)*A=I");
    CKM(D::rm(rr.l), I, C * e * ia.kRes, "A*rcp(A)=I");
    CKV(D::rv(rr.p), Z0, tp, "A*rcp(A)=I");
    A2 q = B / A, q2 = B;
    q2 /= A;
    CK(q == B * iA && q2 == q, "operator/", "b/a differs from b*rcp(a)");
    A2 s = A + B, d = A - B, ng = -A, sm = sc * A;
    CKM(D::rm(s.l), ref::add(a, b), 2 * e * (ia.nF + ib.nF), "operator+");
    CKV(D::rv(s.p), ref::add(par, pbr), 2 * e * (npa + npb), "operator+");
    CKM(D::rm(d.l), ref::add(a, b, -1), 2 * e * (ia.nF + ib.nF), "operator-");
    CKV(D::rv(d.p), ref::sub(par, pbr), 2 * e * (npa + npb), "operator-");
    CK(sameM(D::rm(ng.l), ref::mul(a, -1)) && ref::maxDiff(D::rv(ng.p), ref::mul(par, -1)) == 0, "unary-minus", "-A is not (-l,-p)");
    CKM(D::rm(sm.l), ref::mul(a, (LD)sc), 2 * e * fabsl(sc) * ia.nF, "scalar*A");
    CKV(D::rv(sm.p), ref::mul(par, (LD)sc), 2 * e * fabsl(sc) * npa, "scalar*A");
    A2 diff(A);
    int pos = (int)r.below(6);
    S &en   = pos < 4 ? D::entry(diff.l, pos / 2, pos % 2) : (pos == 4 ? diff.p.x : diff.p.y);
    en      = en + (en == 0 ? S(1) : en);
    CK(!(A == diff) && (A != diff) && A == A2(A) && !(A != A2(A)), "equality", "== / != disagree with member-wise comparison (member #" + std::to_string(pos) + ")");
  }
  // rotate about a point: linear part is the rotation, the point is fixed, other points turn around it
  {
    const char *FAM = "rotate-about-point";
    A2 R            = A2::rotate(pa, th);
    CKM(D::rm(R.l), ref::rotation2((LD)th), C * e, "linear-part");
    CKV(D::rv(APPLY2(R, pa)), par, C * e * (npa + 1), "fixed-point");
    ref::V expx = ref::add(ref::mul(ref::rotation2((LD)th), ref::sub(xr, par)), par);
    CKV(D::rv(APPLY2(R, x)), expx, C * e * (npa + nx + 1) * 2, "image");
  }
#undef APPLY2
  vh::evaluated(hd(hv(hv(hm(hm(vh::hash64(4, 4), a), b), par), xr), th), !ta);
  vh::count("cases_affine2f");
}

// ------------------------------------------------------------------ rotations: rotate(axis,angle), quaternions, matrices agree
// which of the four branches of QuaternionT(vx,vy,vz) an input takes (condition recomputed in the scalar type, as written
// in Quaternion.h:279-301)
template <class S, class V>
static int quatBranch(const V &vx, const V &vy, const V &vz)
{
  if (vx.x + vy.y + vz.z >= S(0))
    return 0;
  if (vx.x >= std::max(vy.y, vz.z))
    return 1;
  if (vy.y >= vz.z)
    return 2;
  return 3;
}
static const char *branchCounter(int b, const char *tag)
{
  static std::string s;
  s = std::string("quat_from_matrix_branch") + char('0' + b) + "_" + tag;
  return s.c_str();
}
static long g_branchSeen[8][4];

// A(x).  For the (non-typedef'd) double instantiation the map is applied as l*x+p: xfmPoint() goes through madd(), which
// only exists for float (judged separately under the xfm-double-instantiation keys).
template <class V>
static V applyA(const rk::AffineSpaceT<rk::LinearSpace3<V> > &T, const V &x)
{
  if (VT<V>::id == 3)
    return V(T.l * x + T.p);
  return rk::xfmPoint(T, x);
}

template <class V>
static void checkRotate3(long k)
{
  typedef D3<V> D;
  typedef typename D::L L;
  typedef typename D::S S;
  typedef rk::AffineSpaceT<L> A3;
  typedef rk::QuaternionT<S> Qt;
  typedef typename Qt::Vector QV;  // vec_t<S,3> (never padded)
  const char *FAM = "rotate";
  const char *TAG = VT<V>::tag();
  const LD e      = EPS<S>();
  vh::Rng r       = caseRng(k, 500 + VT<V>::id);
  // axis: unit (rounded), sometimes rescaled - rotate() normalises its argument
  ref::V uld = hostileAxis(r);
  LD ulen    = r.chance(1, 4) ? logUniform(r, 0.25L, 4) : 1;
  const V u  = D::mkv(ref::mul(uld, ulen));
  const S th = S(hostileAngle(r));
  const ref::V ur = ref::normalize(D::rv(u));  // the exact axis the library was given
  const LD t      = (LD)th;
  const V x       = D::mkv(genPoint(r, 3));
  const V p       = D::mkv(genPoint(r, 3));
  const ref::V xr = D::rv(x), pr = D::rv(p);
  const LD nx = ref::len(xr), np = ref::len(pr);
  auto ctx = [&]() { return "#" + std::to_string(k) + " " + TAG + " axis=" + show(D::rv(u)) + " angle=" + num(t) + " x=" + show(xr) + " p=" + show(pr); };
  const ref::M I    = ref::ident(3);
  const ref::M Rref = ref::rotation(ur, t);
  const LD tR       = 2 * C * e;  // normalize (approximate rsqrt), sin/cos, a handful of operations on values <= 1

  // LinearSpace3::rotate
  L R            = L::rotate(u, th);
  const ref::M rr = D::rm(R);
  CKM(rr, Rref, tR, "matrix=reference");
  CKM(ref::mul(ref::transpose(rr), rr), I, 2 * tR, "matrix-orthonormal");
  CKS(ref::det(rr), 1, 4 * tR, "matrix-det=+1");
  CKV(D::rv(R * D::mkv(ur)), ur, 2 * tR, "matrix-fixes-axis");
  CKV(D::rv(R * x), ref::rotateVec(ur, t, xr), 2 * tR * (nx + 1), "matrix-turns-by-angle-right-handed");
  // AffineSpace::rotate(u,r), rotate(p,u,r)
  {
    A3 Ra = A3::rotate(u, th);
    CK(sameM(D::rm(Ra.l), rr) && ref::maxDiff(D::rv(Ra.p), ref::vec(0, 0, 0)) == 0, "affine-rotate", "AffineSpace::rotate(u,r) is not (LinearSpace::rotate(u,r),0)");
    A3 Rp = A3::rotate(p, u, th);
    const char *FAM = "rotate-about-point";
    CKM(D::rm(Rp.l), Rref, 2 * tR, "linear-part");
    CKV(D::rv(applyA(Rp, p)), pr, 2 * tR * (np + 1), "fixed-point");
    // points on the axis through p stay, others turn around it
    V onAxis = D::mkv(ref::add(pr, ref::mul(ur, 2)));
    CKV(D::rv(applyA(Rp, onAxis)), D::rv(onAxis), 2 * tR * (np + 3), "axis-fixed");
    CKV(D::rv(applyA(Rp, x)), ref::add(ref::rotateVec(ur, t, ref::sub(xr, pr)), pr), 4 * tR * (np + nx + 1), "image");
  }
  // Quaternion::rotate and the quaternion <-> matrix constructions
  {
    const char *FAM = "quat";
    QV uq(u.x, u.y, u.z), xq(x.x, x.y, x.z);
    Qt q              = Qt::rotate(uq, th);
    const ref::Q qr   = rq(q);
    const ref::Q qref = ref::qaxis(ur, t);
    LD dq             = ref::qdiff(qr, qref);
    CK(dq <= tR, "rotate(axis,angle)", offBy(dq, tR) + " got " + show(qr) + " expected " + show(qref));
    CKS(ref::qnorm(qr), 1, tR, "rotate-unit-length");
    // q*v: the rotation
    CKV(rv3(q * xq), ref::rotateVec(ur, t, xr), 2 * tR * (nx + 1), "q*v=rotation");
    // matrix from quaternion: equals the reference matrix of that very quaternion, the Rodrigues matrix, and acts like q*v
    L Mq(q);
    CKM(D::rm(Mq), ref::qmat(qr), C * e, "matrix-from-quaternion");
    CKM(D::rm(Mq), Rref, 3 * tR, "matrix-from-quaternion=rotate(axis,angle)");
    CKV(D::rv(Mq * x), rv3(q * xq), 2 * tR * (nx + 1), "matrix-from-quaternion*v=q*v");
    A3 Aq = A3::rotate(q);
    CK(sameM(D::rm(Aq.l), D::rm(Mq)) && ref::maxDiff(D::rv(Aq.p), ref::vec(0, 0, 0)) == 0, "affine-rotate(q)", "AffineSpace::rotate(q) is not (LinearSpace3(q),0)");
    // quaternion from basis vectors, three sources of rotation matrices: the rounded reference matrix, rotate(), LinearSpace3(q)
    for (int src = 0; src < 3; ++src) {
      L Min = src == 0 ? D::mk(Rref) : src == 1 ? R : Mq;
      if (src > 0 && !(ref::maxDiff(D::rm(Min), Rref) <= 3 * tR))
        continue;  // rotate() / LinearSpace3(q) are already reported wrong above: not a valid input for this constructor
      QV vx(Min.vx.x, Min.vx.y, Min.vx.z), vy(Min.vy.x, Min.vy.y, Min.vy.z), vz(Min.vz.x, Min.vz.y, Min.vz.z);
      int br = quatBranch<S>(vx, vy, vz);
      Qt qb(vx, vy, vz);
      const ref::Q qbr = rq(qb);
      vh::count(branchCounter(br, ST<S>::tag()));
      g_branchSeen[ST<S>::id][br]++;
      LD d  = ref::qdiffPM(qbr, qref);
      LD tq = 4 * tR;
      static const char *what[4] = {"from-matrix-branch0(trace>=0)", "from-matrix-branch1(x-largest)", "from-matrix-branch2(y-largest)", "from-matrix-branch3(z-largest)"};
      CK(d <= tq, what[br],
         offBy(d, tq) + " got " + show(qbr) + " expected +-" + show(qref) + " from matrix " + show(D::rm(Min)) + (src == 0 ? " (reference)" : src == 1 ? " (rotate())" : " (LinearSpace3(q))"));
      // round trip back to the matrix
      L back(qb);
      LD db = ref::maxDiff(D::rm(back), D::rm(Min));
      CK(db <= 2 * tq, "matrix->quaternion->matrix", offBy(db, 2 * tq) + " matrix " + show(D::rm(Min)) + " quaternion " + show(qbr) + " back " + show(D::rm(back)));
    }
  }
  bool nontrivial = fabsl(t) > 1e-2L;
  vh::evaluated(hd(hv(hv(vh::hash64(5, VT<V>::id), D::rv(u)), xr), t), nontrivial);
  vh::count((std::string("cases_rotate") + TAG).c_str());
  if (k < 2)
    vh::sample(vh::J().kv("family", std::string("rotate") + TAG).kv("axis", show(D::rv(u))).kv("angle", (double)t).str(), 24);
}

// ------------------------------------------------------------------ yaw / pitch / roll
// candidate conventions: q = Q(n0) * Q(n1) * Q(n2) where (n0,n1,n2) is an order of {yaw,pitch,roll} and each of the
// three angles turns about one coordinate axis (an assignment angles -> axes): 6 x 6 candidates.
static const int PERM[6][3] = {{0, 1, 2}, {0, 2, 1}, {1, 0, 2}, {1, 2, 0}, {2, 0, 1}, {2, 1, 0}};
static ref::Q yprCandidate(int order, int axes, const LD ang[3])
{
  ref::Q q = ref::quat(1, 0, 0, 0);
  for (int s = 0; s < 3; ++s) {
    int nn = PERM[order][s];
    int ax = PERM[axes][nn];
    q      = ref::qmul(q, ref::qaxis(ref::vec(ax == 0, ax == 1, ax == 2), ang[nn]));
  }
  return q;
}
static std::string yprName(int order, int axes)
{
  static const char *nm[3] = {"yaw", "pitch", "roll"};
  static const char *ax[3] = {"x", "y", "z"};
  std::string s = "q = ";
  for (int i = 0; i < 3; ++i) {
    int nn = PERM[order][i];
    s += std::string(i ? " * " : "") + "rotate(e" + ax[PERM[axes][nn]] + "," + nm[nn] + ")";
  }
  return s;
}
template <class S>
struct YprConvention
{
  static int order, axes;  // -1: not identified
};
template <class S>
int YprConvention<S>::order = -1;
template <class S>
int YprConvention<S>::axes = -1;

template <class S>
static void identifyYpr()
{
  typedef rk::QuaternionT<S> Qt;
  const char *FAM = "quat";
  const char *TAG = ST<S>::tag();
  static const double probes[3][3] = {{0.3, 0.5, 0.7}, {-1.1, 0.4, 2.0}, {2.5, -0.9, 0.2}};
  int found = 0;
  std::string names;
  for (int o = 0; o < 6; ++o)
    for (int a = 0; a < 6; ++a) {
      bool all = true;
      for (int pi = 0; pi < 3 && all; ++pi) {
        S y = S(probes[pi][0]), p = S(probes[pi][1]), ro = S(probes[pi][2]);
        LD ang[3] = {(LD)y, (LD)p, (LD)ro};
        all       = ref::qdiffPM(rq(Qt(y, p, ro)), yprCandidate(o, a, ang)) <= C * EPS<S>();
      }
      if (all) {
        if (!found)
          YprConvention<S>::order = o, YprConvention<S>::axes = a;
        ++found;
        names += (names.empty() ? "" : " | ") + yprName(o, a);
      }
    }
  auto ctx = [&]() { return std::string("probe angles (yaw,pitch,roll) = (0.3,0.5,0.7), (-1.1,0.4,2.0), (2.5,-0.9,0.2)"); };
  CK(found >= 1, "yaw-pitch-roll-is-no-composition-of-axis-rotations",
     "QuaternionT(yaw,pitch,roll) matches none of the 36 products of three coordinate-axis rotations; got " + show(rq(Qt(S(0.3), S(0.5), S(0.7)))));
  if (found > 1)
    vh::inconclusive(std::string("yaw/pitch/roll convention is ambiguous on the probe angles: ") + names);
  vh::note((std::string("yaw_pitch_roll_convention_") + TAG).c_str(), found ? names : "none");
}

template <class S>
static void checkYpr(long k)
{
  typedef rk::QuaternionT<S> Qt;
  const char *FAM = "quat";
  const char *TAG = ST<S>::tag();
  if (YprConvention<S>::order < 0)
    return;
  vh::Rng r = caseRng(k, 600 + ST<S>::id);
  S y = S(hostileAngle(r)), p = S(hostileAngle(r)), ro = S(hostileAngle(r));
  if (r.chance(1, 8))
    p = S((r.chance(1, 2) ? 1 : -1) * ref::PI / 2);  // gimbal lock is still a well defined rotation
  LD ang[3] = {(LD)y, (LD)p, (LD)ro};
  auto ctx  = [&]() { return "#" + std::to_string(k) + " Quaternion" + TAG + "(yaw=" + num(ang[0]) + ",pitch=" + num(ang[1]) + ",roll=" + num(ang[2]) + ")"; };
  Qt q(y, p, ro);
  const ref::Q qr = rq(q), ex = yprCandidate(YprConvention<S>::order, YprConvention<S>::axes, ang);
  LD d = ref::qdiffPM(qr, ex);
  CK(d <= C * EPS<S>(), "yaw-pitch-roll", offBy(d, C * EPS<S>()) + " got " + show(qr) + " expected +-" + show(ex) + " (" + yprName(YprConvention<S>::order, YprConvention<S>::axes) + ")");
  CKS(ref::qnorm(qr), 1, C * EPS<S>(), "yaw-pitch-roll-unit-length");
  // the same statement through the library's own constructions: product of three Quaternion::rotate, and the matrix
  {
    typedef typename Qt::Vector QV;
    Qt prod(S(1), S(0), S(0), S(0));
    S angS[3] = {y, p, ro};
    for (int s = 0; s < 3; ++s) {
      int nn = PERM[YprConvention<S>::order][s];
      int ax = PERM[YprConvention<S>::axes][nn];
      prod   = prod * Qt::rotate(QV(S(ax == 0), S(ax == 1), S(ax == 2)), angS[nn]);
    }
    LD d2 = ref::qdiffPM(qr, rq(prod));
    CK(d2 <= 4 * C * EPS<S>(), "yaw-pitch-roll=product-of-rotate()", offBy(d2, 4 * C * EPS<S>()) + " got " + show(qr) + " product " + show(rq(prod)));
    rk::LinearSpace3<QV> M(q);
    ref::M got = rm3(M), exm = ref::qmat(ex);
    LD d3 = ref::maxDiff(got, exm);
    CK(d3 <= 2 * C * EPS<S>(), "yaw-pitch-roll-matrix", offBy(d3, 2 * C * EPS<S>()) + " got " + show(got) + " expected " + show(exm));
  }
  vh::evaluated(hd(hd(hd(vh::hash64(6, ST<S>::id), ang[0]), ang[1]), ang[2]), fabsl(ang[0]) > 1e-2L && fabsl(ang[1]) > 1e-2L && fabsl(ang[2]) > 1e-2L);
  vh::count((std::string("cases_ypr_") + TAG).c_str());
}

// ------------------------------------------------------------------ quaternion algebra
#define CKQ(got, exp, tol, what)                                                                                        \
  do {                                                                                                                  \
    ref::Q g_ = (got), e_ = (exp);                                                                                      \
    LD d_ = ref::qdiff(g_, e_), t_ = (tol);                                                                             \
    useOf(FAM, d_, t_);                                                                                                  \
    if (!(d_ <= t_))                                                                                                    \
      vh::violation(key(FAM, TAG, what), offBy(d_, t_) + " got " + show(g_) + " expected " + show(e_), ctx());           \
  } while (0)

static ref::Q genQuat(vh::Rng &r)  // |q| in [1/2,2], sometimes unit, sometimes axis aligned
{
  int m = (int)r.below(8);
  ref::Q q = randUnitQ(r);
  if (m == 0) {
    int a = (int)r.below(4);
    q     = ref::quat(a == 0, a == 1, a == 2, a == 3);
  }
  if (m >= 4)
    q = ref::qscale(q, logUniform(r, 0.5L, 2));
  return q;
}

template <class S>
static void checkQuatAlgebra(long k)
{
  typedef rk::QuaternionT<S> Qt;
  typedef typename Qt::Vector QV;
  const char *FAM = "quat";
  const char *TAG = ST<S>::tag();
  const LD e      = EPS<S>();
  vh::Rng r       = caseRng(k, 700 + ST<S>::id);
  const Qt A = mkQ<S>(genQuat(r)), B = mkQ<S>(genQuat(r)), Cq = mkQ<S>(genQuat(r));
  const ref::Q a = rq(A), b = rq(B), c = rq(Cq);
  const LD na = ref::qnorm(a), nb = ref::qnorm(b), nc = ref::qnorm(c);
  const S s   = S(genScalar(r));
  const QV v  = mk3<QV>(genPoint(r, 3));
  const ref::V vr = rv3(v);
  const LD nv     = ref::len(vr);
  auto ctx = [&]() { return "#" + std::to_string(k) + " Quaternion" + TAG + " a=" + show(a) + " b=" + show(b) + " c=" + show(c) + " s=" + num(s) + " v=" + show(vr); };
  // constructors / accessors
  {
    CKQ(rq(Qt(S(a.r))), ref::quat(a.r, 0, 0, 0), 0, "constructor(r)");
    CKQ(rq(Qt(v)), ref::quat(0, vr.a[0], vr.a[1], vr.a[2]), 0, "constructor(vector)");
    CKQ(rq(Qt(S(a.r), v)), ref::quat(a.r, vr.a[0], vr.a[1], vr.a[2]), 0, "constructor(r,vector)");
    CKQ(rq(Qt(rk::zero)), ref::quat(0, 0, 0, 0), 0, "constants");
    CKQ(rq(Qt(rk::one)), ref::quat(1, 0, 0, 0), 0, "constants");
    CKV(rv3(A.v()), ref::vec(a.i, a.j, a.k), 0, "v()");
    Qt cp(A), as;
    as = A;
    CK(cp == A && as == A && !(cp != A), "copy", "copy differs");
  }
  // Hamilton product: reference, associativity, norm, conjugate of a product, i*j = k
  {
    CKQ(rq(A * B), ref::qmul(a, b), C * e * na * nb, "product");
    CKQ(rq(rk::xfmQuaternion(A, B)), rq(A * B), 0, "xfmQuaternion");
    CKQ(rq((A * B) * Cq), rq(A * (B * Cq)), 2 * C * e * na * nb * nc, "product-associative");
    CKS(rk::abs(A * B), na * nb, C * e * na * nb, "product-norm-multiplicative");
    CKQ(rq(rk::conj(A * B)), rq(rk::conj(B) * rk::conj(A)), C * e * na * nb, "conj(ab)=conj(b)conj(a)");
    Qt qi(S(0), S(1), S(0), S(0)), qj(S(0), S(0), S(1), S(0)), qk(S(0), S(0), S(0), S(1));
    CK(qi * qj == qk && qj * qk == qi && qk * qi == qj && qj * qi == -qk && qi * qi == Qt(S(-1)), "product-units", "i*j=k, j*k=i, k*i=j, j*i=-k, i*i=-1 does not hold");
    Qt m = A;
    m *= B;
    CK(m == A * B, "operator*=", "a*=b differs from a*b");
  }
  // conj / rcp / normalize / abs / dot
  {
    CKQ(rq(rk::conj(A)), ref::qconj(a), 0, "conj");
    CKQ(rq(rk::rcp(A)), ref::qinv(a), C * e / na, "rcp");
    CKQ(rq(A * rk::rcp(A)), ref::quat(1, 0, 0, 0), 2 * C * e, "a*rcp(a)=1");
    CKQ(rq(rk::rcp(A) * A), ref::quat(1, 0, 0, 0), 2 * C * e, "rcp(a)*a=1");
    CKQ(rq(rk::normalize(A)), ref::qnormalize(a), C * e, "normalize");
    CKS(rk::abs(A), na, C * e * na, "abs");
    CKS(rk::dot(A, B), ref::qdot(a, b), C * e * na * nb, "dot");
    CKQ(rq(A / B), ref::qmul(a, ref::qinv(b)), 2 * C * e * na / nb, "a/b=a*rcp(b)");
    Qt d = A;
    d /= B;
    CK(d == A / B, "operator/=", "a/=b differs from a/b");
  }
  // scalar and additive operators
  {
    LD t = 2 * e * (na + nb + fabsl(s));
    CKQ(rq(A + B), ref::qadd(a, b), t, "operator+");
    CKQ(rq(A - B), ref::qadd(a, b, -1), t, "operator-");
    CKQ(rq(-A), ref::qscale(a, -1), 0, "unary-minus");
    CKQ(rq(+A), a, 0, "unary-plus");
    CKQ(rq(s * A), ref::qscale(a, (LD)s), 2 * e * fabsl(s) * na, "scalar*q");
    CKQ(rq(A * s), ref::qscale(a, (LD)s), 2 * e * fabsl(s) * na, "q*scalar");
    CKQ(rq(A / s), ref::qscale(a, 1 / (LD)s), C * e * na / fabsl(s), "q/scalar");
    CKQ(rq(s / A), ref::qscale(ref::qinv(a), (LD)s), 2 * C * e * fabsl(s) / na, "scalar/q");
    CKQ(rq(s + A), ref::quat(s + a.r, a.i, a.j, a.k), t, "scalar+q");
    CKQ(rq(A + s), ref::quat(s + a.r, a.i, a.j, a.k), t, "q+scalar");
    CKQ(rq(s - A), ref::quat(s - a.r, -a.i, -a.j, -a.k), t, "scalar-q");
    CKQ(rq(A - s), ref::quat(a.r - s, a.i, a.j, a.k), t, "q-scalar");
    Qt x1 = A, x2 = A, x3 = A, x4 = A, x5 = A, x6 = A;
    x1 += B, x2 -= B, x3 += s, x4 -= s, x5 *= s, x6 /= s;
    CK(x1 == A + B && x2 == A - B && x3 == A + s && x4 == A - s && x5 == A * s, "compound-assignment", "+=, -=, *= with quaternion / scalar differ from the binary operators");
    CKQ(rq(x6), ref::qscale(a, 1 / (LD)s), C * e * na / fabsl(s), "q/=scalar");
  }
  // action on vectors: q*v = vector part of q (0,v) conj(q); xfmPoint / xfmNormal are the same map
  {
    ref::V ex = ref::qrot(a, vr);
    CKV(rv3(A * v), ex, C * e * na * na * nv, "q*v");
    CKV(rv3(rk::xfmPoint(A, v)), rv3(A * v), 0, "xfmPoint");
    CKV(rv3(rk::xfmNormal(A, v)), rv3(A * v), 0, "xfmNormal");
    rk::LinearSpace3<QV> M(A);
    CKM(rm3(M), ref::qmat(a), C * e * na * na, "matrix-from-quaternion");
    CKV(rv3(M * v), rv3(A * v), 2 * C * e * na * na * nv, "matrix-from-quaternion*v=q*v");
    // composition: (ab)*v = a*(b*v)
    CKV(rv3((A * B) * v), rv3(A * (B * v)), 4 * C * e * na * na * nb * nb * nv, "(ab)*v=a*(b*v)");
  }
  // equality
  {
    Qt d(A);
    int pos = (int)r.below(4);
    S &en   = pos == 0 ? d.r : pos == 1 ? d.i : pos == 2 ? d.j : d.k;
    en      = en + (en == 0 ? S(1) : en);
    CK(!(A == d) && (A != d), "equality", std::string("quaternions differing only in component ") + "rijk"[pos] + " compare equal");
  }
  vh::evaluated(hq(hq(hq(vh::hash64(7, ST<S>::id), a), b), c), true);
  vh::count((std::string("cases_quat_algebra_") + TAG).c_str());
}

// ------------------------------------------------------------------ slerp
template <class S>
static void checkSlerp(long k)
{
  typedef rk::QuaternionT<S> Qt;
  const char *FAM = "slerp";
  const char *TAG = ST<S>::tag();
  const LD e      = EPS<S>();
  vh::Rng r       = caseRng(k, 800 + ST<S>::id);
  ref::Q ald = randUnitQ(r), bld;
  int mode   = (int)r.below(12);
  const char *modeName = "random";
  if (mode < 5)
    bld = randUnitQ(r);
  else {
    // b at a chosen 4D angle from a (or from -a), in a random direction
    ref::Q o = randUnitQ(r);
    o        = ref::qadd(o, ald, -ref::qdot(o, ald));
    o        = ref::qnormalize(o);
    LD ang;
    if (mode == 5)
      ang = (LD)r.real(0, 0.0316), modeName = "small-angle";  // d > 0.9995: linear fallback
    else if (mode == 6)
      ang = 0.0316227L + (LD)r.real(-2e-5, 2e-5), modeName = "fallback-threshold";  // acos(0.9995) = 0.03162...
    else if (mode == 7)
      ang = ref::PI / 2 + (LD)r.real(-1, 1) * (r.chance(1, 2) ? 1e-3L : 4 * e), modeName = "orthogonal";  // d ~ 0: flip decision
    else if (mode == 8)
      ang = ref::PI - (LD)r.real(0, 0.03), modeName = "nearly-opposite";
    else if (mode == 9)
      ang = r.chance(1, 2) ? 0 : ref::PI, modeName = "identical-or-opposite";
    else if (mode == 10)
      ang = (LD)r.real(1.6, 3.1), modeName = "obtuse";  // d < 0: the long way round must be avoided
    else
      ang = (LD)r.real(0.04, 1.5), modeName = "acute";
    bld = ref::qadd(ref::qscale(ald, cosl(ang)), ref::qscale(o, sinl(ang)));
  }
  const Qt A = mkQ<S>(ald), B = mkQ<S>(bld);
  const ref::Q a = rq(A), b = rq(B);
  float f;
  {
    int fm = (int)r.below(8);
    f      = fm == 0 ? 0.f : fm == 1 ? 1.f : fm == 2 ? 0.5f : fm == 3 ? (float)r.real(0, 1e-3) : (float)r.unit();
  }
  const LD t = (LD)f;
  const LD d = ref::qdot(a, b);
  const Qt Qs = rk::slerp(f, A, B);
  const ref::Q q = rq(Qs);
  auto ctx = [&]() { return "#" + std::to_string(k) + " slerp<" + TAG + ">(t=" + num(t) + ", a=" + show(a) + ", b=" + show(b) + ") dot=" + num(d) + " [" + modeName + "] -> " + show(q); };

  // unit length
  CKS(ref::qnorm(q), 1, C * e, "unit-length");
  // the start of the arc is a or -a, whichever is closer to b (shortest arc); undecided if dot ~ 0
  const LD margin = 8 * e;
  bool ok          = false;
  std::string why;
  LD theta0 = 0;
  for (int sg = 1; sg >= -1 && !ok; sg -= 2) {
    if ((sg > 0 && d < -margin) || (sg < 0 && d > margin))
      continue;
    ref::Q a1 = ref::qscale(a, sg);
    LD th0    = ref::qangle(a1, b);  // in [0, pi/2 + tiny]
    theta0    = th0;
    // linear fallback for dot > 0.9995: its angle deviates from t*theta0 by at most 0.0162*theta0^3
    LD dsg    = sg * d;
    // and lerp() forms its weights (1.f-factor, factor) in float whatever the quaternion type: the result is the
    // interpolation at a factor within one float ulp of the given (float typed) factor
    LD extra  = dsg > 0.9995L - margin ? 0.017L * th0 * th0 * th0 + EPS<float>() * th0 : 0;
    LD tol    = 2 * C * e + extra;
    std::string w;
    // constant angular velocity: angle(a1,q) = t*theta0 and angle(q,b) = (1-t)*theta0
    LD g0 = ref::qangle(a1, q), g1 = ref::qangle(q, b);
    if (!(fabsl(g0 - t * th0) <= tol))
      w += " angle(start,result)=" + num(g0) + " expected t*theta0=" + num(t * th0) + " (tol " + sci(tol) + ")";
    if (!(fabsl(g1 - (1 - t) * th0) <= tol))
      w += " angle(result,b)=" + num(g1) + " expected (1-t)*theta0=" + num((1 - t) * th0) + " (tol " + sci(tol) + ")";
    // on the great circle through a1 and b: explicit reference point
    ref::Q ex;
    if (th0 < 1e-9L)
      ex = ref::qnormalize(ref::qadd(ref::qscale(a1, 1 - t), ref::qscale(b, t)));
    else
      ex = ref::qadd(ref::qscale(a1, sinl((1 - t) * th0) / sinl(th0)), ref::qscale(b, sinl(t * th0) / sinl(th0)));
    LD dv = ref::qdiff(q, ex);
    if (!(dv <= tol))
      w += " result differs from sin((1-t)theta0)/sin(theta0)*start + sin(t*theta0)/sin(theta0)*b = " + show(ex) + " by " + sci(dv) + " (tol " + sci(tol) + ")";
    if (w.empty())
      ok = true;
    else
      why += std::string(sg > 0 ? " [start=a]" : " [start=-a]") + w;
  }
  if (!ok) {
    const char *what = f == 0.f ? "endpoint-t=0" : f == 1.f ? "endpoint-t=1" : (d < -margin ? "shortest-arc-constant-velocity(dot<0)" : d > 0.9995L - margin ? "small-angle-fallback" : "constant-angular-velocity");
    vh::violation(key(FAM, TAG, what), why, ctx());
  }
  // end points as rotations
  if (f == 0.f)
    CK(ref::qdiffPM(q, a) <= 2 * C * e, "endpoint-t=0", "slerp(0,a,b) is not +-a");
  if (f == 1.f)
    CK(ref::qdiffPM(q, b) <= 2 * C * e, "endpoint-t=1", "slerp(1,a,b) is not +-b");
  // shortest arc: the result is never further from b than the starting rotation is (4D angle <= pi/2)
  CK(ref::qdot(q, b) >= -2 * C * e, "shortest-arc", "result is on the far side of b: dot(result,b)=" + num(ref::qdot(q, b)));
  vh::evaluated(hd(hq(hq(vh::hash64(8, ST<S>::id), a), b), t), theta0 > 1e-3L && f != 0.f && f != 1.f);
  vh::count((std::string("cases_slerp_") + TAG).c_str());
  vh::count((std::string("slerp_") + TAG + "_" + modeName).c_str());
  if (d < -margin)
    vh::count((std::string("slerp_") + TAG + "_flipped(dot<0)").c_str());
  if (d > 0.9995L)
    vh::count((std::string("slerp_") + TAG + "_linear_fallback").c_str());
}

// ------------------------------------------------------------------ lookat / frame
template <class V>
static void checkLookatFrame(long k)
{
  typedef D3<V> D;
  typedef typename D::L L;
  typedef typename D::S S;
  typedef rk::AffineSpaceT<L> A3;
  const char *TAG = VT<V>::tag();
  const LD e      = EPS<S>();
  vh::Rng r       = caseRng(k, 900 + VT<V>::id);
  const ref::M I  = ref::ident(3);
  // ---- lookat(eye, point, up)
  {
    const char *FAM = "lookat";
    // a third of the scenes is scaled as a whole (micro-units .. kilo-units): the frame of a scene does not depend on
    // the unit it is measured in
    const LD scale  = r.chance(1, 3) ? logUniform(r, sizeof(S) == 4 ? 1e-6L : 1e-10L, 1e3L) : 1;
    const V eye     = D::mkv(ref::mul(genPoint(r, 3), scale));
    ref::V dir      = hostileAxis(r);
    LD dst          = logUniform(r, 0.5L, 8) * scale;
    if (scale != 1)
      vh::count("lookat_scaled_scenes");
    const V point   = D::mkv(ref::add(D::rv(eye), ref::mul(dir, dst)));
    const ref::V eyer = D::rv(eye), ptr = D::rv(point);
    const ref::V Z    = ref::normalize(ref::sub(ptr, eyer));
    // up: any vector at least ~8 degrees away from the viewing direction, any length in [1/4,4]
    ref::V upl;
    for (;;) {
      upl = r.chance(1, 3) ? ref::vec(0, 1, 0) : r.chance(1, 2) ? hostileAxis(r) : randUnitV(r);
      if (fabsl(ref::dot(upl, Z)) <= 0.99L)
        break;
    }
    if (r.chance(1, 4))
      upl = ref::mul(upl, logUniform(r, 0.25L, 4));
    const V up       = D::mkv(upl);
    const ref::V upr = D::rv(up);
    const LD sinA    = ref::len(ref::cross(Z, ref::normalize(upr)));  // >= 0.14
    const ref::V U   = ref::normalize(ref::cross(Z, upr));
    const ref::V Vv  = ref::cross(U, Z);
    auto ctx = [&]() { return "#" + std::to_string(k) + " lookat" + TAG + "(eye=" + show(eyer) + ", point=" + show(ptr) + ", up=" + show(upr) + ")"; };
    A3 T            = A3::lookat(eye, point, up);
    const ref::M l  = D::rm(T.l);
    const LD tol    = 2 * C * e / sinA;
    CK(ref::maxDiff(D::rv(T.p), eyer) == 0, "origin", "origin " + show(D::rv(T.p)) + " is not the eye point");
    CKV(ref::col(l, 2), Z, 2 * C * e, "vz=direction-to-point");
    CKV(ref::col(l, 0), U, tol, "vx=normalize(vz x up)");
    CKV(ref::col(l, 1), Vv, 2 * tol, "vy=vx x vz");
    CKM(ref::mul(ref::transpose(l), l), I, 2 * tol, "orthonormal");
    CK(ref::dot(ref::col(l, 1), upr) > 0, "vy-on-up-side", "vy.up = " + num(ref::dot(ref::col(l, 1), upr)));
    CK(ref::dot(ref::col(l, 2), ref::sub(ptr, eyer)) > 0, "looks-at-point", "vz points away from the point");
    // orientation given by the definition: vx x vy = (vz x up)^ x (vx x vz) = -vz, i.e. det = -1
    CKS(ref::det(l), -1, 4 * tol, "orientation");
    // the origin of the local frame maps to the eye, the local +z axis towards the point
    CKV(D::rv(rk::xfmPoint(T, D::mkv(ref::vec(0, 0, 0)))), eyer, 0, "maps-origin-to-eye");
    CKV(D::rv(rk::xfmPoint(T, D::mkv(ref::vec(0, 0, dst)))), ptr, 4 * C * e * (ref::len(eyer) + dst * 2), "maps-z-axis-to-point");
    vh::evaluated(hv(hv(hv(vh::hash64(9, VT<V>::id), eyer), ptr), upr), true);
    vh::count((std::string("cases_lookat") + TAG).c_str());
  }
  // ---- frame(N), frame(N, up)
  {
    const char *FAM = "frame";
    const V N       = D::mkv(hostileAxis(r));
    const ref::V n  = D::rv(N);  // unit up to rounding
    auto ctx        = [&]() { return "#" + std::to_string(k) + " frame" + TAG + "(N=" + show(n) + ")"; };
    L F             = rk::frame(N);
    const ref::M f  = D::rm(F);
    const LD tol    = 4 * C * e;
    CK(ref::maxDiff(ref::col(f, 2), n) == 0, "vz=N", "third axis " + show(ref::col(f, 2)) + " is not N");
    ref::V dx0 = ref::cross(ref::vec(1, 0, 0), n), dx1 = ref::cross(ref::vec(0, 1, 0), n);
    LD l0 = ref::dot(dx0, dx0), l1 = ref::dot(dx1, dx1);
    bool tie = fabsl(l0 - l1) <= 8 * e;
    ref::V dxa = ref::normalize(l0 > l1 ? dx0 : dx1), dxb = ref::normalize(l0 > l1 ? dx1 : dx0);
    LD da = ref::maxDiff(ref::col(f, 0), dxa), db = tie ? ref::maxDiff(ref::col(f, 0), dxb) : da;
    CK(da <= tol || db <= tol, "vx=normalize(e x N)", offBy(da, tol) + " got " + show(ref::col(f, 0)) + " expected " + show(dxa));
    CKV(ref::col(f, 1), ref::normalize(ref::cross(n, ref::col(f, 0))), tol, "vy=N x vx");
    CKM(ref::mul(ref::transpose(f), f), I, 2 * tol, "orthonormal");
    CKS(ref::det(f), 1, 4 * tol, "right-handed");
    vh::count(l0 > l1 ? "frame_built_from_ex" : "frame_built_from_ey");

    // frame(N, up): up is a unit vector
    ref::V upl;
    int um = (int)r.below(6);
    if (um == 0) {  // nearly parallel: fallback to frame(N)
      ref::V o = ref::normalize(ref::cross(n, randUnitV(r)));
      LD ang   = (LD)r.real(0, 0.12);
      upl      = ref::add(ref::mul(n, (r.chance(1, 2) ? 1 : -1) * cosl(ang)), ref::mul(o, sinl(ang)));
    } else if (um == 1) {  // around the 0.99 threshold (acos(0.99) = 0.14154)
      ref::V o = ref::normalize(ref::cross(n, randUnitV(r)));
      LD ang   = 0.1415395L + (LD)r.real(-1e-4, 1e-4);
      upl      = ref::add(ref::mul(n, cosl(ang)), ref::mul(o, sinl(ang)));
    } else
      upl = r.chance(1, 2) ? hostileAxis(r) : randUnitV(r);
    const V up       = D::mkv(ref::normalize(upl));
    const ref::V upr = D::rv(up);
    auto ctx2 = [&]() { return "#" + std::to_string(k) + " frame" + TAG + "(N=" + show(n) + ", up=" + show(upr) + ") dot=" + num(ref::dot(upr, n)); };
    L G            = rk::frame(N, up);
    const ref::M g = D::rm(G);
    const LD du    = fabsl(ref::dot(upr, n));
    const LD thr   = (LD)0.99f;
    bool mayFallback = du > thr - 8 * e, mayRegular = du <= thr + 8 * e;
    bool okF = false, okR = false;
    std::string why;
    if (mayFallback) {
      LD d = ref::maxDiff(g, f);
      okF  = d == 0;
      if (!okF)
        why += " [parallel: expected frame(N)=" + show(f) + "]";
    }
    if (mayRegular) {
      ref::V cx = ref::cross(upr, n);
      LD tl     = 4 * C * e / ref::len(cx);
      ref::V dx = ref::normalize(cx), dy = ref::cross(n, dx);
      LD d1 = ref::maxDiff(ref::col(g, 0), dx), d2 = ref::maxDiff(ref::col(g, 1), dy), d3 = ref::maxDiff(ref::col(g, 2), n);
      okR   = d1 <= tl && d2 <= 2 * tl && d3 == 0;
      if (!okR)
        why += " [expected vx=normalize(up x N)=" + show(dx) + " vy=N x vx=" + show(dy) + " vz=N, off by " + sci(d1) + "," + sci(d2) + "," + sci(d3) + " tol " + sci(tl) + "]";
      if (okR) {
        // orthonormal, right handed, vy on the up side
        LD dd = ref::maxDiff(ref::mul(ref::transpose(g), g), I);
        if (!(dd <= 4 * tl) || !(fabsl(ref::det(g) - 1) <= 8 * tl) || !(ref::dot(ref::col(g, 1), upr) > 0))
          vh::violation(key(FAM, TAG, "with-up:orthonormal-right-handed"), "frame " + show(g) + " det=" + num(ref::det(g)) + " vy.up=" + num(ref::dot(ref::col(g, 1), upr)), ctx2());
      }
    }
    if (!okF && !okR)
      vh::violation(key(FAM, TAG, mayRegular ? "with-up:axes" : "with-up:parallel-fallback"), "got " + show(g) + why, ctx2());
    vh::count(du > thr ? "frame_up_parallel_fallback" : "frame_up_regular");
    vh::evaluated(hv(hv(vh::hash64(10, VT<V>::id), n), upr), true);
    vh::count((std::string("cases_frame") + TAG).c_str());
  }
}

// ------------------------------------------------------------------ padded vectors / conversions between plain and padded spaces
static void checkPadded(long k)
{
  const char *FAM = "padded";
  const char *TAG = "3fa";
  vh::Rng r       = caseRng(k, 950);
  bool tr;
  const ref::M m = genMatrix(r, 3, tr);
  const ref::V p = genPoint(r, 3);
  rk::LinearSpace3fa La = mkL3<rk::vec3fa>(m);
  rk::LinearSpace3f Lf  = mkL3<rk::vec3f>(m);
  const ref::M a        = rm3(Lf);
  auto ctx = [&]() { return "#" + std::to_string(k) + " A=" + show(a) + " p=" + show(p); };
  // the padding lane must not take part in anything
  rk::LinearSpace3fa Lb(La);
  La.vx.padding_ = 1.f, La.vy.padding_ = -2.f, La.vz.padding_ = std::numeric_limits<float>::quiet_NaN();
  Lb.vx.padding_ = 7.f, Lb.vy.padding_ = 0.f, Lb.vz.padding_ = 3.f;
  CK(La == Lb && !(La != Lb), "equality-ignores-padding", "matrices differing only in the padding lane compare different");
  rk::vec3fa pa = mk3<rk::vec3fa>(p), pb = pa;
  pa.padding_ = std::numeric_limits<float>::infinity(), pb.padding_ = -1.f;
  rk::AffineSpace3fa Aa(La, pa), Ab(Lb, pb);
  CK(Aa == Ab && !(Aa != Ab), "equality-ignores-padding", "affine maps differing only in the padding lane compare different");
  // results are the same numbers as for the plain vec3f instantiation (same scalar expressions)
  rk::AffineSpace3f Af(Lf, mk3<rk::vec3f>(p));
  rk::vec3f xf  = mk3<rk::vec3f>(genPoint(r, 3));
  rk::vec3fa xa(xf.x, xf.y, xf.z);
  xa.padding_ = std::numeric_limits<float>::quiet_NaN();
  CKM(rm3(La.inverse()), rm3(Lf.inverse()), 0, "inverse=plain");
  CKM(rm3(La * Lb), rm3(Lf * Lf), 0, "product=plain");
  CKS(La.det(), Lf.det(), 0, "det=plain");
  CKV(rv3(rk::xfmPoint(Aa, xa)), rv3(rk::xfmPoint(Af, xf)), 0, "xfmPoint=plain");
  CKV(rv3(rk::xfmNormal(Aa, xa)), rv3(rk::xfmNormal(Af, xf)), 0, "xfmNormal=plain");
  rk::AffineSpace3fa AA = Aa * rk::rcp(Ab);
  rk::AffineSpace3f FF  = Af * rk::rcp(Af);
  CKM(rm3(AA.l), rm3(FF.l), 0, "compose-rcp=plain");
  CKV(rv3(AA.p), rv3(FF.p), 0, "compose-rcp=plain");
  // conversions keep every entry
  rk::AffineSpace3f cf(Aa);
  rk::AffineSpace3fa ca(Af);
  rk::LinearSpace3f lcf(La);
  rk::LinearSpace3fa lca(Lf);
  CK(cf == Af && ca == Aa && lcf == Lf && lca == La, "conversion", "conversion between plain and padded spaces changed an entry");
  vh::evaluated(hv(hm(vh::hash64(11, 2), a), p), !tr);
  vh::count("cases_padded");
}

// ------------------------------------------------------------------ main
int main(int argc, char **argv)
{
  vh::init(argc, argv);
  vh::rule(
      "case k of a family draws its inputs from Rng(seed*1000003+k, family stream): matrices M=R1*diag(s)*R2, s in [1/8,8] "
      "(log-uniform, extremes, powers of two; 1/3 orientation reversing; identity/diagonal/pure rotations mixed in), axes = "
      "coordinate axes / diagonals / random, angles in [-2pi,2pi] incl. multiples of pi/2, pi/3, near pi, tiny; unit quaternion "
      "pairs at chosen angles (small-angle fallback, its threshold, orthogonal, opposite); distinct = hash(family, type, input "
      "values); non-trivial = matrix not identity/diagonal, |angle| > 0.01, slerp with theta0 > 1e-3 and 0 < t < 1");
  vh::note("types",
           "LinearSpace2f, LinearSpace3f, LinearSpace3fa, AffineSpace2f, AffineSpace3f, AffineSpace3fa, quaternionf, quaterniond; "
           "additionally the instantiations LinearSpace2<vec2d>, LinearSpace3<vec3d> (needed for the quaterniond <-> matrix constructions)");
  vh::note("not_compilable",
           "AffineSpaceT::rotate(p,quaternion), operator/(AffineSpaceT,scalar), operator*=(AffineSpaceT,scalar), operator/=(AffineSpaceT,scalar), "
           "xfmPoint/xfmVector/xfmNormal for AffineSpace2f/LinearSpace2f, LinearSpace{2,3}::operator Scalar*() do not compile when used; "
           "2D maps are applied as l*x+p");
  identifyYpr<float>();
  identifyYpr<double>();
  const long N = (long)vh::tier(10000, 800000);
  for (long k = 0; k < N; ++k) {
    if (!vh::wantCase(k))
      continue;
    checkLinear2<rk::vec2f>(k);
    checkLinear2<rk::vec2d>(k);
    checkLinear3<rk::vec3f>(k);
    checkLinear3<rk::vec3fa>(k);
    checkLinear3<rk::vec3d>(k);
    checkAffine2(k);
    checkAffine3<rk::vec3f>(k);
    checkAffine3<rk::vec3fa>(k);
    checkRotate3<rk::vec3f>(k);
    checkRotate3<rk::vec3fa>(k);
    checkRotate3<rk::vec3d>(k);
    checkYpr<float>(k);
    checkYpr<double>(k);
    checkQuatAlgebra<float>(k);
    checkQuatAlgebra<double>(k);
    checkSlerp<float>(k);
    checkSlerp<double>(k);
    checkLookatFrame<rk::vec3f>(k);
    checkLookatFrame<rk::vec3fa>(k);
    checkPadded(k);
  }
  // every branch of the quaternion-from-basis-vectors constructor must have been observed, for float and double
  if (vh::st().onlyCase < 0) {
    for (int t = 1; t <= 3; t += 2)
      for (int b = 0; b < 4; ++b)
        if (!g_branchSeen[t][b])
          vh::inconclusive(std::string("QuaternionT<") + (t == 1 ? "float" : "double") + ">(vx,vy,vz): branch " + char('0' + b) + " was never taken");
  }
  {
    std::map<std::string, LD> byName;
    for (std::map<const char *, LD>::iterator i = g_use.begin(); i != g_use.end(); ++i)
      if (i->second > byName[i->first])
        byName[i->first] = i->second;
    for (std::map<std::string, LD>::iterator i = byName.begin(); i != byName.end(); ++i)
      vh::maxi(("max_error_permille_of_tolerance_" + i->first).c_str(), (long long)(i->second * 1000));
  }
  return vh::finish();
}
