// C01 - parallel_for / parallel_foreach / parallel_in_blocks_of: every index exactly once,
// nothing else, joined and visible on return; all index types, nesting, 4 backends.
//
// Per-call monitor (read by the caller immediately after the call returns):
//   hits[i] (atomic)  exactly-once / nothing outside [0,n) (guard cells + out-of-range latch)
//   exited == n       all invocations complete at return
//   plain[i]==stamp   effects written with ordinary stores are visible through ordinary loads
//   returned flag     a body that observes it at entry or exit proves a missing join
//   grace re-check    sampled: nothing moves 1 ms after the return
#include "vh.h"

#include <array>
#include <chrono>
#include <deque>
#include <memory>
#include <thread>
#include <unordered_map>

#include "rkcommon/tasking/parallel_for.h"
#include "rkcommon/tasking/parallel_foreach.h"
#include "rkcommon/tasking/schedule.h"
#include "rkcommon/tasking/tasking_system_init.h"
#ifdef RKCOMMON_TASKING_INTERNAL
#include "rkcommon/verif/hooks.h"
#endif
#ifdef RKCOMMON_TASKING_TBB
#include <tbb/task.h>
#include <tbb/task_group.h>
#endif

// A loop may end early: its body throws (the exception reaches the caller on the TBB and on the serial backend; the
// other two backends would terminate the process) or cancels its own task group (TBB only). Such a loop is not judged
// for completeness, but every LATER loop - in particular from the same call site - must again be exact.
#if defined(RKCOMMON_TASKING_TBB) || (!defined(RKCOMMON_TASKING_OMP) && !defined(RKCOMMON_TASKING_INTERNAL))
#define VH_C01_EARLY_EXIT 1
#else
#define VH_C01_EARLY_EXIT 0
#endif
struct EarlyExit
{
};
static inline void endLoopEarly(int how)
{
  if (how == 1)
    throw EarlyExit();
#ifdef RKCOMMON_TASKING_TBB
  if (how == 2) {
    tbb::task_group_context *ctx = tbb::task::current_context();
    if (ctx)
      ctx->cancel_group_execution();
  }
#endif
}

using namespace rkcommon::tasking;

static std::atomic<int> g_nextTid(0);
static thread_local int tl_tid = -1;
static inline int myTid()
{
  if (tl_tid < 0)
    tl_tid = g_nextTid.fetch_add(1);
  return tl_tid;
}

static std::unordered_set<uint64_t> *g_signatures;
static std::mutex g_sigMtx;

// ------------------------------------------------------------------ delay injection (enkiTS points)
static std::atomic<int> g_injectPermille(0);
static thread_local uint64_t tl_rng = 0;
static void hookFcn(const char *name, const void *)
{
  int pm = g_injectPermille.load(std::memory_order_relaxed);
  if (pm <= 0)
    return;
  if (!tl_rng)
    tl_rng = 0x9E3779B97F4A7C15ull * (uint64_t)(myTid() + 1) ^ vh::seed();
  tl_rng ^= tl_rng << 13;
  tl_rng ^= tl_rng >> 7;
  tl_rng ^= tl_rng << 17;
  if ((int)(tl_rng % 1000) < pm) {
    int kind = (int)((tl_rng >> 12) % 4);
    // now and then a thread is held for milliseconds instead of microseconds (a pre-emption): inside the two windows of
    // the pipe protocol (a reader that has claimed a slot, a writer about to publish) 1 delay in 64 is such a hold,
    // elsewhere 1 in 1024 - long enough for the other side to go once round the 256-slot ring
    bool pipeWindow = name[0] == 'p' && name[1] == 'i';
    if (((tl_rng >> 40) & (pipeWindow ? 63 : 1023)) == 0) {
      std::this_thread::sleep_for(std::chrono::milliseconds(2 + (tl_rng >> 50) % 12));
      return;
    }
    if (kind == 0)
      std::this_thread::yield();
    else if (kind == 1)
      std::this_thread::sleep_for(std::chrono::microseconds((tl_rng >> 20) % 60));
    else {
      volatile int x = 0;
      for (int i = 0; i < (int)((tl_rng >> 20) % 2000); ++i)
        x += i;
    }
  }
}

// ------------------------------------------------------------------ monitor
struct Mon
{
  long n;
  static const long GUARD = 8;
  std::unique_ptr<std::atomic<unsigned char>[]> hits;
  std::vector<uint32_t> plain;
  std::vector<unsigned char> tid;
  std::atomic<long> entered, exited, sawReturned;
  std::atomic<long long> firstOutOfRange;
  std::atomic<bool> outOfRange;
  std::atomic<bool> returned;
  uint32_t stamp;
  int costProfile;  // 0 none, 1 sparse spins, 2 yields, 3 heavy tail
  uint64_t costSeed;

  Mon(long n_, uint32_t stamp_, int cost, uint64_t cs)
      : n(n_ < 0 ? 0 : n_), hits(new std::atomic<unsigned char>[(n_ < 0 ? 0 : n_) + GUARD]), plain((n_ < 0 ? 0 : n_) + GUARD, 0),
        tid((n_ < 0 ? 0 : n_) + GUARD, 255), entered(0), exited(0), sawReturned(0), firstOutOfRange(0), outOfRange(false),
        returned(false), stamp(stamp_), costProfile(cost), costSeed(cs)
  {
    for (long i = 0; i < n + GUARD; ++i)
      hits[i].store(0, std::memory_order_relaxed);
  }

  inline void cost(long long idx)
  {
    if (!costProfile)
      return;
    uint64_t h = vh::hash64(costSeed, (uint64_t)idx);
    if (costProfile == 1) {
      if (h % 64 == 0) {
        double t0 = vh::now();
        while ((vh::now() - t0) * 1e6 < (double)(1 + (h >> 8) % 50)) {
        }
      }
    } else if (costProfile == 2) {
      if (h % 8 == 0)
        std::this_thread::yield();
    } else {
      if (h % 997 == 0)
        std::this_thread::sleep_for(std::chrono::microseconds(200));
    }
  }

  inline void enter()
  {
    // a loop that keeps invoking the callback far beyond n would never end: cut it short
    if (entered.fetch_add(1, std::memory_order_relaxed) == 2 * n + 300000) {
      vh::violation("C01:runaway:callback-invoked-without-end", "more than 2n+300000 callback invocations for a loop of n=" + std::to_string(n) + "; the loop was cut short", "see the preceding case");
      vh::abandonChild();
    }
    if (returned.load(std::memory_order_seq_cst))
      sawReturned.fetch_add(1);
  }
  inline void leave()
  {
    if (returned.load(std::memory_order_seq_cst))
      sawReturned.fetch_add(1);
    exited.fetch_add(1, std::memory_order_seq_cst);
  }
  inline void touch(long long idx)
  {
    if (idx < 0 || idx >= n) {
      bool exp = false;
      if (outOfRange.compare_exchange_strong(exp, true))
        firstOutOfRange.store(idx);
      // a loop that keeps producing indices outside its range would never end: cut it short
      static std::atomic<long> runaway(0);
      if (runaway.fetch_add(1) == 200000) {
        vh::violation("C01:runaway:indices-outside-range", "more than 200000 callback invocations for indices outside [0,n), first " + std::to_string(firstOutOfRange.load()) + " (n=" + std::to_string(n) + "); the loop was cut short", "see the preceding case");
        vh::abandonChild();
      }
      if (idx >= n && idx < n + GUARD)
        hits[idx].fetch_add(1, std::memory_order_relaxed);
      return;
    }
    hits[idx].fetch_add(1, std::memory_order_relaxed);
    plain[idx] = stamp;  // ordinary store on purpose
    tid[idx]   = (unsigned char)(myTid() & 0x7f);
  }
  inline void body(long long idx)
  {
    enter();
    touch(idx);
    cost(idx);
    leave();
  }

  // evaluated by the caller right after the call returned
  void judge(const std::string &fam, const std::string &ctx, long expectInvocations, bool grace)
  {
    returned.store(true, std::memory_order_seq_cst);
    long ex = exited.load(), en = entered.load();
    if (ex != expectInvocations || en != expectInvocations)
      vh::violation("C01:" + fam + ":invocations-complete-at-return",
                    "entered=" + std::to_string(en) + " exited=" + std::to_string(ex) + " expected " + std::to_string(expectInvocations), ctx);
    if (outOfRange.load())
      vh::violation("C01:" + fam + ":index-outside-range", "callback invoked for index " + std::to_string(firstOutOfRange.load()) + " outside [0," + std::to_string(n) + ")", ctx);
    long missing = 0, dup = 0, firstBad = -1, stale = 0;
    for (long i = 0; i < n; ++i) {
      unsigned h = hits[i].load(std::memory_order_relaxed);
      if (h != 1) {
        if (h == 0)
          ++missing;
        else
          ++dup;
        if (firstBad < 0)
          firstBad = i;
      } else if (plain[i] != stamp)
        ++stale;
    }
    if (missing)
      vh::violation("C01:" + fam + ":index-not-executed", std::to_string(missing) + " indices not executed at return, first " + std::to_string(firstBad), ctx);
    if (dup)
      vh::violation("C01:" + fam + ":index-executed-twice", std::to_string(dup) + " indices executed more than once, first " + std::to_string(firstBad), ctx);
    if (stale)
      vh::violation("C01:" + fam + ":effect-not-visible", std::to_string(stale) + " plain stores not visible to the caller after return", ctx);
    for (long i = n; i < n + GUARD; ++i)
      if (hits[i].load())
        vh::violation("C01:" + fam + ":index-outside-range", "guard cell " + std::to_string(i) + " was hit (n=" + std::to_string(n) + ")", ctx);
    if (grace) {
      std::this_thread::sleep_for(std::chrono::milliseconds(1));
      if (entered.load() != en || exited.load() != ex)
        vh::violation("C01:" + fam + ":late-execution", "callbacks still ran after the call had returned", ctx);
    }
    if (sawReturned.load())
      vh::violation("C01:" + fam + ":body-after-return", std::to_string(sawReturned.load()) + " callback(s) observed that the call had already returned", ctx);
    // schedule evidence: signature of the index->thread assignment
    if (n > 0) {
      uint64_t sig = 1469598103934665603ull;
      bool seen[128] = {false};
      int nthreads   = 0;
      for (long i = 0; i < n; ++i) {
        sig = (sig ^ tid[i]) * 1099511628211ull;
        if (tid[i] < 128 && !seen[tid[i]]) {
          seen[tid[i]] = true;
          ++nthreads;
        }
      }
      vh::maxi("max_threads_in_one_call", nthreads);
      std::lock_guard<std::mutex> g(g_sigMtx);
      g_signatures->insert(sig);
    }
  }
};

// ------------------------------------------------------------------ cases
struct Case
{
  int api;    // 0 parallel_for, 1 blocks, 2 foreach, 3 nested parallel_for, 4 nested blocks/foreach mix
  int type;   // index type (0..7)
  long long n;
  int bs;     // block size index
  int cont;   // container kind for foreach
  int cost;
  int inject;  // permille of hook delays (internal backend)
  long long inner;
  bool grace;
  int early;  // 0 no; 1 the body throws at one index; 2 the body cancels its task group at one index (TBB)
};
static const char *kTypeNames[] = {"uchar", "short", "int", "uint", "long", "llong", "ullong", "size_t"};
static const int kBlockSizes[]  = {1, 2, 3, 7, 16, 64, 1000};
static const char *kContNames[] = {"vector", "array", "pointers", "deque", "empty-vector", "container-overload"};

static std::string describe(const Case &c, long k, int T)
{
  std::string s = "#" + std::to_string(k) + " threads=" + std::to_string(T) + " ";
  const char *apis[] = {"parallel_for", "parallel_in_blocks_of", "parallel_foreach", "nested parallel_for", "nested mix"};
  s += apis[c.api];
  if (c.api == 2)
    s += std::string(" over ") + kContNames[c.cont] + " n=" + std::to_string(c.n);
  else
    s += std::string("<") + kTypeNames[c.type] + ">(n=" + std::to_string(c.n) + ")";
  if (c.api == 1 || c.api == 4)
    s += " BLOCK_SIZE=" + std::to_string(kBlockSizes[c.bs]);
  if (c.api >= 3)
    s += " inner=" + std::to_string(c.inner);
  s += " cost=" + std::to_string(c.cost) + " inject=" + std::to_string(c.inject);
  if (c.early)
    s += c.early == 1 ? " [body throws at one index]" : " [body cancels its task group at one index]";
  return s;
}

template <typename I>
static bool representable(long long n)
{
  if (n < 0 && !std::is_signed<I>::value)
    return false;
  if (n < 0)
    return n >= (long long)std::numeric_limits<I>::min();
  return (unsigned long long)n <= (unsigned long long)std::numeric_limits<I>::max();
}

// n <= 0: zero invocations.  A runaway (e.g. a negative count turned into 2^32) is cut
// short at its first invocation.
template <typename I>
static void runNonPositive(const Case &c, const std::string &ctx)
{
  I n = (I)c.n;
  std::atomic<long> calls(0);
  parallel_for(n, [&](I i) {
    if (calls.fetch_add(1) == 0) {
      vh::violation("C01:parallel_for:invoked-for-nonpositive-count", "callback invoked (index " + std::to_string((long long)i) + ") although n=" + std::to_string(c.n) + " <= 0", ctx);
      vh::abandonChild();
    }
  });
  vh::count("calls_nonpositive_n");
}

// a task given as a named object that keeps its own record (mutable members behind the const call operator the API
// asks for): the caller reads that record after the call, so the loop has to have run on THIS object
template <typename I>
struct RecordingTask
{
  Mon *m;
  mutable std::atomic<long> calls;
  mutable std::atomic<long long> sum;
  explicit RecordingTask(Mon *m_) : m(m_), calls(0), sum(0) {}
  RecordingTask(const RecordingTask &o) : m(o.m), calls(o.calls.load()), sum(o.sum.load()) {}
  void operator()(I i) const
  {
    calls.fetch_add(1, std::memory_order_relaxed);
    sum.fetch_add((long long)i, std::memory_order_relaxed);
    m->body((long long)i);
  }
};

template <typename I>
static void runPF(const Case &c, const std::string &ctx, uint64_t cs)
{
  if (!representable<I>(c.n))
    return;
  if (c.n <= 0) {
    runNonPositive<I>(c, ctx);
    return;
  }
  Mon m((long)c.n, (uint32_t)(cs | 1), c.cost, cs);
  I n = (I)c.n;
  const int early       = VH_C01_EARLY_EXIT ? c.early : 0;
  const long long where = (long long)(cs % (uint64_t)c.n);
  bool threw            = false;
  if (!early && cs % 3 == 0) {
    RecordingTask<I> task(&m);
    parallel_for(n, task);  // an lvalue
    long long expSum = (long long)c.n * ((long long)c.n - 1) / 2;
    if (task.calls.load() != (long)c.n || task.sum.load() != expSum)
      vh::violation("C01:parallel_for:effects-on-the-task-object-not-visible", "the task object the caller passed recorded " + std::to_string(task.calls.load()) + " invocations (index sum " + std::to_string(task.sum.load()) +
                                                                                   "), expected " + std::to_string(c.n) + " (" + std::to_string(expSum) + ")", ctx);
    vh::count("loops_with_named_task_object");
    m.judge("parallel_for", ctx, (long)c.n, c.grace);
    return;
  }
  try {
    // one call site (one closure type per index type) for the loops that end early and the ones that must be exact
    parallel_for(n, [&](I i) {
      if (early && (long long)i == where)
        endLoopEarly(early);
      m.body((long long)i);
    });
  } catch (const EarlyExit &) {
    threw = true;
  }
  if (early) {
    m.returned.store(true);
    if (early == 1 && !threw)
      vh::violation("C01:parallel_for:exception-of-body-lost", "the body threw at index " + std::to_string(where) + " but parallel_for returned normally", ctx);
    if (m.outOfRange.load())
      vh::violation("C01:parallel_for:index-outside-range", "callback invoked for an index outside [0,n) in a loop that ended early", ctx);
    for (long i = 0; i < m.n; ++i)
      if (m.hits[i].load() > 1) {
        vh::violation("C01:parallel_for:index-executed-twice", "index " + std::to_string(i) + " executed more than once in a loop that ended early", ctx);
        break;
      }
    vh::count(early == 1 ? "loops_ended_by_exception" : "loops_ended_by_cancellation");
    return;
  }
  m.judge("parallel_for", ctx, (long)c.n, c.grace);
}

template <typename I>
static void runNested(const Case &c, const std::string &ctx, uint64_t cs)
{
  if (!representable<I>(c.n) || c.n <= 0)
    return;
  Mon outer((long)c.n, (uint32_t)(cs | 1), 0, cs);
  I n              = (I)c.n;
  const long inner = (long)c.inner;
  std::atomic<long> innerCalls(0);
  parallel_for(n, [&](I i) {
    outer.enter();
    outer.touch((long long)i);
    // an independent monitor per inner call, judged by the outer body
    Mon mi(inner, (uint32_t)(vh::hash64(cs, (uint64_t)i) | 1), c.cost, cs + (uint64_t)i);
    if (c.api == 3) {
      parallel_for(inner, [&](long j) { mi.body(j); });
      mi.judge("nested-parallel_for", ctx + " outer-index=" + std::to_string((long long)i), inner, false);
    } else {
      std::vector<int> v((size_t)inner);
      int *base = v.data();
      parallel_foreach(v, [&](int &x) { mi.body((long long)(&x - base)); });
      mi.judge("nested-parallel_foreach", ctx + " outer-index=" + std::to_string((long long)i), inner, false);
    }
    innerCalls.fetch_add(1);
    outer.leave();
  });
  outer.judge("parallel_for", ctx, (long)c.n, c.grace);
  vh::count("nested_inner_calls", innerCalls.load());
}

template <int BS, typename I>
static void runBlocksBS(const Case &c, const std::string &ctx, uint64_t cs)
{
  if (!representable<I>(c.n) || !representable<I>(c.n + BS))
    return;
  if (c.n <= 0) {
    std::atomic<long> calls(0);
    I n = (I)c.n;
    parallel_in_blocks_of<BS>(n, [&](I b, I e) {
      if (calls.fetch_add(1) == 0) {
        vh::violation("C01:blocks:invoked-for-nonpositive-count", "block callback invoked [" + std::to_string((long long)b) + "," + std::to_string((long long)e) + ") although n <= 0", ctx);
        vh::abandonChild();
      }
    });
    vh::count("calls_nonpositive_n");
    return;
  }
  Mon m((long)c.n, (uint32_t)(cs | 1), c.cost, cs);
  std::atomic<long> blocks(0), badShape(0);
  std::atomic<long long> badB(0), badE(0);
  I n = (I)c.n;
  const int early       = VH_C01_EARLY_EXIT ? c.early : 0;
  const long long where = (long long)(cs % (uint64_t)((c.n + BS - 1) / BS)) * BS;
  try {
  parallel_in_blocks_of<BS>(n, [&](I b, I e) {
    if (early && (long long)b == where)
      endLoopEarly(early);
    m.enter();
    blocks.fetch_add(1);
    long long lb = (long long)b, le = (long long)e;
    if (!(lb < le) || le - lb > BS || lb % BS != 0 || le > c.n || lb < 0) {
      if (badShape.fetch_add(1) == 0) {
        badB.store(lb);
        badE.store(le);
      }
    }
    // clamp the walk so that a wild block cannot run away
    long long hi = le < lb + 4 * BS ? le : lb + 4 * BS;
    for (long long i = lb; i < hi; ++i)
      m.touch(i);
    m.cost(lb);
    m.leave();
  });
  } catch (const EarlyExit &) {
  }
  if (early) {
    m.returned.store(true);
    vh::count(early == 1 ? "loops_ended_by_exception" : "loops_ended_by_cancellation");
    if (badShape.load())
      vh::violation("C01:blocks:block-shape", "block [" + std::to_string(badB.load()) + "," + std::to_string(badE.load()) + ") is empty, larger than BLOCK_SIZE, misaligned or beyond n (loop that ended early)", ctx);
    return;
  }
  long expectBlocks = (long)((c.n + BS - 1) / BS);
  if (badShape.load())
    vh::violation("C01:blocks:block-shape", "block [" + std::to_string(badB.load()) + "," + std::to_string(badE.load()) + ") is empty, larger than BLOCK_SIZE, misaligned or beyond n", ctx);
  m.judge("blocks", ctx, expectBlocks, c.grace);
}

template <typename I>
static void runBlocks(const Case &c, const std::string &ctx, uint64_t cs)
{
  switch (c.bs) {
  case 0: runBlocksBS<1, I>(c, ctx, cs); break;
  case 1: runBlocksBS<2, I>(c, ctx, cs); break;
  case 2: runBlocksBS<3, I>(c, ctx, cs); break;
  case 3: runBlocksBS<7, I>(c, ctx, cs); break;
  case 4: runBlocksBS<16, I>(c, ctx, cs); break;
  case 5: runBlocksBS<64, I>(c, ctx, cs); break;
  default: runBlocksBS<1000, I>(c, ctx, cs); break;
  }
}

template <typename IT>
static void foreachOver(IT b, IT e, long n, const std::unordered_map<const void *, long> &addr, const Case &c, const std::string &ctx, uint64_t cs)
{
  Mon m(n, (uint32_t)(cs | 1), c.cost, cs);
  std::atomic<long> unknown(0);
  parallel_foreach(b, e, [&](int &x) {
    std::unordered_map<const void *, long>::const_iterator it = addr.find((const void *)&x);
    if (it == addr.end()) {
      unknown.fetch_add(1);
      m.enter();
      m.leave();
    } else
      m.body(it->second);
  });
  if (unknown.load())
    vh::violation("C01:foreach:element-not-in-range", std::to_string(unknown.load()) + " callback(s) received an object that is not an element of the range", ctx);
  m.judge("foreach", ctx, n, c.grace);
}

static void runForeach(const Case &c, const std::string &ctx, uint64_t cs)
{
  long n = (long)c.n;
  std::unordered_map<const void *, long> addr;
  switch (c.cont) {
  case 0: {
    std::vector<int> v((size_t)n, 7);
    for (long i = 0; i < n; ++i)
      addr[&v[i]] = i;
    foreachOver(v.begin(), v.end(), n, addr, c, ctx, cs);
    break;
  }
  case 1: {
    static std::array<int, 97> a;
    for (long i = 0; i < 97; ++i)
      addr[&a[i]] = i;
    foreachOver(a.begin(), a.end(), 97, addr, c, ctx, cs);
    break;
  }
  case 2: {
    std::unique_ptr<int[]> p(new int[n + 1]);
    for (long i = 0; i < n; ++i)
      addr[&p[i]] = i;
    foreachOver(p.get(), p.get() + n, n, addr, c, ctx, cs);
    break;
  }
  case 3: {
    std::deque<int> d((size_t)n, 5);
    for (long i = 0; i < n; ++i)
      addr[&d[i]] = i;
    foreachOver(d.begin(), d.end(), n, addr, c, ctx, cs);
    break;
  }
  case 4: {
    std::vector<int> v;  // empty: no callback at all
    foreachOver(v.begin(), v.end(), 0, addr, c, ctx, cs);
    break;
  }
  default: {
    std::vector<int> v((size_t)n, 1);
    int *base = v.data();
    Mon m(n, (uint32_t)(cs | 1), c.cost, cs);
    parallel_foreach(v, [&](int &x) { m.body((long long)(&x - base)); });
    m.judge("foreach", ctx, n, c.grace);
  }
  }
}

#define BY_TYPE_FP(FN)                                            \
  switch (c.type) {                                               \
  case 0: FN<unsigned char>(c, ctx, cs + i); break;               \
  case 1: FN<short>(c, ctx, cs + i); break;                       \
  case 2: FN<int>(c, ctx, cs + i); break;                         \
  case 3: FN<unsigned>(c, ctx, cs + i); break;                    \
  case 4: FN<long>(c, ctx, cs + i); break;                        \
  case 5: FN<long long>(c, ctx, cs + i); break;                   \
  case 6: FN<unsigned long long>(c, ctx, cs + i); break;          \
  default: FN<size_t>(c, ctx, cs + i); break;                     \
  }
#define BY_WIDE_TYPE_FP(FN)                                       \
  switch (c.type) {                                               \
  case 2: FN<int>(c, ctx, cs + i); break;                         \
  case 3: FN<unsigned>(c, ctx, cs + i); break;                    \
  case 4: FN<long>(c, ctx, cs + i); break;                        \
  case 5: FN<long long>(c, ctx, cs + i); break;                   \
  case 6: FN<unsigned long long>(c, ctx, cs + i); break;          \
  default: FN<size_t>(c, ctx, cs + i); break;                     \
  }

static void runCase(const Case &c, long k, int T)
{
  std::string ctx = describe(c, k, T);
  uint64_t cs     = vh::hash64(vh::hash64(vh::seed(), (uint64_t)k), (uint64_t)T);
  g_injectPermille.store(c.inject);
#define BY_TYPE(FN)                                               \
  switch (c.type) {                                               \
  case 0: FN<unsigned char>(c, ctx, cs); break;                   \
  case 1: FN<short>(c, ctx, cs); break;                           \
  case 2: FN<int>(c, ctx, cs); break;                             \
  case 3: FN<unsigned>(c, ctx, cs); break;                        \
  case 4: FN<long>(c, ctx, cs); break;                            \
  case 5: FN<long long>(c, ctx, cs); break;                       \
  case 6: FN<unsigned long long>(c, ctx, cs); break;              \
  default: FN<size_t>(c, ctx, cs); break;                         \
  }
#define BY_WIDE_TYPE(FN)                                          \
  switch (c.type) {                                               \
  case 2: FN<int>(c, ctx, cs); break;                             \
  case 3: FN<unsigned>(c, ctx, cs); break;                        \
  case 4: FN<long>(c, ctx, cs); break;                            \
  case 5: FN<long long>(c, ctx, cs); break;                       \
  case 6: FN<unsigned long long>(c, ctx, cs); break;              \
  default: FN<size_t>(c, ctx, cs); break;                         \
  }
  switch (c.api) {
  case 0: BY_TYPE(runPF); break;
  case 1: BY_WIDE_TYPE(runBlocks); break;
  case 2: runForeach(c, ctx, cs); break;
  default: BY_TYPE(runNested); break;
  }
  g_injectPermille.store(0);
  uint64_t h = vh::hash64((uint64_t)c.api * 131 + (uint64_t)c.type * 17 + (uint64_t)c.bs * 7 + (uint64_t)c.cont, (uint64_t)c.n);
  h          = vh::hash64(h, (uint64_t)T * 1000 + (uint64_t)c.inner);
  vh::evaluated(h, c.n > 0);
  const char *apis[] = {"calls_parallel_for", "calls_blocks", "calls_foreach", "calls_nested_for", "calls_nested_mix"};
  vh::count(apis[c.api]);
  vh::count((std::string("type_") + kTypeNames[c.type]).c_str());
}

// ------------------------------------------------------------------ loops issued while the caller's task pipe is full
// Internal backend: every worker is parked in a blocking schedule()d task and the calling
// thread's 256-slot pipe is filled with further tasks nobody can take.  A parallel loop issued
// now cannot queue its partitions and has to run them through the scheduler's run-inline
// path.  The per-call monitors judge the loops exactly as everywhere else.
#ifdef RKCOMMON_TASKING_INTERNAL
static void fullPipeScenario(long k, int T, uint64_t cs)
{
  vh::Rng r(cs, 5);
  std::atomic<int> started(0), finished(0);
  std::atomic<bool> release(false);
  std::atomic<int> *pStarted = &started, *pFinished = &finished;
  std::atomic<bool> *pRelease = &release;
  int blockers = T - 1;
  for (int i = 0; i < blockers; ++i)
    schedule([pStarted, pFinished, pRelease]() {
      pStarted->fetch_add(1);
      while (!pRelease->load())
        std::this_thread::sleep_for(std::chrono::microseconds(50));
      pFinished->fetch_add(1);
    });
  double t0 = vh::now();
  while (started.load() < blockers && vh::now() - t0 < 10.0)
    std::this_thread::sleep_for(std::chrono::microseconds(50));
  if (started.load() < blockers) {
    vh::inconclusive("full-pipe scenario: the workers did not pick up the parking tasks");
    release.store(true);
    return;
  }
  int fillers = 256;  // the pipe holds 256 entries; nobody reads them while the workers are parked
  for (int i = 0; i < fillers; ++i)
    schedule([pFinished]() { pFinished->fetch_add(1); });
  std::string base = "#" + std::to_string(k) + " threads=" + std::to_string(T) + " [caller's task pipe full: " + std::to_string(blockers) + " parked workers + " + std::to_string(fillers) + " queued tasks] ";
  // loops of many sizes incl. non-multiples of every partition size
  long long ns[] = {1, 2, 3, 5, T - 1, T, T + 1, 12, 13, 17, 100, 119, 120, 121, 1000, 1201, 4099, (long long)r.range(1, 20000), (long long)r.range(1, 300)};
  for (size_t i = 0; i < sizeof(ns) / sizeof(ns[0]); ++i) {
    if (ns[i] <= 0)
      continue;
    Case c;
    c.api = 0, c.type = (int)(i % 8), c.n = ns[i], c.bs = (int)(i % 7), c.cont = 0, c.cost = 0, c.inject = 0, c.inner = 0, c.grace = false;
    std::string ctx = base + describe(c, k, T);
    // the loop body must not be allowed to run away if the range handling is broken
    switch (i % 3) {
    case 0: BY_TYPE_FP(runPF); break;
    case 1: c.api = 1; c.type = 2 + (int)(i % 6); ctx = base + describe(c, k, T); BY_WIDE_TYPE_FP(runBlocks); break;
    default: {
      c.api = 2, c.cont = 0, c.type = 7;
      ctx   = base + describe(c, k, T);
      runForeach(c, ctx, cs + i);
      break;
    }
    }
    vh::count("calls_with_full_pipe");
  }
  release.store(true);
  t0 = vh::now();
  while (finished.load() < blockers + fillers && vh::now() - t0 < 30.0)
    std::this_thread::sleep_for(std::chrono::microseconds(100));
  if (finished.load() < blockers + fillers)
    vh::inconclusive("full-pipe scenario: scheduled tasks did not drain");
  vh::evaluated(vh::hash64(cs, 77), true);
  vh::count("full_pipe_scenarios");
}
#endif

static std::vector<Case> buildCases(int T, bool asan, bool internalBackend)
{
  std::vector<Case> v;
  const bool tbbBackend =
#ifdef RKCOMMON_TASKING_TBB
      true;
#else
      false;
#endif
  vh::Rng r(vh::seed(), 100 + (uint64_t)T);
  const long long big = asan ? vh::tier(20000, 200000) : vh::tier(100000, 1000000);
  std::vector<long long> ns;
  long long base[] = {-1000000007LL, -2147483648LL, -7, -1, 0, 1, 2, 3, T - 1, T, T + 1, 2 * T, 2 * T + 1, 31, 97, 127, 128, 255, 256, 257, 1009, 32767, 1000, 4096, 65536, big};
  for (size_t i = 0; i < sizeof(base) / sizeof(base[0]); ++i)
    ns.push_back(base[i]);
  if (vh::thorough() && !asan)
    ns.push_back(10000000);
  Case c;
  c.bs = 0;
  c.cont = 0;
  c.inner = 0;
  c.early = 0;
  // parallel_for: every type x every n (where representable)
  for (int t = 0; t < 8; ++t)
    for (size_t i = 0; i < ns.size(); ++i) {
      c.api    = 0;
      c.type   = t;
      c.n      = ns[i];
      c.cost   = ns[i] > 100000 ? 0 : (int)r.below(4);
      c.inject = internalBackend && r.chance(1, 2) ? (int)r.pick(std::vector<int>{20, 100, 400}) : 0;
      c.grace  = r.chance(1, 8);
      v.push_back(c);
    }
  // many tiny/medium loops with random n (stealing, pipe wrap-around on the internal backend)
  long many = asan ? vh::tier(300, 5000) : vh::tier(1500, 40000);
  if (T >= 16)
    many /= (T >= 32 ? 8 : 4);  // oversubscribed configurations are slow; keep them, but shorter
  for (long i = 0; i < many; ++i) {
    c.api    = 0;
    c.type   = (int)r.below(8);
    c.n      = r.chance(1, 2) ? r.range(1, 64) : r.range(1, 3000);
    c.cost   = (int)r.below(4);
    c.inject = internalBackend && r.chance(1, 2) ? (int)r.pick(std::vector<int>{20, 100, 400}) : 0;
    c.grace  = r.chance(1, 50);
    // now and then a loop ends early; the loops after it (same call sites) are judged as always
    c.early  = VH_C01_EARLY_EXIT && r.chance(1, 25) ? (tbbBackend && r.chance(1, 2) ? 2 : 1) : 0;
    v.push_back(c);
    c.early = 0;
  }
  // blocks: block sizes x n incl. non-multiples
  for (int t = 2; t < 8; ++t)
    for (int b = 0; b < 7; ++b) {
      long long B = kBlockSizes[b];
      long long cand[] = {-5, 0, 1, B - 1, B, B + 1, 2 * B, 3 * B - 1, 10 * B + 3, 1000, 4099, (long long)r.range(1, 20000)};
      for (size_t i = 0; i < sizeof(cand) / sizeof(cand[0]); ++i) {
        if (!vh::thorough() && i >= 3 && r.chance(1, 2))
          continue;
        c.api    = 1;
        c.type   = t;
        c.bs     = b;
        c.n      = cand[i];
        c.cost   = (int)r.below(3);
        c.inject = internalBackend && r.chance(1, 3) ? 100 : 0;
        c.grace  = r.chance(1, 16);
        c.early  = VH_C01_EARLY_EXIT && cand[i] > 0 && r.chance(1, 12) ? (tbbBackend && r.chance(1, 2) ? 2 : 1) : 0;
        v.push_back(c);
        c.early = 0;
      }
    }
  // foreach
  for (int cont = 0; cont < 6; ++cont) {
    long long cand[] = {1, 2, 5, 64, 127, 128, 129, 513, 5000, (long long)r.range(1, 3000)};
    for (size_t i = 0; i < sizeof(cand) / sizeof(cand[0]); ++i) {
      c.api    = 2;
      c.type   = 7;
      c.cont   = cont;
      c.n      = cont == 4 ? 0 : cand[i];
      c.cost   = (int)r.below(3);
      c.inject = internalBackend && r.chance(1, 3) ? 100 : 0;
      c.grace  = r.chance(1, 8);
      v.push_back(c);
      if (cont == 4)
        break;
    }
  }
  // nesting
  long nest = asan ? vh::tier(20, 300) : vh::tier(60, 1500);
  if (T >= 16)
    nest /= 4;
  for (long i = 0; i < nest; ++i) {
    c.api    = r.chance(2, 3) ? 3 : 4;
    c.type   = (int)r.below(8);
    c.n      = r.range(1, 3 * T + 2);
    c.inner  = r.chance(1, 2) ? r.range(1, 40) : r.range(1, 2000);
    c.cost   = (int)r.below(3);
    c.inject = internalBackend && r.chance(1, 2) ? 100 : 0;
    c.grace  = false;
    v.push_back(c);
  }
  return v;
}

int main(int argc, char **argv)
{
  vh::init(argc, argv);
  std::string variant = vh::st().variant;
  const bool asan     = variant.find("asan") != std::string::npos;
  bool internalBackend = false;
#ifdef RKCOMMON_TASKING_INTERNAL
  internalBackend = true;
#endif
  vh::rule(
      "case = (api, index type, n, block size | container, nesting, body cost profile, hook-delay rate, configured threads); "
      "on the TBB and serial backends some loops end early (body throws / cancels its group) and only the loops after them are judged; "
      "distinct = hash of that tuple; non-trivial = n > 0 (n <= 0 cases are counted separately). Each call is judged by a per-call "
      "monitor read immediately after the call returns");
  int Ts_quick[]    = {1, 2, 3, 8, 16, 32};
  g_signatures      = new std::unordered_set<uint64_t>();
  for (size_t ti = 0; ti < 6; ++ti) {
    int T = Ts_quick[ti];
#if !defined(RKCOMMON_TASKING_TBB) && !defined(RKCOMMON_TASKING_OMP) && !defined(RKCOMMON_TASKING_INTERNAL)
    if (ti > 0)
      break;  // serial debug backend: the thread count is irrelevant
#endif
    std::vector<Case> cases = buildCases(T, asan, internalBackend);
    bool inited = false;
    vh::forkedCases(
        (long)cases.size(),
        [&](long k) {
          if (!inited) {
            inited = true;
            initTaskingSystem(T);
#ifdef RKCOMMON_TASKING_INTERNAL
            rkcommon::verif::hook().store(&hookFcn);
#endif
            myTid();
          }
          runCase(cases[k], k, T);
          {
            std::lock_guard<std::mutex> g(g_sigMtx);
            vh::maxi("distinct_assignment_signatures_in_one_process", (long long)g_signatures->size());
          }
          if (k % 1013 == 5)
            vh::sample(vh::J().kv("case", describe(cases[k], k, T)).str(), 3);
        },
        60000, 100000, [&](long k) { return std::string("C01-call ") + describe(cases[k], k, T); });
    vh::count("thread_configurations");
  }
#ifdef RKCOMMON_TASKING_INTERNAL
  {
    // loops issued while the caller's pipe is full: a fresh process per scenario
    static const int Tf[] = {3, 4, 8, 16, 5, 12};
    long nfp = vh::tier(12, 120);
    vh::forkedCases(
        nfp,
        [&](long k) {
          int T = Tf[k % 6];
          initTaskingSystem(T);
          myTid();
          fullPipeScenario(k, T, vh::hash64(vh::seed(), 424242 + (uint64_t)k));
        },
        120000, 1, [&](long k) { return std::string("C01-full-pipe #") + std::to_string(k) + " threads=" + std::to_string(Tf[k % 6]); });
  }
#endif
  return vh::finish();
}
