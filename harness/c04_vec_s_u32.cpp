// C04 - families over the single element type uint32_t (see c04_vec.cpp)
#include "c04_vec_same.h"
namespace c04 {
  void run_s_u32()
  {
    vh::Rng r(vh::seed(), 400 + TN<uint32_t>::idx);
    runSame<uint32_t>(r);
  }
}  // namespace c04
