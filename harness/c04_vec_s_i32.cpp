// C04 - families over the single element type int32_t (see c04_vec.cpp)
#include "c04_vec_same.h"
namespace c04 {
  void run_s_i32()
  {
    vh::Rng r(vh::seed(), 400 + TN<int32_t>::idx);
    runSame<int32_t>(r);
  }
}  // namespace c04
