// C04 - families over the single element type int8_t (see c04_vec.cpp)
#include "c04_vec_same.h"
namespace c04 {
  void run_s_i8()
  {
    vh::Rng r(vh::seed(), 400 + TN<int8_t>::idx);
    runSame<int8_t>(r);
  }
}  // namespace c04
