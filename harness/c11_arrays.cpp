// C11 - ArrayView / OwnedArray / FixedArray / FixedArrayView / DataView: bounds and ownership.
// Reference model in lock-step; after EVERY step every live wrapper is read completely
// (size, data, at, [], iteration) so that under ASan a dangling pointer becomes a report at the
// step that made it dangle.  Every history runs in a forked child.
#include "vh.h"

#include <array>
#include <memory>
#include <stdexcept>

#include "rkcommon/utility/ArrayView.h"
#include "rkcommon/utility/DataView.h"
#include "rkcommon/utility/FixedArray.h"
#include "rkcommon/utility/FixedArrayView.h"
#include "rkcommon/utility/OwnedArray.h"

using namespace rkcommon::utility;

struct S16
{
  double a;
  int b;
  int c;
  bool operator==(const S16 &o) const { return a == o.a && b == o.b && c == o.c; }
};

// an element type whose copies can be made to fail: when armed, the k-th copy construction / copy assignment from now
// on throws (what a heap-owning element does when memory runs out); it has no move operations on purpose
struct InjectedFault
{
};
static long g_failInCopies = 0;
static long g_faultsHit    = 0;
static inline void copyFailpoint()
{
  if (g_failInCopies > 0 && --g_failInCopies == 0) {
    ++g_faultsHit;
    throw InjectedFault();
  }
}
struct F16
{
  double a;
  long b;
  F16() : a(0), b(0) {}
  F16(double a_, long b_) : a(a_), b(b_) {}
  F16(const F16 &o) : a(o.a), b(o.b) { copyFailpoint(); }
  F16 &operator=(const F16 &o)
  {
    copyFailpoint();
    a = o.a;
    b = o.b;
    return *this;
  }
  bool operator==(const F16 &o) const { return a == o.a && b == o.b; }
};

template <typename T>
struct E;
template <typename T>
struct CanFail
{
  static bool yes() { return false; }
};
template <>
struct CanFail<F16>
{
  static bool yes() { return true; }
};
template <>
struct E<uint8_t>
{
  static const char *name() { return "uint8"; }
  static uint8_t make(uint64_t v) { return (uint8_t)(v * 37 + 1); }
};
template <>
struct E<int>
{
  static const char *name() { return "int"; }
  static int make(uint64_t v) { return (int)(v * 2654435761u); }
};
template <>
struct E<double>
{
  static const char *name() { return "double"; }
  static double make(uint64_t v) { return (double)v * 0.5 + 0.25; }
};
template <>
struct E<S16>
{
  static const char *name() { return "struct16"; }
  static S16 make(uint64_t v)
  {
    S16 s;
    s.a = (double)v;
    s.b = (int)(uint32_t)(v * 3);  // unsigned arithmetic: v grows with the case number (thorough tier)
    s.c = (int)(uint32_t)(0 - v);
    return s;
  }
};

template <>
struct E<F16>
{
  static const char *name() { return "failing16"; }
  static F16 make(uint64_t v) { return F16((double)v * 0.25, (long)v * 7 + 1); }
};

enum Kind
{
  NONE,
  AV,
  OA,
  FA,
  FAV
};
static const char *kKindNames[] = {"none", "ArrayView", "OwnedArray", "FixedArray", "FixedArrayView"};

template <typename T>
struct World
{
  // model of every backing store ever created (append-only)
  std::vector<std::vector<T>> bufs;
  // harness-owned source vectors (non-owning views point into them)
  struct Source
  {
    std::unique_ptr<std::vector<T>> v;
    int buf;
  };
  std::vector<Source> sources;
  struct Slot
  {
    Kind kind;
    std::unique_ptr<ArrayView<T>> av;
    std::unique_ptr<OwnedArray<T>> oa;
    std::unique_ptr<FixedArray<T>> fa;
    std::unique_ptr<FixedArrayView<T>> fav;
    int buf;
    size_t off, n;
    int src;  // AV: index of the source it views (-1 none)
    Slot() : kind(NONE), buf(-1), off(0), n(0), src(-1) {}
    AbstractArray<T> *abs()
    {
      switch (kind) {
      case AV: return av.get();
      case OA: return oa.get();
      case FA: return fa.get();
      case FAV: return fav.get();
      default: return 0;
      }
    }
    void clear()
    {
      av.reset();
      oa.reset();
      fa.reset();
      fav.reset();
      kind = NONE;
      buf  = -1;
      off = n = 0;
      src = -1;
    }
  };
  Slot slots[5];
  struct SharedFA
  {
    std::shared_ptr<FixedArray<T>> p;
    int buf;
  };
  std::vector<SharedFA> shared;
  uint64_t counter;
  std::string ctx;

  World() : counter(1) {}

  int newBuf(const std::vector<T> &d)
  {
    bufs.push_back(d);
    return (int)bufs.size() - 1;
  }
  std::vector<T> fresh(size_t n)
  {
    std::vector<T> d(n);
    for (size_t i = 0; i < n; ++i)
      d[i] = E<T>::make(counter++);
    return d;
  }
  int newSource(size_t n)
  {
    Source s;
    std::vector<T> d = fresh(n);
    s.v.reset(new std::vector<T>(d));
    s.v->shrink_to_fit();
    s.buf = newBuf(d);
    sources.push_back(std::move(s));
    return (int)sources.size() - 1;
  }
  // non-owning views onto a source legitimately dangle when the source goes away: detach them first
  void detachViewsOf(int src)
  {
    for (int i = 0; i < 5; ++i)
      if (slots[i].kind == AV && slots[i].src == src) {
        slots[i].av->reset();
        slots[i].buf = -1;
        slots[i].off = slots[i].n = 0;
        slots[i].src = -1;
      }
  }

  // ---- complete read-out of one wrapper against the model
  void readOut(int si, const std::string &after)
  {
    Slot &s = slots[si];
    if (s.kind == NONE)
      return;
    AbstractArray<T> &a = *s.abs();
    std::string fam     = std::string("C11:") + kKindNames[s.kind] + "<" + E<T>::name() + ">:";
    std::string c2      = ctx + " | checking slot " + std::to_string(si) + " (" + kKindNames[s.kind] + ") after " + after;
    size_t n            = s.n;
    if (a.size() != n) {
      vh::violation(fam + "size", "size()=" + std::to_string(a.size()) + " expected " + std::to_string(n), c2);
      return;
    }
    if ((a.data() == 0) != (n == 0))
      vh::violation(fam + "data-null-iff-empty", std::string("data() is ") + (a.data() ? "non-null" : "null") + " with size " + std::to_string(n), c2);
    if ((bool)a != (n != 0))
      vh::violation(fam + "operator-bool", "operator bool disagrees with size()", c2);
    if (a.begin() != a.data() || a.end() != a.data() + n || a.cbegin() != a.data() || a.cend() != a.data() + n || (T *)a != a.data())
      vh::violation(fam + "iterators", "begin/end/cbegin/cend/operator T* do not delimit exactly size() elements at data()", c2);
    const std::vector<T> *exp = s.buf >= 0 ? &bufs[s.buf] : 0;
    size_t bad                = n;
    size_t cnt                = 0;
    for (T *p = a.begin(); p != a.end(); ++p, ++cnt)
      if (exp && cnt < n && bad == n && !(*p == (*exp)[s.off + cnt]))
        bad = cnt;
    if (cnt != n)
      vh::violation(fam + "iteration-count", "iteration visited " + std::to_string(cnt) + " elements, size() is " + std::to_string(n), c2);
    for (size_t i = 0; i < n && bad == n; ++i) {
      bool threw = false;
      try {
        if (!(a.at(i) == (*exp)[s.off + i]))
          bad = i;
      } catch (...) {
        threw = true;
      }
      if (threw) {
        vh::violation(fam + "at-throws-in-range", "at(" + std::to_string(i) + ") threw although size() is " + std::to_string(n), c2);
        break;
      }
      if (!(a[i] == (*exp)[s.off + i]) || &a[i] != a.data() + i)
        bad = i;
    }
    if (bad != n)
      vh::violation(fam + "contents", "element " + std::to_string(bad) + " differs from the model (the wrapper does not hold / alias what its last operation says)", c2);
    size_t outside[] = {n, n + 1, n + 1000, (size_t)-1, ((size_t)-1) / sizeof(T)};
    for (int q = 0; q < 5; ++q) {
      bool threw = false;
      try {
        (void)a.at(outside[q]);
      } catch (...) {
        threw = true;
      }
      if (!threw) {
        vh::violation(fam + "at-no-throw-out-of-range", "at(" + std::to_string(outside[q]) + ") did not throw, size() is " + std::to_string(n), c2);
        break;
      }
    }
    // a view must alias its source exactly: same address
    if (s.kind == AV && s.src >= 0 && n > 0 && a.data() != sources[s.src].v->data() + s.off)
      vh::violation(fam + "view-does-not-alias-source", "data() is not the address inside the viewed vector", c2);
    vh::count("wrapper_readouts");
  }
  void readAll(const std::string &after)
  {
    for (int i = 0; i < 5; ++i)
      readOut(i, after);
    // sources keep their contents (an owning wrapper never writes into the buffer it was built from)
    for (size_t i = 0; i < sources.size(); ++i)
      if (sources[i].v && !(*sources[i].v == bufs[sources[i].buf]))
        vh::violation(std::string("C11:source<") + E<T>::name() + ">:modified", "a source vector changed although nothing wrote to it", ctx + " after " + after);
  }

  // ---- an operation on an OwnedArray failed half way (an element copy threw). The array must still describe live
  //      storage: size() is the size before or the size asked for, every element can be read (a stale range is an
  //      ASan report right here) and is the element the old or the new contents have at that index. The model then
  //      continues from what the array holds.
  void afterFault(int si, const std::vector<T> &oldC, const std::vector<T> &newC, const std::string &what)
  {
    Slot &s = slots[si];
    AbstractArray<T> &a = *s.abs();
    std::string fam = std::string("C11:OwnedArray<") + E<T>::name() + ">:";
    size_t n = a.size();
    vh::count("owned_array_ops_failed_by_failpoint");
    if (n != oldC.size() && n != newC.size())
      vh::violation(fam + "size-after-failed-operation", "size()=" + std::to_string(n) + " is neither the size before (" + std::to_string(oldC.size()) + ") nor the size asked for (" + std::to_string(newC.size()) + ")", ctx + " | " + what + " [threw]");
    std::vector<T> now;
    bool foreign = false;
    for (size_t i = 0; i < n; ++i) {
      const T &e = a.data()[i];
      if (!((i < oldC.size() && e == oldC[i]) || (i < newC.size() && e == newC[i])))
        foreign = true;
      now.push_back(e);
    }
    if (foreign)
      vh::violation(fam + "contents-after-failed-operation", "an element is neither what the array held before nor what the failed operation was storing", ctx + " | " + what + " [threw]");
    s.buf = newBuf(now), s.off = 0, s.n = n;
  }

  // ---- write through a wrapper (element i)
  void writeThrough(int si, size_t i)
  {
    Slot &s = slots[si];
    T v     = E<T>::make(counter++);
    (*s.abs())[i]           = v;
    bufs[s.buf][s.off + i]  = v;
  }

  int pickSource(vh::Rng &r)
  {
    std::vector<int> alive;
    for (size_t i = 0; i < sources.size(); ++i)
      if (sources[i].v)
        alive.push_back((int)i);
    if (alive.empty() || r.chance(1, 4))
      return newSource((size_t)r.pick(std::vector<int>{0, 1, 2, 3, 8, 17, 64, 200}));
    return alive[r.below(alive.size())];
  }

  void step(vh::Rng &r, uint64_t &h)
  {
    int si     = (int)r.below(5);
    Slot &s    = slots[si];
    int op     = (int)r.below(22);
    std::string what;
    switch (op) {
    case 0: {  // ArrayView from vector
      int src = pickSource(r);
      s.clear();
      s.av.reset(new ArrayView<T>(*sources[src].v));
      s.kind = AV, s.buf = sources[src].buf, s.off = 0, s.n = sources[src].v->size(), s.src = src;
      what = "ArrayView(vector n=" + std::to_string(s.n) + ")";
      break;
    }
    case 1: {  // ArrayView from pointer + size (sub-range), or null
      int src   = pickSource(r);
      size_t sz = sources[src].v->size();
      size_t off = sz ? r.below(sz) : 0, n = sz ? r.below(sz - off + 1) : 0;
      s.clear();
      if (r.chance(1, 6)) {
        s.av.reset(new ArrayView<T>((T *)0, 0));
        s.kind = AV, s.buf = -1, s.off = 0, s.n = 0, s.src = -1;
        what = "ArrayView(nullptr,0)";
      } else {
        s.av.reset(new ArrayView<T>(sources[src].v->data() + off, n));
        s.kind = AV, s.buf = sources[src].buf, s.off = off, s.n = n, s.src = n ? src : -1;
        what = "ArrayView(ptr+" + std::to_string(off) + "," + std::to_string(n) + ")";
      }
      break;
    }
    case 2: {  // ArrayView assign / reset
      if (s.kind != AV) {
        s.clear();
        s.av.reset(new ArrayView<T>());
        s.kind = AV;
      }
      int src = pickSource(r);
      int f   = (int)r.below(3);
      if (f == 0) {
        *s.av = *sources[src].v;
        s.buf = sources[src].buf, s.off = 0, s.n = sources[src].v->size(), s.src = src;
        what = "ArrayView=vector";
      } else if (f == 1) {
        s.av->reset();
        s.buf = -1, s.off = 0, s.n = 0, s.src = -1;
        what = "ArrayView.reset()";
      } else {
        size_t sz = sources[src].v->size();
        size_t off = sz ? r.below(sz) : 0, n = sz ? r.below(sz - off + 1) : 0;
        s.av->reset(sources[src].v->data() + off, n);
        s.buf = sources[src].buf, s.off = off, s.n = n, s.src = n ? src : -1;
        what = "ArrayView.reset(ptr,n)";
      }
      break;
    }
    case 3: {  // ArrayView / OwnedArray / FixedArray from std::array
      static std::array<T, 6> arr;
      for (int i = 0; i < 6; ++i)
        arr[i] = E<T>::make(1000 + i);
      std::vector<T> d(arr.begin(), arr.end());
      int f = (int)r.below(4);
      if (f == 0) {
        s.clear();
        s.oa.reset(new OwnedArray<T>(arr));
        s.kind = OA;
        what = "OwnedArray(std::array)";
      } else if (f == 1) {
        s.clear();
        s.fa.reset(new FixedArray<T>(arr));
        s.kind = FA;
        what = "FixedArray(std::array)";
      } else if (f == 2 && s.kind == OA) {
        *s.oa = arr;
        what = "OwnedArray=std::array";
      } else if (s.kind == FA) {
        *s.fa = arr;
        what = "FixedArray=std::array";
      } else {
        s.clear();
        s.oa.reset(new OwnedArray<T>(arr));
        s.kind = OA;
        what = "OwnedArray(std::array)";
      }
      s.buf = newBuf(d), s.off = 0, s.n = 6, s.src = -1;
      // the owner is independent of the array it was built from
      for (int i = 0; i < 6; ++i)
        arr[i] = E<T>::make(5000 + i);
      break;
    }
    case 4:
    case 5: {  // OwnedArray from vector / pointer / null
      int src = pickSource(r);
      std::vector<T> &v = *sources[src].v;
      int f = (int)r.below(3);
      s.clear();
      if (f == 0) {
        s.oa.reset(new OwnedArray<T>(v));
        s.buf = newBuf(bufs[sources[src].buf]), s.n = v.size();
        what = "OwnedArray(vector n=" + std::to_string(v.size()) + ")";
      } else if (f == 1) {
        size_t off = v.size() ? r.below(v.size()) : 0, n = v.size() ? r.below(v.size() - off + 1) : 0;
        s.oa.reset(new OwnedArray<T>(v.data() + off, n));
        s.buf = newBuf(std::vector<T>(bufs[sources[src].buf].begin() + off, bufs[sources[src].buf].begin() + off + n)), s.n = n;
        what = "OwnedArray(ptr," + std::to_string(n) + ")";
      } else {
        s.oa.reset(new OwnedArray<T>((T *)0, 0));
        s.buf = newBuf(std::vector<T>()), s.n = 0;
        what = "OwnedArray(nullptr,0)";
      }
      s.kind = OA, s.off = 0, s.src = -1;
      break;
    }
    case 6: {  // OwnedArray assign vector / reset / reset(ptr,n)
      if (s.kind != OA) {
        s.clear();
        s.oa.reset(new OwnedArray<T>());
        s.kind = OA, s.buf = newBuf(std::vector<T>()), s.n = 0;
      }
      int src = pickSource(r);
      std::vector<T> &v = *sources[src].v;
      int f = (int)r.below(5);
      const std::vector<T> oldC(bufs[s.buf].begin() + s.off, bufs[s.buf].begin() + s.off + s.n);
      std::vector<T> newC;
      size_t off = 0, n = 0;
      if (f == 0) {
        newC = bufs[sources[src].buf];
        what = "OwnedArray=vector(n=" + std::to_string(v.size()) + ")";
      } else if (f == 1) {
        what = "OwnedArray.reset()";
      } else if (f == 2) {
        off = v.size() ? r.below(v.size()) : 0, n = v.size() ? r.below(v.size() - off + 1) : 0;
        newC.assign(bufs[sources[src].buf].begin() + off, bufs[sources[src].buf].begin() + off + n);
        what = "OwnedArray.reset(ptr," + std::to_string(n) + ")";
      } else if (f == 3) {  // the source range lies inside the array's own storage
        off = s.n ? r.below(s.n) : 0, n = s.n ? r.below(s.n - off + 1) : 0;
        newC.assign(oldC.begin() + off, oldC.begin() + off + n);
        what = "OwnedArray.reset(own data()+" + std::to_string(off) + "," + std::to_string(n) + ")";
        vh::count("owned_array_self_sourced_resets");
      } else {
        newC = oldC;
        what = "OwnedArray=itself";
      }
      bool armed = CanFail<T>::yes() && r.chance(1, 3);
      if (armed) {
        g_failInCopies = 1 + (long)r.below(newC.size() + 1);
        what += "[fail at copy " + std::to_string(g_failInCopies) + "]";
      }
      try {
        if (f == 0)
          *s.oa = v;
        else if (f == 1)
          s.oa->reset();
        else if (f == 2)
          s.oa->reset(v.data() + off, n);
        else if (f == 3)
          s.oa->reset(s.oa->data() + off, n);
        else {
          const OwnedArray<T> &self = *s.oa;
          *s.oa = self;
        }
        g_failInCopies = 0;
        s.buf = newBuf(newC), s.n = newC.size();
      } catch (const InjectedFault &) {
        g_failInCopies = 0;
        afterFault(si, oldC, newC, what);
      }
      s.off = 0;
      break;
    }
    case 7:
    case 8: {  // OwnedArray resize (growth that reallocates, shrink, to zero)
      if (s.kind != OA)
        return;
      size_t n = (size_t)r.pick(std::vector<int>{0, 1, 5, 33, 130, 600, 3000});
      T val    = E<T>::make(counter++);
      what     = "OwnedArray.resize(" + std::to_string(n) + ")";
      const std::vector<T> oldC(bufs[s.buf].begin() + s.off, bufs[s.buf].begin() + s.off + s.n);
      std::vector<T> newC(oldC);
      newC.resize(n, val);
      if (CanFail<T>::yes() && r.chance(1, 3)) {
        g_failInCopies = 1 + (long)r.below(n + oldC.size() + 1);
        what += "[fail at copy " + std::to_string(g_failInCopies) + "]";
      }
      try {
        s.oa->resize(n, val);
        g_failInCopies = 0;
        s.buf = newBuf(newC), s.off = 0, s.n = n;
      } catch (const InjectedFault &) {
        g_failInCopies = 0;
        afterFault(si, oldC, newC, what);
      }
      break;
    }
    case 9:
    case 10:
    case 11: {  // copy an owning wrapper into another slot, then destroy / resize / overwrite the original
      if (s.kind != OA && s.kind != FA)
        return;
      int di = (si + 1 + (int)r.below(4)) % 5;
      Slot &d = slots[di];
      bool assign = d.kind == s.kind && r.chance(1, 2);
      if (s.kind == OA) {
        const std::vector<T> srcC(bufs[s.buf].begin() + s.off, bufs[s.buf].begin() + s.off + s.n);
        std::vector<T> oldD;
        if (assign)
          oldD.assign(bufs[d.buf].begin() + d.off, bufs[d.buf].begin() + d.off + d.n);
        bool threw = false;
        if (CanFail<T>::yes() && r.chance(1, 3))
          g_failInCopies = 1 + (long)r.below(s.n + 1);
        try {
          if (assign)
            *d.oa = *s.oa;
          else {
            d.clear();
            d.oa.reset(new OwnedArray<T>(*s.oa));
          }
        } catch (const InjectedFault &) {
          threw = true;
        }
        g_failInCopies = 0;
        if (!threw)
          d.kind = OA, d.buf = newBuf(srcC), d.off = 0, d.n = s.n, d.src = -1;  // a copy of an owning array owns its own contents
        else if (assign)
          afterFault(di, oldD, srcC, "copy-assign OwnedArray " + std::to_string(si) + "->" + std::to_string(di));
        else
          vh::count("owned_array_ops_failed_by_failpoint");  // the copy never came to exist; slot di stays empty
      } else {
        if (assign)
          *d.fa = *s.fa;
        else {
          d.clear();
          d.fa.reset(new FixedArray<T>(*s.fa));
        }
        d.kind = FA, d.buf = s.buf, d.off = 0, d.n = s.n, d.src = -1;  // FixedArray copies share one buffer
      }
      what = std::string(assign ? "copy-assign " : "copy-construct ") + kKindNames[s.kind] + " " + std::to_string(si) + "->" + std::to_string(di);
      ctx += " " + what;
      readAll(what);
      int f = (int)r.below(4);
      if (f == 0) {
        s.clear();
        what = "destroy original " + std::to_string(si);
      } else if (f == 1 && s.kind == OA) {
        T val = E<T>::make(counter++);
        s.oa->resize(s.n + 700, val);
        bufs[s.buf].resize(s.n + 700, val);
        s.n += 700;
        what = "resize original " + std::to_string(si);
      } else if (f == 2 && s.n > 0) {
        writeThrough(si, r.below(s.n));
        what = "write through original " + std::to_string(si);
      } else if (d.n > 0) {
        writeThrough(di, r.below(d.n));
        what = "write through copy " + std::to_string(di);
      } else
        what = "nothing";
      vh::count(s.kind == OA || d.kind == OA ? "owned_array_copies" : "fixed_array_copies");
      break;
    }
    case 12:
    case 13: {  // FixedArray(size) + fill / from pointer / from vector / assign vector
      int src = pickSource(r);
      std::vector<T> &v = *sources[src].v;
      int f = (int)r.below(4);
      if (f == 0) {
        size_t n = (size_t)r.pick(std::vector<int>{0, 1, 7, 100});
        s.clear();
        s.fa.reset(new FixedArray<T>(n));
        std::vector<T> d = fresh(n);
        for (size_t i = 0; i < n; ++i)
          (*s.fa)[i] = d[i];
        s.buf = newBuf(d), s.n = n;
        what = "FixedArray(" + std::to_string(n) + ")+fill";
      } else if (f == 1) {
        size_t off = v.size() ? r.below(v.size()) : 0, n = v.size() ? r.below(v.size() - off + 1) : 0;
        s.clear();
        s.fa.reset(new FixedArray<T>(v.data() + off, n));
        s.buf = newBuf(std::vector<T>(bufs[sources[src].buf].begin() + off, bufs[sources[src].buf].begin() + off + n)), s.n = n;
        what = "FixedArray(ptr," + std::to_string(n) + ")";
      } else if (f == 2 || s.kind != FA) {
        s.clear();
        s.fa.reset(new FixedArray<T>(v));
        s.buf = newBuf(bufs[sources[src].buf]), s.n = v.size();
        what = "FixedArray(vector n=" + std::to_string(v.size()) + ")";
      } else {
        *s.fa = v;
        s.buf = newBuf(bufs[sources[src].buf]), s.n = v.size();
        what = "FixedArray=vector(n=" + std::to_string(v.size()) + ")";
      }
      s.kind = FA, s.off = 0, s.src = -1;
      break;
    }
    case 14:
    case 15: {  // shared FixedArray + FixedArrayView; the creator's handle is dropped right away or later
      SharedFA sf;
      size_t n = (size_t)r.pick(std::vector<int>{0, 1, 4, 50, 300});
      std::vector<T> d = fresh(n);
      sf.p   = std::make_shared<FixedArray<T>>(d);
      sf.buf = newBuf(d);
      // offsets 0..n: a view may start at the very end of the array (it is then empty), also of an empty array
      size_t off = r.chance(1, 6) ? n : r.below(n + 1), len = r.below(n - off + 1);
      if (off == n)
        vh::count("fixed_array_views_at_the_end");
      s.clear();
      s.fav.reset(new FixedArrayView<T>(sf.p, off, len));
      s.kind = FAV, s.buf = sf.buf, s.off = off, s.n = len, s.src = -1;
      if (r.chance(1, 2))
        sf.p.reset();  // the view outlives the creator's handle
      else
        shared.push_back(sf);
      what = "FixedArrayView(shared FixedArray n=" + std::to_string(n) + ", off=" + std::to_string(off) + ", len=" + std::to_string(len) + ")";
      vh::count("fixed_array_views");
      break;
    }
    case 16: {  // drop a creator handle / second view onto a shared array
      if (shared.empty())
        return;
      size_t j = r.below(shared.size());
      if (r.chance(1, 2) && shared[j].p) {
        size_t n = shared[j].p->size();
        size_t off = r.below(n + 1), len = r.below(n - off + 1);
        s.clear();
        s.fav.reset(new FixedArrayView<T>(shared[j].p, off, len));
        s.kind = FAV, s.buf = shared[j].buf, s.off = off, s.n = len, s.src = -1;
        what = "second FixedArrayView";
      } else {
        shared[j].p.reset();
        what = "drop creator handle of shared FixedArray";
      }
      break;
    }
    case 17:
    case 18: {  // write through a wrapper
      if (s.kind == NONE || s.n == 0 || s.buf < 0)
        return;
      size_t i = r.below(s.n);
      writeThrough(si, i);
      if (s.kind == AV && s.src >= 0)
        ;  // bufs[] of the source was updated by writeThrough: the source vector itself was written through the view
      what = std::string("write ") + kKindNames[s.kind] + "[" + std::to_string(i) + "]";
      break;
    }
    case 19: {  // write into a source vector: visible through views, not through owners
      int src = pickSource(r);
      std::vector<T> &v = *sources[src].v;
      if (v.empty())
        return;
      size_t i = r.below(v.size());
      T val    = E<T>::make(counter++);
      v[i]     = val;
      bufs[sources[src].buf][i] = val;
      what = "write source[" + std::to_string(i) + "]";
      break;
    }
    case 20: {  // destroy or grow a source (views onto it are detached first: they are documented as non-owning)
      int src = pickSource(r);
      detachViewsOf(src);
      if (r.chance(1, 2)) {
        sources[src].v.reset();
        what = "destroy source";
      } else {
        std::vector<T> more = fresh(300);
        sources[src].v->insert(sources[src].v->end(), more.begin(), more.end());
        bufs[sources[src].buf].insert(bufs[sources[src].buf].end(), more.begin(), more.end());
        what = "grow source";
      }
      break;
    }
    default:  // destroy a wrapper
      s.clear();
      what = "destroy slot " + std::to_string(si);
      break;
    }
    if (what.empty())
      return;
    ctx += " ; " + what;
    h = vh::hash64(h, vh::hashStr(what) ^ (uint64_t)si);
    readAll(what);
  }
};

// a write through an ArrayView must land in the source (and is tracked in the source's model
// because both share one model buffer)

template <typename T>
static void history(long k, vh::Rng &r)
{
  World<T> w;
  w.ctx     = "#" + std::to_string(k) + " <" + E<T>::name() + ">";
  int len   = (int)r.range(3, 22);
  uint64_t h = vh::hashStr(E<T>::name(), 5);
  for (int i = 0; i < len; ++i)
    w.step(r, h);
  // tear down in random order, reading the survivors after each destruction
  for (int i = 0; i < 5; ++i) {
    int si = (int)r.below(5);
    if (w.slots[si].kind == AV)
      continue;
    w.slots[si].clear();
    w.readAll("teardown of slot " + std::to_string(si));
  }
  vh::evaluated(h, true);
  if (k % 2000 == 11)
    vh::sample(vh::J().kv("case", w.ctx).str(), 3);
}

// ---- DataView: element i is the T at byte offset i*stride
template <typename T>
static void dataView(long k, vh::Rng &r)
{
  size_t mult   = 1 + r.below(4);
  size_t stride = sizeof(T) * mult;  // multiples of sizeof(T) keep every element aligned
  size_t n      = 1 + r.below(40);
  size_t lead   = r.below(3) * alignof(T);
  std::unique_ptr<unsigned char[]> raw(new unsigned char[lead + stride * (n - 1) + sizeof(T)]);  // exact size: ASan sees overruns
  unsigned char *base = raw.get() + lead;
  std::vector<T> exp(n);
  for (size_t i = 0; i < lead + stride * (n - 1) + sizeof(T); ++i)
    raw[i] = (unsigned char)(i * 13 + 5);
  for (size_t i = 0; i < n; ++i) {
    exp[i] = E<T>::make((uint64_t)k * 100 + i);
    memcpy(base + i * stride, &exp[i], sizeof(T));
  }
  std::string ctx = "#" + std::to_string(k) + " DataView<" + E<T>::name() + "> stride=" + std::to_string(stride) + " n=" + std::to_string(n);
  DataView<T> dv(base, stride);
  DataView<T> dv2;
  dv2.reset(base, stride);
  for (size_t i = 0; i < n; ++i) {
    const T &x = dv[i];
    if ((const unsigned char *)&x != base + i * stride || !(x == exp[i]) || !(dv2[i] == exp[i])) {
      vh::violation(std::string("C11:DataView<") + E<T>::name() + ">:element-address", "operator[](" + std::to_string(i) + ") is not the element at byte offset i*stride", ctx);
      break;
    }
  }
  if (mult == 1) {
    DataView<T> dd(base);  // default stride = sizeof(T)
    VH_CHECK(dd[n - 1] == exp[n - 1], std::string("C11:DataView<") + E<T>::name() + ">:default-stride", "default stride is not sizeof(T)", ctx);
  }
  // ---- a history of resets on ONE view: base pointer and stride change independently of each other (same buffer seen
  //      with another layout, another buffer with the same layout, both, neither); after every reset and on a copy
  //      of the view, element i is the T at byte offset i*stride of the LAST (pointer, stride) given
  {
    size_t maxStride = sizeof(T) * 4, leadMax = 2 * alignof(T);
    size_t bytes     = leadMax + maxStride * (n - 1) + sizeof(T);
    std::unique_ptr<unsigned char[]> blockA(new unsigned char[bytes]), blockB(new unsigned char[bytes]);
    DataView<T> v;
    const unsigned char *curBase = 0;
    size_t curStride             = 0;
    std::string hctx             = ctx + " | reset history:";
    int steps                    = 3 + (int)r.below(5);
    for (int st = 0; st < steps; ++st) {
      int what = st == 0 ? 3 : (int)r.below(4);  // 0 same pointer+new stride, 1 new pointer+same stride, 2 neither changes, 3 both
      size_t m2 = 1 + r.below(4);
      unsigned char *nb = (r.chance(1, 2) ? blockA.get() : blockB.get()) + r.below(3) * alignof(T);
      size_t ns         = sizeof(T) * m2;
      if (what == 0 || what == 2)
        nb = const_cast<unsigned char *>(curBase);
      if (what == 1 || what == 2)
        ns = curStride;
      if (what == 0 && ns == curStride)
        ns = curStride == sizeof(T) ? 2 * sizeof(T) : sizeof(T);
      for (size_t i = 0; i < bytes; ++i)
        blockA[i] = (unsigned char)(i * 7 + st), blockB[i] = (unsigned char)(i * 11 + 3 * st);
      std::vector<T> e2(n);
      for (size_t i = 0; i < n; ++i) {
        e2[i] = E<T>::make((uint64_t)k * 1000 + (uint64_t)st * 50 + i);
        memcpy(nb + i * ns, &e2[i], sizeof(T));
      }
      if (ns == sizeof(T) && r.chance(1, 2))
        v.reset(nb);  // default stride
      else
        v.reset(nb, ns);
      hctx += " reset(" + std::string(nb == curBase ? "same pointer" : "other pointer") + "," + std::to_string(ns) + ")";
      curBase = nb, curStride = ns;
      DataView<T> cp(v);
      for (size_t i = 0; i < n; ++i) {
        const T &x = v[i];
        if ((const unsigned char *)&x != curBase + i * curStride || !(x == e2[i]) || (const unsigned char *)&cp[i] != curBase + i * curStride) {
          vh::violation(std::string("C11:DataView<") + E<T>::name() + ">:element-address-after-reset",
                        "operator[](" + std::to_string(i) + ") is at byte offset " + std::to_string((long long)((const unsigned char *)&x - curBase)) + ", the last reset gave stride " + std::to_string(curStride), hctx);
          st = steps;
          break;
        }
      }
      vh::count("dataview_resets");
    }
  }
  vh::count("dataview_layouts");
  vh::evaluated(vh::hash64(vh::hashStr(E<T>::name(), 6), stride * 1000 + n), true);
}

// ---- DataView over records: the element is a composite type and the stride is any multiple of its ALIGNMENT - not of
// its size (12-byte vectors in 16-byte slots, 8-byte pairs inside 12-byte records, overlapping windows with a stride
// below sizeof(T), stride 0). Element i is whatever T lies at byte offset i*stride of the raw block.
struct V12
{
  float x, y, z;
};
struct P8
{
  int a, b;
};
template <typename T>
static void dataViewRecords(long k, vh::Rng &r, const char *tname)
{
  size_t n      = 1 + r.below(24);
  size_t stride = alignof(T) * r.below(9);  // 0, 4, ..., 32: below, equal to, above and between multiples of sizeof(T)
  size_t lead   = r.below(3) * alignof(T);
  size_t bytes  = lead + stride * (n - 1) + sizeof(T);
  std::unique_ptr<unsigned char[]> raw(new unsigned char[bytes]);  // exact size
  for (size_t i = 0; i < bytes; ++i)
    raw[i] = (unsigned char)((i * 29 + (size_t)k * 7 + 3) & 0x7f);  // small values: valid, distinct float/int bit patterns
  const unsigned char *base = raw.get() + lead;
  std::string ctx = "#" + std::to_string(k) + " DataView<" + tname + "> sizeof=" + std::to_string(sizeof(T)) + " stride=" + std::to_string(stride) + " n=" + std::to_string(n);
  DataView<T> a(base, stride), b;
  b.reset(base, stride);
  for (size_t i = 0; i < n; ++i) {
    const T &x = a[i], &y = b[i];
    if ((const unsigned char *)&x != base + i * stride || (const unsigned char *)&y != base + i * stride || memcmp(&x, base + i * stride, sizeof(T)) != 0) {
      vh::violation(std::string("C11:DataView<") + tname + ">:element-address", "operator[](" + std::to_string(i) + ") is at byte offset " + std::to_string((long long)((const unsigned char *)&x - base)) + ", expected " + std::to_string(i * stride), ctx);
      break;
    }
  }
  vh::count("dataview_record_layouts");
  if (stride % sizeof(T) != 0)
    vh::count("dataview_strides_not_multiple_of_element_size");
  vh::evaluated(vh::hash64(vh::hashStr(tname, 8), stride * 1000 + n), true);
}

int main(int argc, char **argv)
{
  vh::init(argc, argv);
  vh::rule(
      "case = one random history (3..22 steps over 5 wrapper slots, harness-owned source vectors, shared FixedArrays): construct from "
      "vector/array/pointer/null, assign, reset, resize, copy-construct/copy-assign a wrapper then destroy/resize/write the original, views "
      "outliving the creator's handle, element writes, OwnedArray reset from a range inside its own storage and self-assignment, and - for "
      "an element type whose copies can be made to throw - assign/reset/resize/copy that fail half way; after every step every live wrapper is read out completely. distinct = hash of the "
      "operation sequence; every history is non-trivial. Assigning to a shared FixedArray while a FixedArrayView onto it exists is not "
      "generated (treated as a mutation of the viewed array, not as lifetime)");
  long n = vh::tier(24000, 800000);
  vh::forkedCases(
      n,
      [&](long k) {
        vh::Rng r(vh::seed(), 11000 + (uint64_t)k);
        switch (k % 5) {
        case 0: history<uint8_t>(k, r); break;
        case 1: history<int>(k, r); break;
        case 2: history<double>(k, r); break;
        case 3: history<S16>(k, r); break;
        default:
          dataView<uint8_t>(k, r);
          dataView<int>(k, r);
          dataView<double>(k, r);
          dataView<S16>(k, r);
          dataViewRecords<V12>(k, r, "vec12");
          dataViewRecords<P8>(k, r, "pair8");
          history<F16>(k, r);
          break;
        }
      },
      20000, 1000, [&](long k) { return std::string("C11-history #") + std::to_string(k); });
  return vh::finish();
}
