// C04 - families over the single element type uint8_t (see c04_vec.cpp)
#include "c04_vec_same.h"
namespace c04 {
  void run_s_u8()
  {
    vh::Rng r(vh::seed(), 400 + TN<uint8_t>::idx);
    runSame<uint8_t>(r);
  }
}  // namespace c04
