// C10 - FlatMap and ParameterizedObject against an insertion-ordered unique-key reference map.
//
// Every case is one seeded operation history (<= 30 ops) over a small key alphabet.  The real
// container and a reference model (vector<pair<K,V>> with unique keys) are stepped in lock-step;
// after EVERY operation the complete observable state is compared (size/empty, all iterator
// families, at_index, contains/at for every key of the alphabet).  A history ends at its first
// divergence (afterwards model and container are out of sync and everything would be noise).
// Histories run in forked children so that a crash / sanitizer abort is attributed to its case.
#include "vh.h"

#include <algorithm>
#include <cstring>
#include <iterator>
#include <stdexcept>
#include <string>
#include <utility>
#include <vector>

#include "rkcommon/containers/FlatMap.h"
#include "rkcommon/math/vec.h"
#include "rkcommon/utility/ParameterizedObject.h"

using rkcommon::containers::FlatMap;
using rkcommon::math::vec3f;
using rkcommon::utility::ParameterizedObject;

struct EndHistory
{
};

// ------------------------------------------------------------------ key / value domains
template <typename T>
struct Dom;

template <>
struct Dom<int>
{
  static const char *name() { return "int"; }
  static int key(int i)
  {
    static const int k[8] = {0, 1, -1, 2147483647, 2, -2147483647 - 1, 3, 7};
    return k[i];
  }
  // values overlap the key set on purpose (a lookup comparing values instead of keys must show)
  static int val(vh::Rng &r)
  {
    int c = (int)r.below(11);
    if (c < 8)
      return key(c);
    return (int)r.range(-3, 3);
  }
  static std::string show(int v) { return std::to_string(v); }
};

template <>
struct Dom<std::string>
{
  static const char *name() { return "string"; }
  static std::string key(int i)
  {
    static const char *k[8] = {"a", "b", "ab", "", "ba", "A", "a ", "a-key-longer-than-the-small-string-buffer-0123456789"};
    return k[i];
  }
  static std::string val(vh::Rng &r)
  {
    int c = (int)r.below(11);
    if (c < 8)
      return key(c);
    if (c == 8)
      return std::string((size_t)r.range(16, 70), 'v');
    std::string s;
    int n = (int)r.range(0, 3);
    for (int i = 0; i < n; ++i)
      s += "ab "[r.below(3)];
    return s;
  }
  static std::string show(const std::string &v) { return "'" + v + "'"; }
};

template <typename K, typename V>
static std::string showSeq(const std::vector<std::pair<K, V> > &v)
{
  std::string o = "[";
  for (size_t i = 0; i < v.size(); ++i)
    o += (i ? "," : "") + Dom<K>::show(v[i].first) + ":" + Dom<V>::show(v[i].second);
  return o + "]";
}

// ------------------------------------------------------------------ FlatMap history
template <typename K, typename V>
struct FlatMapRun
{
  typedef FlatMap<K, V> FM;
  typedef std::vector<std::pair<K, V> > Seq;

  FM m;
  Seq ref;
  std::vector<K> alphabet;
  std::string ops;   // human readable history
  std::string last;  // name of the last operation
  long caseNo;
  uint64_t h;

  std::string ctx() const
  {
    return "#" + std::to_string(caseNo) + " FlatMap<" + Dom<K>::name() + "," + Dom<V>::name() + "> ops=" + ops;
  }
  void fail(const std::string &what, const std::string &detail, bool opSuffix = true)
  {
    vh::violation("C10:FlatMap:" + what + (opSuffix ? ":after-" + last : std::string()), detail, ctx());
    throw EndHistory();
  }
  int find(const K &k) const
  {
    for (size_t i = 0; i < ref.size(); ++i)
      if (ref[i].first == k)
        return (int)i;
    return -1;
  }

  // classify a wrong sequence
  void judgeSeq(const Seq &got, const char *family)
  {
    if (got == ref)
      return;
    std::string d = std::string(family) + " gives " + showSeq(got) + ", reference " + showSeq(ref);
    // duplicate keys?
    for (size_t i = 0; i < got.size(); ++i)
      for (size_t j = i + 1; j < got.size(); ++j)
        if (got[i].first == got[j].first)
          fail("duplicate-key", d);
    if (got.size() == ref.size() && std::is_permutation(got.begin(), got.end(), ref.begin()))
      fail("order", d);
    // same keys, other values?
    if (got.size() == ref.size()) {
      bool sameKeys = true;
      for (size_t i = 0; i < got.size(); ++i)
        sameKeys &= got[i].first == ref[i].first;
      if (sameKeys)
        fail("value", d);
    }
    fail("content", d);
  }

  void compareAll()
  {
    const FM &cm = m;
    if (m.size() != ref.size())
      fail("size", "size()=" + std::to_string(m.size()) + " reference " + std::to_string(ref.size()) + " state " + showSeq(Seq(cm.begin(), cm.end())));
    if ((m.empty() != 0) != ref.empty())
      fail("empty", "empty()=" + std::to_string(m.empty()) + " with reference size " + std::to_string(ref.size()));
    // forward iteration, three spellings
    {
      Seq a(m.begin(), m.end());
      judgeSeq(a, "begin()..end()");
      Seq b(cm.begin(), cm.end());
      if (b != a)
        fail("const-iteration", "const begin()..end() gives " + showSeq(b) + ", non-const " + showSeq(a));
      Seq c(m.cbegin(), m.cend());
      if (c != a)
        fail("const-iteration", "cbegin()..cend() gives " + showSeq(c) + ", non-const " + showSeq(a));
      if ((size_t)std::distance(m.begin(), m.end()) != m.size())
        fail("iteration-length", "distance(begin,end) != size()");
    }
    // reverse iteration, three spellings
    {
      Seq rr(ref.rbegin(), ref.rend());
      Seq a(m.rbegin(), m.rend());
      if (a != rr)
        fail("reverse-iteration", "rbegin()..rend() gives " + showSeq(a) + ", reference reversed " + showSeq(rr));
      Seq b(cm.rbegin(), cm.rend());
      if (b != rr)
        fail("reverse-iteration", "const rbegin()..rend() gives " + showSeq(b) + ", reference reversed " + showSeq(rr));
      Seq c(m.crbegin(), m.crend());
      if (c != rr)
        fail("reverse-iteration", "crbegin()..crend() gives " + showSeq(c) + ", reference reversed " + showSeq(rr));
    }
    // index based lookups
    for (size_t i = 0; i < ref.size(); ++i) {
      try {
        const std::pair<K, V> &ci = cm.at_index(i);
        std::pair<K, V> &mi       = m.at_index(i);
        if (!(ci == ref[i]) || !(mi == ref[i]))
          fail("at_index", "at_index(" + std::to_string(i) + ") is " + Dom<K>::show(mi.first) + ":" + Dom<V>::show(mi.second) + ", reference " +
                               Dom<K>::show(ref[i].first) + ":" + Dom<V>::show(ref[i].second));
        if (&mi != &*(m.begin() + i) || &ci != &*(cm.begin() + i))
          fail("at_index", "at_index(i) does not name the i-th element of the iteration");
      } catch (const std::out_of_range &) {
        fail("at_index", "at_index(" + std::to_string(i) + ") threw although i < size()");
      }
    }
    // key based lookups over the whole alphabet (const: must not change the state)
    for (size_t a = 0; a < alphabet.size(); ++a) {
      const K &k = alphabet[a];
      int at     = find(k);
      bool has   = cm.contains(k);
      if (has != (at >= 0))
        fail("contains", "contains(" + Dom<K>::show(k) + ")=" + (has ? "true" : "false") + ", reference " + showSeq(ref));
      try {
        const V &v = cm.at(k);
        if (at < 0)
          fail("at-no-throw-for-absent-key", "at(" + Dom<K>::show(k) + ") returned " + Dom<V>::show(v) + " for a key that is not in the map " + showSeq(ref));
        if (!(v == ref[at].second))
          fail("at-value", "at(" + Dom<K>::show(k) + ")=" + Dom<V>::show(v) + ", last value written " + Dom<V>::show(ref[at].second));
        if (&v != &cm.at_index(at).second)
          fail("at-value", "at(key) does not name the element stored for the key");
      } catch (const std::out_of_range &) {
        if (at >= 0)
          fail("at-throws-for-present-key", "at(" + Dom<K>::show(k) + ") threw out_of_range, reference " + showSeq(ref));
      }
    }
    if (m.size() != ref.size())
      fail("size", "const lookups changed size()");
    vh::count("flatmap_states_compared");
  }

  void note(const std::string &op, const std::string &arg = std::string())
  {
    last = op;
    ops += op + (arg.empty() ? "" : "(" + arg + ")") + " ";
    h = vh::hashStr(arg, vh::hashStr(op, h));
  }

  // returns whether the history is non-trivial
  bool run(vh::Rng &r, long k)
  {
    caseNo     = k;
    h          = 1469598103934665603ull;
    int nKeys  = r.chance(3, 4) ? 4 : 7;
    int first  = nKeys == 4 && r.chance(1, 4) ? 4 : 0;  // second group of 4 keys
    for (int i = 0; i < nKeys; ++i)
      alphabet.push_back(Dom<K>::key(first + i));
    int len        = (int)r.range(1, 30);
    bool overwrote = false, removed = false, reinserted = false;
    std::vector<bool> everRemoved(alphabet.size(), false);
    ops = "keys=" + std::to_string(nKeys) + "@" + std::to_string(first) + " ";
    last = "construct";
    compareAll();
    for (int step = 0; step < len; ++step) {
      int op     = (int)r.below(100);
      int ki     = (int)r.below(alphabet.size());
      // removals / at() / overwrites aim at a present key half of the time (otherwise most of them
      // would hit absent keys once the map is small)
      if (!ref.empty() && op >= 32 && op < 60 && r.chance(1, 2)) {
        const K &present = ref[r.below(ref.size())].first;
        for (size_t a = 0; a < alphabet.size(); ++a)
          if (alphabet[a] == present)
            ki = (int)a;
      }
      const K key = alphabet[ki];
      int at     = find(key);
      try {
        if (op < 24) {  // m[k] = v
          V v = Dom<V>::val(r);
          note("set", Dom<K>::show(key) + "=" + Dom<V>::show(v));
          V &slot = m[key];
          if (at >= 0) {
            if (!(slot == ref[at].second))
              fail("operator[]-value", "operator[] on a present key returned " + Dom<V>::show(slot) + ", last value written " + Dom<V>::show(ref[at].second), false);
            overwrote = true;
            vh::count("flatmap_overwrite");
          } else {
            if (!(slot == V()))
              fail("operator[]-inserted-value", "operator[] on an absent key did not return a value-initialised VALUE: " + Dom<V>::show(slot), false);
            ref.push_back(std::make_pair(key, V()));
            at = (int)ref.size() - 1;
            vh::count("flatmap_insert");
            if (everRemoved[ki]) {
              reinserted = true;
              vh::count("flatmap_reinsert_after_erase");
            }
          }
          slot           = v;
          ref[at].second = v;
        } else if (op < 32) {  // m[k] read / insert default
          note("touch", Dom<K>::show(key));
          V &slot = m[key];
          if (at >= 0) {
            if (!(slot == ref[at].second))
              fail("operator[]-value", "operator[] on a present key returned " + Dom<V>::show(slot) + ", last value written " + Dom<V>::show(ref[at].second), false);
            if (&slot != &m.at(key))
              fail("operator[]-value", "operator[] and at() name different elements for the same key", false);
          } else {
            if (!(slot == V()))
              fail("operator[]-inserted-value", "operator[] on an absent key did not return a value-initialised VALUE: " + Dom<V>::show(slot), false);
            ref.push_back(std::make_pair(key, V()));
            vh::count("flatmap_insert");
            if (everRemoved[ki]) {
              reinserted = true;
              vh::count("flatmap_reinsert_after_erase");
            }
          }
        } else if (op < 42) {  // at(k) = v  (non-const at)
          V v = Dom<V>::val(r);
          note("at-write", Dom<K>::show(key) + "=" + Dom<V>::show(v));
          try {
            V &slot = m.at(key);
            if (at < 0)
              fail("at-no-throw-for-absent-key", "non-const at(" + Dom<K>::show(key) + ") returned for a key that is not in the map " + showSeq(ref), false);
            if (!(slot == ref[at].second))
              fail("at-value", "non-const at() returned " + Dom<V>::show(slot) + ", last value written " + Dom<V>::show(ref[at].second), false);
            slot           = v;
            ref[at].second = v;
            overwrote      = true;
            vh::count("flatmap_at_present");
          } catch (const std::out_of_range &) {
            if (at >= 0)
              fail("at-throws-for-present-key", "non-const at(" + Dom<K>::show(key) + ") threw out_of_range, reference " + showSeq(ref), false);
            vh::count("flatmap_at_absent_throws");
          }
        } else if (op < 60) {  // erase
          note("erase", Dom<K>::show(key));
          if (at >= 0) {
            const char *pos = ref.size() == 1 ? "flatmap_erase_only" : at == 0 ? "flatmap_erase_first" : at == (int)ref.size() - 1 ? "flatmap_erase_last" : "flatmap_erase_middle";
            vh::count(pos);
            ref.erase(ref.begin() + at);
            removed         = true;
            everRemoved[ki] = true;
          } else
            vh::count("flatmap_erase_absent");
          m.erase(key);
        } else if (op < 63) {
          note("clear");
          for (size_t a = 0; a < alphabet.size(); ++a)
            if (find(alphabet[a]) >= 0)
              everRemoved[a] = true;
          removed |= !ref.empty();
          ref.clear();
          m.clear();
          vh::count("flatmap_clear");
        } else if (op < 68) {
          size_t n = (size_t)r.range(0, 40);
          note("reserve", std::to_string(n));
          m.reserve(n);
          vh::count("flatmap_reserve");
        } else if (op < 76) {  // write through at_index
          if (ref.empty()) {
            note("at_index-empty");
            bool threw = false;
            try {
              (void)m.at_index(0);
            } catch (const std::out_of_range &) {
              threw = true;
            }
            (void)threw;  // bounds behaviour is not part of the property; the call must just be memory-safe
          } else {
            size_t i = (size_t)r.below(ref.size());
            V v      = Dom<V>::val(r);
            note("at_index-write", std::to_string(i) + "=" + Dom<V>::show(v));
            m.at_index(i).second = v;
            ref[i].second        = v;
            overwrote            = true;
            vh::count("flatmap_at_index_write");
          }
        } else if (op < 84) {  // write through a forward / reverse iterator
          if (ref.empty()) {
            note("iter-empty");
            if (m.begin() != m.end() || m.rbegin() != m.rend())
              fail("iteration-length", "begin() != end() on an empty map");
          } else {
            size_t i   = (size_t)r.below(ref.size());
            V v        = Dom<V>::val(r);
            bool rev   = r.chance(1, 2);
            note(rev ? "riter-write" : "iter-write", std::to_string(i) + "=" + Dom<V>::show(v));
            if (rev) {
              typename FM::riterator_t it = m.rbegin();
              std::advance(it, i);
              it->second = v;
              ref[ref.size() - 1 - i].second = v;
            } else {
              typename FM::iterator_t it = m.begin();
              std::advance(it, i);
              it->second    = v;
              ref[i].second = v;
            }
            overwrote = true;
            vh::count("flatmap_iterator_write");
          }
        } else if (op < 92) {  // contains + const at right now (also done in compareAll for every key)
          note("query", Dom<K>::show(key));
          const FM &cm = m;
          if (cm.contains(key) != (at >= 0))
            fail("contains", std::string("contains(") + Dom<K>::show(key) + ") wrong, reference " + showSeq(ref), false);
          vh::count("flatmap_query");
        } else {  // copy: copies are independent maps with the same contents
          note("copy");
          FM c(m);
          Seq got(c.begin(), c.end());
          if (got != ref)
            fail("copy", "copy holds " + showSeq(got) + ", reference " + showSeq(ref), false);
          c[alphabet[0]] = Dom<V>::val(r);
          c.erase(alphabet[alphabet.size() - 1]);
          FM d;
          d = m;
          m = d;
          vh::count("flatmap_copy");
        }
      } catch (const EndHistory &) {
        throw;
      } catch (const std::exception &e) {
        fail("unexpected-exception", std::string("operation threw ") + e.what());
      }
      compareAll();
    }
    vh::count("flatmap_ops", len);
    vh::maxi("flatmap_max_size_seen", (long long)ref.size());
    (void)reinserted;
    return overwrote && removed;
  }
};

template <typename K, typename V>
static void flatMapCase(vh::Rng &r, long k, int combo)
{
  FlatMapRun<K, V> run;
  bool nontrivial = false;
  try {
    nontrivial = run.run(r, k);
  } catch (const EndHistory &) {
    nontrivial = true;
  }
  vh::evaluated(vh::hash64(run.h, 100 + combo), nontrivial);
  if (k < 12 && combo < 4)
    vh::sample(vh::J().kv("kind", std::string("FlatMap<") + Dom<K>::name() + "," + Dom<V>::name() + ">").kv("history", run.ops).str(), 8);
}

// ------------------------------------------------------------------ ParameterizedObject history
struct TestObject : public ParameterizedObject
{
  using ParameterizedObject::findParam;
  using ParameterizedObject::params_begin;
  using ParameterizedObject::params_end;
};

struct Tagged
{
  int id, version;
  Tagged(int i = 0, int v = 0) : id(i), version(v) {}
  bool operator==(const Tagged &o) const { return id == o.id; }
};
static inline bool sameBits(float a, float b) { return memcmp(&a, &b, sizeof a) == 0; }

enum PType
{
  T_NONE = -1,  // created by findParam(name,true), never set: holds an empty Any
  T_INT  = 0,
  T_FLOAT,
  T_BOOL,
  T_STRING,
  T_VEC3F,
  T_TAGGED,  // a user type whose operator== looks at the id only: two values can compare equal and still differ
  T_COUNT,
  T_DOUBLE = T_COUNT,  // read-only types: never stored, so they can never match
  T_UINT,
  T_CSTR,
  T_READ_COUNT
};
static const char *ptypeName(int t)
{
  static const char *n[] = {"none", "int", "float", "bool", "string", "vec3f", "Tagged", "double", "unsigned", "const char*"};
  return n[t + 1];
}

struct PVal
{
  int type;
  int i;
  float f;
  bool b;
  std::string s;
  vec3f v;
  Tagged g;
  PVal() : type(T_NONE), i(0), f(0), b(false), v(0.f) {}
  bool sameAs(const PVal &o) const
  {
    if (type != o.type)
      return false;
    switch (type) {
    case T_INT: return i == o.i;
    case T_FLOAT: return sameBits(f, o.f);
    case T_BOOL: return b == o.b;
    case T_STRING: return s == o.s;
    case T_VEC3F: return sameBits(v.x, o.v.x) && sameBits(v.y, o.v.y) && sameBits(v.z, o.v.z);
    case T_TAGGED: return g.id == o.g.id && g.version == o.g.version;
    }
    return true;
  }
  std::string show() const
  {
    switch (type) {
    case T_INT: return "int " + std::to_string(i);
    case T_FLOAT: return "float " + std::to_string(f);
    case T_BOOL: return b ? "bool true" : "bool false";
    case T_STRING: return "string '" + s + "'";
    case T_VEC3F: return "vec3f(" + std::to_string(v.x) + "," + std::to_string(v.y) + "," + std::to_string(v.z) + ")";
    case T_TAGGED: return "Tagged{id " + std::to_string(g.id) + ", version " + std::to_string(g.version) + "}";
    }
    return "<empty>";
  }
};

struct PEntry
{
  std::string name;
  PVal val;
  bool query;
};

struct ParamRun
{
  TestObject obj;
  std::vector<PEntry> ref;
  std::vector<std::string> names;
  std::string ops, last;
  long caseNo;
  uint64_t h;
  // what the last operation was, for classifying a wrong query flag
  int lastGetMatched;  // -1: last op was not a get, 0: get with mismatch/absent, 1: successful get

  std::string showRef() const
  {
    std::string o = "[";
    for (size_t i = 0; i < ref.size(); ++i)
      o += (i ? ", " : "") + std::string("'") + ref[i].name + "'=" + ref[i].val.show() + (ref[i].query ? " Q" : "");
    return o + "]";
  }
  std::string ctx() const { return "#" + std::to_string(caseNo) + " ParameterizedObject ops=" + ops; }
  void fail(const std::string &what, const std::string &detail, bool opSuffix = true)
  {
    vh::violation("C10:ParamObj:" + what + (opSuffix ? ":after-" + last : std::string()), detail, ctx());
    throw EndHistory();
  }
  int find(const std::string &n) const
  {
    for (size_t i = 0; i < ref.size(); ++i)
      if (ref[i].name == n)
        return (int)i;
    return -1;
  }
  void note(const std::string &op, const std::string &arg = std::string())
  {
    last = op;
    ops += op + (arg.empty() ? "" : "(" + arg + ")") + " ";
    h = vh::hashStr(arg, vh::hashStr(op, h));
  }

  static PVal observe(const ParameterizedObject::Param &p, int &typesMatching)
  {
    PVal o;
    typesMatching = 0;
    const rkcommon::utility::Any &a = p.data;
    if (a.is<int>()) {
      o.type = T_INT, o.i = a.get<int>();
      ++typesMatching;
    }
    if (a.is<float>()) {
      o.type = T_FLOAT, o.f = a.get<float>();
      ++typesMatching;
    }
    if (a.is<bool>()) {
      o.type = T_BOOL, o.b = a.get<bool>();
      ++typesMatching;
    }
    if (a.is<std::string>()) {
      o.type = T_STRING, o.s = a.get<std::string>();
      ++typesMatching;
    }
    if (a.is<vec3f>()) {
      o.type = T_VEC3F, o.v = a.get<vec3f>();
      ++typesMatching;
    }
    if (a.is<Tagged>()) {
      o.type = T_TAGGED, o.g = a.get<Tagged>();
      ++typesMatching;
    }
    return o;
  }

  void compareAll()
  {
    std::vector<std::shared_ptr<ParameterizedObject::Param> >::iterator b = obj.params_begin(), e = obj.params_end();
    size_t n = (size_t)std::distance(b, e);
    std::string listing = "[";
    for (size_t i = 0; i < n; ++i)
      listing += (i ? "," : "") + std::string("'") + b[i]->name + "'";
    listing += "]";
    // one entry per name
    for (size_t i = 0; i < n; ++i)
      for (size_t j = i + 1; j < n; ++j)
        if (b[i]->name == b[j]->name)
          fail("duplicate-name", "parameter list " + listing + " holds a name twice; reference " + showRef());
    if (n != ref.size())
      fail("count", "parameter list " + listing + ", reference " + showRef());
    bool sameNames = true;
    for (size_t i = 0; i < n; ++i)
      sameNames &= b[i]->name == ref[i].name;
    if (!sameNames) {
      std::vector<std::string> x, y;
      for (size_t i = 0; i < n; ++i)
        x.push_back(b[i]->name), y.push_back(ref[i].name);
      if (std::is_permutation(x.begin(), x.end(), y.begin()))
        fail("order", "parameter list " + listing + " is not in first-insertion order; reference " + showRef());
      fail("names", "parameter list " + listing + ", reference " + showRef());
    }
    for (size_t i = 0; i < n; ++i) {
      int matching = 0;
      PVal got     = observe(*b[i], matching);
      if (b[i]->data.valid() != (ref[i].val.type != T_NONE) || matching != (ref[i].val.type != T_NONE ? 1 : 0) || !got.sameAs(ref[i].val))
        fail("stored-value", "'" + ref[i].name + "' holds " + got.show() + ", last value set " + ref[i].val.show());
      if (b[i]->query != ref[i].query) {
        std::string d = "'" + ref[i].name + "' query=" + (b[i]->query ? "true" : "false") + ", reference " + showRef();
        if (last.compare(0, 3, "get") == 0 && lastGetMatched == 0 && b[i]->query)
          fail("query:set-by-unsuccessful-read", d, false);
        if (last.compare(0, 3, "get") == 0 && lastGetMatched == 1 && !b[i]->query)
          fail("query:not-set-by-successful-read", d, false);
        if (last == "reset")
          fail("query:not-cleared-by-reset", d, false);
        fail("query:changed", d);
      }
    }
    // presence over the whole alphabet
    for (size_t a = 0; a < names.size(); ++a) {
      int at   = find(names[a]);
      bool has = obj.hasParam(names[a]);
      if (has != (at >= 0))
        fail("hasParam", "hasParam('" + names[a] + "')=" + (has ? "true" : "false") + ", reference " + showRef());
      ParameterizedObject::Param *p = obj.findParam(names[a]);
      if ((p != 0) != (at >= 0))
        fail("findParam", std::string("findParam('") + names[a] + "') " + (p ? "found an entry" : "returned null") + ", reference " + showRef());
      if (p && p != b[at].get())
        fail("findParam", "findParam('" + names[a] + "') does not return the entry listed under that name");
    }
    if ((size_t)std::distance(obj.params_begin(), obj.params_end()) != ref.size())
      fail("count", "hasParam/findParam(name,false) changed the parameter list");
    vh::count("param_states_compared");
  }

  static PVal randomValue(vh::Rng &r, int type)
  {
    PVal v;
    v.type = type;
    switch (type) {
    case T_INT: {
      static const int c[] = {0, 1, -1, 42, 2147483647};
      v.i = c[r.below(5)];
    } break;
    case T_FLOAT: {
      static const float c[] = {0.f, -0.f, 1.f, -2.5f, 42.f, 1e30f, 0.f, -0.f};
      v.f = c[r.below(8)];
    } break;
    case T_BOOL: v.b = r.chance(1, 2); break;
    case T_STRING: {
      static const char *c[] = {"", "x", "1", "true", "a string longer than the small string optimisation buffer"};
      v.s = c[r.below(5)];
    } break;
    case T_VEC3F: v.v = vec3f((float)r.range(-1, 1), (float)r.range(0, 2), 42.f); v.v.x = r.chance(1, 2) ? v.v.x : -v.v.x; break;
    case T_TAGGED: v.g = Tagged((int)r.below(3), (int)r.below(1000)); break;
    }
    return v;
  }

  void doSet(const std::string &name, const PVal &v)
  {
    switch (v.type) {
    case T_INT: obj.setParam<int>(name, v.i); break;
    case T_FLOAT: obj.setParam<float>(name, v.f); break;
    case T_BOOL: obj.setParam<bool>(name, v.b); break;
    case T_STRING: obj.setParam<std::string>(name, v.s); break;
    case T_VEC3F: obj.setParam<vec3f>(name, v.v); break;
    case T_TAGGED: obj.setParam<Tagged>(name, v.g); break;
    }
  }

  void doGet(vh::Rng &r, const std::string &name, int at, int type)
  {
    bool match     = at >= 0 && ref[at].val.type == type && type < T_COUNT;
    lastGetMatched = match ? 1 : 0;
    bool ok        = true;
    std::string gotDesc;
    // defaults differ from every value randomValue() can produce, so "stored" and "default" are
    // always distinguishable
    switch (type) {
    case T_INT: {
      int d = r.chance(1, 2) ? -777 : 12345, got = obj.getParam<int>(name, d);
      ok      = got == (match ? ref[at].val.i : d);
      gotDesc = "int " + std::to_string(got) + " (default " + std::to_string(d) + ")";
    } break;
    case T_FLOAT: {
      float d = r.chance(1, 2) ? -777.5f : 0.125f, got = obj.getParam<float>(name, d);
      ok      = sameBits(got, match ? ref[at].val.f : d);  // +0 and -0 are different values to write and read back
      gotDesc = "float " + std::to_string(got) + " (default " + std::to_string(d) + ")";
    } break;
    case T_BOOL: {
      bool d = match ? !ref[at].val.b : r.chance(1, 2), got = obj.getParam<bool>(name, d);
      ok      = got == (match ? ref[at].val.b : d);
      gotDesc = std::string("bool ") + (got ? "true" : "false") + " (default " + (d ? "true" : "false") + ")";
    } break;
    case T_STRING: {
      std::string d = r.chance(1, 2) ? "<default>" : "another default that is long enough to live on the heap", got = obj.getParam<std::string>(name, d);
      ok      = got == (match ? ref[at].val.s : d);
      gotDesc = "string '" + got + "' (default '" + d + "')";
    } break;
    case T_VEC3F: {
      vec3f d(-7.f, -7.f, r.chance(1, 2) ? -7.f : 9.f), got = obj.getParam<vec3f>(name, d);
      vec3f e = match ? ref[at].val.v : d;
      ok      = sameBits(got.x, e.x) && sameBits(got.y, e.y) && sameBits(got.z, e.z);
      gotDesc = "vec3f(" + std::to_string(got.x) + "," + std::to_string(got.y) + "," + std::to_string(got.z) + ")";
    } break;
    case T_TAGGED: {
      Tagged d(-5, -5), got = obj.getParam<Tagged>(name, d);
      Tagged e = match ? ref[at].val.g : d;
      ok      = got.id == e.id && got.version == e.version;
      gotDesc = "Tagged{id " + std::to_string(got.id) + ", version " + std::to_string(got.version) + "}";
    } break;
    case T_DOUBLE: {
      double d = -777.25, got = obj.getParam<double>(name, d);
      ok      = got == d;
      gotDesc = "double " + std::to_string(got);
    } break;
    case T_UINT: {
      unsigned d = 777u, got = obj.getParam<unsigned>(name, d);
      ok      = got == d;
      gotDesc = "unsigned " + std::to_string(got);
    } break;
    case T_CSTR: {
      const char *d = "<cdefault>", *got = obj.getParam<const char *>(name, d);
      ok      = got == d;
      gotDesc = "const char*";
    } break;
    }
    if (match) {
      ref[at].query = true;
      vh::count("param_get_match");
    } else if (at >= 0) {
      vh::count(ref[at].val.type == T_NONE ? "param_get_on_never_set" : "param_get_type_mismatch");
    } else
      vh::count("param_get_absent");
    if (!ok) {
      std::string d = "getParam<" + std::string(ptypeName(type)) + ">('" + name + "') returned " + gotDesc + ", reference " + showRef();
      if (match)
        fail("getParam:stored-value-not-returned", d, false);
      else if (at >= 0)
        fail("getParam:not-default-on-type-mismatch", d, false);
      else
        fail("getParam:not-default-for-absent-name", d, false);
    }
  }

  bool run(vh::Rng &r, long k)
  {
    caseNo = k;
    h      = 1469598103934665603ull;
    static const char *alpha[] = {"a", "b", "ab", "", "A", "a ", "a.parameter.name.longer.than.the.small.string.buffer"};
    int nNames = r.chance(3, 4) ? 4 : 7;
    for (int i = 0; i < nNames; ++i)
      names.push_back(alpha[i]);
    int len = (int)r.range(1, 30);
    ops     = "names=" + std::to_string(nNames) + " ";
    last    = "construct";
    lastGetMatched = -1;
    bool retyped = false, removed = false, mismatchRead = false, goodRead = false;
    compareAll();
    for (int step = 0; step < len; ++step) {
      int op = (int)r.below(100);
      std::string name = names[r.below(names.size())];
      if (!ref.empty() && op >= 30 && op < 80 && r.chance(1, 2))
        name = ref[r.below(ref.size())].name;  // reads / removals aim at a present name half of the time
      int at = find(name);
      lastGetMatched = -1;
      try {
        if (op < 30) {
          PVal v = randomValue(r, (int)r.below(T_COUNT));
          note(std::string("set<") + ptypeName(v.type) + ">", "'" + name + "'," + v.show());
          doSet(name, v);
          if (at >= 0) {
            if (ref[at].val.type != v.type && ref[at].val.type != T_NONE) {
              retyped = true;
              vh::count("param_set_other_type");
            } else
              vh::count("param_set_same_type");
            ref[at].val = v;  // replaced in place; the query flag is not touched by a set
          } else {
            PEntry e;
            e.name  = name;
            e.val   = v;
            e.query = false;
            ref.push_back(e);
            vh::count("param_set_new");
          }
        } else if (op < 68) {
          // ask mostly for the stored type or a sibling type
          int type;
          if (at >= 0 && ref[at].val.type >= 0 && r.chance(2, 5))
            type = ref[at].val.type;
          else
            type = (int)r.below(T_READ_COUNT);
          note(std::string("get<") + ptypeName(type) + ">", "'" + name + "'");
          bool match = at >= 0 && ref[at].val.type == type && type < T_COUNT;
          doGet(r, name, at, type);
          goodRead |= match;
          mismatchRead |= at >= 0 && !match;
        } else if (op < 80) {
          note("remove", "'" + name + "'");
          if (at >= 0) {
            vh::count(ref.size() == 1 ? "param_remove_only" : at == 0 ? "param_remove_first" : at == (int)ref.size() - 1 ? "param_remove_last" : "param_remove_middle");
            ref.erase(ref.begin() + at);
            removed = true;
          } else
            vh::count("param_remove_absent");
          obj.removeParam(name);
        } else if (op < 88) {
          note("reset");
          for (size_t i = 0; i < ref.size(); ++i)
            ref[i].query = false;
          obj.resetAllParamQueryStatus();
          vh::count("param_reset");
        } else if (op < 94) {
          note("findParam-add", "'" + name + "'");
          ParameterizedObject::Param *p = obj.findParam(name, true);
          if (!p)
            fail("findParam", "findParam(name,true) returned null", false);
          if (p->name != name)
            fail("findParam", "findParam(name,true) returned the entry named '" + p->name + "'", false);
          if (at < 0) {
            PEntry e;
            e.name  = name;
            e.query = false;
            ref.push_back(e);
            vh::count("param_find_add_new");
          } else
            vh::count("param_find_add_existing");
        } else {
          note("has", "'" + name + "'");
          if (obj.hasParam(name) != (at >= 0))
            fail("hasParam", "hasParam('" + name + "') wrong, reference " + showRef(), false);
          vh::count("param_has");
        }
      } catch (const EndHistory &) {
        throw;
      } catch (const std::exception &e) {
        fail("unexpected-exception", std::string("operation threw ") + e.what());
      }
      compareAll();
    }
    vh::count("param_ops", len);
    vh::maxi("param_max_count_seen", (long long)ref.size());
    return (retyped || removed) && mismatchRead && goodRead;
  }
};

static void paramCase(vh::Rng &r, long k)
{
  ParamRun run;
  bool nontrivial = false;
  try {
    nontrivial = run.run(r, k);
  } catch (const EndHistory &) {
    nontrivial = true;
  }
  vh::evaluated(vh::hash64(run.h, 200), nontrivial);
  if (k < 12)
    vh::sample(vh::J().kv("kind", "ParameterizedObject").kv("history", run.ops).str(), 8);
}


// ------------------------------------------------------------------ forked cases with a crash budget
// vh::forkedCases attributes a crash to its case and goes on with the next one.  When a defect makes
// (nearly) every case die, that costs a sanitizer report per case; so the cases are handed over in
// chunks and the run stops (recorded as inconclusive for the remainder) once more than `maxLost`
// cases did not complete.
struct GuardShared
{
  volatile long done;
};
static GuardShared *g_guard = 0;

static bool guardedCases(long n, void (*fn)(long), int timeoutMs, long chunk, std::string (*desc)(long), const char *what, long maxLost)
{
  if (!g_guard) {
    g_guard       = (GuardShared *)mmap(0, sizeof(GuardShared), PROT_READ | PROT_WRITE, MAP_SHARED | MAP_ANONYMOUS, -1, 0);
    g_guard->done = 0;
  }
  if (vh::st().onlyCase >= 0) {  // replay of one case
    vh::forkedCases(n, fn, timeoutMs, chunk, desc);
    return true;
  }
  long lost = 0;
  for (long base = 0; base < n; base += chunk) {
    long cnt    = base + chunk < n ? chunk : n - base;
    long before = g_guard->done;
    vh::forkedCases(
        cnt,
        [=](long i) {
          fn(base + i);
          __sync_fetch_and_add(&g_guard->done, 1);
        },
        timeoutMs, cnt, [=](long i) { return desc(base + i); });
    lost += cnt - (g_guard->done - before);
    if (lost > maxLost) {
      vh::inconclusive(std::string(what) + ": stopped at case " + std::to_string(base + cnt) + " of " + std::to_string(n) + " after " + std::to_string(lost) +
                       " cases crashed or hung (each one is reported)");
      return false;
    }
  }
  return true;
}


// ------------------------------------------------------------------ key copies that fail (failpoint in the key type)
// FKey's copy constructor / copy assignment throw when the armed countdown reaches 0.  After a failed
// operator[] the property still binds: a key is present only if it was inserted (here: the keys inserted
// before, or the key of the failed call - either outcome is accepted for that one), every key is stored
// once, and lookups of the keys inserted before still return the last value written.
struct FKeyFail
{
};
struct FKey
{
  int v;
  static long arm;  // < 0: disarmed; otherwise number of copies still allowed before one throws
  static void hit()
  {
    if (arm >= 0 && arm-- == 0)
      throw FKeyFail();
  }
  FKey() : v(0) {}
  explicit FKey(int x) : v(x) {}
  FKey(const FKey &o) : v(o.v) { hit(); }
  FKey &operator=(const FKey &o)
  {
    hit();
    v = o.v;
    return *this;
  }
  bool operator==(const FKey &o) const { return v == o.v; }
  bool operator!=(const FKey &o) const { return v != o.v; }
};
long FKey::arm = -1;

static void failingKeyCase(vh::Rng &r, long caseNo)
{
  FlatMap<FKey, int> fm;
  std::vector<std::pair<int, int> > ref;  // keys are 1..12: the default key 0 is never inserted
  std::string ops;
  uint64_t h = vh::hash64(4242, 0);
  int steps  = (int)r.range(2, 14);
  long fired = 0;
  for (int s = 0; s < steps; ++s) {
    int key   = (int)r.range(1, 12);
    int val   = (int)r.range(1, 1000);
    long arm  = r.chance(1, 2) ? (long)r.below(4) : -1;
    bool isNew = true;
    for (size_t i = 0; i < ref.size(); ++i)
      if (ref[i].first == key)
        isNew = false;
    ops += " [" + std::to_string(key) + "]=" + std::to_string(val) + (arm >= 0 ? "(key copy #" + std::to_string(arm) + " fails)" : "");
    h = vh::hash64(h, (uint64_t)key * 5 + (uint64_t)(arm + 1));
    FKey k(key);
    bool threw = false;
    FKey::arm  = arm;
    try {
      fm[k] = val;
    } catch (const FKeyFail &) {
      threw = true;
    }
    FKey::arm = -1;
    if (!threw) {
      if (isNew)
        ref.push_back(std::make_pair(key, val));
      else
        for (size_t i = 0; i < ref.size(); ++i)
          if (ref[i].first == key)
            ref[i].second = val;
    } else
      ++fired;
    // ---- judge the complete state
    std::string desc = "#" + std::to_string(caseNo) + " FlatMap<FKey,int> ops=" + ops;
    std::vector<int> seen;
    bool keyOfFailedCallPresent = false;
    for (FlatMap<FKey, int>::iterator_t it = fm.begin(); it != fm.end(); ++it) {
      int kv = it->first.v;
      bool inRef = false;
      for (size_t i = 0; i < ref.size(); ++i)
        if (ref[i].first == kv)
          inRef = true;
      if (!inRef && threw && kv == key) {
        keyOfFailedCallPresent = true;  // allowed: the failed call may or may not have inserted its own key
        inRef                  = true;
      }
      if (!inRef) {
        vh::violation("C10:FlatMap:failed-insert:key-never-inserted-is-present", "after operator[] failed in a key copy the map holds key " + std::to_string(kv) + " which was never inserted (size " + std::to_string(fm.size()) + ")", desc);
        vh::evaluated(h, fired > 0);
        return;
      }
      if (std::find(seen.begin(), seen.end(), kv) != seen.end()) {
        vh::violation("C10:FlatMap:failed-insert:key-stored-twice", "key " + std::to_string(kv) + " is stored twice", desc);
        vh::evaluated(h, fired > 0);
        return;
      }
      seen.push_back(kv);
    }
    size_t expSize = ref.size() + (keyOfFailedCallPresent ? 1 : 0);
    VH_CHECK(fm.size() == expSize && seen.size() == expSize, "C10:FlatMap:failed-insert:size", "size()=" + std::to_string(fm.size()) + ", iteration yields " + std::to_string(seen.size()) + ", expected " + std::to_string(expSize), desc);
    VH_CHECK(!fm.contains(FKey()), "C10:FlatMap:failed-insert:key-never-inserted-is-present", "contains(default key) is true although it was never inserted", desc);
    for (size_t i = 0; i < ref.size(); ++i) {
      FKey rk(ref[i].first);
      bool has = fm.contains(rk);
      VH_CHECK(has, "C10:FlatMap:failed-insert:inserted-key-lost", "key " + std::to_string(ref[i].first) + " inserted earlier is gone", desc);
      if (has)
        VH_CHECK(fm.at(rk) == ref[i].second, "C10:FlatMap:failed-insert:value", "at(" + std::to_string(ref[i].first) + ")=" + std::to_string(fm.at(rk)) + " expected " + std::to_string(ref[i].second), desc);
    }
    if (keyOfFailedCallPresent) {  // from now on it counts as inserted (value unspecified until written)
      ref.push_back(std::make_pair(key, fm.at(FKey(key))));
    }
  }
  vh::count("failing_key_copy_histories");
  if (fired)
    vh::count("failing_key_copies_fired", fired);
  vh::evaluated(h, fired > 0);
}

// ------------------------------------------------------------------ main
static void oneCase(long k)
{
  vh::Rng r(vh::seed(), 1000 + (uint64_t)k);
  switch (k % 6) {
  case 0: flatMapCase<int, int>(r, k, 0); break;
  case 1: flatMapCase<int, std::string>(r, k, 1); break;
  case 2: flatMapCase<std::string, int>(r, k, 2); break;
  case 3: flatMapCase<std::string, std::string>(r, k, 3); break;
  case 5:
    if ((k / 6) % 4 == 0)
      failingKeyCase(r, k);
    else
      paramCase(r, k);
    break;
  default: paramCase(r, k); break;
  }
}

static std::string describeCase(long k)
{
  static const char *kind[] = {"FlatMap<int,int>", "FlatMap<int,string>", "FlatMap<string,int>", "FlatMap<string,string>", "ParameterizedObject",
                               "ParameterizedObject"};
  return "#" + std::to_string(k) + " " + kind[k % 6];
}

int main(int argc, char **argv)
{
  vh::init(argc, argv);
  vh::rule(
      "one case = one seeded history of 1..30 operations over an alphabet of 4 (75%) or 7 keys/names; case k mod 6 selects "
      "FlatMap<int,int> / <int,string> / <string,int> / <string,string> / ParameterizedObject (x2); the complete observable "
      "state is compared with the reference after every operation. distinct = hash of the operation sequence with arguments; "
      "non-trivial = FlatMap history that overwrote an existing key and removed a present key, ParameterizedObject history with "
      "a successful read, a read with another type and a removal or type change");
  long n = (long)vh::tier(60000, 1000000);
  guardedCases(n, oneCase, 20000, 250, describeCase, "histories", 25);
  vh::note("operation_families",
           "FlatMap<FKey,int>: operator[] with key copies that throw (failpoint in the key type); FlatMap: operator[] insert/overwrite/read, at const/non-const (value, throw), at_index const/non-const, contains, erase "
           "(first/middle/last/only/absent), clear, reserve, size, empty, begin/end, const begin/end, cbegin/cend, rbegin/rend, const "
           "rbegin/rend, crbegin/crend, writes through iterators, copy/assign; ParameterizedObject: setParam<int,float (incl. -0),bool,string,vec3f,user type with an id-only operator==>, "
           "getParam<those + double,unsigned,const char*>, hasParam, removeParam, resetAllParamQueryStatus, findParam(add / no add), "
           "params_begin/end");
  return vh::finish();
}
