// C20 - image writers (independent decoder over exact-size ASan-guarded input buffers) and
// trace writer (recording threads execute generated, properly nested scripts; the harness
// writes the model log next to the file saveLog produced; oracle/trace_check.py compares them).
#include "vh.h"

#include <chrono>
#include <condition_variable>
#include <fstream>
#include <thread>

#include "rkcommon/tracing/Tracing.h"
#include "rkcommon/utility/SaveImage.h"

using namespace rkcommon;
using namespace rkcommon::math;

// ------------------------------------------------------------------ images
static bool slurp(const std::string &path, std::string &out)
{
  std::ifstream f(path.c_str(), std::ios::binary);
  if (!f)
    return false;
  out.assign(std::istreambuf_iterator<char>(f), std::istreambuf_iterator<char>());
  return true;
}

// parses "<magic>\n<w> <h>\n<third>\n" and returns the offset of the payload
static bool parseHeader(const std::string &d, std::string &magic, long &w, long &h, std::string &third, size_t &payload)
{
  size_t a = d.find('\n');
  if (a == std::string::npos)
    return false;
  magic    = d.substr(0, a);
  size_t b = d.find('\n', a + 1);
  if (b == std::string::npos)
    return false;
  std::string dims = d.substr(a + 1, b - a - 1);
  char extra;
  if (sscanf(dims.c_str(), "%ld %ld%c", &w, &h, &extra) != 2)
    return false;
  size_t c = d.find('\n', b + 1);
  if (c == std::string::npos)
    return false;
  third   = d.substr(b + 1, c - b - 1);
  payload = c + 1;
  return true;
}

enum Fmt
{
  PPM,
  PGM,
  PFM1,
  PFM3,
  PFM3A,
  PFM4,
  NFMT
};
static const char *kFmt[]   = {"writePPM", "writePGM", "writePFM<float>", "writePFM<vec3f>", "writePFM<vec3fa>", "writePFM<vec4f>"};
static const char *kMagic[] = {"P6", "P5", "Pf", "PF", "PF", "PF4"};
static const char *kThird[] = {"255", "255", "-1.0", "-1.0", "-1.0", "-1.0"};
static const int kOutComp[] = {3, 1, 1, 3, 3, 4};

static void imageCase(long k, int fmt, int W, int H, uint64_t seed, int writer = -1)
{
  vh::Rng r(seed, 20000 + (uint64_t)k);
  std::string ctx  = "#" + std::to_string(k) + " " + kFmt[fmt] + " " + std::to_string(W) + "x" + std::to_string(H) + (writer >= 0 ? " (one of several writers at work at the same time, each with its own image and file)" : "");
  std::string path = vh::st().outDir + "/img." + std::to_string((long long)getpid()) + (writer >= 0 ? "." + std::to_string(writer) : std::string()) + ".bin";
  size_t npix      = (size_t)W * (size_t)H;
  std::string expect;  // expected payload bytes
  // exact-size heap input buffers: any read outside width x height pixels is an ASan report
  if (fmt == PPM || fmt == PGM) {
    std::unique_ptr<uint32_t[]> px(new uint32_t[npix]);
    for (size_t i = 0; i < npix; ++i)
      px[i] = r.u32();
    for (int y = H - 1; y >= 0; --y)  // rows bottom-up
      for (int x = 0; x < W; ++x) {
        const unsigned char *b = (const unsigned char *)&px[(size_t)y * W + x];
        if (fmt == PPM)
          expect.append((const char *)b, 3);
        else
          expect.append((const char *)b + 3, 1);  // the 4th byte of the pixel
      }
    if (fmt == PPM)
      utility::writePPM(path, W, H, px.get());
    else
      utility::writePGM(path, W, H, px.get());
  } else {
    int inComp = fmt == PFM1 ? 1 : fmt == PFM3 ? 3 : 4;
    std::unique_ptr<float[]> px(new float[npix * inComp]);
    for (size_t i = 0; i < npix * inComp; ++i) {
      uint32_t bits = r.u32();
      if ((bits & 0x7f800000u) == 0x7f800000u)
        bits &= 0xbfffffffu;  // avoid NaN payload canonicalisation questions: no NaN/inf
      memcpy(&px[i], &bits, 4);
    }
    for (int y = 0; y < H; ++y)  // rows as given
      for (int x = 0; x < W; ++x)
        expect.append((const char *)&px[((size_t)y * W + x) * inComp], 4 * (size_t)kOutComp[fmt]);
    if (fmt == PFM1)
      utility::writePFM<float>(path, W, H, px.get());
    else if (fmt == PFM3)
      utility::writePFM<vec3f>(path, W, H, (const vec3f *)px.get());
    else if (fmt == PFM3A)
      utility::writePFM<vec3fa>(path, W, H, (const vec3fa *)px.get());
    else
      utility::writePFM<vec4f>(path, W, H, (const vec4f *)px.get());
  }
  std::string data;
  if (!slurp(path, data)) {
    vh::violation(std::string("C20:image:") + kFmt[fmt] + ":no-file", "the writer produced no readable file", ctx);
    return;
  }
  unlink(path.c_str());
  std::string magic, third;
  long w = 0, h = 0;
  size_t off = 0;
  std::string fam = std::string("C20:image:") + kFmt[fmt] + ":";
  if (!parseHeader(data, magic, w, h, third, off)) {
    vh::violation(fam + "header-unparsable", "header is not '<magic>\\n<w> <h>\\n<maxval|scale>\\n'", ctx);
    return;
  }
  if (magic != kMagic[fmt] || w != W || h != H || third != kThird[fmt]) {
    vh::violation(fam + "header-wrong", "header magic='" + magic + "' size=" + std::to_string(w) + "x" + std::to_string(h) + " third='" + third + "'", ctx);
    return;
  }
  if (data.size() != off + expect.size() + 1 || data[data.size() - 1] != '\n') {
    vh::violation(fam + "file-length", "file has " + std::to_string(data.size()) + " bytes, header+payload+newline is " + std::to_string(off + expect.size() + 1), ctx);
    return;
  }
  if (data.compare(off, expect.size(), expect) != 0) {
    size_t i = 0;
    while (i < expect.size() && data[off + i] == expect[i])
      ++i;
    size_t bpp  = (size_t)kOutComp[fmt] * (fmt <= PGM ? 1 : 4);
    size_t pixi = i / bpp;
    vh::violation(fam + "pixels-differ",
                  "decoded payload differs from the input at payload byte " + std::to_string(i) + " (output row " + std::to_string(pixi / W) + ", column " + std::to_string(pixi % W) +
                      ", channel byte " + std::to_string(i % bpp) + ")",
                  ctx);
    return;
  }
  vh::count((std::string("images_") + kFmt[fmt]).c_str());
  vh::evaluated(vh::hash64(vh::hash64(200 + fmt, (uint64_t)W), (uint64_t)H), W * H > 1);
}

// ------------------------------------------------------------------ tracing
struct Op
{
  char ph;  // B E i C
  int name, cat;
  uint64_t value;
};
static std::vector<std::string> *g_names;  // stable storage: the recorder caches strings by pointer

static std::vector<Op> genScript(vh::Rng &r, long len, int maxDepth)
{
  std::vector<Op> s;
  int depth = 0;
  while ((long)s.size() + depth < len) {
    Op o;
    o.name  = (int)r.below(g_names->size());
    o.cat   = (int)r.below(g_names->size());
    o.value = r.chance(1, 4) ? r.next() : r.below(100000);
    int c   = (int)r.below(10);
    if (c < 3 && depth < maxDepth) {
      o.ph = 'B';
      ++depth;
    } else if (c < 6 && depth > 0) {
      o.ph = 'E';
      --depth;
    } else if (c < 8)
      o.ph = 'i';
    else
      o.ph = 'C';
    s.push_back(o);
  }
  while (depth-- > 0) {
    Op o;
    o.ph = 'E';
    o.name = o.cat = 0;
    o.value = 0;
    s.push_back(o);
  }
  return s;
}

static void traceCase(long k, int T, long len, bool mainRecords, bool processName, bool slowPairs, bool sequential = false, long manyNames = 0)
{
  vh::Rng r(vh::seed(), 30000 + (uint64_t)k);
  std::string base = vh::st().outDir + "/trace_" + std::to_string(k);
  std::vector<std::vector<Op>> scripts;
  for (int t = 0; t < T; ++t)
    scripts.push_back(genScript(r, t == 0 ? len : (long)r.pick(std::vector<long>{0, 1, 5, len / 2 + 1, len}), (int)r.range(0, 6)));
  if (manyNames > 0) {
    // thread 0 labels every event with a name of its own (a dynamically generated label per event): far more
    // distinct names than any fixed set - all of them stay valid until the log is saved
    size_t base0 = g_names->size();
    g_names->reserve(base0 + (size_t)manyNames);  // no reallocation once pointers have been handed out
    for (long i = 0; i < manyNames; ++i)
      g_names->push_back("label_" + std::to_string(i));
    std::vector<Op> s0;
    for (long i = 0; i < manyNames; ++i) {
      Op o;
      o.ph    = (i % 3 == 0) ? 'C' : 'i';
      o.name  = (int)(base0 + (size_t)i);
      o.cat   = (int)(i % 10);
      o.value = (uint64_t)i;
      s0.push_back(o);
    }
    scripts[0] = s0;
    vh::count("trace_scenarios_with_many_distinct_names");
  }
  std::vector<Op> mainScript;
  if (mainRecords)
    mainScript = genScript(r, 40, 3);
  std::mutex m;
  std::condition_variable cv;
  int finished = 0;
  bool release = false;
  std::vector<std::thread> th;
  auto play = [&](const std::vector<Op> &s) {
    for (size_t i = 0; i < s.size(); ++i) {
      const Op &o = s[i];
      switch (o.ph) {
      case 'B': tracing::beginEvent((*g_names)[o.name].c_str(), (*g_names)[o.cat].c_str()); break;
      case 'E':
        if (slowPairs && (i % 97) == 0)
          std::this_thread::sleep_for(std::chrono::microseconds(150));  // > 100 us: the writer adds its own counter
        tracing::endEvent();
        break;
      case 'i': tracing::setMarker((*g_names)[o.name].c_str(), (*g_names)[o.cat].c_str()); break;
      default: tracing::setCounter((*g_names)[o.name].c_str(), o.value); break;
      }
    }
  };
  std::vector<std::thread::id> ids((size_t)T);
  if (sequential) {
    // the recording threads run one after the other and have all exited when the log is saved: the runtime hands
    // the id of a finished thread to a later one, whose events then continue the earlier thread's list
    if (mainRecords) {
      tracing::setThreadName("vh-main");
      play(mainScript);
    }
    for (int t = 0; t < T; ++t) {
      std::thread one([&, t]() {
        ids[t]         = std::this_thread::get_id();
        std::string nm = "vh-thread-" + std::to_string(t);
        tracing::setThreadName(nm.c_str());
        play(scripts[t]);
      });
      one.join();
    }
    tracing::saveLog((base + ".json").c_str(), processName ? "vh process" : nullptr);
  } else {
  for (int t = 0; t < T; ++t)
    th.emplace_back([&, t]() {
      ids[t]         = std::this_thread::get_id();
      std::string nm = "vh-thread-" + std::to_string(t);
      tracing::setThreadName(nm.c_str());
      play(scripts[t]);
      // stay alive until the log has been saved so that thread ids stay distinct
      std::unique_lock<std::mutex> lk(m);
      ++finished;
      cv.notify_all();
      cv.wait(lk, [&] { return release; });
    });
  if (mainRecords) {
    tracing::setThreadName("vh-main");
    play(mainScript);
  }
  {
    std::unique_lock<std::mutex> lk(m);
    cv.wait(lk, [&] { return finished == T; });
  }
  // quiescence reached: save
  tracing::saveLog((base + ".json").c_str(), processName ? "vh process" : nullptr);
  {
    std::unique_lock<std::mutex> lk(m);
    release = true;
    cv.notify_all();
  }
  for (size_t i = 0; i < th.size(); ++i)
    th[i].join();
  }
  // threads that shared one std::thread::id are one recording thread to the recorder: their events follow each
  // other under the name set last
  std::vector<int> leader((size_t)T);
  int reused = 0;
  for (int t = 0; t < T; ++t) {
    leader[t] = t;
    for (int u = 0; u < t; ++u)
      if (ids[u] == ids[t]) {
        leader[t] = leader[u];
        ++reused;
        break;
      }
  }
  std::vector<std::vector<Op>> merged((size_t)T);
  std::vector<int> lastOf((size_t)T, -1);
  for (int t = 0; t < T; ++t) {
    merged[leader[t]].insert(merged[leader[t]].end(), scripts[t].begin(), scripts[t].end());
    lastOf[leader[t]] = t;
  }
  if (sequential) {
    vh::count("trace_sequential_scenarios");
    vh::count("trace_threads_that_reused_an_id", reused);
  }
  // model log for the offline checker
  auto writeModel = [&](const std::string &path, const std::vector<Op> &mainEvents, bool mainPresent) {
  std::ofstream mf(path.c_str());
  mf << "{\"case\":" << k << ",\"process_name\":" << (processName ? "\"vh process\"" : "null") << ",\"threads\":{";
  bool firstT = true;
  for (int t = -1; t < T; ++t) {
    if (t < 0 && !mainPresent)
      continue;
    if (t >= 0 && leader[t] != t)
      continue;
    const std::vector<Op> &s = t < 0 ? mainEvents : merged[t];
    mf << (firstT ? "" : ",") << "\"" << (t < 0 ? std::string("vh-main") : "vh-thread-" + std::to_string(lastOf[t])) << "\":[";
    firstT = false;
    for (size_t i = 0; i < s.size(); ++i) {
      mf << (i ? "," : "") << "[\"" << s[i].ph << "\"";
      if (s[i].ph == 'B' || s[i].ph == 'i')
        mf << ",\"" << (*g_names)[s[i].name] << "\",\"" << (*g_names)[s[i].cat] << "\"";
      else if (s[i].ph == 'C')
        mf << ",\"" << (*g_names)[s[i].name] << "\"," << s[i].value;
      mf << "]";
    }
    mf << "]";
  }
  mf << "}}\n";
  mf.close();
  };
  writeModel(base + ".model.json", mainScript, mainRecords);
  // the recorder keeps what it has: a later saveLog (after more events on this thread) holds everything again
  if (k % 3 == 1) {
    std::vector<Op> more = genScript(r, 25, 2);
    tracing::setThreadName("vh-main");
    play(more);
    tracing::saveLog((base + "b.json").c_str(), processName ? "vh process" : nullptr);
    std::vector<Op> all(mainScript);
    all.insert(all.end(), more.begin(), more.end());
    writeModel(base + "b.model.json", all, true);
    vh::count("trace_second_saves");
  }
  long total = (long)mainScript.size();
  for (int t = 0; t < T; ++t)
    total += (long)scripts[t].size();
  vh::count("trace_scenarios");
  vh::count("trace_events_recorded", total);
  vh::maxi("trace_max_events_one_thread", len);
  vh::evaluated(vh::hash64(vh::hash64(300 + T, (uint64_t)len), (uint64_t)(mainRecords ? 2 : 0) + (processName ? 1 : 0)), total > 0);
  if (k % 7 == 0)
    vh::sample(vh::J().kv("kind", "trace").kv("threads", (long long)T).kv("events_first_thread", (long long)len).kv("total_events", (long long)total).str(), 4);
}

struct TraceSpec
{
  int T;
  long len;
  bool mainRecords, processName, slow;
  bool seq;  // the recording threads run one after the other and have exited when the log is saved
  long manyNames;  // > 0: thread 0 records that many events, each under a name of its own
};

int main(int argc, char **argv)
{
  vh::init(argc, argv);
  std::string variant = vh::st().variant;
  const bool tsan     = variant.find("tsan") != std::string::npos;
  vh::rule(
      "images: every width x height in 1..17 (thorough 1..33) plus large sizes (every power of two 64..65536 +-1 as width and as height, random widths up to 70000, one image of ~12.6 MB output per writer) x 6 writer variants with random pixels in exact-size "
      "buffers, decoded by an independent reader, also with four writers of one format at work at the same time; traces: scenarios (threads 0..8, events per thread in {0,1,8191,8192,8193,20000,random}, "
      "nesting depth <= 6, with/without process name and main-thread events, threads alive together until the log is saved or run one after "
      "the other (exited, ids reused) before it is saved; a third of the scenarios record more and save a second time; two scenarios label 70000 / 140000 events of one thread with a name each), each in a fresh process, checked offline by "
      "oracle/trace_check.py; distinct = hash of (format,width,height) / (threads,length,flags); non-trivial = more than one pixel / at least "
      "one event");
  g_names = new std::vector<std::string>();
  const char *nm[] = {"render", "frame 12", "build_bvh", "A", "commit", "tile 3 7", "wait", "x_1", "load mesh", "Z9"};
  for (int i = 0; i < 10; ++i)
    g_names->push_back(nm[i]);

  // ---- images
  std::vector<int> fmts, Ws, Hs;
  int maxDim = (int)vh::tier(17, 33);
  if (!tsan)
    for (int f = 0; f < NFMT; ++f) {
      for (int w = 1; w <= maxDim; ++w)
        for (int h = 1; h <= maxDim; ++h) {
          fmts.push_back(f);
          Ws.push_back(w);
          Hs.push_back(h);
        }
      int big[][2] = {{2048, 2}, {1, 1500}, {640, 48}, {333, 7}, {1023, 3}};
      for (int b = 0; b < 5; ++b) {
        fmts.push_back(f);
        Ws.push_back(big[b][0]);
        Hs.push_back(big[b][1]);
      }
      // wide and tall images: every power of two 64..65536 with its two neighbours as the width (height 1..3) and
      // as the height (width 1..3), plus random wide sizes; rows are staged through a per-row buffer in the
      // writer, so row length is an input dimension of its own
      vh::Rng rw(vh::seed(), 2000 + f);
      for (int p2 = 64; p2 <= 65536; p2 *= 2)
        for (int d = -1; d <= 1; ++d) {
          fmts.push_back(f);
          Ws.push_back(p2 + d);
          Hs.push_back((int)rw.range(1, 3));
          if (p2 <= 16384) {
            fmts.push_back(f);
            Ws.push_back((int)rw.range(1, 3));
            Hs.push_back(p2 + d);
          }
        }
      for (long i = 0, n = vh::tier(6, 40); i < n; ++i) {
        fmts.push_back(f);
        Ws.push_back((int)rw.range(1500, 70000));
        Hs.push_back((int)rw.range(1, 4));
      }
      // one image per writer whose OUTPUT payload (about 12.6 MB) is larger than a thread's stack: whatever the writer
      // keeps per image rather than per row shows
      {
        int outBytesPerPixel = kOutComp[f] * (f <= PGM ? 1 : 4);
        fmts.push_back(f);
        Ws.push_back(1024);
        Hs.push_back((int)(12600000 / (1024 * outBytesPerPixel)) + (int)rw.range(1, 9));
      }
    }
  long nImg = (long)fmts.size();
  vh::forkedCases(
      nImg, [&](long k) { imageCase(k, fmts[k], Ws[k], Hs[k], vh::seed()); }, 20000, 400,
      [&](long k) { return std::string("C20-image #") + std::to_string(k) + " " + kFmt[fmts[k]] + " " + std::to_string(Ws[k]) + "x" + std::to_string(Hs[k]); });

  // ---- several writers at work at the same time, each with its own pixels and its own file (the writers share nothing
  //      by contract: every call must still produce exactly its own image); under TSan any shared scratch state shows
  //      as a race, under ASan / plain as wrong pixels
  {
    long rounds = vh::tier(tsan ? 6 : 24, tsan ? 30 : 240);
    vh::forkedCases(
        rounds,
        [&](long k) {
          int fmt = (int)(k % NFMT);
          std::vector<std::thread> th;
          for (int t = 0; t < 4; ++t)
            th.emplace_back([&, t]() {
              vh::Rng rr(vh::seed(), 777000 + (uint64_t)k * 16 + (uint64_t)t);
              for (int it = 0; it < (tsan ? 20 : 60); ++it)
                imageCase(900000 + k * 1000 + t * 100 + it, fmt, (int)rr.range(1, 300), (int)rr.range(1, 12), vh::seed(), t);
            });
          for (size_t i = 0; i < th.size(); ++i)
            th[i].join();
          vh::count("concurrent_writer_rounds");
        },
        60000, 4, [&](long k) { return std::string("C20-concurrent-writers #") + std::to_string(k) + " " + kFmt[k % NFMT]; });
  }
  // ---- traces: fresh process per scenario (the recorder is process-global and cumulative)
  std::vector<TraceSpec> specs;
  {
    vh::Rng r(vh::seed(), 20);
    TraceSpec e = {0, 0, false, false, false};  // nothing recorded at all, no process name
    specs.push_back(e);
    TraceSpec e2 = {0, 0, false, true, false};
    specs.push_back(e2);
    TraceSpec e3 = {1, 0, false, false, false};  // a registered thread without events
    specs.push_back(e3);
    long lens[] = {1, 2, 8191, 8192, 8193, 20000};
    for (int i = 0; i < 6; ++i) {
      if (tsan && lens[i] > 8193)
        continue;
      TraceSpec s = {(int)r.range(1, 3), lens[i], r.chance(1, 2), r.chance(1, 2), false};
      specs.push_back(s);
    }
    long nRandom = tsan ? vh::tier(6, 30) : vh::tier(28, 300);
    for (long i = 0; i < nRandom; ++i) {
      TraceSpec s = {(int)r.range(1, 8), (long)r.pick(std::vector<long>{3, 17, 100, 1000, 8190 + (long)r.below(6), 16384}), r.chance(1, 3), r.chance(1, 2), r.chance(1, 4)};
      if (tsan && s.len > 1000)
        s.len = 1000;
      s.seq = r.chance(1, 4);
      if (s.seq && s.T < 2)
        s.T = 2 + (int)r.below(6);
      specs.push_back(s);
    }
    TraceSpec q1 = {2, 5, false, false, false, true}, q2 = {8, 100, true, true, false, true}, q3 = {3, 8193, false, true, false, true};
    specs.push_back(q1);
    specs.push_back(q2);
    if (!tsan)
      specs.push_back(q3);
    TraceSpec m1 = {2, 10, false, true, false, false, tsan ? 3000 : 70000}, m2 = {1, 5, true, false, false, true, tsan ? 3000 : 140000};
    specs.push_back(m1);
    if (!tsan)
      specs.push_back(m2);
  }
  vh::forkedCases(
      (long)specs.size(), [&](long k) { traceCase(k, specs[k].T, specs[k].len, specs[k].mainRecords, specs[k].processName, specs[k].slow, specs[k].seq, specs[k].manyNames); }, 60000, 1,
      [&](long k) { return std::string("C20-trace #") + std::to_string(k) + " threads=" + std::to_string(specs[k].T) + " len=" + std::to_string(specs[k].len) + (specs[k].seq ? " one-after-the-other" : ""); });
  return vh::finish();
}
