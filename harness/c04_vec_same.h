// C04 - families over one element type T (all shapes).  Included by c04_vec_<type>.cpp.
#pragma once
#include "c04_vec_common.h"

namespace c04 {

  namespace rm = rkcommon::math;

  // ---------------------------------------------------------------- which scalar functions exist for T
  namespace detect {
    using namespace rkcommon::math;
    template <typename T> struct Void { typedef void type; };
    template <typename T, typename = void> struct HasAbs : std::false_type { };
    template <typename T> struct HasAbs<T, typename Void<decltype(abs(std::declval<T>()))>::type> : std::true_type { };
    template <typename T, typename = void> struct HasRcp : std::false_type { };
    template <typename T> struct HasRcp<T, typename Void<decltype(rcp(std::declval<T>()))>::type> : std::true_type { };
    template <typename T, typename = void> struct HasRcpSafe : std::false_type { };
    template <typename T> struct HasRcpSafe<T, typename Void<decltype(rcp_safe(std::declval<T>()))>::type> : std::true_type { };
    template <typename T, typename = void> struct HasRsqrt : std::false_type { };
    template <typename T> struct HasRsqrt<T, typename Void<decltype(rsqrt(std::declval<T>()))>::type> : std::true_type { };
    template <typename T, typename = void> struct HasSin : std::false_type { };
    template <typename T> struct HasSin<T, typename Void<decltype(sin(std::declval<T>()))>::type> : std::true_type { };
    template <typename T, typename = void> struct HasUlp : std::false_type { };
    template <typename T> struct HasUlp<T, typename Void<decltype(T(ulp))>::type> : std::true_type { };
  }  // namespace detect

  // ---------------------------------------------------------------- operand helpers
  template <typename T>
  inline bool dupAt(const T *a, int i, int n = 4)
  {
    for (int j = 0; j < n; ++j)
      if (j != i && a[j] == a[i])
        return true;
    return false;
  }

  // a[0..3] pairwise distinct, each satisfying pred; narrower draws after a few failures
  template <typename T, typename P>
  __attribute__((noinline)) void fillPred(vh::Rng &r, T *a, P pred, int narrow)
  {
    fillAny(r, a);
    for (int i = 0; i < 4; ++i) {
      int t = 0;
      while (!pred(a[i]) || dupAt(a, i)) {
        if (t < 3)
          a[i] = Gen<T>::any(r);
        else if (t < 10)
          a[i] = Gen<T>::ranged(r, narrow);
        else {
          fillSmall(r, a);
          return;
        }
        ++t;
      }
    }
  }

  template <typename C> struct CBits
  {
    enum { value = std::is_integral<C>::value ? int(sizeof(C) * 8) - (std::is_signed<C>::value ? 1 : 0) : 20 };
  };
  template <typename T, typename U>
  inline int narrowBits(int op)
  {
    typedef decltype(T() + U()) C;
    int cb = CBits<C>::value;
    if (std::is_floating_point<C>::value && (std::is_integral<T>::value))
      cb = Gen<T>::BITS - 2 < 20 ? Gen<T>::BITS - 2 : 20;  // compound into an integer through a float
    if (op == MUL)
      return cb / 2 > 1 ? cb / 2 : 1;
    if (op == ADD || op == SUB)
      return cb - 2 > 1 ? cb - 2 : 1;
    return cb;
  }

  // component pairs (a[i], b[i]) all safe for OP (binary or compound form), both arrays distinct
  template <typename T, typename U, int OP, bool COMPOUND>
  inline bool safePair(T a, U b)
  {
    return COMPOUND ? safeCompound<T, U, OP>(a, b) : safeBin<T, U, OP>(a, b);
  }
  template <typename T, typename U, int OP, bool COMPOUND>
  __attribute__((noinline)) void drawVV(vh::Rng &r, T *a, U *b)
  {
    fillAny(r, a);
    fillAny(r, b);
    const int nb = narrowBits<T, U>(OP);
    for (int i = 0; i < 4; ++i) {
      int t = 0;
      while (!safePair<T, U, OP, COMPOUND>(a[i], b[i]) || dupAt(a, i) || dupAt(b, i)) {
        if (t < 3)
          b[i] = Gen<U>::any(r);
        else if (t < 12) {
          a[i] = Gen<T>::ranged(r, nb);
          b[i] = Gen<U>::ranged(r, nb);
        } else {
          fillSmall(r, a);
          fillSmall(r, b);
          return;
        }
        ++t;
      }
    }
  }
  // vector a and one scalar s on the right (a[i] OP s) or on the left (s OP a[i])
  template <typename T, typename U, int OP, bool COMPOUND>
  __attribute__((noinline)) void drawVS(vh::Rng &r, T *a, U &s)
  {
    const int nb = narrowBits<T, U>(OP);
    for (int t = 0; t < 12; ++t) {
      if (t < 2) {
        fillAny(r, a);
        s = Gen<U>::any(r);
      } else if (t < 5) {
        fillAny(r, a);
        s = Gen<U>::ranged(r, 3);
      } else {
        fillRanged(r, a, nb);
        s = Gen<U>::ranged(r, nb);
      }
      bool ok = true;
      for (int i = 0; i < 4 && ok; ++i)
        ok = safePair<T, U, OP, COMPOUND>(a[i], s);
      if (ok)
        return;
    }
    fillSmall(r, a);
    s = Gen<U>::small(r);
  }
  template <typename T, typename U, int OP>
  __attribute__((noinline)) void drawSV(vh::Rng &r, T &s, U *b)
  {
    const int nb = narrowBits<T, U>(OP);
    for (int t = 0; t < 12; ++t) {
      if (t < 2) {
        fillAny(r, b);
        s = Gen<T>::any(r);
      } else if (t < 5) {
        fillAny(r, b);
        s = Gen<T>::ranged(r, 3);
      } else {
        fillRanged(r, b, nb);
        s = Gen<T>::ranged(r, nb);
      }
      bool ok = true;
      for (int i = 0; i < 4 && ok; ++i)
        ok = safeBin<T, U, OP>(s, b[i]);
      if (ok)
        return;
    }
    fillSmall(r, b);
    s = Gen<T>::small(r);
  }

  template <typename T>
  struct NotMinC
  {
    // -v (and abs(v)) is defined: v is not the minimum of the promoted signed type
    bool operator()(T v) const
    {
      typedef decltype(-T()) C;
      return !(std::is_integral<C>::value && std::is_signed<C>::value && (C)v == std::numeric_limits<C>::min());
    }
  };

  // ---------------------------------------------------------------- unary operators
  template <typename T, typename SH>
  inline void famUnary(vh::Rng &r)
  {
    typedef typename SH::template V<T>::type V;
    Triple tn("neg", TN<T>::name(), SH::name()), tp("pos", TN<T>::name(), SH::name());
    for (long k = 0; k < tuplesSame(); ++k) {
      T a[4], ref[4];
      fillPred(r, a, NotMinC<T>(), Gen<T>::NARROW);
      V v;
      put(v, a);
      for (int i = 0; i < SH::N; ++i)
        ref[i] = (T)(-a[i]);
      C04_CHECK_VEC(V, tn, k, -v, ref, SH::N, "a", a, SH::N);
      tn.tick(k);
      for (int i = 0; i < SH::N; ++i)
        ref[i] = (T)(+a[i]);
      C04_CHECK_VEC(V, tp, k, +v, ref, SH::N, "a", a, SH::N);
      tp.tick(k);
    }
  }

  // ---------------------------------------------------------------- unary functors
  template <typename T, typename SH>
  inline void famAbs(vh::Rng &r, std::true_type)
  {
    typedef typename SH::template V<T>::type V;
    Triple tr("abs", TN<T>::name(), SH::name());
    for (long k = 0; k < tuplesSame(); ++k) {
      T a[4], ref[4];
      fillPred(r, a, NotMinC<T>(), Gen<T>::NARROW);
      V v;
      put(v, a);
      for (int i = 0; i < SH::N; ++i)
        ref[i] = (T)std::abs(a[i]);
      C04_CHECK_VEC(V, tr, k, rm::abs(v), ref, SH::N, "a", a, SH::N);
      // independent of <cstdlib>: magnitude and sign
      for (int i = 0; i < SH::N; ++i)
        if (!((a[i] < 0 ? ref[i] == (T)(-a[i]) : ref[i] == a[i])))
          failScalar(tr, k, "scalar-definition", (LD)ref[i], (LD)(a[i] < 0 ? -a[i] : a[i]), Ops());
      tr.tick(k);
    }
  }
  template <typename T, typename SH> inline void famAbs(vh::Rng &, std::false_type) { }

  template <typename T, typename SH>
  inline void famRcp(vh::Rng &r, std::true_type)
  {
    typedef typename SH::template V<T>::type V;
    typedef std::numeric_limits<T> L;
    Triple tr("rcp", TN<T>::name(), SH::name()), ts("rcp_safe", TN<T>::name(), SH::name());
    const LD relTol = std::is_same<T, float>::value ? (LD)std::ldexp(1.0, -21) : 4 * (LD)L::epsilon();
    for (long k = 0; k < tuplesSame(); ++k) {
      T a[4], ref[4], got[4];
      fillAny(r, a);
      V v;
      put(v, a);
      for (int i = 0; i < SH::N; ++i)
        ref[i] = rm::rcp(a[i]);
      V g = rm::rcp(v);
      C04_CHECK_VEC(V, tr, k, g, ref, SH::N, "a", a, SH::N);
      get(g, got);
      for (int i = 0; i < SH::N; ++i) {
        LD x = a[i], ax = x < 0 ? -x : x;
        if (ax >= std::ldexp((LD)1, -100) && ax <= std::ldexp((LD)1, 100)) {
          LD d = (LD)got[i] * x - 1;
          if (!((d < 0 ? -d : d) <= relTol))
            failSum(tr, k, "scalar-definition", (LD)got[i], 1 / x, relTol / ax, Ops());
        }
      }
      tr.tick(k);
      // rcp_safe: small magnitudes (|x| < min normal) are replaced by +-min
      if (k % 4 == 0)
        for (int i = 0; i < 4; ++i)
          if (r.chance(1, 2))
            a[i] = (T)((r.chance(1, 2) ? -1 : 1) * (T)r.unit() * L::min() * (T)(i + 1) / 4);
      if (!distinct(a, 4))
        fillSmall(r, a);
      put(v, a);
      for (int i = 0; i < SH::N; ++i)
        ref[i] = rm::rcp_safe(a[i]);
      g = rm::rcp_safe(v);
      C04_CHECK_VEC(V, ts, k, g, ref, SH::N, "a", a, SH::N);
      get(g, got);
      for (int i = 0; i < SH::N; ++i) {
        LD x = a[i], ax = x < 0 ? -x : x;
        if (ax < (LD)L::min())
          x = a[i] >= 0 ? (LD)L::min() : -(LD)L::min();
        ax = x < 0 ? -x : x;
        if (ax <= std::ldexp((LD)1, 100)) {
          LD d = (LD)got[i] * x - 1;
          if (!((d < 0 ? -d : d) <= relTol))
            failSum(ts, k, "scalar-definition", (LD)got[i], 1 / x, relTol / ax, Ops());
        }
      }
      ts.tick(k);
    }
  }
  template <typename T, typename SH> inline void famRcp(vh::Rng &, std::false_type) { }

  template <typename T>
  struct TrigOk
  {
    bool operator()(T v) const
    {
      // T(sin(v)), T(cos(v)) must be defined conversions (only unsigned T and a value <= -1 is not)
      return convOk<T>(std::sin(v)) && convOk<T>(std::cos(v));
    }
  };
  template <typename T, typename SH>
  inline void famTrig(vh::Rng &r, std::true_type)
  {
    typedef typename SH::template V<T>::type V;
    Triple tsn("sin", TN<T>::name(), SH::name()), tcs("cos", TN<T>::name(), SH::name());
    for (long k = 0; k < tuplesSame() / 2 + 1; ++k) {
      T a[4], ref[4];
      fillPred(r, a, TrigOk<T>(), 6);
      V v;
      put(v, a);
      for (int i = 0; i < SH::N; ++i)
        ref[i] = (T)std::sin(a[i]);
      C04_CHECK_VEC(V, tsn, k, rm::sin(v), ref, SH::N, "a", a, SH::N);
      tsn.tick(k);
      for (int i = 0; i < SH::N; ++i)
        ref[i] = (T)std::cos(a[i]);
      C04_CHECK_VEC(V, tcs, k, rm::cos(v), ref, SH::N, "a", a, SH::N);
      tcs.tick(k);
    }
  }
  template <typename T, typename SH> inline void famTrig(vh::Rng &, std::false_type) { }

  // ---------------------------------------------------------------- binary operators, same element type
  template <typename T, int OP, typename SA, typename SB>
  inline void famBinVV(vh::Rng &r, const char *shapeName)
  {
    typedef typename SA::template V<T>::type VA;
    typedef typename SB::template V<T>::type VB;
    typedef typename SA::Unpadded::template V<T>::type VR;
    Triple tr(famName(OP, 0), TN<T>::name(), shapeName);
    for (long k = 0; k < tuplesSame(); ++k) {
      T a[4], b[4], ref[4];
      drawVV<T, T, OP, false>(r, a, b);
      VA va;
      VB vb;
      put(va, a);
      put(vb, b);
      for (int i = 0; i < SA::N; ++i)
        ref[i] = (T)ap(Op<OP>(), a[i], b[i]);
      C04_CHECK_VEC(VR, tr, k, ap(Op<OP>(), va, vb), ref, SA::N, "a", a, SA::N, "b", b, SA::N);
      tr.tick(k);
      if (k < 1 && SA::N == 4) {
        Ops o, e;
        opsAdd(o, "a", a, SA::N);
        opsAdd(o, "b", b, SA::N);
        opsAdd(e, "reference", ref, SA::N);
        sampleCase(tr, o, e);
      }
    }
  }
  template <typename T, int OP, typename SH>
  inline void famBinVS(vh::Rng &r)
  {
    typedef typename SH::template V<T>::type V;
    typedef typename SH::Unpadded::template V<T>::type VR;
    Triple tvs(famName(OP, 1), TN<T>::name(), SH::name()), tsv(famName(OP, 2), TN<T>::name(), SH::name());
    for (long k = 0; k < tuplesSame(); ++k) {
      T a[4], s, ref[4];
      drawVS<T, T, OP, false>(r, a, s);
      V v;
      put(v, a);
      for (int i = 0; i < SH::N; ++i)
        ref[i] = (T)ap(Op<OP>(), a[i], s);
      C04_CHECK_VEC(VR, tvs, k, ap(Op<OP>(), v, s), ref, SH::N, "a", a, SH::N, "s", &s, 1);
      tvs.tick(k);
      drawSV<T, T, OP>(r, s, a);
      put(v, a);
      for (int i = 0; i < SH::N; ++i)
        ref[i] = (T)ap(Op<OP>(), s, a[i]);
      C04_CHECK_VEC(VR, tsv, k, ap(Op<OP>(), s, v), ref, SH::N, "s", &s, 1, "b", a, SH::N);
      tsv.tick(k);
    }
  }

  template <typename T, int OP, typename SH> struct BinShape
  {
    static void run(vh::Rng &r)
    {
      famBinVV<T, OP, SH, SH>(r, SH::name());
      famBinVS<T, OP, SH>(r);
    }
  };
  template <typename T, int OP> struct BinShape<T, OP, S3>
  {
    static void run(vh::Rng &r)
    {
      famBinVV<T, OP, S3, S3>(r, "3");
      famBinVV<T, OP, S3, S3a>(r, "3x3a");
      famBinVS<T, OP, S3>(r);
    }
  };
  template <typename T, int OP> struct BinShape<T, OP, S3a>
  {
    static void run(vh::Rng &r)
    {
      famBinVV<T, OP, S3a, S3a>(r, "3a");
      famBinVV<T, OP, S3a, S3>(r, "3ax3");
      famBinVS<T, OP, S3a>(r);
    }
  };
  template <typename T, typename SH> inline void famMod(vh::Rng &r, std::true_type) { BinShape<T, MOD, SH>::run(r); }
  template <typename T, typename SH> inline void famMod(vh::Rng &, std::false_type) { }

  // ---------------------------------------------------------------- madd (3-shapes only)
  template <typename T>
  inline bool maddOk(T a, T b, T c)
  {
    // madd(float,float,float): the arguments convert to float, the result converts back to T
    if (!convOk<float>(a) || !convOk<float>(b) || !convOk<float>(c))
      return false;
    float m = (float)a * (float)b + (float)c;
    return convOk<T>(m);
  }
  template <typename T, typename SH>
  inline void famMadd(vh::Rng &r)
  {
    typedef typename SH::template V<T>::type V;
    Triple tr("madd", TN<T>::name(), SH::name());
    for (long k = 0; k < tuplesSame(); ++k) {
      T a[4], b[4], c[4], ref[4];
      bool ok = false;
      for (int t = 0; t < 8 && !ok; ++t) {
        if (t < 2) {
          fillAny(r, a);
          fillAny(r, b);
          fillAny(r, c);
        } else {
          fillRanged(r, a, 3);
          fillRanged(r, b, 3);
          fillRanged(r, c, 5);
        }
        ok = true;
        for (int i = 0; i < 3 && ok; ++i)
          ok = maddOk(a[i], b[i], c[i]);
      }
      if (!ok) {
        fillSmall(r, a);
        fillSmall(r, b);
        fillSmall(r, c);
      }
      V va, vb, vc;
      put(va, a);
      put(vb, b);
      put(vc, c);
      for (int i = 0; i < 3; ++i)
        ref[i] = (T)rm::madd(a[i], b[i], c[i]);
      V g = rm::madd(va, vb, vc);
      C04_CHECK_VEC(V, tr, k, g, ref, 3, "a", a, 3, "b", b, 3, "c", c, 3);
      // independent: a*b+c within rounding (float arithmetic of the float images)
      T got[4];
      get(g, got);
      for (int i = 0; i < 3; ++i) {
        LD term[2] = {(LD)(float)a[i] * (LD)(float)b[i], (LD)(float)c[i]};
        LD ref2, tol;
        float asF = (float)rm::madd(a[i], b[i], c[i]);
        int j = judgeSum<float>(asF, term, 2, 2, &ref2, &tol);
        if (j == 1) {
          Ops o;
          opsAdd(o, "a", a, 3);
          opsAdd(o, "b", b, 3);
          opsAdd(o, "c", c, 3);
          failSum(tr, k, "scalar-definition", asF, ref2, tol, o);
        }
      }
      tr.tick(k);
    }
  }

  // ---------------------------------------------------------------- comparisons
  // b := a with a random subset of components changed (possibly none)
  template <typename T>
  __attribute__((noinline)) void deriveB(vh::Rng &r, const T *a, T *b)
  {
    for (int i = 0; i < 4; ++i)
      b[i] = a[i];
    if (r.chance(1, 5))
      return;  // identical
    unsigned mask = (unsigned)r.range(1, 15);
    if (r.chance(1, 2))
      mask = 1u << r.below(4);  // exactly one component differs
    for (int i = 0; i < 4; ++i)
      if (mask & (1u << i)) {
        switch (r.below(3)) {
        case 0:
          b[i] = Gen<T>::any(r);
          break;
        case 1:
          b[i] = a[(i + 1 + r.below(3)) % 4];  // another component's value
          break;
        default:
          if (std::is_floating_point<T>::value)
            b[i] = (T)std::nextafter(a[i], r.chance(1, 2) ? std::numeric_limits<T>::max() : std::numeric_limits<T>::lowest());
          else
            b[i] = r.chance(1, 2) ? (a[i] == std::numeric_limits<T>::max() ? a[i] : (T)(a[i] + 1)) : (a[i] == std::numeric_limits<T>::min() ? a[i] : (T)(a[i] - 1));
        }
      }
  }

  template <typename T>
  __attribute__((noinline, cold)) void failBool(const Triple &tr, long k, const char *what, bool got, const T *a, const T *b, int n)
  {
    Ops o;
    opsAdd(o, "a", a, n);
    opsAdd(o, "b", b, n);
    failText(tr, k, what, got ? "returned true, the component-wise definition gives false" : "returned false, the component-wise definition gives true", o);
  }

  template <typename T, typename SA, typename SB>
  inline void famCompare(vh::Rng &r, const char *shapeName)
  {
    typedef typename SA::template V<T>::type VA;
    typedef typename SB::template V<T>::type VB;
    Triple te("eq", TN<T>::name(), shapeName), tn("ne", TN<T>::name(), shapeName), tl("anyLessThan", TN<T>::name(), shapeName);
    const int N = SA::N;
    long nEqual = 0;
    for (long k = 0; k < tuplesSame(); ++k) {
      T a[4], b[4];
      fillAny(r, a);
      deriveB(r, a, b);
      VA va;
      VB vb;
      put(va, a);
      put(vb, b);
      bool eq = true, anyLess = false;
      for (int i = 0; i < N; ++i) {
        eq = eq && a[i] == b[i];
        anyLess = anyLess || a[i] < b[i];
      }
      bool g = va == vb;
      if (g != eq)
        failBool(te, k, "result", g, a, b, N);
      te.tick(k);
      g = va != vb;
      if (g != !eq)
        failBool(tn, k, "result", g, a, b, N);
      tn.tick(k);
      g = rm::anyLessThan(va, vb);
      if (g != anyLess)
        failBool(tl, k, "result", g, a, b, N);
      tl.tick(k);
      if (eq)
        ++nEqual;
    }
    vh::count("compare_cases_all_components_equal", nEqual);
  }

  template <typename T, typename SH>
  inline void famLess(vh::Rng &r)
  {
    typedef typename SH::template V<T>::type V;
    Triple tr("std_less", TN<T>::name(), SH::name());
    const int N = SH::N;
    std::less<V> less;
    long prefixEq = 0;
    for (long k = 0; k < tuplesSame(); ++k) {
      T a[4], b[4];
      fillAny(r, a);
      deriveB(r, a, b);
      V va, vb;
      put(va, a);
      put(vb, b);
      bool ab = false, ba = false;
      for (int i = 0; i < N; ++i) {
        if (a[i] < b[i]) {
          ab = true;
          break;
        }
        if (!(a[i] == b[i]))
          break;
      }
      for (int i = 0; i < N; ++i) {
        if (b[i] < a[i]) {
          ba = true;
          break;
        }
        if (!(b[i] == a[i]))
          break;
      }
      if (a[0] == b[0])
        ++prefixEq;
      bool g1 = less(va, vb), g2 = less(vb, va), g3 = less(va, va);
      if (g1 != ab)
        failBool(tr, k, "lexicographic", g1, a, b, N);
      if (g2 != ba)
        failBool(tr, k, "lexicographic", g2, b, a, N);
      if (g3)
        failBool(tr, k, "irreflexive", g3, a, a, N);
      tr.tick(k);
    }
    vh::count("less_cases_equal_first_component", prefixEq);
  }

  // ---------------------------------------------------------------- dot / length / cross / normalize / interpolate
  // moderate operands for sums of products: integers narrow enough, floats any
  template <typename T>
  __attribute__((noinline)) void fillForProducts(vh::Rng &r, T *a, int terms)
  {
    if (std::is_floating_point<T>::value || r.chance(1, 4))
      fillAny(r, a);
    else {
      typedef decltype(T() * T()) C;
      int cb = CBits<C>::value;
      int bits = (cb - (terms > 2 ? 2 : 1)) / 2;
      fillRanged(r, a, r.chance(1, 2) ? bits : bits / 2 + 1);
    }
  }

  template <typename T, typename F>
  inline void judgeDotLike(const Triple &tr, long k, const char *what, T got, const T *x, const T *y, const int *sign, int n, const F &ops,
                           std::true_type /*integral*/)
  {
    T ref;
    if (intSumProd(x, y, sign, n, ref)) {
      if (got != ref)
        failScalarF(tr, k, what, (LD)got, (LD)ref, ops);
    }
  }
  template <typename T, typename F>
  inline void judgeDotLike(const Triple &tr, long k, const char *what, T got, const T *x, const T *y, const int *sign, int n, const F &ops,
                           std::false_type)
  {
    LD term[4], ref, tol;
    for (int j = 0; j < n; ++j)
      term[j] = (LD)sign[j] * ((LD)x[j] * (LD)y[j]);
    int res = judgeSum<T>(got, term, n, n + 1, &ref, &tol);
    if (res == 1)
      failSumF(tr, k, what, (LD)got, ref, tol, ops);
    else if (res < 0)
      vh::count("float_sum_not_judged_possible_overflow");
  }
  // can the scalar expression be evaluated at all (integers: no overflow in any order)?
  template <typename T>
  inline bool dotSafe(const T *x, const T *y, const int *sign, int n)
  {
    if (std::is_floating_point<T>::value)
      return true;
    T dummy;
    return intSumProd(x, y, sign, n, dummy);
  }

  template <typename T, typename SA, typename SB>
  inline void famDot(vh::Rng &r, const char *shapeName)
  {
    typedef typename SA::template V<T>::type VA;
    typedef typename SB::template V<T>::type VB;
    Triple tr("dot", TN<T>::name(), shapeName);
    const int N = SA::N;
    static const int plus[4] = {1, 1, 1, 1};
    for (long k = 0; k < tuplesSame(); ++k) {
      T a[4], b[4];
      for (int t = 0;; ++t) {
        fillForProducts(r, a, N);
        fillForProducts(r, b, N);
        if (t >= 6) {
          fillSmall(r, a);
          fillSmall(r, b);
        }
        if (dotSafe(a, b, plus, N))
          break;
      }
      VA va;
      VB vb;
      put(va, a);
      put(vb, b);
      T got = rm::dot(va, vb);
      judgeDotLike(tr, k, "value", got, a, b, plus, N, C04_OPS(opsAdd(o, "a", a, N); opsAdd(o, "b", b, N)), std::is_integral<T>());
      if (k < 1 && N == 3) {
        Ops o, e;
        opsAdd(o, "a", a, N);
        opsAdd(o, "b", b, N);
        opsAdd(e, "library_result", &got, 1);
        sampleCase(tr, o, e);
      }
      tr.tick(k);
    }
  }

  inline u64 isqrt64(u64 n)
  {
    u64 x = (u64)std::sqrt((double)n);
    while (x * x > n)
      --x;
    while ((x + 1) * (x + 1) <= n)
      ++x;
    return x;
  }

  template <typename T, typename SH>
  inline void famLengthInt(vh::Rng &r)
  {
    typedef typename SH::template V<T>::type V;
    Triple tr("length", TN<T>::name(), SH::name());
    const int N = SH::N;
    // operands such that the sum of squares fits T itself (dot returns T) and 2^52
    int tb = Gen<T>::BITS < 52 ? Gen<T>::BITS : 52;
    int bits = (tb - 2) / 2;
    for (long k = 0; k < tuplesSame() / 2 + 1; ++k) {
      T a[4];
      fillRanged(r, a, r.chance(1, 2) ? bits : bits / 2 + 1);
      u64 s = 0;
      for (int i = 0; i < N; ++i) {
        LD v = (LD)a[i];
        s += (u64)(v * v);
      }
      if (s > (u64)std::numeric_limits<T>::max() || s >= (1ull << 52)) {
        fillSmall(r, a);
        for (int i = 0; i < 4; ++i)
          a[i] = (T)((int)a[i] % 4);  // 0..3, may repeat: 8-bit types leave no room
        s = 0;
        for (int i = 0; i < N; ++i)
          s += (u64)a[i] * (u64)a[i];
      }
      V v;
      put(v, a);
      T got = rm::length(v);
      T ref = (T)isqrt64(s);
      if (got != ref)
        failScalarF(tr, k, "value", (LD)got, (LD)ref, C04_OPS(opsAdd(o, "a", a, N)));
      tr.tick(k);
    }
  }
  template <typename T, typename SH>
  inline void famLengthFloat(vh::Rng &r)
  {
    typedef typename SH::template V<T>::type V;
    typedef std::numeric_limits<T> L;
    Triple tr("length", TN<T>::name(), SH::name());
    const int N = SH::N;
    for (long k = 0; k < tuplesSame(); ++k) {
      T a[4];
      int mode = (int)r.below(8);
      for (int i = 0; i < 4; ++i)
        a[i] = mode == 0 ? (T)r.range(-20, 20) : mode == 1 ? Gen<T>::mag(r, -40, 40) : Gen<T>::mag(r, -8, 8);
      if (mode == 2)
        a[r.below(4)] = 0;
      if (mode == 3)
        a[r.below(4)] = r.chance(1, 2) ? L::infinity() : -L::infinity();
      if (mode == 0 && r.chance(1, 20))
        a[0] = a[1] = a[2] = a[3] = 0;
      V v;
      put(v, a);
      T got = rm::length(v);
      LD s = 0;
      bool inf = false;
      for (int i = 0; i < N; ++i) {
        if (a[i] - a[i] != 0)
          inf = true;
        s += (LD)a[i] * (LD)a[i];
      }
      auto ops = C04_OPS(opsAdd(o, "a", a, N));
      if (inf) {
        if (!(got == L::infinity()))
          failScalarF(tr, k, "value", (LD)got, (LD)L::infinity(), ops);
      } else {
        LD ref = sqrtl(s), tol = (LD)(N + 2) * (LD)L::epsilon() * ref, d = (LD)got - ref;
        if (!((d < 0 ? -d : d) <= tol))
          failSumF(tr, k, "value", (LD)got, ref, tol, ops);
      }
      tr.tick(k);
    }
  }
  template <typename T, typename SH> inline void famLength(vh::Rng &r, std::true_type) { famLengthInt<T, SH>(r); }
  template <typename T, typename SH> inline void famLength(vh::Rng &r, std::false_type) { famLengthFloat<T, SH>(r); }

  template <typename T, typename SA, typename SB>
  inline void famCross(vh::Rng &r, const char *shapeName)
  {
    typedef typename SA::template V<T>::type VA;
    typedef typename SB::template V<T>::type VB;
    typedef vec_t<T, 3> VR;
    Triple tr("cross", TN<T>::name(), shapeName);
    static const int pm[2] = {1, -1};
    static const int ia[3][2] = {{1, 2}, {2, 0}, {0, 1}};  // r_i = a[p]*b[q] - a[q]*b[p]
    for (long k = 0; k < tuplesSame(); ++k) {
      T a[4], b[4];
      T xs[3][2], ys[3][2];
      for (int t = 0;; ++t) {
        fillForProducts(r, a, 2);
        fillForProducts(r, b, 2);
        if (t >= 6) {
          fillSmall(r, a);
          fillSmall(r, b);
        }
        bool ok = true;
        for (int i = 0; i < 3; ++i) {
          xs[i][0] = a[ia[i][0]];
          ys[i][0] = b[ia[i][1]];
          xs[i][1] = a[ia[i][1]];
          ys[i][1] = b[ia[i][0]];
          ok = ok && dotSafe(xs[i], ys[i], pm, 2);
        }
        if (ok)
          break;
      }
      VA va;
      VB vb;
      put(va, a);
      put(vb, b);
      auto g = rm::cross(va, vb);
      T got[4];
      get(g, got);
      auto ops = C04_OPS(opsAdd(o, "a", a, 3); opsAdd(o, "b", b, 3); opsAdd(o, "result", got, 3));
      if (!std::is_same<decltype(g), VR>::value)
        failText(tr, k, "result-type", "cross returns " + VInfo<decltype(g)>::str(), Ops());
      static const char *what[3] = {"x-component", "y-component", "z-component"};
      for (int i = 0; i < 3; ++i)
        judgeDotLike(tr, k, what[i], got[i], xs[i], ys[i], pm, 2, ops, std::is_integral<T>());
      tr.tick(k);
    }
  }

  template <typename T, typename SH>
  inline void famNormalize(vh::Rng &r, std::true_type)
  {
    typedef typename SH::template V<T>::type V;
    typedef std::numeric_limits<T> L;
    Triple tn("normalize", TN<T>::name(), SH::name()), ts("safe_normalize", TN<T>::name(), SH::name());
    const int N = SH::N;
    const LD rel = 8 * (LD)L::epsilon();
    for (long k = 0; k < tuplesSame(); ++k) {
      T a[4], got[4];
      int mode = (int)r.below(6);
      for (int i = 0; i < 4; ++i)
        a[i] = mode == 0 ? (T)r.range(-20, 20) : mode == 1 ? Gen<T>::mag(r, -30, 30) : Gen<T>::mag(r, -6, 6);
      if (mode == 2)
        a[r.below(4)] = 0;
      LD s = 0;
      for (int i = 0; i < N; ++i)
        s += (LD)a[i] * (LD)a[i];
      auto ops = C04_OPS(opsAdd(o, "a", a, N); opsAdd(o, "result", got, N));
      V v;
      put(v, a);
      if (s > 0) {
        V g = rm::normalize(v);
        if (!std::is_same<decltype(rm::normalize(v)), V>::value)
          failText(tn, k, "result-type", "normalize returns " + VInfo<decltype(rm::normalize(v))>::str(), Ops());
        get(g, got);
        LD inv = 1 / sqrtl(s);
        for (int i = 0; i < N; ++i) {
          LD ref = (LD)a[i] * inv, tol = rel * (ref < 0 ? -ref : ref) + (LD)L::min(), d = (LD)got[i] - ref;
          if (!((d < 0 ? -d : d) <= tol)) {
            failSumF(tn, k, "component-value", (LD)got[i], ref, tol, ops);
            break;
          }
        }
        tn.tick(k);
      }
      // safe_normalize: also tiny and zero vectors (sum of squares below ulp is replaced by ulp)
      if (k % 3 == 0) {
        int e = (int)r.range(-30, -2);
        for (int i = 0; i < 4; ++i)
          a[i] = std::ldexp(a[i], e) * (T)(mode == 1 ? 0 : 1);
        put(v, a);
        s = 0;
        for (int i = 0; i < N; ++i)
          s += (LD)a[i] * (LD)a[i];
      }
      {
        V g = rm::safe_normalize(v);
        get(g, got);
        LD den = s > (LD)L::epsilon() ? s : (LD)L::epsilon();
        LD inv = 1 / sqrtl(den);
        if (s < (LD)L::epsilon())
          vh::count("safe_normalize_below_ulp");
        for (int i = 0; i < N; ++i) {
          LD ref = (LD)a[i] * inv, tol = rel * (ref < 0 ? -ref : ref) + (LD)L::min(), d = (LD)got[i] - ref;
          if (!((d < 0 ? -d : d) <= tol)) {
            failSumF(ts, k, "component-value", (LD)got[i], ref, tol, ops);
            break;
          }
        }
        ts.tick(k);
      }
    }
  }
  template <typename T, typename SH> inline void famNormalize(vh::Rng &, std::false_type) { }

  template <typename T, typename SH>
  inline void famInterpolate(vh::Rng &r)
  {
    typedef typename SH::template V<T>::type V;
    Triple tr("interpolate_uv", TN<T>::name(), SH::name());
    const int N = SH::N;
    static const int plus[3] = {1, 1, 1};
    static const char *what[4] = {"x-component", "y-component", "z-component", "w-component"};
    for (long k = 0; k < tuplesSame(); ++k) {
      T f[4], a[4], b[4], c[4], col[4][3];
      for (int t = 0;; ++t) {
        fillForProducts(r, f, 3);
        fillForProducts(r, a, 3);
        fillForProducts(r, b, 3);
        fillForProducts(r, c, 3);
        if (t >= 6) {
          fillSmall(r, f);
          fillSmall(r, a);
          fillSmall(r, b);
          fillSmall(r, c);
        }
        bool ok = true;
        for (int i = 0; i < N; ++i) {
          col[i][0] = a[i];
          col[i][1] = b[i];
          col[i][2] = c[i];
          ok = ok && dotSafe(f, col[i], plus, 3);
        }
        if (ok)
          break;
      }
      vec_t<T, 3> vf;
      V va, vb, vc;
      put(vf, f);
      put(va, a);
      put(vb, b);
      put(vc, c);
      auto g = rm::interpolate_uv(vf, va, vb, vc);
      if (!std::is_same<decltype(g), V>::value)
        failText(tr, k, "result-type", "interpolate_uv returns " + VInfo<decltype(g)>::str(), Ops());
      T got[4];
      get(g, got);
      auto ops = C04_OPS(opsAdd(o, "f", f, 3); opsAdd(o, "a", a, N); opsAdd(o, "b", b, N); opsAdd(o, "c", c, N); opsAdd(o, "result", got, N));
      for (int i = 0; i < N; ++i)
        judgeDotLike(tr, k, what[i], got[i], f, col[i], plus, 3, ops, std::is_integral<T>());
      tr.tick(k);
    }
  }

  // ---------------------------------------------------------------- min / max / divRoundUp
  template <typename T>
  inline bool druSafe(T a, T b)
  {
    typedef decltype(T() + T()) C;
    if (std::is_floating_point<C>::value)
      return true;
    if (!safeBin<T, T, ADD>(a, b))
      return false;
    C s = (C)((C)a + (C)b);
    if (!safeBin<C, C, SUB>(s, (C)1))
      return false;
    return safeBin<C, C, DIV>((C)(s - 1), (C)b);
  }
  template <typename T, typename SH>
  inline void famFunctors(vh::Rng &r)
  {
    typedef typename SH::template V<T>::type V;
    Triple tmin("min", TN<T>::name(), SH::name()), tmax("max", TN<T>::name(), SH::name()), tdr("divRoundUp", TN<T>::name(), SH::name());
    const int N = SH::N;
    for (long k = 0; k < tuplesSame(); ++k) {
      T a[4], b[4], ref[4];
      fillAny(r, a);
      if (r.chance(1, 3))
        deriveB(r, a, b);
      else
        fillAny(r, b);
      V va, vb;
      put(va, a);
      put(vb, b);
      auto ops = C04_OPS(opsAdd(o, "a", a, N); opsAdd(o, "b", b, N));
      for (int i = 0; i < N; ++i)
        ref[i] = std::min(a[i], b[i]);
      C04_CHECK_VEC(V, tmin, k, rm::min(va, vb), ref, N, "a", a, N, "b", b, N);
      for (int i = 0; i < N; ++i)
        if (!(ref[i] <= a[i] && ref[i] <= b[i] && (ref[i] == a[i] || ref[i] == b[i])))
          failTextF(tmin, k, "scalar-definition", "std::min is not the smaller operand", ops);
      tmin.tick(k);
      for (int i = 0; i < N; ++i)
        ref[i] = std::max(a[i], b[i]);
      C04_CHECK_VEC(V, tmax, k, rm::max(va, vb), ref, N, "a", a, N, "b", b, N);
      for (int i = 0; i < N; ++i)
        if (!(ref[i] >= a[i] && ref[i] >= b[i] && (ref[i] == a[i] || ref[i] == b[i])))
          failTextF(tmax, k, "scalar-definition", "std::max is not the larger operand", ops);
      tmax.tick(k);
      // divRoundUp(a,b) = (a + b - 1) / b
      fillAny(r, a);
      fillAny(r, b);
      for (int i = 0; i < 4; ++i) {
        int t = 0;
        while (!druSafe(a[i], b[i]) || dupAt(a, i) || dupAt(b, i)) {
          if (t < 3)
            b[i] = Gen<T>::any(r);
          else if (t < 12) {
            a[i] = Gen<T>::ranged(r, CBits<T>::value - 2);
            b[i] = Gen<T>::ranged(r, CBits<T>::value / 2);
          } else {
            fillSmall(r, a);
            fillSmall(r, b);
            break;
          }
          ++t;
        }
      }
      put(va, a);
      put(vb, b);
      for (int i = 0; i < N; ++i)
        ref[i] = (T)((a[i] + b[i] - 1) / b[i]);
      C04_CHECK_VEC(V, tdr, k, rm::divRoundUp(va, vb), ref, N, "a", a, N, "b", b, N);
      if (std::is_integral<T>::value)
        for (int i = 0; i < N; ++i)
          if (a[i] >= 0 && b[i] > 0 && (i128)a[i] + (i128)b[i] - 1 <= (i128)std::numeric_limits<decltype(T() + T())>::max()) {
            i128 A = (i128)a[i], B = (i128)b[i];
            T ceilq = (T)(A / B + (A % B != 0 ? 1 : 0));
            if (ref[i] != ceilq)
              failScalarF(tdr, k, "scalar-definition", (LD)ref[i], (LD)ceilq, ops);
          }
      tdr.tick(k);
    }
  }

  // ---------------------------------------------------------------- reductions
  template <typename T, typename F>
  inline void judgeSumOf(const Triple &tr, long k, T got, const T *a, int n, const F &ops, std::true_type)
  {
    static const int plus[4] = {1, 1, 1, 1};
    T ones[4] = {(T)1, (T)1, (T)1, (T)1};
    judgeDotLike(tr, k, "value", got, a, ones, plus, n, ops, std::true_type());
  }
  template <typename T, typename F>
  inline void judgeSumOf(const Triple &tr, long k, T got, const T *a, int n, const F &ops, std::false_type)
  {
    LD term[4], ref, tol;
    for (int j = 0; j < n; ++j)
      term[j] = a[j];
    int res = judgeSum<T>(got, term, n, n, &ref, &tol);
    if (res == 1)
      failSumF(tr, k, "value", (LD)got, ref, tol, ops);
  }
  template <typename T>
  inline bool sumSafe(const T *a, int n)
  {
    static const int plus[4] = {1, 1, 1, 1};
    T ones[4] = {(T)1, (T)1, (T)1, (T)1};
    return dotSafe(a, ones, plus, n);
  }
  template <typename T, typename F>
  inline void judgeProdOf(const Triple &tr, long k, T got, const T *a, int n, const F &ops, std::true_type)
  {
    T ref;
    if (intProd(a, n, ref) && got != ref)
      failScalarF(tr, k, "value", (LD)got, (LD)ref, ops);
  }
  template <typename T, typename F>
  inline void judgeProdOf(const Triple &tr, long k, T got, const T *a, int n, const F &ops, std::false_type)
  {
    typedef std::numeric_limits<T> L;
    bool inf = false, zero = false, neg = false;
    LD p = 1;
    for (int j = 0; j < n; ++j) {
      if (a[j] - a[j] != 0)
        inf = true;
      if (a[j] == 0)
        zero = true;
      if (std::signbit(a[j]))
        neg = !neg;
      p *= (LD)a[j];
    }
    bool ok;
    if (inf && zero)
      ok = got != got;
    else if (inf)
      ok = got == (neg ? -L::infinity() : L::infinity());
    else if (zero)
      ok = got == 0 && std::signbit(got) == neg;
    else {
      LD tol = (LD)n * (LD)L::epsilon() * (p < 0 ? -p : p), d = (LD)got - p;
      ok = (d < 0 ? -d : d) <= tol;
      if (!ok) {
        failSumF(tr, k, "value", (LD)got, p, tol, ops);
        return;
      }
    }
    if (!ok)
      failTextF(tr, k, "value", "wrong class/sign for a product with zero or infinite factors", ops);
  }
  template <typename T>
  __attribute__((noinline)) void fillForProduct(vh::Rng &r, T *a, int n, std::true_type)
  {
    typedef decltype(T() * T()) C;
    T dummy;
    for (int t = 0; t < 8; ++t) {
      if (t < 2)
        fillAny(r, a);
      else
        fillRanged(r, a, (CBits<C>::value) / n > 1 ? (CBits<C>::value) / n : 2);
      if (intProd(a, n, dummy))
        return;
    }
    fillSmall(r, a);
  }
  template <typename T>
  __attribute__((noinline)) void fillForProduct(vh::Rng &r, T *a, int, std::false_type)
  {
    typedef std::numeric_limits<T> L;
    for (int i = 0; i < 4; ++i)
      a[i] = r.chance(1, 3) ? (T)r.range(-9, 9) : Gen<T>::mag(r, -8, 8);
    if (r.chance(1, 8))
      a[r.below(4)] = r.chance(1, 2) ? L::infinity() : -L::infinity();
    if (r.chance(1, 8))
      a[r.below(4)] = r.chance(1, 2) ? (T)0 : -(T)0;
  }

  template <typename T, typename SH>
  inline void famReduce(vh::Rng &r)
  {
    typedef typename SH::template V<T>::type V;
    const int N = SH::N;
    Triple tadd("reduce_add", TN<T>::name(), SH::name()), tsum("member_sum", TN<T>::name(), SH::name()), tmul("reduce_mul", TN<T>::name(), SH::name()),
        tprod("member_product", TN<T>::name(), SH::name()), tlp("member_long_product", TN<T>::name(), SH::name()), tmin("reduce_min", TN<T>::name(), SH::name()),
        tmax("reduce_max", TN<T>::name(), SH::name());
    for (long k = 0; k < tuplesSame(); ++k) {
      T a[4];
      V v;
      // sums
      for (int t = 0;; ++t) {
        if (t < 3)
          fillAny(r, a);
        else if (t < 8)
          fillRanged(r, a, CBits<T>::value - 3);
        else
          fillSmall(r, a);
        if (sumSafe(a, N))
          break;
      }
      put(v, a);
      auto ops = C04_OPS(opsAdd(o, "a", a, N));
      judgeSumOf(tadd, k, (T)rm::reduce_add(v), a, N, ops, std::is_integral<T>());
      tadd.tick(k);
      judgeSumOf(tsum, k, (T)v.sum(), a, N, ops, std::is_integral<T>());
      tsum.tick(k);
      // min / max (value comparison: the order of the nested min/max is not prescribed)
      {
        T mn = a[0], mx = a[0];
        for (int i = 1; i < N; ++i) {
          if (a[i] < mn)
            mn = a[i];
          if (a[i] > mx)
            mx = a[i];
        }
        T g = rm::reduce_min(v);
        if (!(g == mn))
          failScalarF(tmin, k, "value", (LD)g, (LD)mn, ops);
        tmin.tick(k);
        g = rm::reduce_max(v);
        if (!(g == mx))
          failScalarF(tmax, k, "value", (LD)g, (LD)mx, ops);
        tmax.tick(k);
      }
      // products
      fillForProduct(r, a, N, std::is_integral<T>());
      put(v, a);
      judgeProdOf(tmul, k, (T)rm::reduce_mul(v), a, N, ops, std::is_integral<T>());
      tmul.tick(k);
      judgeProdOf(tprod, k, (T)v.product(), a, N, ops, std::is_integral<T>());
      tprod.tick(k);
      // long_product: size_t(x)*size_t(y)*... (wraps); floats restricted to [0, 2^15]
      if (std::is_floating_point<T>::value) {
        for (int i = 0; i < 4; ++i)
          a[i] = (T)(r.range(0, 32768 * 4) / (T)4 + (T)i / 8);
      } else
        fillAny(r, a);
      put(v, a);
      {
        size_t ref = 1;
        for (int i = 0; i < N; ++i)
          ref *= (size_t)a[i];
        size_t g = v.long_product();
        if (g != ref)
          failScalarF(tlp, k, "value", (LD)g, (LD)ref, ops);
        tlp.tick(k);
      }
    }
  }

  template <typename T, typename SH>
  inline void famArgMax(vh::Rng &r, std::true_type)
  {
    typedef typename SH::template V<T>::type V;
    const int N = SH::N;
    Triple tr("arg_max", TN<T>::name(), SH::name());
    for (long k = 0; k < tuplesSame() / 2 + 1; ++k) {
      T a[4];
      fillAny(r, a);
      if (r.chance(1, 6))
        a[r.below(N)] = a[r.below(N)];  // ties
      V v;
      put(v, a);
      size_t g = rm::arg_max(v);
      T mx = a[0];
      for (int i = 1; i < N; ++i)
        if (a[i] > mx)
          mx = a[i];
      if (!(g < (size_t)N) || !(a[g < (size_t)N ? g : 0] == mx))
        failScalarF(tr, k, "index", (LD)g, (LD)mx, C04_OPS(opsAdd(o, "a", a, N)));
      tr.tick(k);
    }
  }
  template <typename T, typename SH> inline void famArgMax(vh::Rng &, std::false_type) { }

  // ---------------------------------------------------------------- construction / indexing / pointer view / streaming
  template <typename T> inline vec_t<T, 2> byComponents(Int<2>, Int<0>, const T *a) { return vec_t<T, 2>(a[0], a[1]); }
  template <typename T> inline vec_t<T, 3> byComponents(Int<3>, Int<0>, const T *a) { return vec_t<T, 3>(a[0], a[1], a[2]); }
  template <typename T> inline vec_t<T, 3, true> byComponents(Int<3>, Int<1>, const T *a) { return vec_t<T, 3, true>(a[0], a[1], a[2]); }
  template <typename T> inline vec_t<T, 4> byComponents(Int<4>, Int<0>, const T *a) { return vec_t<T, 4>(a[0], a[1], a[2], a[3]); }

  template <typename T> inline void memberPtrs(const vec_t<T, 2> &v, const T **p) { p[0] = &v.x; p[1] = &v.y; }
  template <typename T> inline void memberPtrs(const vec_t<T, 3> &v, const T **p) { p[0] = &v.x; p[1] = &v.y; p[2] = &v.z; }
  template <typename T> inline void memberPtrs(const vec_t<T, 3, true> &v, const T **p) { p[0] = &v.x; p[1] = &v.y; p[2] = &v.z; }
  template <typename T> inline void memberPtrs(const vec_t<T, 4> &v, const T **p) { p[0] = &v.x; p[1] = &v.y; p[2] = &v.z; p[3] = &v.w; }

  template <typename T, typename SH>
  inline void famAccess(vh::Rng &r)
  {
    typedef typename SH::template V<T>::type V;
    const int N = SH::N;
    Triple tc("ctor_components", TN<T>::name(), SH::name()), tp("ctor_pointer", TN<T>::name(), SH::name()), tb("ctor_broadcast", TN<T>::name(), SH::name()),
        ti("index", TN<T>::name(), SH::name()), tv("pointer_view", TN<T>::name(), SH::name()), ts("stream", TN<T>::name(), SH::name()),
        tcp("copy_assign", TN<T>::name(), SH::name());
    for (long k = 0; k < tuplesSame() / 2 + 1; ++k) {
      T a[4], b[4], got[4];
      int wi = 0;
      fillAny(r, a);
      fillAny(r, b);
      auto ops = C04_OPS(opsAdd(o, "a", a, N));
      auto opsW = C04_OPS(opsAdd(o, "a", a, N); opsAdd(o, "written-value", &b[wi], 1); T w_ = (T)wi; opsAdd(o, "written-index", &w_, 1));
      {
        V v = byComponents(Int<SH::N>(), Int<SH::PAD>(), a);
        get(v, got);
        cmpArr(tc, k, got, a, N, ops);
        tc.tick(k);
      }
      {
        // exact-size heap copy: reading past the N-th element is an ASan report
        T *heap = new T[N];
        for (int i = 0; i < N; ++i)
          heap[i] = a[i];
        V v((const T *)heap);
        delete[] heap;
        get(v, got);
        cmpArr(tp, k, got, a, N, ops);
        tp.tick(k);
      }
      {
        V v(a[0]);
        T ref[4] = {a[0], a[0], a[0], a[0]};
        get(v, got);
        cmpArr(tb, k, got, ref, N, ops);
        tb.tick(k);
      }
      {
        V v;
        put(v, a);
        const V &cv = v;
        const T *mp[4];
        memberPtrs(cv, mp);
        for (int i = 0; i < N; ++i)
          got[i] = cv[i];
        cmpArr(ti, k, got, a, N, ops, "const-read");
        for (int i = 0; i < N; ++i)
          got[i] = v[i];
        cmpArr(ti, k, got, a, N, ops, "read");
        for (int i = 0; i < N; ++i)
          if (&cv[i] != mp[i] || &v[i] != mp[i])
            failTextF(ti, k, "address", "operator[] does not address the corresponding member", ops);
        // write through operator[]: exactly that member changes
        for (wi = 0; wi < N; ++wi) {
          put(v, a);
          v[wi] = b[wi];
          T exp[4] = {a[0], a[1], a[2], a[3]};
          exp[wi] = b[wi];
          get(v, got);
          cmpArr(ti, k, got, exp, N, opsW, "write");
        }
        ti.tick(k);
        // pointer view
        put(v, a);
        const T *cp = cv;
        T *p = v;
        for (int i = 0; i < N; ++i)
          got[i] = cp[i];
        cmpArr(tv, k, got, a, N, ops, "const-read");
        for (int i = 0; i < N; ++i)
          if (cp + i != mp[i] || p + i != mp[i])
            failTextF(tv, k, "address", "the pointer view does not address the corresponding member", ops);
        for (wi = 0; wi < N; ++wi) {
          put(v, a);
          p[wi] = b[wi];
          T exp[4] = {a[0], a[1], a[2], a[3]};
          exp[wi] = b[wi];
          get(v, got);
          cmpArr(tv, k, got, exp, N, opsW, "write");
        }
        wi = 0;
        tv.tick(k);
        // copy construction / assignment keep the components
        put(v, a);
        V c1(v), c2;
        put(c2, b);
        c2 = v;
        get(c1, got);
        cmpArr(tcp, k, got, a, N, ops, "copy-construct");
        get(c2, got);
        cmpArr(tcp, k, got, a, N, ops, "assign");
        tcp.tick(k);
      }
      if (k % 8 == 0) {
        V v;
        put(v, a);
        std::ostringstream o, e;
        o << v;
        e << "(";
        for (int i = 0; i < N; ++i) {
          if (i)
            e << ",";
          e << a[i];
        }
        e << ")";
        if (o.str() != e.str())
          failStream(ts, k, o.str(), e.str());
        ts.tick(k);
      }
    }
  }

  // ---------------------------------------------------------------- everything for one (T, shape)
  template <typename T, typename SH> struct CrossShape
  {
    static void run(vh::Rng &r)
    {
      famCompare<T, SH, SH>(r, SH::name());
      famDot<T, SH, SH>(r, SH::name());
    }
  };
  template <typename T> struct CrossShape<T, S3>
  {
    static void run(vh::Rng &r)
    {
      famCompare<T, S3, S3>(r, "3");
      famCompare<T, S3, S3a>(r, "3x3a");
      famDot<T, S3, S3>(r, "3");
      famDot<T, S3, S3a>(r, "3x3a");
      famCross<T, S3, S3>(r, "3");
      famCross<T, S3, S3a>(r, "3x3a");
      famMadd<T, S3>(r);
    }
  };
  template <typename T> struct CrossShape<T, S3a>
  {
    static void run(vh::Rng &r)
    {
      famCompare<T, S3a, S3a>(r, "3a");
      famCompare<T, S3a, S3>(r, "3ax3");
      famDot<T, S3a, S3a>(r, "3a");
      famDot<T, S3a, S3>(r, "3ax3");
      famCross<T, S3a, S3a>(r, "3a");
      famCross<T, S3a, S3>(r, "3ax3");
      famMadd<T, S3a>(r);
    }
  };

  template <typename T, typename SH>
  inline void runSameShape(vh::Rng &r)
  {
    typedef std::integral_constant<bool, std::is_floating_point<T>::value && detect::HasRsqrt<T>::value && detect::HasUlp<T>::value> CanNormalize;
    famUnary<T, SH>(r);
    famAbs<T, SH>(r, std::integral_constant<bool, detect::HasAbs<T>::value>());
    famRcp<T, SH>(r, std::integral_constant<bool, detect::HasRcp<T>::value && detect::HasRcpSafe<T>::value>());
    famTrig<T, SH>(r, std::integral_constant<bool, detect::HasSin<T>::value>());
    BinShape<T, ADD, SH>::run(r);
    BinShape<T, SUB, SH>::run(r);
    BinShape<T, MUL, SH>::run(r);
    BinShape<T, DIV, SH>::run(r);
    famMod<T, SH>(r, std::is_integral<T>());
    CrossShape<T, SH>::run(r);
    famLess<T, SH>(r);
    famLength<T, SH>(r, std::is_integral<T>());
    famNormalize<T, SH>(r, CanNormalize());
    famInterpolate<T, SH>(r);
    famFunctors<T, SH>(r);
    famReduce<T, SH>(r);
    famArgMax<T, SH>(r, std::integral_constant<bool, SH::PAD == 0>());
    famAccess<T, SH>(r);
  }

  template <typename T>
  inline void runSame(vh::Rng &r)
  {
    runSameShape<T, S2>(r);
    runSameShape<T, S3>(r);
    runSameShape<T, S3a>(r);
    runSameShape<T, S4>(r);
  }

}  // namespace c04
