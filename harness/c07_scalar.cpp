// C07 - scalar math kernels: accuracy / range contracts for every float.
//
// Oracles (all evaluated on return values of the REAL rkcommon functions):
//   rcp, rsqrt      |r*x-1| <= 2^-20, |r*sqrt(x)-1| <= 2^-20 for 2^-126 <= |x| < 2^126 (x>0 for rsqrt)
//   rcp_safe        finite and never of the opposite sign for every finite x
//   sign            -1 for x<0, +1 for x>0 and for zeros
//   clamp           result inside [lo,hi], equal to x when x is inside
//   divRoundUp      least q with q*b >= a, judged in 128-bit arithmetic
//   lerp/deg2rad/madd  long-double definitions with rounding-derived tolerances
//   sRGB packing    monotone over a sorted sweep of [-1,2], 0 at <=0, 255 at >=1, per channel
//   distributions   draws inside [lower-U, upper+U], reproducible from the seed
// The unary kernels and the sRGB sweep run over ALL bit patterns on the plain variants (and on
// every variant in the thorough tier); the asan quick run uses the sampled set.
#include "vh.h"

#include <cfloat>
#include <climits>
#include <cmath>
#include <cstring>
#include <limits>
#include <random>
#include <string>
#include <thread>
#include <vector>

#include "rkcommon/math/rkmath.h"
#include "rkcommon/math/vec.h"
#include "rkcommon/utility/random.h"

namespace rm = rkcommon::math;
namespace ru = rkcommon::utility;

// ------------------------------------------------------------------ helpers
static inline float fromBits(uint32_t b)
{
  float f;
  memcpy(&f, &b, 4);
  return f;
}
static inline uint32_t toBits(float f)
{
  uint32_t b;
  memcpy(&b, &f, 4);
  return b;
}
static std::string fs(float f)
{
  char b[64];
  snprintf(b, sizeof b, "%.9g[0x%08x]", (double)f, toBits(f));
  return b;
}
static std::string ds(double d)
{
  char b[64];
  snprintf(b, sizeof b, "%.17g", d);
  return b;
}
static std::string lds(long double d)
{
  char b[64];
  snprintf(b, sizeof b, "%.21Lg", d);
  return b;
}
static std::string u128s(unsigned __int128 v)
{
  if (v == 0)
    return "0";
  std::string s;
  while (v) {
    s.insert(s.begin(), char('0' + (int)(v % 10)));
    v /= 10;
  }
  return s;
}
static std::string log2s(double e)
{
  char b[64];
  if (e <= 0)
    return "0";
  snprintf(b, sizeof b, "2^%.2f", log2(e));
  return b;
}

// per-thread limiter: the sweeps may see one defect 2^32 times; report the first few only
struct Lim
{
  long n;
  Lim() : n(0) {}
};
#define LVIOL(lim, key, detail, ctx)       \
  do {                                     \
    if ((lim).n++ < 2)                     \
      vh::violation((key), (detail), (ctx)); \
  } while (0)

static int nThreads()
{
  unsigned h = std::thread::hardware_concurrency();
  if (h < 1)
    h = 1;
  return (int)(h > 16 ? 16 : h);
}

// run f(tid, chunkIndex) for chunkIndex in [0,nChunks) on the worker threads
template <class F>
static void parallelChunks(uint64_t nChunks, F f)
{
  int nt = nThreads();
  std::atomic<uint64_t> next(0);
  std::vector<std::thread> th;
  for (int t = 0; t < nt; ++t)
    th.push_back(std::thread([&, t]() {
      for (;;) {
        uint64_t c = next.fetch_add(1);
        if (c >= nChunks)
          break;
        f(t, c);
      }
    }));
  for (size_t i = 0; i < th.size(); ++i)
    th[i].join();
}

static double g_lapT;
static void lap(const char *name)
{
  double t = vh::now();
  char b[32];
  snprintf(b, sizeof b, "%.2f s", t - g_lapT);
  vh::note((std::string("time_") + name).c_str(), b);
  g_lapT = t;
}
static volatile float g_sinkF;
static volatile double g_sinkD;

// ------------------------------------------------------------------ unary float kernels
struct UStats
{
  uint64_t total, nonFinite, rcpIn, rcpOut, rsqrtIn, rsqrtOut, safeJudged, signJudged, suppressed;
  double worstRcp, worstRsqrt;
  uint32_t worstRcpBits, worstRsqrtBits;
  unsigned char seen[512];  // sign|exponent classes visited
  Lim lRcp, lRsqrt, lSafeFin[3], lSafeSign[3], lSignNeg, lSignPos, lSignZero;
  float sink;
  UStats()
  {
    memset(this, 0, sizeof(UStats));
  }
  void merge(const UStats &o)
  {
    total += o.total;
    nonFinite += o.nonFinite;
    rcpIn += o.rcpIn;
    rcpOut += o.rcpOut;
    rsqrtIn += o.rsqrtIn;
    rsqrtOut += o.rsqrtOut;
    safeJudged += o.safeJudged;
    signJudged += o.signJudged;
    if (o.worstRcp > worstRcp) {
      worstRcp     = o.worstRcp;
      worstRcpBits = o.worstRcpBits;
    }
    if (o.worstRsqrt > worstRsqrt) {
      worstRsqrt     = o.worstRsqrt;
      worstRsqrtBits = o.worstRsqrtBits;
    }
    for (int i = 0; i < 512; ++i)
      seen[i] |= o.seen[i];
    const Lim *ls[] = {&o.lRcp, &o.lRsqrt, &o.lSafeFin[0], &o.lSafeFin[1], &o.lSafeFin[2], &o.lSafeSign[0],
                       &o.lSafeSign[1], &o.lSafeSign[2], &o.lSignNeg, &o.lSignPos, &o.lSignZero};
    for (size_t i = 0; i < sizeof(ls) / sizeof(ls[0]); ++i)
      suppressed += ls[i]->n > 2 ? ls[i]->n - 2 : 0;
  }
};

static double TOL20;       // 2^-20
static float MIN_CONTRACT; // 2^-126
static float MAX_CONTRACT; // 2^126
static const char *CLS[3] = {"zero", "denormal", "normal"};

static inline void judgeUnary(uint32_t bits, UStats &S, const bool cnt = true)
{
  const float x  = fromBits(bits);
  const float ax = std::fabs(x);
  S.total += cnt;
  S.seen[bits >> 23] = 1;
  const bool finite  = ax <= FLT_MAX;  // false for NaN and inf
  // ---- sign
  const float sg = rm::sign(x);
  if (x < 0.f) {
    S.signJudged += cnt;
    if (!(sg == -1.0f))
      LVIOL(S.lSignNeg, "C07:sign:negative-input", "sign(x) != -1 for x < 0: got " + fs(sg), "x=" + fs(x));
  } else if (x > 0.f) {
    S.signJudged += cnt;
    if (!(sg == 1.0f))
      LVIOL(S.lSignPos, "C07:sign:positive-input", "sign(x) != +1 for x > 0: got " + fs(sg), "x=" + fs(x));
  } else if (x == 0.f) {
    S.signJudged += cnt;
    if (!(sg == 1.0f))
      LVIOL(S.lSignZero, "C07:sign:zero", "sign(+-0) != +1 (definition: x < 0 ? -1 : 1): got " + fs(sg), "x=" + fs(x));
  }
  // ---- rcp / rsqrt
  const float r  = rm::rcp(x);
  const float rs = rm::rsqrt(x);
  S.sink += r + rs;
  const bool inRange = ax >= MIN_CONTRACT && ax < MAX_CONTRACT;
  if (inRange) {
    S.rcpIn += cnt;
    const double err = std::fabs((double)r * (double)x - 1.0);
    if (!(err <= TOL20))
      LVIOL(S.lRcp, "C07:rcp:relative-error",
            "|rcp(x)*x-1| = " + ds(err) + " (" + log2s(err) + ") exceeds 2^-20; rcp(x)=" + fs(r), "x=" + fs(x));
    if (err > S.worstRcp) {
      S.worstRcp     = err;
      S.worstRcpBits = bits;
    }
    if (x > 0.f) {
      S.rsqrtIn += cnt;
      const double e2 = std::fabs((double)rs * std::sqrt((double)x) - 1.0);
      if (!(e2 <= TOL20 + 1e-15))
        LVIOL(S.lRsqrt, "C07:rsqrt:relative-error",
              "|rsqrt(x)*sqrt(x)-1| = " + ds(e2) + " (" + log2s(e2) + ") exceeds 2^-20; rsqrt(x)=" + fs(rs), "x=" + fs(x));
      if (e2 > S.worstRsqrt) {
        S.worstRsqrt     = e2;
        S.worstRsqrtBits = bits;
      }
    } else
      S.rsqrtOut += cnt;
  } else {
    S.rcpOut += cnt;
    S.rsqrtOut += cnt;
  }
  // ---- rcp_safe
  const float s = rm::rcp_safe(x);
  S.sink += s;
  if (finite) {
    S.safeJudged += cnt;
    const int cls = ax == 0.f ? 0 : (ax < FLT_MIN ? 1 : 2);
    if (!(std::fabs(s) <= FLT_MAX))
      LVIOL(S.lSafeFin[cls], std::string("C07:rcp_safe:not-finite:") + CLS[cls], "rcp_safe(x) is not finite: " + fs(s),
            "x=" + fs(x));
    else if ((x > 0.f && s < 0.f) || (x < 0.f && s > 0.f))
      LVIOL(S.lSafeSign[cls], std::string("C07:rcp_safe:opposite-sign:") + CLS[cls],
            "rcp_safe(x) has the opposite sign of x: " + fs(s), "x=" + fs(x));
  } else
    S.nonFinite += cnt;
}

// Fast path of the exhaustive sweep for a chunk that lies inside one sign|exponent class of NORMAL floats:
// the same verdicts as judgeUnary with the classification hoisted out of the loop; anything that is not
// clearly fine is handed to judgeUnary, which decides and reports.
template <bool IN_RANGE, bool NEG>
static void sweepNormalChunk(uint32_t lo, uint32_t n, UStats &S)
{
  const double hiQ = (1.0 + TOL20) * (1.0 + TOL20) * (1.0 - 1e-9), loQ = (1.0 - TOL20) * (1.0 - TOL20) * (1.0 + 1e-9);
  const float sgExpect = NEG ? -1.0f : 1.0f;
  double worstR = S.worstRcp, worstQ = 0;
  uint32_t worstRb = S.worstRcpBits, worstQb = 0;
  for (uint32_t k = 0; k < n; ++k) {
    const uint32_t bits = lo + k;
    const float x       = fromBits(bits);
    const float sg = rm::sign(x), r = rm::rcp(x), rs = rm::rsqrt(x), sf = rm::rcp_safe(x);
    bool ok = sg == sgExpect && std::fabs(sf) <= FLT_MAX && (NEG ? sf <= 0.f : sf >= 0.f);
    if (IN_RANGE) {
      const double err = std::fabs((double)r * (double)x - 1.0);
      ok               = ok && err <= TOL20;
      if (err > worstR) {
        worstR  = err;
        worstRb = bits;
      }
      if (!NEG) {
        const double q = (double)rs * (double)rs * (double)x;
        ok             = ok && q <= hiQ && q >= loQ;
        const double a = std::fabs(q - 1.0);
        if (a > worstQ) {
          worstQ  = a;
          worstQb = bits;
        }
      }
    } else
      S.sink += r + rs;
    if (!ok)
      judgeUnary(bits, S, false);
  }
  S.seen[lo >> 23] = 1;
  S.total += n;
  S.signJudged += n;
  S.safeJudged += n;
  if (IN_RANGE) {
    S.rcpIn += n;
    S.worstRcp     = worstR;
    S.worstRcpBits = worstRb;
    if (!NEG) {
      S.rsqrtIn += n;
      const float x   = fromBits(worstQb);
      const double e2 = std::fabs((double)rm::rsqrt(x) * std::sqrt((double)x) - 1.0);
      if (e2 > S.worstRsqrt) {
        S.worstRsqrt     = e2;
        S.worstRsqrtBits = worstQb;
      }
    } else
      S.rsqrtOut += n;
  } else {
    S.rcpOut += n;
    S.rsqrtOut += n;
  }
}

static void sweepChunk(uint32_t lo, uint32_t n, UStats &S)
{
  const uint32_t e = (lo >> 23) & 255, eLast = ((lo + (n - 1)) >> 23) & 255;
  const bool neg   = (lo >> 31) != 0;
  if (e == 0 || e == 255 || e != eLast || ((lo + (n - 1)) >> 31) != (lo >> 31)) {
    for (uint32_t k = 0; k < n; ++k)
      judgeUnary(lo + k, S);
    return;
  }
  const bool inRange = e <= 252;  // 2^-126 <= |x| < 2^126
  if (inRange)
    neg ? sweepNormalChunk<true, true>(lo, n, S) : sweepNormalChunk<true, false>(lo, n, S);
  else
    neg ? sweepNormalChunk<false, true>(lo, n, S) : sweepNormalChunk<false, false>(lo, n, S);
}

static void sampledPatterns(std::vector<uint32_t> &out, vh::Rng &r)
{
  // all 254 normal exponents x 4096 mantissa samples x both signs
  for (uint32_t sgn = 0; sgn < 2; ++sgn)
    for (uint32_t e = 1; e <= 254; ++e)
      for (uint32_t k = 0; k < 4096; ++k) {
        uint32_t m = (k << 11) | (uint32_t)(r.next() & 0x7FF);
        if (k == 0)
          m = 0;
        if (k == 4095)
          m = 0x7FFFFF;
        out.push_back((sgn << 31) | (e << 23) | m);
      }
  // every boundary pattern: zeros, denormals, inf, NaN, contract edges +- 4 patterns, 1.0 +- 4
  const uint32_t centres[] = {0x00000000u, 0x00000001u, 0x00400000u, 0x007FFFFFu, 0x00800000u /*2^-126*/,
                              0x7E800000u /*2^126*/, 0x7F000000u, 0x7F7FFFFFu /*FLT_MAX*/, 0x7F800000u /*inf*/,
                              0x7FC00000u /*qNaN*/, 0x7FFFFFFFu, 0x3F800000u /*1*/, 0x40000000u, 0x3F000000u,
                              0x7E000000u, 0x01000000u, 0x34000000u, 0x4B000000u, 0x4B800000u, 0x5F000000u,
                              0x1F800000u, 0x5F800000u, 0x20000000u};
  for (size_t i = 0; i < sizeof(centres) / sizeof(centres[0]); ++i)
    for (int d = -4; d <= 4; ++d)
      for (uint32_t sgn = 0; sgn < 2; ++sgn) {
        int64_t b = (int64_t)centres[i] + d;
        if (b < 0 || b > 0x7FFFFFFF)
          continue;
        out.push_back((uint32_t)b | (sgn << 31));
      }
  for (int i = 0; i < 4096; ++i) {  // random denormals and NaN payloads
    out.push_back((uint32_t)(r.next() & 0x807FFFFFu));
    out.push_back((uint32_t)(r.next() & 0x807FFFFFu) | 0x7F800000u);
  }
}

static void unaryKernels(bool full, vh::Rng &r)
{
  UStats S;
  if (full) {
    const int nt = nThreads();
    std::vector<UStats> per(nt);
    parallelChunks(1024, [&](int t, uint64_t c) {
      UStats &L   = per[t];
      sweepChunk((uint32_t)(c << 22), 1u << 22, L);
    });
    for (int t = 0; t < nt; ++t) {
      S.merge(per[t]);
      g_sinkF = per[t].sink;
    }
    vh::maxi("threads_used", nt);
    if (S.total != 4294967296ull)
      vh::inconclusive("exhaustive unary sweep visited " + std::to_string(S.total) + " patterns instead of 2^32");
  } else {
    std::vector<uint32_t> pats;
    sampledPatterns(pats, r);
    UStats L;
    for (size_t i = 0; i < pats.size(); ++i)
      judgeUnary(pats[i], L);
    g_sinkF = L.sink;
    S.merge(L);
  }
  vh::note("unary_sweep_mode", full ? "exhaustive: all 2^32 float bit patterns" : "sampled: 254 exponents x 4096 mantissas x 2 signs + boundary patterns");
  vh::count("unary_patterns_swept", (long long)S.total);
  vh::count("rcp_patterns_inside_contract_range", (long long)S.rcpIn);
  vh::count("rcp_patterns_outside_contract_range", (long long)S.rcpOut);
  vh::count("rsqrt_patterns_inside_contract_range", (long long)S.rsqrtIn);
  vh::count("rsqrt_patterns_outside_contract_range", (long long)S.rsqrtOut);
  vh::count("rcp_safe_finite_inputs_judged", (long long)S.safeJudged);
  vh::count("rcp_safe_nonfinite_inputs_not_judged", (long long)S.nonFinite);
  vh::count("sign_inputs_judged", (long long)S.signJudged);
  vh::count("sweep_violations_not_written_out", (long long)S.suppressed);
  vh::maxi("rcp_worst_relerr_times_2^40", (long long)(S.worstRcp * 1099511627776.0));
  vh::maxi("rsqrt_worst_relerr_times_2^40", (long long)(S.worstRsqrt * 1099511627776.0));
  vh::note("rcp_worst_relerr", log2s(S.worstRcp) + " at x=" + fs(fromBits(S.worstRcpBits)));
  vh::note("rsqrt_worst_relerr", log2s(S.worstRsqrt) + " at x=" + fs(fromBits(S.worstRsqrtBits)));
  // distinct descriptors: (kernel, sign|exponent class); non-trivial = class lies inside the contract range
  long long reg = 0;
  for (int c = 0; c < 512; ++c) {
    if (!S.seen[c])
      continue;
    int e        = c & 255;
    bool inRange = e >= 1 && e <= 252;
    vh::evaluated(vh::hash64(vh::hash64(7, 1), c), inRange);                  // rcp
    vh::evaluated(vh::hash64(vh::hash64(7, 2), c), inRange && c < 256);       // rsqrt
    vh::evaluated(vh::hash64(vh::hash64(7, 3), c), e != 255);                 // rcp_safe
    vh::evaluated(vh::hash64(vh::hash64(7, 4), c), e != 255);                 // sign
    reg += 4;
  }
  long long verdicts = (long long)(S.rcpIn + S.rsqrtIn + S.safeJudged + S.signJudged);
  if (verdicts > reg)
    vh::evaluatedN(verdicts - reg);
  vh::sample(vh::J().kv("kind", "unary sweep").kv("patterns", (unsigned long long)S.total).kv("rcp_worst", log2s(S.worstRcp)).kv("rsqrt_worst", log2s(S.worstRsqrt)).str(), 1);

  // double overloads (sampled): same contract, trivially met by 1./x
  Lim l1, l2, l3;
  long nd = (long)vh::tier(200000, 2000000);
  for (long i = 0; i < nd; ++i) {
    uint64_t b = r.next();
    if (i % 8 == 0)
      b &= 0x800FFFFFFFFFFFFFull;  // denormals / zero
    if (i % 8 == 1)
      b |= 0x7FE0000000000000ull;  // huge
    double x;
    memcpy(&x, &b, 8);
    double ax = std::fabs(x);
    if (!(ax <= DBL_MAX))
      continue;
    double s = rm::rcp_safe(x);
    g_sinkD  = s;
    if (!(std::fabs(s) <= DBL_MAX))
      LVIOL(l1, "C07:rcp_safe-double:not-finite", "rcp_safe(double) not finite: " + ds(s), "x=" + ds(x));
    else if ((x > 0 && s < 0) || (x < 0 && s > 0))
      LVIOL(l2, "C07:rcp_safe-double:opposite-sign", "rcp_safe(double) has opposite sign: " + ds(s), "x=" + ds(x));
    if (ax >= ldexp(1.0, -126) && ax < ldexp(1.0, 126)) {
      long double e1 = fabsl((long double)rm::rcp(x) * x - 1.0L);
      long double e2 = x > 0 ? fabsl((long double)rm::rsqrt(x) * sqrtl((long double)x) - 1.0L) : 0.0L;
      if (!(e1 <= TOL20) || !(e2 <= TOL20))
        LVIOL(l3, "C07:rcp-rsqrt-double:relative-error", "double rcp/rsqrt off by more than 2^-20", "x=" + ds(x));
    }
  }
  vh::evaluatedN(nd);
  vh::count("double_overload_inputs", nd);
}

// ------------------------------------------------------------------ type helpers
template <class T> struct TN;
#define TNAME(T)                              \
  template <> struct TN<T>                    \
  {                                           \
    static const char *n() { return #T; }     \
  }
TNAME(int8_t);
TNAME(uint8_t);
TNAME(int16_t);
TNAME(uint16_t);
TNAME(int32_t);
TNAME(uint32_t);
TNAME(int64_t);
TNAME(uint64_t);
TNAME(long long);
TNAME(unsigned long long);
TNAME(float);
TNAME(double);

static std::string i128s(__int128 v)
{
  return v < 0 ? "-" + u128s((unsigned __int128)(-v)) : u128s((unsigned __int128)v);
}
template <class T>
static std::string vs(T v)
{
  return i128s((__int128)v);
}
template <> std::string vs<float>(float v) { return fs(v); }
template <> std::string vs<double>(double v) { return ds(v); }

// boundary-heavy integer grid: 0, +-1, min/max, powers of two +- 1, thirds/halves of max
template <class T>
static std::vector<T> intGrid(bool nonNegativeOnly)
{
  const __int128 mn = std::numeric_limits<T>::min(), mx = std::numeric_limits<T>::max();
  std::vector<__int128> c;
  for (int v = 0; v <= 10; ++v)
    c.push_back(v);
  c.push_back(100);
  c.push_back(1000);
  for (int k = 3; k <= 64; ++k) {
    __int128 p = (__int128)1 << k;
    if (k <= 10 || k % 8 == 0 || k % 8 == 7 || k == 62 || k == 63 || k == 30 || k == 33) {
      c.push_back(p - 1);
      c.push_back(p);
      c.push_back(p + 1);
    }
  }
  __int128 extra[] = {mx, mx - 1, mx - 2, mx - 3, mx / 2 - 1, mx / 2, mx / 2 + 1, mx / 2 + 2, mx / 3, mx / 3 + 1, mx - mx / 3};
  for (size_t i = 0; i < sizeof(extra) / sizeof(extra[0]); ++i)
    c.push_back(extra[i]);
  std::set<__int128> u;
  for (size_t i = 0; i < c.size(); ++i) {
    if (c[i] >= mn && c[i] <= mx)
      u.insert(c[i]);
    if (!nonNegativeOnly && -c[i] >= mn && -c[i] <= mx)
      u.insert(-c[i]);
  }
  if (!nonNegativeOnly) {
    u.insert(mn);
    u.insert(mn + 1);
  }
  std::vector<T> out;
  for (std::set<__int128>::iterator i = u.begin(); i != u.end(); ++i)
    out.push_back((T)*i);
  return out;
}

template <class T>
static T randInt(vh::Rng &r, bool nonNegativeOnly)
{
  int bits     = (int)r.range(0, (int)(sizeof(T) * 8));
  uint64_t raw = bits == 0 ? 0 : (r.next() >> (64 - bits));
  T v          = (T)raw;  // modular conversion: well defined for unsigned, implementation-defined (wrap) for signed
  if (nonNegativeOnly && v < 0)
    v = (T)(-(v + 1));
  return v;
}

static std::vector<float> floatGrid(bool withInf, int maxExp)
{
  std::vector<float> g;
  const float base[] = {0.f, 1.f, 0.5f, 2.f, 3.f, 255.f, 0.1f, 1e-3f, 180.f, 360.f};
  for (size_t i = 0; i < sizeof(base) / sizeof(base[0]); ++i)
    g.push_back(base[i]);
  g.push_back(std::numeric_limits<float>::denorm_min());
  g.push_back(FLT_MIN);
  g.push_back(std::nextafter(FLT_MIN, 0.f));
  const int ks[] = {-126, -100, -60, -24, -23, -10, -1, 0, 1, 8, 23, 24, 31, 32, 60, 64, 100, 126, 127};
  for (size_t i = 0; i < sizeof(ks) / sizeof(ks[0]); ++i) {
    if (ks[i] > maxExp || ks[i] < -maxExp - 66)
      continue;
    float p = std::ldexp(1.f, ks[i]);
    g.push_back(p);
    g.push_back(std::nextafter(p, 0.f));
    g.push_back(std::nextafter(p, FLT_MAX));
  }
  if (maxExp >= 127)
    g.push_back(FLT_MAX);
  if (withInf)
    g.push_back(std::numeric_limits<float>::infinity());
  std::vector<float> out;
  for (size_t i = 0; i < g.size(); ++i) {
    if (std::fabs(g[i]) > std::ldexp(1.f, maxExp) * 1.5f && std::fabs(g[i]) <= FLT_MAX && maxExp < 127)
      continue;
    out.push_back(g[i]);
    out.push_back(-g[i]);
  }
  return out;
}

static float randFloat(vh::Rng &r, int minExp, int maxExp)
{
  // log-uniform magnitude with a random mantissa, random sign; sometimes zero / a small integer
  unsigned w = (unsigned)r.below(16);
  if (w == 0)
    return r.chance(1, 2) ? 0.f : -0.f;
  if (w == 1)
    return (float)r.range(-300, 300);
  int e      = (int)r.range(minExp, maxExp);
  float m    = 1.f + (float)(r.next() >> 41) * (1.0f / 8388608.0f);
  float v    = std::ldexp(m, e);
  return r.chance(1, 2) ? v : -v;
}

// ------------------------------------------------------------------ clamp
static long g_clampCases, g_clampInside;

template <class T>
static void judgeClampR(T x, T lo, T hi, bool viaDefault, T r)
{
  const bool inBounds = lo <= r && r <= hi;
  const bool inside   = lo <= x && x <= hi;
  if (!inBounds || (inside && !(r == x))) {
    std::string ctx = std::string("clamp<") + TN<T>::n() + ">(x=" + vs<T>(x) + ", lower=" + vs<T>(lo) + ", upper=" + vs<T>(hi) +
                      (viaDefault ? ") [default bounds]" : ")");
    if (!inBounds)
      vh::violation("C07:clamp:outside-bounds", "result " + vs<T>(r) + " is outside [lower,upper]", ctx);
    if (inside && !(r == x))
      vh::violation("C07:clamp:inside-not-identity", "x is inside [lower,upper] but the result is " + vs<T>(r), ctx);
  }
  g_clampCases++;
  g_clampInside += inside;
}

template <class T>
static void judgeClamp(T x, T lo, T hi, bool viaDefault)
{
  if (!(lo <= hi) || x != x)
    return;
  judgeClampR<T>(x, lo, hi, false, rm::clamp<T>(x, lo, hi));
}
// default bounds T(zero)/T(one): only for the types constants.h converts to (int8_t = signed char is not one of them)
template <class T>
static void judgeClampDefault(T x)
{
  if (x != x)
    return;
  judgeClampR<T>(x, (T)0, (T)1, true, rm::clamp<T>(x));
}
template <> void judgeClampDefault<int8_t>(int8_t) {}

template <class T>
static void clampInts(vh::Rng &r, int typeNo)
{
  std::vector<T> g = intGrid<T>(false);
  // thin the grid for the cubic product: keep every value of the small types, ~40 of the large
  std::vector<T> t;
  size_t step = g.size() > 44 ? (g.size() + 43) / 44 : 1;
  for (size_t i = 0; i < g.size(); ++i)
    if (i % step == 0 || i + 3 >= g.size() || i < 3 || (g[i] >= -2 && g[i] <= 2))
      t.push_back(g[i]);
  long before = g_clampCases;
  for (size_t a = 0; a < t.size(); ++a)
    for (size_t b = 0; b < t.size(); ++b)
      for (size_t c = b; c < t.size(); ++c)
        judgeClamp<T>(t[a], t[b], t[c], false);
  for (size_t a = 0; a < g.size(); ++a)
    judgeClampDefault<T>(g[a]);
  long n = (long)vh::tier(20000, 400000);
  for (long i = 0; i < n; ++i) {
    T x = r.chance(1, 4) ? g[r.below(g.size())] : randInt<T>(r, false);
    T l = r.chance(1, 4) ? g[r.below(g.size())] : randInt<T>(r, false);
    T u = r.chance(1, 4) ? g[r.below(g.size())] : randInt<T>(r, false);
    if (u < l)
      std::swap(l, u);
    if (r.chance(1, 8))
      u = l;
    if (r.chance(1, 4))
      x = r.chance(1, 2) ? l : u;
    judgeClamp<T>(x, l, u, false);
  }
  vh::evaluated(vh::hash64(11, typeNo), true);
  vh::evaluatedN(g_clampCases - before - 1);
}

static void clampFloats(vh::Rng &r)
{
  std::vector<float> g = floatGrid(true, 127);
  long before          = g_clampCases;
  for (size_t a = 0; a < g.size(); ++a) {
    judgeClampDefault<float>(g[a]);
    judgeClampDefault<double>((double)g[a]);
    for (size_t b = 0; b < g.size(); ++b)
      for (size_t c = 0; c < g.size(); ++c) {
        judgeClamp<float>(g[a], g[b], g[c], false);
        if ((a + b + c) % 7 == 0)
          judgeClamp<double>((double)g[a] * 1.0000000001, (double)g[b], (double)g[c], false);
      }
  }
  long n = (long)vh::tier(200000, 4000000);
  for (long i = 0; i < n; ++i) {
    float x = r.chance(1, 4) ? g[r.below(g.size())] : randFloat(r, -149, 127);
    float l = r.chance(1, 4) ? g[r.below(g.size())] : randFloat(r, -149, 127);
    float u = r.chance(1, 4) ? g[r.below(g.size())] : randFloat(r, -149, 127);
    if (u < l)
      std::swap(l, u);
    if (r.chance(1, 8))
      u = l;
    if (r.chance(1, 8))
      x = r.chance(1, 2) ? l : u;
    if (r.chance(1, 8))
      x = std::nextafter(r.chance(1, 2) ? l : u, r.chance(1, 2) ? -FLT_MAX : FLT_MAX);
    judgeClamp<float>(x, l, u, false);
    if (i % 4 == 0)
      judgeClamp<double>((double)x + (double)l * 1e-12, (double)l, (double)u, false);
  }
  vh::evaluated(vh::hash64(11, 100), true);
  vh::evaluated(vh::hash64(11, 101), true);
  vh::evaluatedN(g_clampCases - before - 2);
}

// ------------------------------------------------------------------ divRoundUp
struct DCase
{
  int type;
  uint64_t a, b;
};
static long g_divCases, g_divInexact;

template <class T>
static bool divOverflows(uint64_t a, uint64_t b)
{
  // a + b - 1 is evaluated in T (or int for the types that promote): does it leave the range?
  // the library evaluates (a + b) - 1 left to right, so the intermediate a + b already decides
  if (sizeof(T) < sizeof(int))
    return false;
  unsigned __int128 s = (unsigned __int128)a + b;
  return s > (unsigned __int128)std::numeric_limits<T>::max();
}

template <class T>
static void judgeDiv(uint64_t a64, uint64_t b64, bool overflowClass, long caseNo)
{
  volatile T va = (T)a64, vb = (T)b64;
  T a = va, b = vb;
  T q = rm::divRoundUp<T>(a, b);
  __int128 Q = (__int128)q, A = (__int128)a, B = (__int128)b;
  __int128 expect = (A + B - 1) / B;
  bool ok         = Q >= 0 && Q * B >= A && (Q == 0 || (Q - 1) * B < A);
  if (!ok) {
    std::string ctx = (caseNo >= 0 ? "#" + std::to_string(caseNo) + " " : std::string()) + "divRoundUp<" + TN<T>::n() +
                      ">(a=" + i128s(A) + ", b=" + i128s(B) + ")";
    vh::violation(overflowClass ? "C07:divRoundUp:overflow-near-max" : "C07:divRoundUp:not-least-quotient",
                  "got " + i128s(Q) + ", the least q with q*b >= a is " + i128s(expect) +
                      (overflowClass ? " (the intermediate a+b does not fit the type)" : ""),
                  ctx);
  }
  g_divCases++;
  g_divInexact += (A % B) != 0;
  if (overflowClass)
    vh::count("divRoundUp_cases_with_a+b_beyond_type_max");  // runs in a forked child: flushed at its exit
}

static void dispatchDiv(const DCase &c, bool ovf, long caseNo)
{
  switch (c.type) {
  case 0: judgeDiv<int8_t>(c.a, c.b, ovf, caseNo); break;
  case 1: judgeDiv<uint8_t>(c.a, c.b, ovf, caseNo); break;
  case 2: judgeDiv<int16_t>(c.a, c.b, ovf, caseNo); break;
  case 3: judgeDiv<uint16_t>(c.a, c.b, ovf, caseNo); break;
  case 4: judgeDiv<int32_t>(c.a, c.b, ovf, caseNo); break;
  case 5: judgeDiv<uint32_t>(c.a, c.b, ovf, caseNo); break;
  case 6: judgeDiv<int64_t>(c.a, c.b, ovf, caseNo); break;
  case 7: judgeDiv<uint64_t>(c.a, c.b, ovf, caseNo); break;
  case 8: judgeDiv<long long>(c.a, c.b, ovf, caseNo); break;
  case 9: judgeDiv<unsigned long long>(c.a, c.b, ovf, caseNo); break;
  }
}
// The overflow class: a fixed subset independent of the random stream (so that "#k" replays).  Under
// UBSan every signed case aborts its child (about 0.25 s each for the symbolised report), so the
// sanitizer builds keep three signed cases per type; the plain builds judge all of them.
static void buildOverflowSubset(std::vector<DCase> &overflow)
{
  for (int t = 4; t < 10; ++t) {
    const bool sg       = t % 2 == 0;
    const uint64_t M    = t < 6 ? (sg ? 0x7FFFFFFFull : 0xFFFFFFFFull) : (sg ? 0x7FFFFFFFFFFFFFFFull : 0xFFFFFFFFFFFFFFFFull);
    const uint64_t as[] = {M, M - 1, M - 2, M / 2 + 1, M - M / 3};
    const uint64_t bs[] = {2, 1, M, 3, 7, M / 2, M - 1};
    int kept = 0;
    for (size_t j = 0; j < 7; ++j)
      for (size_t i = 0; i < 5; ++i) {
        unsigned __int128 s = (unsigned __int128)as[i] + bs[j];
        if (s <= (unsigned __int128)M)
          continue;
#if defined(__SANITIZE_ADDRESS__)
        if (sg && kept >= 3)
          continue;
#endif
        DCase c = {t, as[i], bs[j]};
        overflow.push_back(c);
        ++kept;
      }
  }
}
static const char *DIVT[10] = {"int8_t", "uint8_t", "int16_t", "uint16_t", "int32_t", "uint32_t", "int64_t", "uint64_t", "long long", "unsigned long long"};

template <class T>
static void divCasesFor(int type, vh::Rng &r, std::vector<DCase> &overflow)
{
  std::vector<T> g = intGrid<T>(true);
  long skipped = 0, before = g_divCases;
  for (size_t i = 0; i < g.size(); ++i)
    for (size_t j = 0; j < g.size(); ++j) {
      if (g[j] == 0)
        continue;
      DCase c = {type, (uint64_t)g[i], (uint64_t)g[j]};
      if (divOverflows<T>(c.a, c.b)) {
        ++skipped;
        continue;
      }
      dispatchDiv(c, false, -1);
    }
  long n = (long)vh::tier(30000, 600000);
  for (long i = 0; i < n; ++i) {
    T a = r.chance(1, 5) ? g[r.below(g.size())] : randInt<T>(r, true);
    T b = r.chance(1, 5) ? g[r.below(g.size())] : randInt<T>(r, true);
    if (r.chance(1, 6) && b != 0)  // exact multiples and their neighbours
    {
      T k = (T)r.range(0, 9);
      __int128 m = (__int128)k * b + r.range(-1, 1);
      if (m >= 0 && m <= (__int128)std::numeric_limits<T>::max())
        a = (T)m;
    }
    if (b == 0)
      b = 1;
    DCase c = {type, (uint64_t)a, (uint64_t)b};
    if (divOverflows<T>(c.a, c.b)) {
      ++skipped;
      continue;
    }
    dispatchDiv(c, false, -1);
  }
  vh::count("divRoundUp_overflowing_pairs_routed_to_forked_subset", skipped);
  vh::evaluated(vh::hash64(13, type), true);
  vh::evaluatedN(g_divCases - before - 1);
}

// ------------------------------------------------------------------ lerp / deg2rad / madd
static const long double EPSF = 5.9604644775390625e-8L;  // 2^-24: unit roundoff of float (max relative error of one rounding)
static const long double DMIN = 1.4012984643248171e-45L; // 2^-149 (as a bound, slightly above)

static void judgeMadd(float a, float b, float c)
{
  float r          = rm::madd(a, b, c);
  long double ab   = (long double)a * b;  // exact (48-bit product)
  long double ref  = ab + c;
  long double tol  = EPSF * 1.0001L * (fabsl(ab) + fabsl(ref)) + 2 * DMIN;
  if (!(fabsl((long double)r - ref) <= tol))
    vh::violation("C07:madd:definition", "madd(a,b,c)=" + fs(r) + " but a*b+c=" + lds(ref) + " (tolerance " + lds(tol) + ")",
                  "a=" + fs(a) + " b=" + fs(b) + " c=" + fs(c));
}

template <class T>
static void judgeLerpScalar(float f, T a, T b, const char *what, T got)
{
  long double omf = 1.0L - (long double)f;
  long double t1 = omf * (long double)a, t2 = (long double)f * (long double)b;
  long double ref = t1 + t2;
  long double tol = 3.01L * EPSF * (fabsl(t1) + fabsl(t2)) + 4 * DMIN;
  if (!(fabsl((long double)got - ref) <= tol))
    vh::violation(std::string("C07:lerp:definition:") + what,
                  "lerp(f,a,b)=" + lds(got) + " but (1-f)*a+f*b=" + lds(ref) + " (tolerance " + lds(tol) + ")",
                  "f=" + fs(f) + " a=" + lds(a) + " b=" + lds(b));
}

static void judgeDeg2rad(float x)
{
  static const long double K = 0.017453292519943295769236907684886L;
  {
    float r         = rm::deg2rad<float>(x);
    long double ref = (long double)x * K;
    long double tol = 2.01L * EPSF * fabsl(ref) + DMIN;  // two roundings (constant, product) of 2^-24 each
    if (!(fabsl((long double)r - ref) <= tol))
      vh::violation("C07:deg2rad:definition:float", "deg2rad(x)=" + fs(r) + " but x*pi/180=" + lds(ref), "x=" + fs(x));
  }
  {
    double xd       = (double)x * 1.000000123;
    double r        = rm::deg2rad<double>(xd);
    long double ref = (long double)xd * K;
    long double tol = 2.3e-16L * fabsl(ref) + 1e-323L;
    if (!(fabsl((long double)r - ref) <= tol))
      vh::violation("C07:deg2rad:definition:double", "deg2rad(x)=" + ds(r) + " but x*pi/180=" + lds(ref), "x=" + ds(xd));
  }
}

static void definitions(vh::Rng &r)
{
  std::vector<float> g = floatGrid(false, 60);
  std::vector<float> fg;
  const float fb[] = {0.f, 1.f, 0.5f, 0.25f, 0.75f, -1.f, 2.f, 3.f, -2.f, 1e-3f, 0.999f, 1e-8f};
  for (size_t i = 0; i < sizeof(fb) / sizeof(fb[0]); ++i)
    fg.push_back(fb[i]);
  fg.push_back(std::nextafter(1.f, 0.f));
  fg.push_back(std::nextafter(1.f, 2.f));
  fg.push_back(std::nextafter(0.f, 1.f));
  fg.push_back(-std::nextafter(0.f, 1.f));
  fg.push_back(std::nextafter(0.5f, 1.f));
  long n = 0;
  // madd: grid^3 (thinned) + random
  for (size_t a = 0; a < g.size(); ++a)
    for (size_t b = 0; b < g.size(); ++b)
      for (size_t c = (a + b) % 3; c < g.size(); c += 3) {
        judgeMadd(g[a], g[b], g[c]);
        ++n;
      }
  long nr = (long)vh::tier(300000, 6000000);
  for (long i = 0; i < nr; ++i) {
    float a = r.chance(1, 6) ? g[r.below(g.size())] : randFloat(r, -70, 60);
    float b = r.chance(1, 6) ? g[r.below(g.size())] : randFloat(r, -70, 60);
    float c = r.chance(1, 6) ? g[r.below(g.size())] : randFloat(r, -70, 60);
    if (r.chance(1, 6))
      c = -(a * b);  // cancellation
    judgeMadd(a, b, c);
    ++n;
  }
  vh::count("madd_cases", n);
  vh::evaluated(vh::hash64(17, 1), true);
  vh::evaluatedN(n - 1);
  // lerp: factor grid x value grid^2 + random; float, double and vec3f instantiations
  long nl = 0;
  for (size_t fi = 0; fi < fg.size(); ++fi)
    for (size_t a = 0; a < g.size(); ++a)
      for (size_t b = 0; b < g.size(); ++b) {
        float f = fg[fi];
        judgeLerpScalar<float>(f, g[a], g[b], "float", rm::lerp<float>(f, g[a], g[b]));
        if ((a + b) % 4 == 0) {
          double da = (double)g[a] * 1.0000001, db = (double)g[b] * 0.9999999;
          judgeLerpScalar<double>(f, da, db, "double", rm::lerp<double>(f, da, db));
        }
        ++nl;
      }
  for (long i = 0; i < nr; ++i) {
    float f = r.chance(1, 4) ? fg[r.below(fg.size())] : (float)r.real(-2.0, 3.0);
    float a = r.chance(1, 6) ? g[r.below(g.size())] : randFloat(r, -70, 60);
    float b = r.chance(1, 6) ? g[r.below(g.size())] : randFloat(r, -70, 60);
    judgeLerpScalar<float>(f, a, b, "float", rm::lerp<float>(f, a, b));
    if (i % 4 == 0) {
      double da = (double)a * r.real(0.5, 2.0), db = (double)b * r.real(0.5, 2.0);
      judgeLerpScalar<double>(f, da, db, "double", rm::lerp<double>(f, da, db));
    }
    if (i % 4 == 1) {
      float a2 = randFloat(r, -20, 20), b2 = randFloat(r, -20, 20), a3 = randFloat(r, -5, 5), b3 = randFloat(r, -5, 5);
      rm::vec3f va(a, a2, a3), vb(b, b2, b3);
      rm::vec3f vr = rm::lerp<rm::vec3f>(f, va, vb);
      judgeLerpScalar<float>(f, va.x, vb.x, "vec3f", vr.x);
      judgeLerpScalar<float>(f, va.y, vb.y, "vec3f", vr.y);
      judgeLerpScalar<float>(f, va.z, vb.z, "vec3f", vr.z);
    }
    ++nl;
  }
  vh::count("lerp_cases", nl);
  vh::evaluated(vh::hash64(17, 2), true);
  vh::evaluatedN(nl - 1);
  // deg2rad
  std::vector<float> gd = floatGrid(false, 127);
  long ndg = 0;
  for (size_t a = 0; a < gd.size(); ++a, ++ndg)
    judgeDeg2rad(gd[a]);
  for (long i = 0; i < nr; ++i, ++ndg)
    judgeDeg2rad(i % 3 == 0 ? (float)r.real(-720.0, 720.0) : randFloat(r, -149, 127));
  {
    // the constants the kernels are built from
    float piF = rm::pi;
    long double e = fabsl((long double)rm::deg2rad<float>(180.f) - (long double)piF);
    VH_CHECK(e <= 2.4e-7L, "C07:deg2rad:pi", "deg2rad(180) is not within one ulp of the pi constant: " + fs(rm::deg2rad<float>(180.f)), "x=180");
    VH_CHECK(float(rm::zero) == 0.f && float(rm::one) == 1.f && int(rm::zero) == 0 && int(rm::one) == 1 && double(rm::one) == 1.0,
             "C07:constants:zero-one", "zero/one (clamp's default bounds) do not convert to 0 and 1", "constants.h");
  }
  vh::count("deg2rad_cases", ndg);
  vh::evaluated(vh::hash64(17, 3), true);
  vh::evaluatedN(ndg - 1);
}

// ------------------------------------------------------------------ sRGB packing
// sorted sweep index -> float: idx 0 = -1.0 ... N_NEG-1 = -0.0, N_NEG = +0.0 ... N_ALL-1 = 2.0
static const uint32_t NEG_ONE_BITS = 0xBF800000u, TWO_BITS = 0x40000000u;
static const uint64_t N_NEG = (uint64_t)(NEG_ONE_BITS - 0x80000000u) + 1;
static const uint64_t N_ALL = N_NEG + (uint64_t)TWO_BITS + 1;
static inline float sweepValue(uint64_t idx)
{
  return idx < N_NEG ? fromBits(NEG_ONE_BITS - (uint32_t)idx) : fromBits((uint32_t)(idx - N_NEG));
}

struct Packed
{
  uint32_t p8, c4, c1;
  float x;
};
struct SStats
{
  uint64_t n, transitions, suppressed;
  unsigned char seen[256];
  Lim lZero, lFull, lMono, lMonoC, lChan;
  SStats() { memset(this, 0, sizeof(SStats)); }
};

// allCh: x in every channel; otherwise x in red and alpha only (green/blue = 0 must then pack to 0)
static inline Packed packAll(float x, bool allCh = true)
{
  Packed p;
  p.x  = x;
  p.p8 = allCh ? rm::linear_to_srgba8(rm::vec4f(x, x, x, x)) : rm::linear_to_srgba8(rm::vec4f(x, 0.f, 0.f, x));
  p.c1 = rm::cvt_uint32(x);
  p.c4 = allCh ? rm::cvt_uint32(rm::vec4f(x, x, x, x)) : p.c1 * 0x01010101u;  // red/alpha-only sweep: vec4 form left to the sampled pass
  return p;
}
static std::string hx(uint32_t v)
{
  char b[16];
  snprintf(b, sizeof b, "0x%08x", v);
  return b;
}

static inline void judgePacked(const Packed &p, const Packed *prev, SStats &S, bool allCh = true)
{
  S.n++;
  S.seen[p.p8 & 255] = 1;
  const float x = p.x;
  if (x <= 0.f && (p.p8 != 0 || p.c4 != 0 || p.c1 != 0))
    LVIOL(S.lZero, "C07:srgb:not-zero-at-nonpositive", "packing of x <= 0 is not 0: srgba8=" + hx(p.p8) + " cvt(vec4)=" + hx(p.c4) + " cvt(float)=" + hx(p.c1),
          "x=" + fs(x));
  if (!allCh && (p.p8 & 0x00FFFF00u) != 0)
    LVIOL(S.lChan, "C07:srgb:channel-crosstalk", "green/blue bytes are not 0 although only red and alpha are set: " + hx(p.p8), "x=" + fs(x));
  if (x >= 1.f && (p.p8 != (allCh ? 0xFFFFFFFFu : 0xFF0000FFu) || p.c4 != 0xFFFFFFFFu || p.c1 != 255))
    LVIOL(S.lFull, "C07:srgb:not-255-at-one-or-above",
          "packing of x >= 1 is not 255 per channel: srgba8=" + hx(p.p8) + " cvt(vec4)=" + hx(p.c4) + " cvt(float)=" + hx(p.c1), "x=" + fs(x));
  // byte k of cvt_uint32(vec4) is cvt_uint32(channel k)
  if (p.c1 > 255 || p.c4 != (p.c1 | (p.c1 << 8) | (p.c1 << 16) | (p.c1 << 24)))
    LVIOL(S.lChan, "C07:cvt_uint32:channel-mismatch", "cvt_uint32(vec4f(x,x,x,x))=" + hx(p.c4) + " is not cvt_uint32(x)=" + hx(p.c1) + " in every byte", "x=" + fs(x));
  if (prev) {
    for (int k = 0; k < 4; ++k) {
      uint32_t a = (prev->p8 >> (8 * k)) & 255, b = (p.p8 >> (8 * k)) & 255;
      if (b < a)
        LVIOL(S.lMono, "C07:srgb:not-monotone", "linear_to_srgba8 byte " + std::to_string(k) + " decreases from " + std::to_string(a) + " to " + std::to_string(b),
              "x0=" + fs(prev->x) + " x1=" + fs(x));
      uint32_t c = (prev->c4 >> (8 * k)) & 255, d = (p.c4 >> (8 * k)) & 255;
      if (d < c || p.c1 < prev->c1)
        LVIOL(S.lMonoC, "C07:cvt_uint32:not-monotone", "cvt_uint32 byte " + std::to_string(k) + " decreases from " + std::to_string(c) + " to " + std::to_string(d),
              "x0=" + fs(prev->x) + " x1=" + fs(x));
    }
    if ((prev->p8 & 255) != (p.p8 & 255))
      S.transitions++;
  }
}

static void srgbSweep(bool full, vh::Rng &r)
{
  SStats S;
  const bool allCh = vh::thorough();  // quick: red+alpha at every float, green/blue through the sampled pass below
  if (full) {
    const int nt          = nThreads();
    const uint64_t CH     = 1u << 20;
    const uint64_t chunks = (N_ALL + CH - 1) / CH;
    std::vector<SStats> per(nt);
    parallelChunks(chunks, [&](int t, uint64_t c) {
      SStats &L   = per[t];
      uint64_t lo = c * CH, hi = lo + CH < N_ALL ? lo + CH : N_ALL;
      Packed prev;
      bool has = lo > 0;
      if (has)
        prev = packAll(sweepValue(lo - 1), allCh);
      for (uint64_t i = lo; i < hi; ++i) {
        Packed p = packAll(sweepValue(i), allCh);
        judgePacked(p, has ? &prev : 0, L, allCh);
        prev = p;
        has  = true;
      }
    });
    for (int t = 0; t < nt; ++t) {
      S.n += per[t].n;
      S.transitions += per[t].transitions;
      for (int k = 0; k < 256; ++k)
        S.seen[k] |= per[t].seen[k];
    }
    if (S.n != N_ALL)
      vh::inconclusive("sRGB sweep visited " + std::to_string(S.n) + " floats instead of all " + std::to_string(N_ALL));
    vh::count("srgb_exhaustive_sweep_values", (long long)S.n);
  }
  {
    // sorted sample: a prime stride over the whole sweep + dense windows at 0, 1, the ends and every byte transition
    std::set<uint64_t> idx;
    uint64_t stride = 2039, off = r.below(stride);
    for (uint64_t i = off; i < N_ALL; i += stride)
      idx.insert(i);
    std::vector<uint64_t> centres;
    centres.push_back(0);
    centres.push_back(N_NEG);
    centres.push_back(N_NEG + 0x3F800000u);
    centres.push_back(N_ALL - 1);
    centres.push_back(N_NEG + 0x00800000u);
    for (unsigned k = 1; k <= 255; ++k) {  // first index whose red byte reaches k (bisection only locates the window)
      uint64_t lo = N_NEG, hi = N_NEG + 0x3F800000u;
      while (lo < hi) {
        uint64_t mid = lo + (hi - lo) / 2;
        if ((rm::linear_to_srgba8(rm::vec4f(sweepValue(mid), 0.f, 0.f, sweepValue(mid))) & 255) >= k)
          hi = mid;
        else
          lo = mid + 1;
      }
      centres.push_back(lo);
      lo = N_NEG, hi = N_NEG + 0x3F800000u;
      while (lo < hi) {  // same for the linear alpha / cvt_uint32 thresholds
        uint64_t mid = lo + (hi - lo) / 2;
        if (rm::cvt_uint32(sweepValue(mid)) >= k)
          hi = mid;
        else
          lo = mid + 1;
      }
      centres.push_back(lo);
    }
    for (size_t c = 0; c < centres.size(); ++c)
      for (int64_t d = -300; d <= 300; ++d) {
        int64_t i = (int64_t)centres[c] + d;
        if (i >= 0 && (uint64_t)i < N_ALL)
          idx.insert((uint64_t)i);
      }
    Packed prev;
    bool has = false;
    for (std::set<uint64_t>::iterator it = idx.begin(); it != idx.end(); ++it) {
      Packed p = packAll(sweepValue(*it));
      judgePacked(p, has ? &prev : 0, S);
      prev = p;
      has  = true;
    }
  }
  // values outside the sweep interval that the saturation clause still covers
  {
    const float big[] = {4.f, 255.f, 256.f, 1e10f, FLT_MAX, std::numeric_limits<float>::infinity()};
    for (size_t i = 0; i < 6; ++i) {
      Packed p = packAll(big[i]);
      judgePacked(p, 0, S);
      Packed q = packAll(-big[i]);
      judgePacked(q, 0, S);
    }
  }
  vh::note("srgb_sweep_mode", full ? (allCh ? "exhaustive: every float in [-1,2] in sorted order, all four channels; + sampled pass"
                                           : "exhaustive: every float in [-1,2] in sorted order through red and alpha; green/blue through the sampled pass (all four channels): stride 2039 + 601-wide windows at every byte transition")
                                  : "sampled: stride 2039 over [-1,2] + 601-wide windows at every byte transition, 0, 1 and the ends");
  vh::count("srgb_sweep_values", (long long)S.n);
  vh::count("srgb_red_byte_transitions_seen", (long long)S.transitions);
  int distinctBytes = 0;
  for (int k = 0; k < 256; ++k)
    if (S.seen[k]) {
      ++distinctBytes;
      vh::evaluated(vh::hash64(19, k), k > 0 && k < 255);
    }
  vh::maxi("srgb_distinct_byte_values_seen", distinctBytes);
  if (distinctBytes < 256)
    vh::inconclusive("sRGB sweep saw only " + std::to_string(distinctBytes) + " of 256 byte values");
  vh::evaluatedN((long long)S.n - distinctBytes);

  // per-channel: byte k depends on channel k only
  long n = (long)vh::tier(300000, 5000000);
  Lim l1, l2, l3, l4;
  std::vector<float> pool;
  const float pb[] = {0.f, -0.f, 1.f, -1.f, 2.f, 0.5f, 0.2f, 0.00196f, 0.00197f, 0.998f, 0.999f, 1e-6f, 0.73f};
  for (size_t i = 0; i < sizeof(pb) / sizeof(pb[0]); ++i)
    pool.push_back(pb[i]);
  for (long i = 0; i < n; ++i) {
    float c[4];
    for (int k = 0; k < 4; ++k)
      c[k] = r.chance(1, 5) ? pool[r.below(pool.size())] : (float)r.real(-1.0, 2.0);
    if (i % 16 == 0)
      for (int k = 0; k < 4; ++k)
        c[k] = (float)r.real(0.0, 1.0);
    rm::vec4f v(c[0], c[1], c[2], c[3]);
    uint32_t p  = rm::linear_to_srgba8(v);
    uint32_t q  = rm::cvt_uint32(v);
    rm::vec4f g = rm::linear_to_srgba(v);
#define CCTX ("c=(" + fs(c[0]) + "," + fs(c[1]) + "," + fs(c[2]) + "," + fs(c[3]) + ")")
    for (int k = 0; k < 4; ++k) {
      float s[4] = {0.f, 0.f, 0.f, 0.f};
      s[k]       = c[k];
      rm::vec4f sv(s[0], s[1], s[2], s[3]);
      uint32_t ps = rm::linear_to_srgba8(sv);
      if (((ps >> (8 * k)) & 255) != ((p >> (8 * k)) & 255) || (ps & ~(255u << (8 * k))) != 0)
        LVIOL(l1, "C07:srgb:channel-crosstalk",
              "byte " + std::to_string(k) + " of linear_to_srgba8 is not a function of channel " + std::to_string(k) + " alone: full=" + hx(p) + " single-channel=" + hx(ps), CCTX);
      if (((q >> (8 * k)) & 255) != rm::cvt_uint32(c[k]))
        LVIOL(l2, "C07:cvt_uint32:channel-mismatch", "byte " + std::to_string(k) + " of cvt_uint32(vec4f)=" + hx(q) + " is not cvt_uint32(channel)=" + std::to_string(rm::cvt_uint32(c[k])), CCTX);
      rm::vec4f gs = rm::linear_to_srgba(sv);
      if (!(gs[k] == g[k]))
        LVIOL(l3, "C07:srgb:linear_to_srgba-crosstalk", "component " + std::to_string(k) + " of linear_to_srgba changes with the other channels", CCTX);
    }
    for (int k = 0; k < 3; ++k)
      if (!(g[k] == rm::linear_to_srgb(c[k])))
        LVIOL(l4, "C07:srgb:linear_to_srgba-channel", "component " + std::to_string(k) + " of linear_to_srgba is not linear_to_srgb(channel)", CCTX);
    if (i < 2)
      vh::sample(vh::J().kv("kind", "srgb per-channel").kv("input", CCTX).kv("packed", hx(p)).str(), 4);
  }
  vh::count("srgb_per_channel_cases", n);
  vh::evaluated(vh::hash64(19, 1000), true);
  vh::evaluatedN(n - 1);
}

// ------------------------------------------------------------------ random distributions
struct Range
{
  float l, u;
  const char *cls;
};

// one rounding step at the scale of the range: ulp of max(|l|,|u|,u-l)
static double roundingStep(float l, float u)
{
  double m = std::max(std::max(std::fabs((double)l), std::fabs((double)u)), (double)u - (double)l);
  if (m < ldexp(1.0, -126))
    return ldexp(1.0, -149);
  int e;
  frexp(m, &e);  // m = f * 2^e, f in [0.5,1)
  return ldexp(1.0, e - 1 - 23);
}

static float logUniform(vh::Rng &r, int e0, int e1)
{
  float m = 1.f + (float)(r.next() >> 41) * (1.0f / 8388608.0f);
  return std::ldexp(m, (int)r.range(e0, e1));
}

static Range makeRange(vh::Rng &r, long idx)
{
  Range R;
  float a, b;
  switch (idx % 12) {
  case 0: R.l = 0.f, R.u = 1.f, R.cls = "unit"; return R;
  case 1: R.l = -1.f, R.u = 1.f, R.cls = "symmetric"; return R;
  case 2:
    a = -logUniform(r, -10, 10);
    b = a * (float)r.unit();
    R.cls = "negative";
    break;
  case 3:  // a few ulps wide
    a = logUniform(r, -10, 10) * (r.chance(1, 2) ? 1.f : -1.f);
    b = a;
    for (int k = (int)r.range(1, 16); k > 0; --k)
      b = std::nextafter(b, FLT_MAX);
    R.cls = "few-ulps-wide";
    break;
  case 4:
    a = logUniform(r, -122, -100) * (r.chance(1, 2) ? 1.f : -1.f);
    b = logUniform(r, -122, -100) * (r.chance(1, 2) ? 1.f : -1.f);
    R.cls = "tiny-magnitude";
    break;
  case 5:  // bounds at / below the smallest normal
    a = r.chance(1, 2) ? 0.f : fromBits((uint32_t)r.below(0x01000000u)) * (r.chance(1, 2) ? 1.f : -1.f);
    b = fromBits((uint32_t)r.below(0x01000000u)) * (r.chance(1, 2) ? 1.f : -1.f);
    R.cls = "denormal-bounds";
    break;
  case 6:
    a = logUniform(r, 100, 125) * (r.chance(1, 2) ? 1.f : -1.f);
    b = logUniform(r, 100, 125) * (r.chance(1, 2) ? 1.f : -1.f);
    R.cls = "huge";
    break;
  case 7:
    a = -logUniform(r, 60, 120);
    b = logUniform(r, -20, 80);
    if (r.chance(1, 2)) {
      float t = -a;
      a       = -b;
      b       = t;
    }
    R.cls = "mixed-magnitude";
    break;
  case 8:
    a = b = r.chance(1, 4) ? 0.f : logUniform(r, -130, 120) * (r.chance(1, 2) ? 1.f : -1.f);
    R.cls = "degenerate";
    break;
  case 9:  // width so small that width/2^32 is subnormal, bounds still ordinary normal floats
    a = r.chance(1, 2) ? 0.f : logUniform(r, -125, -96) * (r.chance(1, 2) ? 1.f : -1.f);
    b = a + logUniform(r, -125, -95);
    if (idx == 9)  // fixed minimal member of the class: (u-l)/2^32 = 1.5*2^-149 rounds to 2^-148
      a = 0.f, b = std::ldexp(1.5f, -117);
    R.cls = "width-below-2^-94";
    break;
  case 10:
    a = (float)r.range(-1000, 1000);
    b = a + (float)r.range(0, 2000);
    R.cls = "integers";
    break;
  default:
    a = logUniform(r, -60, 60) * (r.chance(1, 2) ? 1.f : -1.f);
    b = logUniform(r, -60, 60) * (r.chance(1, 2) ? 1.f : -1.f);
    R.cls = "log-uniform";
  }
  if (b < a)
    std::swap(a, b);
  R.l = a;
  R.u = b;
  return R;
}

struct DistStats
{
  long long draws, pairs;
  double unitMin, unitMax;
  DistStats() : draws(0), pairs(0), unitMin(2), unitMax(-1) {}
};

static inline bool inside(float v, const Range &R, double U)
{
  double d = (double)v;
  return d >= (double)R.l - U && d <= (double)R.u + U;  // false for NaN
}

static std::string rctx(long k, const Range &R, int seed)
{
  return "#" + std::to_string(k) + " range=[" + fs(R.l) + "," + fs(R.u) + "] class=" + R.cls + " seed=" + std::to_string(seed);
}

// scripted generator with the min()/max() of a real engine: puts the extreme engine outputs in front.
// It models std's UniformRandomBitGenerator (static constexpr min()/max()), so that the library may
// use either g.min() or G::min().
template <uint32_t MN, uint32_t MX>
struct ScriptGen
{
  typedef uint32_t result_type;
  std::vector<result_type> v;
  size_t i;
  ScriptGen() : i(0)
  {
    const result_type a = MN, b = MX;
    const result_type s[] = {a, b, b - 1, a + 1, a + (b - a) / 2, b - 2, a + 16777217u, b - 127, b - 128, b - 129, b - 255, b - 256};
    v.assign(s, s + sizeof(s) / sizeof(s[0]));
  }
  static constexpr result_type min() { return MN; }
  static constexpr result_type max() { return MX; }
  result_type operator()() { return v[i++ % v.size()]; }
};

template <class G>
static void uniformRealWith(const char *gname, int gno, long k, const Range &R, int seedA, int seedB, int nDraws, double engineSpan, DistStats &D)
{
  const double U     = roundingStep(R.l, R.u);
  const double width = (double)R.u - (double)R.l;
  const bool under   = width > 0 && width / engineSpan < ldexp(1.0, -126);
  G g1((typename G::result_type)seedA), g2((typename G::result_type)seedA), g3((typename G::result_type)seedB);
  ru::uniform_real_distribution<float> d1(R.l, R.u), d2(R.l, R.u), d3(R.l, R.u);
  bool differ = false, vary = false, okRange = true, okRepro = true;
  float first = 0, worst = 0;
  for (int i = 0; i < nDraws; ++i) {
    float a = d1(g1), b = d2(g2), c = d3(g3);
    if (i == 0)
      first = a;
    vary |= toBits(a) != toBits(first);
    differ |= toBits(a) != toBits(c);
    if (okRange && (!inside(a, R, U) || !inside(c, R, U))) {
      okRange = false;
      worst   = inside(a, R, U) ? c : a;
    }
    if (toBits(a) != toBits(b))
      okRepro = false;
    if (R.l == 0.f && R.u == 1.f) {
      D.unitMin = std::min(D.unitMin, (double)a);
      D.unitMax = std::max(D.unitMax, (double)a);
    }
  }
  std::string ctx = rctx(k, R, seedA) + " generator=" + gname;
  if (!okRange)
    vh::violation(under ? "C07:random:uniform_real:out-of-range:scale-underflow" : "C07:random:uniform_real:out-of-range",
                  "draw " + fs(worst) + " is outside [lower-U, upper+U], U=" + ds(U) + (under ? " ((upper-lower)/(max-min) is subnormal)" : ""), ctx);
  if (!okRepro)
    vh::violation("C07:random:uniform_real:not-reproducible", "two identically seeded generators gave different draws", ctx);
  if (vary && !differ)
    vh::violation("C07:random:uniform_real:seed-ignored", "a differently seeded generator gave the identical sequence", ctx + " seedB=" + std::to_string(seedB));
  D.draws += 3LL * nDraws;
  vh::evaluated(vh::hash64(vh::hash64(23, gno), (uint64_t)k), width > 0);
}

template <uint32_t mn, uint32_t mx>
static void scriptedUniformReal(long k, const Range &R, DistStats &D)
{
  const double U     = roundingStep(R.l, R.u);
  const double width = (double)R.u - (double)R.l;
  const bool under   = width > 0 && width / ((double)mx - (double)mn) < ldexp(1.0, -126);
  ScriptGen<mn, mx> g;
  ru::uniform_real_distribution<float> d(R.l, R.u);
  for (size_t i = 0; i < g.v.size(); ++i) {
    uint32_t raw = g.v[i];
    float a      = d(g);
    if (!inside(a, R, U)) {
      vh::violation(under ? "C07:random:uniform_real:out-of-range:scale-underflow" : "C07:random:uniform_real:out-of-range",
                    "draw " + fs(a) + " is outside [lower-U, upper+U], U=" + ds(U) + (under ? " ((upper-lower)/(max-min) is subnormal)" : ""),
                    rctx(k, R, 0) + " scripted engine min=" + std::to_string(mn) + " max=" + std::to_string(mx) + " output=" + std::to_string(raw));
      break;
    }
  }
  D.draws += (long long)g.v.size();
}

static void distributions(vh::Rng &r)
{
  DistStats D;
  const long nPairs = (long)vh::tier(1000, 4000);
  const int nDraws  = 10000;
  std::map<std::string, long long> perClass;
  for (long k = 0; k < nPairs; ++k) {
    Range R   = makeRange(r, k);
    int seedA = (int)(int32_t)r.u32();
    if (k % 7 == 0)
      seedA = (int)r.range(-3, 3);
    if (seedA > INT_MAX - 2000)
      seedA -= 4000;
    const int seedB = seedA + 1 + (int)r.below(1000);
    int seq   = (int)r.range(-2, 50);
    if (!vh::wantCase(k))
      continue;
    perClass[R.cls]++;
    const double U = roundingStep(R.l, R.u);
    // ---- pcg32_biased_float_distribution
    {
      ru::pcg32_biased_float_distribution d1(seedA, seq, R.l, R.u), d2(seedA, seq, R.l, R.u), d3(seedB, seq, R.l, R.u);
      bool differ = false, vary = false, okRange = true, okRepro = true;
      float first = 0, worst = 0;
      for (int i = 0; i < nDraws; ++i) {
        float a = d1(), b = d2(), c = d3();
        if (i == 0)
          first = a;
        vary |= toBits(a) != toBits(first);
        differ |= toBits(a) != toBits(c);
        if (okRange && (!inside(a, R, U) || !inside(c, R, U))) {
          okRange = false;
          worst   = inside(a, R, U) ? c : a;
        }
        if (toBits(a) != toBits(b))
          okRepro = false;
        if (R.l == 0.f && R.u == 1.f) {
          D.unitMin = std::min(D.unitMin, (double)a);
          D.unitMax = std::max(D.unitMax, (double)a);
        }
      }
      std::string ctx = rctx(k, R, seedA) + " sequence=" + std::to_string(seq);
      if (!okRange)
        vh::violation("C07:random:pcg32_biased:out-of-range", "draw " + fs(worst) + " is outside [lower-U, upper+U], U=" + ds(U), ctx);
      if (!okRepro)
        vh::violation("C07:random:pcg32_biased:not-reproducible", "two distributions built from the same (seed, sequence, range) gave different draws", ctx);
      if (vary && !differ)
        vh::violation("C07:random:pcg32_biased:seed-ignored", "a different seed gave the identical sequence", ctx + " seedB=" + std::to_string(seedB));
      D.draws += 3LL * nDraws;
      vh::evaluated(vh::hash64(vh::hash64(23, 0), (uint64_t)k), R.u > R.l);
      if (k < 2)
        vh::sample(vh::J().kv("kind", "pcg32_biased").kv("range", "[" + fs(R.l) + "," + fs(R.u) + "]").kv("seed", seedA).kv("first_draw", fs(first)).str(), 8);
    }
    // ---- uniform_real_distribution<float> with three engine types (+ scripted extreme outputs)
    const int sA = seedA, sB = seedB;  // distinct by construction (seedB = seedA + 1 + [0,1000))
    uniformRealWith<pcg32>("pcg32", 1, k, R, sA, sB, nDraws, 4294967295.0, D);
    uniformRealWith<std::mt19937>("std::mt19937", 2, k, R, sA, sB, nDraws, 4294967295.0, D);
    {
      // minstd_rand seeds are taken modulo 2^31-1: keep the two seeds apart after the reduction
      int mA = (int)(((long long)sA % 2147483646LL + 2147483646LL) % 2147483646LL) + 1;
      int mB = mA == 2147483646 ? 1 : mA + 1;
      uniformRealWith<std::minstd_rand>("std::minstd_rand", 3, k, R, mA, mB, nDraws, 2147483645.0, D);
    }
    scriptedUniformReal<0u, 4294967295u>(k, R, D);
    scriptedUniformReal<1u, 2147483646u>(k, R, D);
    D.pairs++;
  }
  {
    // default range of the wrapper is [0,1]
    pcg32 g(42u);
    ru::uniform_real_distribution<float> d;
    Range R = {0.f, 1.f, "default"};
    for (int i = 0; i < 100000; ++i) {
      float a = d(g);
      if (!inside(a, R, roundingStep(0.f, 1.f))) {
        vh::violation("C07:random:uniform_real:out-of-range", "default-constructed distribution drew " + fs(a) + " outside [0,1]", "default range");
        break;
      }
    }
    D.draws += 100000;
  }
  vh::count("distribution_draws_judged", D.draws);
  vh::count("distribution_seed_range_pairs", D.pairs);
  for (std::map<std::string, long long>::iterator i = perClass.begin(); i != perClass.end(); ++i)
    vh::count(("range_class_" + i->first).c_str(), i->second);
  vh::note("unit_range_draw_span", "[" + ds(D.unitMin) + "," + ds(D.unitMax) + "]");
  vh::evaluatedN(D.draws - 4 * D.pairs);
}

// ------------------------------------------------------------------ makeRandomColor
static void randomColors(bool full, vh::Rng &r)
{
  struct CS
  {
    uint64_t n;
    float mx[3], mn[3];
    Lim l1, l2;
  };
  auto judge = [](uint32_t i, CS &S) {
    rm::vec3f c = ru::makeRandomColor(i);
    S.n++;
    for (int k = 0; k < 3; ++k) {
      if (!(c[k] >= 0.f && c[k] <= 1.f + FLT_EPSILON))
        LVIOL(S.l1, "C07:random:makeRandomColor:out-of-range", "component " + std::to_string(k) + " = " + fs(c[k]) + " is outside [0,1] (one rounding step allowed)",
              "i=" + std::to_string(i));
      if (c[k] > S.mx[k])
        S.mx[k] = c[k];
      if (c[k] < S.mn[k])
        S.mn[k] = c[k];
    }
    if ((i & 1023) == 0) {  // reproducible: a second call through an opaque index gives the same colour
      volatile unsigned vi = i;
      rm::vec3f c2         = ru::makeRandomColor(vi);
      if (toBits(c[0]) != toBits(c2[0]) || toBits(c[1]) != toBits(c2[1]) || toBits(c[2]) != toBits(c2[2]))
        LVIOL(S.l2, "C07:random:makeRandomColor:not-reproducible", "two calls with the same index differ", "i=" + std::to_string(i));
    }
  };
  CS T;
  memset(&T, 0, sizeof T);
  for (int k = 0; k < 3; ++k)
    T.mn[k] = 2.f;
  if (full) {
    // every index in the thorough tier; quick: 64 evenly spread blocks of 2^22 consecutive indices (2^28 in total)
    const int nt        = nThreads();
    const uint64_t step = vh::thorough() ? 1 : 16;
    std::vector<CS> per(nt, T);
    parallelChunks(1024 / step, [&](int t, uint64_t cc) {
      const uint64_t c = cc * step + (step > 1 ? (cc * 7) % step : 0);
      for (uint64_t i = c << 22; i < ((c + 1) << 22); ++i)
        judge((uint32_t)i, per[t]);
    });
    for (int t = 0; t < nt; ++t) {
      T.n += per[t].n;
      for (int k = 0; k < 3; ++k) {
        T.mx[k] = std::max(T.mx[k], per[t].mx[k]);
        T.mn[k] = std::min(T.mn[k], per[t].mn[k]);
      }
    }
  }
  {  // both ends, the middle and random indices (always)
    for (uint32_t i = 0; i < 1000000u; ++i) {
      judge(i, T);
      judge(0xFFFFFFFFu - i, T);
      judge(0x7FFFFFFFu - 500000u + i, T);
      judge(r.u32(), T);
    }
  }
  // different indices give different colours (not a constant function)
  {
    rm::vec3f a = ru::makeRandomColor(0), b = ru::makeRandomColor(1), c = ru::makeRandomColor(2);
    VH_CHECK(!(a == b) || !(b == c), "C07:random:makeRandomColor:constant", "indices 0,1,2 give the same colour", "i=0,1,2");
  }
  vh::count("makeRandomColor_indices", (long long)T.n);
  char buf[160];
  snprintf(buf, sizeof buf, "min=(%.9g,%.9g,%.9g) max=(%.9g,%.9g,%.9g)", T.mn[0], T.mn[1], T.mn[2], T.mx[0], T.mx[1], T.mx[2]);
  vh::note("makeRandomColor_component_span", buf);
  vh::evaluated(vh::hash64(29, 1), true);
  vh::evaluated(vh::hash64(29, 2), true);
  vh::evaluatedN((long long)T.n - 2);
}

// ------------------------------------------------------------------ main
int main(int argc, char **argv)
{
  vh::init(argc, argv);
  TOL20        = ldexp(1.0, -20);
  MIN_CONTRACT = std::ldexp(1.f, -126);
  MAX_CONTRACT = std::ldexp(1.f, 126);
  const std::string variant = vh::st().variant;
  const bool plain          = variant.compare(0, 5, "plain") == 0;
  const bool full           = plain || vh::thorough();
#ifdef RKCOMMON_NO_SIMD
  vh::note("build", "RKCOMMON_NO_SIMD (1.f/x, 1.f/sqrt(x))");
#else
  vh::note("build", "SIMD (rcpss/rsqrtss + one Newton-Raphson step)");
#endif
  vh::rule(
      "unary kernels (rcp, rsqrt, rcp_safe, sign): every one of the 2^32 float bit patterns on the plain variants and in the "
      "thorough tier, else 254 exponents x 4096 mantissas x 2 signs + boundary patterns; sRGB packing: every float of [-1,2] "
      "in sorted order (same rule; sampled = stride + windows at every byte transition); clamp/divRoundUp/lerp/deg2rad/madd: "
      "boundary grid products + seeded random; distributions: (seed, range) pairs over 12 range classes x 10^4 draws x "
      "4 engines. distinct = (kernel, sign|exponent class) / (family, type) / (distribution, pair index) / packed byte value; "
      "non-trivial = input inside the contract range / non-degenerate range / byte strictly between 0 and 255");
  const bool replayOnly = vh::st().onlyCase >= 0;
  vh::Rng r(vh::seed(), 7);

  g_lapT = vh::now();
  if (!replayOnly) {
    unaryKernels(full, r);
    lap("unary");
    srgbSweep(full, r);
    lap("srgb");
    randomColors(full, r);
    lap("makeRandomColor");

    clampInts<int8_t>(r, 0);
    clampInts<uint8_t>(r, 1);
    clampInts<int16_t>(r, 2);
    clampInts<uint16_t>(r, 3);
    clampInts<int32_t>(r, 4);
    clampInts<uint32_t>(r, 5);
    clampInts<int64_t>(r, 6);
    clampInts<uint64_t>(r, 7);
    clampFloats(r);
    vh::count("clamp_cases", g_clampCases);
    vh::count("clamp_cases_with_x_inside", g_clampInside);
    lap("clamp");

    definitions(r);
    lap("definitions");
  }
  {
    // own stream, so that "#k" of a distribution finding replays alone (VH_CASE selects pair k here and
    // forked case k below; both are cheap)
    vh::Rng rdist(vh::seed(), 23);
    distributions(rdist);
    lap("distributions");
  }

  // divRoundUp: in-range pairs in this process, pairs whose a+b-1 leaves the type in forked children
  std::vector<DCase> overflow;
  {
    vh::Rng rd(vh::seed(), 13);
    if (!replayOnly) {
      divCasesFor<int8_t>(0, rd, overflow);
      divCasesFor<uint8_t>(1, rd, overflow);
      divCasesFor<int16_t>(2, rd, overflow);
      divCasesFor<uint16_t>(3, rd, overflow);
      divCasesFor<int32_t>(4, rd, overflow);
      divCasesFor<uint32_t>(5, rd, overflow);
      divCasesFor<int64_t>(6, rd, overflow);
      divCasesFor<uint64_t>(7, rd, overflow);
      divCasesFor<long long>(8, rd, overflow);
      divCasesFor<unsigned long long>(9, rd, overflow);
      vh::count("divRoundUp_cases_in_range", g_divCases);
      vh::count("divRoundUp_cases_with_remainder", g_divInexact);
      lap("divRoundUp_in_range");
    }
    buildOverflowSubset(overflow);
  }
  vh::count("divRoundUp_overflow_subset_size", (long long)overflow.size());
  vh::forkedCases(
      (long)overflow.size(),
      [&](long k) {
        dispatchDiv(overflow[k], true, k);
        vh::evaluated(vh::hash64(vh::hash64(13, 1000), (uint64_t)k), true);
      },
      20000, 2000,
      [&](long k) {
        return "#" + std::to_string(k) + " divRoundUp<" + DIVT[overflow[k].type] + ">(a=" + std::to_string(overflow[k].a) + ",b=" + std::to_string(overflow[k].b) + ")";
      });
  lap("divRoundUp_forked");
  return vh::finish();
}
