// C04 - families over pairs (T=float, U): U in int32_t, the 64-bit and the floating types (see c04_vec.cpp)
#include "c04_vec_mixed.h"
namespace c04 {
  void run_mb_f32()
  {
    typedef float T;
    vh::Rng r(vh::seed(), 600 + TN<T>::idx);
    runPair<T, int32_t>(r);
    runPair<T, uint64_t>(r);
    runPair<T, int64_t>(r);
    runPair<T, float>(r);
    runPair<T, double>(r);
  }
}  // namespace c04
