// C13 - configured tasking thread count is reported and never exceeded.
// Fresh process per initialisation sequence.  Monitor: number of threads simultaneously
// inside parallel_for bodies (thread-local depth so nesting counts a thread once).
#include "vh.h"

#include <chrono>
#include <thread>

#include "rkcommon/tasking/parallel_for.h"
#include "rkcommon/tasking/schedule.h"
#include "rkcommon/tasking/tasking_system_init.h"
#ifdef RKCOMMON_TASKING_INTERNAL
#include "rkcommon/verif/hooks.h"
#endif

using namespace rkcommon::tasking;

#ifdef RKCOMMON_TASKING_INTERNAL
// hold an exiting enkiTS worker for a moment after it has announced that it stopped: anything
// it still did with the scheduler afterwards would hit a scheduler that re-initialisation has
// already deleted (ASan reports it)
static void hookFcn(const char *name, const void *)
{
  if (!strcmp(name, "ts.worker_stopped")) {
    double t0 = vh::now();
    while ((vh::now() - t0) * 1e6 < 400) {
    }
    vh::count("worker_exit_points_held");
  }
}
#endif

#if defined(RKCOMMON_TASKING_TBB)
static const char *kBackendName = "tbb";
#elif defined(RKCOMMON_TASKING_OMP)
static const char *kBackendName = "omp";
#elif defined(RKCOMMON_TASKING_INTERNAL)
static const char *kBackendName = "internal";
#else
static const char *kBackendName = "debug";
#endif
static std::atomic<int> g_active(0), g_maxActive(0);
static thread_local int tl_depth = 0;
static std::atomic<int> g_nextTid(0);
static thread_local int tl_tid = -1;
static std::atomic<unsigned long long> g_tidMaskLo(0);

struct BodyScope
{
  BodyScope()
  {
    if (tl_tid < 0)
      tl_tid = g_nextTid.fetch_add(1);
    if (tl_tid < 64)
      g_tidMaskLo.fetch_or(1ull << tl_tid);
    if (tl_depth++ == 0) {
      int a = g_active.fetch_add(1) + 1;
      int m = g_maxActive.load();
      while (a > m && !g_maxActive.compare_exchange_weak(m, a)) {
      }
    }
  }
  ~BodyScope()
  {
    if (--tl_depth == 0)
      g_active.fetch_sub(1);
  }
};

static void spinUs(int us)
{
  double t0 = vh::now();
  while ((vh::now() - t0) * 1e6 < us) {
  }
}

struct Seq
{
  std::vector<int> inits;
  std::vector<int> loopKind;  // per init: 0 flat, 1 nested, 2 many small loops
  int bodyUs;
};

static std::string describe(const Seq &s, long k)
{
  std::string o = "#" + std::to_string(k) + " init sequence [";
  for (size_t i = 0; i < s.inits.size(); ++i)
    o += (i ? "," : "") + std::to_string(s.inits[i]) + (s.loopKind[i] == 1 ? "n" : s.loopKind[i] == 2 ? "s" : "");
  return o + "] bodyUs=" + std::to_string(s.bodyUs);
}

static bool g_debugBackend = false;

static void runSeq(const Seq &s, long k)
{
  std::string ctx = describe(s, k);
#ifdef RKCOMMON_TASKING_INTERNAL
  rkcommon::verif::hook().store(&hookFcn);
#endif
  int before      = numTaskingThreads();
  VH_CHECK(before == 0, "C13:numTaskingThreads:before-init", "numTaskingThreads() == " + std::to_string(before) + " before any initialisation (expected 0)", ctx);
  // every third process uses the tasking system before it initialises it (a loop and a scheduled task): the report
  // stays 0 until initTaskingSystem is called, whatever the backend started on its own
  if (k % 3 == 1) {
    std::atomic<int> ran(0);
    parallel_for(64, [&](int) { ran.fetch_add(1); });
    std::atomic<int> *pr = &ran;
    schedule([pr]() { pr->fetch_add(1000); });
    double t0 = vh::now();
    while (ran.load() < 1064 && vh::now() - t0 < 30.0)
      std::this_thread::sleep_for(std::chrono::microseconds(200));
    int still = numTaskingThreads();
    VH_CHECK(ran.load() == 1064, "C13:parallel_for:before-init:not-executed", "a loop / task issued before initTaskingSystem did not run completely (" + std::to_string(ran.load()) + " of 1064)", ctx);
    VH_CHECK(still == 0, "C13:numTaskingThreads:before-init", "numTaskingThreads() == " + std::to_string(still) + " after a loop and a task were run but before any initTaskingSystem (expected 0)", ctx);
    vh::count("processes_that_used_tasking_before_init");
  }
  int prevLimit = 0;
  for (size_t i = 0; i < s.inits.size(); ++i) {
    int n = s.inits[i];
    initTaskingSystem(n);
    int rep     = numTaskingThreads();
    std::string c2 = ctx + " after init #" + std::to_string(i) + " (n=" + std::to_string(n) + ") reported=" + std::to_string(rep);
    int limit;
    if (g_debugBackend) {
      VH_CHECK(rep == 1, "C13:numTaskingThreads:debug-backend", "serial backend must report 1", c2);
      limit = 1;
    } else if (n > 0) {
      VH_CHECK(rep == n, "C13:numTaskingThreads:reported-value", "numTaskingThreads() != configured n", c2);
      limit = n;
    } else {
      VH_CHECK(rep >= 1, "C13:numTaskingThreads:default-not-positive", "n <= 0 must select a positive default", c2);
      limit = rep >= 1 ? rep : 1;
      vh::count("inits_with_default");
    }
    g_maxActive.store(0);
    int kind = s.loopKind[i];
    int eff  = limit > 16 ? 16 : limit;
    if (kind == 0) {
      long iters = 50L * eff + 7;
      parallel_for(iters, [&](long) {
        BodyScope b;
        spinUs(s.bodyUs);
      });
    } else if (kind == 1) {
      parallel_for(2 * eff + 1, [&](int) {
        BodyScope b;
        spinUs(s.bodyUs / 4);
        parallel_for(12, [&](int) {
          BodyScope b2;
          spinUs(s.bodyUs);
        });
      });
    } else {
      for (int r = 0; r < 8; ++r)
        parallel_for((size_t)(3 * eff + r), [&](size_t) {
          BodyScope b;
          spinUs(s.bodyUs / 2);
        });
    }
    int mx = g_maxActive.load();
    if (mx > limit) {
      // Is the excess persistent, or only a transient right after the limit was lowered?
      // (TBB applies a lowered max_allowed_parallelism lazily: workers still inside the arena
      // may take a few tasks of the next loop.)  Re-measure with a fresh loop 20 ms later.
      bool lowered = i > 0 && prevLimit > limit;
      std::this_thread::sleep_for(std::chrono::milliseconds(20));
      g_maxActive.store(0);
      parallel_for(50L * eff + 7, [&](long) {
        BodyScope b;
        spinUs(s.bodyUs);
      });
      int mx2 = g_maxActive.load();
      std::string how = std::to_string(mx) + " threads were inside parallel_for bodies at the same time, limit " + std::to_string(limit) + "; a second loop 20 ms later ran on at most " + std::to_string(mx2);
      if (mx2 <= limit && lowered && mx <= prevLimit)
        vh::violation(std::string("C13:parallel_for:transient-excess-right-after-lowering-limit:") + kBackendName, how + " (previous limit " + std::to_string(prevLimit) + ")", c2);
      else
        vh::violation("C13:parallel_for:more-threads-than-configured", how, c2);
    }
    prevLimit = limit;
    vh::maxi("max_active_seen", mx);
    if (limit >= 2) {
      vh::count("loops_with_limit_ge_2");
      if (mx >= 2)
        vh::count("loops_where_concurrency_ge_2_observed");
      if (mx == (limit > 16 ? 16 : limit))
        vh::count("loops_saturating_min_limit_cores");
    }
    if (i > 0 && s.inits[i - 1] > n && n > 0)
      vh::count("reinit_large_to_small");
    vh::count("inits");
  }
  int nt = 0;
  unsigned long long m = g_tidMaskLo.load();
  while (m) {
    nt += (int)(m & 1);
    m >>= 1;
  }
  vh::maxi("distinct_threads_in_one_process", nt);
  uint64_t h = 77;
  for (size_t i = 0; i < s.inits.size(); ++i)
    h = vh::hash64(h, (uint64_t)(s.inits[i] + 100) * 4 + (uint64_t)s.loopKind[i]);
  vh::evaluated(h, s.inits.size() > 1 || s.inits[0] > 1);
}

int main(int argc, char **argv)
{
  vh::init(argc, argv);
  std::string variant = vh::st().variant;
  g_debugBackend      = variant.find("debug") != std::string::npos;
  const bool asan     = variant.find("asan") != std::string::npos;
  vh::rule(
      "case = initialisation sequence (n values, the first possibly <= 0) with a loop kind per step (flat / nested / many small); "
      "each sequence runs in a fresh process; distinct = hash of the sequence; non-trivial = more than one init or n > 1");
  vh::Rng r(vh::seed(), 13);
  std::vector<Seq> seqs;
  // every n in 1..32 alone, n <= 0 first
  for (int n = -1; n <= 32; ++n) {
    Seq s;
    s.inits.push_back(n);
    s.loopKind.push_back(n % 3 == 0 ? 1 : 0);
    s.bodyUs = 200;
    if (asan && n > 12 && n % 4)
      continue;
    seqs.push_back(s);
  }
  long nRandom = asan ? vh::tier(30, 150) : vh::tier(120, 500);
  for (long i = 0; i < nRandom; ++i) {
    Seq s;
    int len = (int)r.range(2, vh::thorough() ? 10 : 5);
    for (int j = 0; j < len; ++j) {
      int n = j == 0 && r.chance(1, 5) ? (int)r.range(-2, 0) : (r.chance(1, 2) ? (int)r.range(1, 8) : (int)r.range(1, 32));
      if (j > 0 && r.chance(1, 3))
        n = s.inits[j - 1] > 1 ? (int)r.range(1, s.inits[j - 1]) : 1;  // large -> small
      s.inits.push_back(n);
      s.loopKind.push_back((int)r.below(3));
    }
    s.bodyUs = (int)r.pick(std::vector<int>{100, 200, 500});
    seqs.push_back(s);
  }
  vh::forkedCases((long)seqs.size(), [&](long k) {
    runSeq(seqs[k], k);
    if (k % 17 == 3)
      vh::sample(vh::J().kv("case", describe(seqs[k], k)).str(), 2);
  }, 25000, 1, [&](long k) { return std::string("C13-seq ") + describe(seqs[k], k); });
  vh::count("sequences", (long long)seqs.size());
  return vh::finish();
}
