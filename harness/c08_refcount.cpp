// C08 - IntrusivePtr / RefCountedObject: reference counting destroys each object exactly
// once, at the last release.
//
// Part (a): single-thread histories (<= 40 operations) over 3 pointee slots (one Base, two
//   Derived) and 5 handle slots (3 x IntrusivePtr<Base>, 2 x Ref<Derived>), run in lock-step
//   with a reference model  count = 1 + live handles + explicit incs - explicit decs.
//   After EVERY operation: destructor log vs model (who was destroyed, at which history
//   position), useCount() of every live object, pointee / operator bool / * / -> of every
//   live handle, ==, !=, < of every same-type handle pair.  Every history ends by releasing
//   everything (LeakSanitizer is asked for a leak check periodically in the child).
// Part (b): 2..16 threads, each owning references to shared objects, copy / assign / move /
//   convert / drop handles and refInc/refDec in tight loops with random yields; invariants
//   while a reference is held (object not destroyed, count >= references this thread holds),
//   exact counts after join, concurrent final release with exactly-once destruction.
#include "vh.h"

#include <algorithm>
#include <functional>
#include <thread>
#include <type_traits>
#include <utility>

#include "rkcommon/memory/IntrusivePtr.h"
#include "rkcommon/memory/RefCount.h"

#if defined(__SANITIZE_ADDRESS__)
#include <sanitizer/lsan_interface.h>
#define C08_HAVE_LSAN 1
#else
#define C08_HAVE_LSAN 0
#endif

using namespace rkcommon;

static_assert(std::is_same<memory::Ref<memory::RefCountedObject>, memory::IntrusivePtr<memory::RefCountedObject> >::value,
              "Ref<T> must be IntrusivePtr<T>");
static_assert(std::is_same<memory::RefCount, memory::RefCountedObject>::value, "RefCount must be RefCountedObject");

// ------------------------------------------------------------------ instrumented pointees
// destruction is recorded in a side table owned by the harness (never inside the object)
struct Track
{
  std::atomic<int> baseDtor;
  std::atomic<int> derivedDtor;
  std::atomic<long> pos;  // history position at which the destructor ran
  Track() : baseDtor(0), derivedDtor(0), pos(-1) {}
};

static long g_pos = -1;  // position of the operation being executed (written single-threaded only)

struct Base : public memory::RefCount  // RefCount.h alias
{
  Track *t;
  int id;
  // padding: keeps freed pointees in an allocator size class that the harness's own small
  // allocations (report strings) do not use, so that a stray write through a dangling
  // handle in a defective library is less likely to garble the reports themselves
  char pad[360];
  Base(Track *t_, int id_) : t(t_), id(id_) { pad[0] = 0; }
  virtual ~Base()
  {
    t->pos = g_pos;
    t->baseDtor++;
  }
};

struct Derived : public Base
{
  int payload[6];
  Derived(Track *t_, int id_) : Base(t_, id_)
  {
    for (int i = 0; i < 6; ++i)
      payload[i] = id_ * 7 + i;
  }
  ~Derived() override { t->derivedDtor++; }
};

typedef memory::IntrusivePtr<Base> BP;
typedef memory::Ref<Derived> DP;  // RefCount.h alias

static BP passThroughB(BP x)
{
  return x;
}
static DP passThroughD(DP x)
{
  return x;
}

// ------------------------------------------------------------------ part (a): histories
enum
{
  NOBJ = 3,  // pointee slot 0: Base, 1..2: Derived
  NB   = 3,  // handle slots 0..2: IntrusivePtr<Base>
  ND   = 2,  // handle slots 3..4: Ref<Derived>
  NH   = NB + ND,
  MAXTRACK   = 64,
  MAXEXPL    = 3,
  MAXRANDOM  = 26,  // + at most 5 handle destructions + 3*3 final refDecs = 40
};

enum Kind
{
  K_CREATE = 0,
  K_H_DEFAULT,
  K_H_COPY,
  K_H_MOVE,
  K_H_CONVERT,
  K_H_RAW,
  K_A_COPY,
  K_A_MOVE,
  K_A_RAW,
  K_A_CONVERT,
  K_H_DESTROY,
  K_TEMP,
  K_SWAP,
  K_INC,
  K_DEC,
  NKIND
};

// finer operation names used in keys / counters
enum Name
{
  N_CREATE = 0,
  N_H_DEFAULT,
  N_H_COPY,
  N_H_COPY_NULL,
  N_H_MOVE,
  N_H_MOVE_EMPTY,
  N_H_CONVERT,
  N_H_RAW,
  N_H_RAW_NULL,
  N_A_COPY,
  N_A_COPY_SELF,
  N_A_COPY_SAME_POINTEE,
  N_A_COPY_NULL,
  N_A_MOVE,
  N_A_MOVE_EMPTY,
  N_A_RAW,
  N_A_RAW_SELF,
  N_A_RAW_NULL,
  N_A_CONVERT,
  N_H_DESTROY,
  N_TEMP,
  N_SWAP,
  N_INC,
  N_DEC,
  NNAME
};
static const char *nameStr[NNAME] = {"create",
                                     "default-construct",
                                     "copy-construct",
                                     "copy-construct-from-null",
                                     "move-construct",
                                     "move-construct-from-empty",
                                     "converting-construct",
                                     "raw-construct",
                                     "raw-construct-from-null",
                                     "copy-assign",
                                     "self-copy-assign",
                                     "copy-assign-same-pointee",
                                     "copy-assign-null",
                                     "move-assign",
                                     "move-assign-from-empty",
                                     "raw-assign",
                                     "raw-self-assign",
                                     "null-assign",
                                     "converting-assign",
                                     "handle-destroy",
                                     "by-value-roundtrip",
                                     "swap",
                                     "refInc",
                                     "refDec"};

struct Op
{
  int kind, a, b;
};

static bool isB(int s)
{
  return s < NB;
}
static bool sameType(int s, int j)
{
  return isB(s) == isB(j);
}
static bool typeOK(int s, int o)
{
  return o < 0 || isB(s) || o >= 1;
}

struct Runner
{
  long k;
  std::string desc;
  // real side
  Base *obj[NOBJ];
  BP *hb[NB];
  DP *hd[ND];
  Track *tracks;  // MAXTRACK entries
  int nTracks;
  bool trackDerived[MAXTRACK];
  // model
  int trk[NOBJ];
  bool alive[NOBJ];
  int expl[NOBJ];  // 1 + explicit incs - explicit decs
  int hcnt[NOBJ];  // live handles pointing at the object
  int hobj[NH];    // -2: handle does not exist, -1: null, else pointee slot
  int expDtor[MAXTRACK];
  long expPos[MAXTRACK];
  int expId[MAXTRACK];
  bool failed;
  int nextId;
  long pos;
  // statistics of this history
  int nameCount[NNAME];
  int destroyedBy[NNAME];
  int soleOwnerSelfAssign;
  uint64_t hash;

  explicit Runner(long k_) : k(k_), nTracks(0), failed(false), nextId(1), pos(0), soleOwnerSelfAssign(0), hash(808)
  {
    tracks = new Track[MAXTRACK];
    for (int o = 0; o < NOBJ; ++o) {
      obj[o]   = 0;
      trk[o]   = -1;
      alive[o] = false;
      expl[o] = hcnt[o] = 0;
    }
    for (int s = 0; s < NB; ++s)
      hb[s] = 0;
    for (int s = 0; s < ND; ++s)
      hd[s] = 0;
    for (int s = 0; s < NH; ++s)
      hobj[s] = -2;
    for (int i = 0; i < MAXTRACK; ++i) {
      expDtor[i] = 0;
      expPos[i]  = -1;
      expId[i]   = 0;
      trackDerived[i] = false;
    }
    for (int i = 0; i < NNAME; ++i)
      nameCount[i] = destroyedBy[i] = 0;
    desc = "#" + std::to_string(k) + " ops=";
  }
  ~Runner() { delete[] tracks; }

  std::string ctx() const { return desc; }

  void fail(int name, const char *what, const std::string &detail)
  {
    failed = true;
    vh::violation(std::string("C08:") + nameStr[name] + ":" + what, detail, ctx());
  }

  // ---- model helpers
  Base *rawB(int o) const { return o < 0 ? (Base *)0 : obj[o]; }
  Derived *rawD(int o) const { return o < 0 ? (Derived *)0 : static_cast<Derived *>(obj[o]); }
  void retarget(int s, int o)  // model: handle s now refers to o (-1 null, -2 gone)
  {
    if (hobj[s] >= 0)
      hcnt[hobj[s]]--;
    hobj[s] = o;
    if (o >= 0)
      hcnt[o]++;
  }

  bool feasible(const Op &op) const
  {
    int a = op.a, b = op.b;
    switch (op.kind) {
    case K_CREATE: return a >= 0 && a < NOBJ && !alive[a] && nTracks < MAXTRACK;
    case K_H_DEFAULT: return hobj[a] == -2;
    case K_H_COPY:
    case K_H_MOVE: return a != b && hobj[a] == -2 && hobj[b] != -2 && sameType(a, b);
    case K_H_CONVERT: return isB(a) && !isB(b) && hobj[a] == -2 && hobj[b] != -2;
    case K_H_RAW: return hobj[a] == -2 && (b < 0 || alive[b]) && typeOK(a, b);
    case K_A_COPY: return hobj[a] != -2 && hobj[b] != -2 && sameType(a, b);
    case K_A_MOVE: return a != b && hobj[a] != -2 && hobj[b] != -2 && sameType(a, b);
    case K_A_RAW: return hobj[a] != -2 && (b < 0 || alive[b]) && typeOK(a, b);
    case K_A_CONVERT: return isB(a) && !isB(b) && hobj[a] != -2 && hobj[b] != -2;
    case K_H_DESTROY: return hobj[a] != -2;
    case K_TEMP: return hobj[a] != -2;
    case K_SWAP: return a != b && hobj[a] != -2 && hobj[b] != -2 && sameType(a, b);
    case K_INC: return alive[a] && expl[a] < MAXEXPL;
    case K_DEC: return alive[a] && expl[a] >= 1;
    }
    return false;
  }

  // ---- one operation on the real code + the model, then all checks
  void apply(const Op &op)
  {
    if (failed || !feasible(op))
      return;
    int a = op.a, b = op.b;
    int name = 0;
    g_pos    = pos;
    // a by-value round trip holds one extra reference in the middle
    switch (op.kind) {
    case K_CREATE: {
      int ti = nTracks++;
      int id = nextId++;
      trk[a] = ti;
      expId[ti] = id;
      trackDerived[ti] = a >= 1;
      obj[a]   = a >= 1 ? static_cast<Base *>(new Derived(&tracks[ti], id)) : new Base(&tracks[ti], id);
      alive[a] = true;
      expl[a]  = 1;
      hcnt[a]  = 0;
      name     = N_CREATE;
      break;
    }
    case K_H_DEFAULT:
      if (isB(a))
        hb[a] = new BP();
      else
        hd[a - NB] = new DP();
      retarget(a, -1);
      name = N_H_DEFAULT;
      break;
    case K_H_COPY:
      if (isB(a))
        hb[a] = new BP(*static_cast<const BP *>(hb[b]));
      else
        hd[a - NB] = new DP(*static_cast<const DP *>(hd[b - NB]));
      retarget(a, hobj[b]);
      name = hobj[b] < 0 ? N_H_COPY_NULL : N_H_COPY;
      break;
    case K_H_MOVE:
      name = hobj[b] < 0 ? N_H_MOVE_EMPTY : N_H_MOVE;
      if (isB(a))
        hb[a] = new BP(std::move(*hb[b]));
      else
        hd[a - NB] = new DP(std::move(*hd[b - NB]));
      retarget(a, hobj[b]);
      retarget(b, -1);
      break;
    case K_H_CONVERT:
      hb[a] = new BP(*static_cast<const DP *>(hd[b - NB]));
      retarget(a, hobj[b]);
      name = N_H_CONVERT;
      break;
    case K_H_RAW:
      if (isB(a))
        hb[a] = new BP(rawB(b));
      else
        hd[a - NB] = new DP(rawD(b));
      retarget(a, b);
      name = b < 0 ? N_H_RAW_NULL : N_H_RAW;
      break;
    case K_A_COPY: {
      name = a == b ? N_A_COPY_SELF : hobj[b] < 0 ? N_A_COPY_NULL : hobj[a] == hobj[b] ? N_A_COPY_SAME_POINTEE : N_A_COPY;
      if (hobj[a] >= 0 && hobj[a] == hobj[b] && expl[hobj[a]] == 0 && hcnt[hobj[a]] == (a == b ? 1 : 2))
        soleOwnerSelfAssign++;
      if (isB(a)) {
        BP &r = (*hb[a] = *static_cast<const BP *>(hb[b]));
        if (&r != hb[a])
          fail(name, "returns-other-handle", "operator= did not return *this");
      } else {
        DP &r = (*hd[a - NB] = *static_cast<const DP *>(hd[b - NB]));
        if (&r != hd[a - NB])
          fail(name, "returns-other-handle", "operator= did not return *this");
      }
      retarget(a, hobj[b]);
      break;
    }
    case K_A_MOVE: {
      name = hobj[b] < 0 ? N_A_MOVE_EMPTY : N_A_MOVE;
      if (isB(a)) {
        BP &r = (*hb[a] = std::move(*hb[b]));
        if (&r != hb[a])
          fail(name, "returns-other-handle", "operator= did not return *this");
      } else {
        DP &r = (*hd[a - NB] = std::move(*hd[b - NB]));
        if (&r != hd[a - NB])
          fail(name, "returns-other-handle", "operator= did not return *this");
      }
      int src = hobj[b];
      retarget(b, -1);
      retarget(a, src);
      break;
    }
    case K_A_RAW: {
      name = b < 0 ? N_A_RAW_NULL : hobj[a] == b ? N_A_RAW_SELF : N_A_RAW;
      if (b >= 0 && hobj[a] == b && expl[b] == 0 && hcnt[b] == 1)
        soleOwnerSelfAssign++;
      if (isB(a)) {
        BP &r = (*hb[a] = rawB(b));
        if (&r != hb[a])
          fail(name, "returns-other-handle", "operator= did not return *this");
      } else {
        DP &r = (*hd[a - NB] = rawD(b));
        if (&r != hd[a - NB])
          fail(name, "returns-other-handle", "operator= did not return *this");
      }
      retarget(a, b);
      break;
    }
    case K_A_CONVERT:
      // no converting assignment exists: converting constructor + move assignment + destructor
      *hb[a] = *static_cast<const DP *>(hd[b - NB]);
      retarget(a, hobj[b]);
      name = N_A_CONVERT;
      break;
    case K_H_DESTROY:
      if (isB(a)) {
        delete hb[a];
        hb[a] = 0;
      } else {
        delete hd[a - NB];
        hd[a - NB] = 0;
      }
      retarget(a, -2);
      name = N_H_DESTROY;
      break;
    case K_TEMP: {
      name  = N_TEMP;
      int o = hobj[a];
      if (isB(a)) {
        BP r = passThroughB(*hb[a]);
        midCheck(name, o, r.ptr == rawB(o), (o >= 0 && r.ptr == rawB(o)) ? r.ptr->useCount() : 0);
      } else {
        DP r = passThroughD(*hd[a - NB]);
        midCheck(name, o, r.ptr == rawD(o), (o >= 0 && r.ptr == rawD(o)) ? r.ptr->useCount() : 0);
      }
      break;
    }
    case K_SWAP: {
      name = N_SWAP;
      if (isB(a))
        std::swap(*hb[a], *hb[b]);
      else
        std::swap(*hd[a - NB], *hd[b - NB]);
      int oa = hobj[a], ob = hobj[b];
      retarget(a, ob);
      retarget(b, oa);
      break;
    }
    case K_INC:
      obj[a]->refInc();
      expl[a]++;
      name = N_INC;
      break;
    case K_DEC:
      obj[a]->refDec();
      expl[a]--;
      name = N_DEC;
      break;
    }
    desc += std::string(pos ? " " : "") + std::to_string(pos) + ":" + nameStr[name] + "(" + std::to_string(a) +
            (op.kind == K_CREATE || op.kind == K_H_DEFAULT || op.kind == K_H_DESTROY || op.kind == K_TEMP || op.kind == K_INC ||
                     op.kind == K_DEC
                 ? ""
                 : "," + std::to_string(b)) +
            ")";
    hash = vh::hash64(hash, uint64_t(name) * 64 + uint64_t(a + 2) * 8 + uint64_t(b + 2));
    nameCount[name]++;
    // model: objects whose last reference went away in this operation
    for (int o = 0; o < NOBJ; ++o)
      if (alive[o] && expl[o] + hcnt[o] == 0) {
        alive[o]         = false;
        expDtor[trk[o]]  = 1;
        expPos[trk[o]]   = pos;
        destroyedBy[name]++;
      }
    if (!failed)
      check(name);
    pos++;
  }

  void midCheck(int name, int o, bool samePtr, long long cnt)
  {
    if (!samePtr)
      fail(name, "handle-pointee", "handle returned by value does not point at the source's object");
    else if (o >= 0 && cnt != expl[o] + hcnt[o] + 1)
      fail(name, "useCount",
           "while the returned copy is alive useCount()=" + std::to_string(cnt) + " expected " + std::to_string(expl[o] + hcnt[o] + 1));
  }

  void check(int name)
  {
    // 1. destructor log against the model
    for (int i = 0; i < nTracks; ++i) {
      int bd = tracks[i].baseDtor.load();
      int dd = tracks[i].derivedDtor.load();
      std::string who = "object id " + std::to_string(expId[i]);
      if (bd > expDtor[i]) {
        if (expDtor[i] == 0) {
          int o = -1;
          for (int q = 0; q < NOBJ; ++q)
            if (alive[q] && trk[q] == i)
              o = q;
          fail(name, "destroyed-while-referenced",
               who + " was destroyed at position " + std::to_string(tracks[i].pos.load()) + " while the model holds " +
                   std::to_string(o >= 0 ? expl[o] + hcnt[o] : -1) + " reference(s)");
        } else
          fail(name, "destroyed-twice", who + " destroyed " + std::to_string(bd) + " times (last at position " +
                                            std::to_string(tracks[i].pos.load()) + ")");
        return;
      }
      if (bd < expDtor[i]) {
        fail(name, "not-destroyed-at-last-release",
             who + " lost its last reference at position " + std::to_string(expPos[i]) + " but its destructor did not run");
        return;
      }
      if (bd == 1 && tracks[i].pos.load() != expPos[i]) {
        fail(name, "destroyed-at-wrong-position",
             who + " destroyed at position " + std::to_string(tracks[i].pos.load()) + " expected " + std::to_string(expPos[i]));
        return;
      }
      if (bd == 1 && dd != (trackDerived[i] ? 1 : 0)) {
        fail(name, "derived-destructor-count", who + ": derived-class destructor ran " + std::to_string(dd) + " times");
        return;
      }
      if (bd == 0 && dd != 0) {
        fail(name, "destroyed-while-referenced", who + ": derived part destroyed while references remain");
        return;
      }
    }
    // 2. counts of every live object
    for (int o = 0; o < NOBJ; ++o)
      if (alive[o]) {
        long long c = obj[o]->useCount();
        if (c != expl[o] + hcnt[o]) {
          fail(name, "useCount",
               "object id " + std::to_string(expId[trk[o]]) + " useCount()=" + std::to_string(c) + " expected " +
                   std::to_string(expl[o] + hcnt[o]) + " (explicit " + std::to_string(expl[o]) + " + handles " +
                   std::to_string(hcnt[o]) + ")");
          return;
        }
      }
    // 3. every live handle: pointee, bool, dereference
    for (int s = 0; s < NH; ++s) {
      if (hobj[s] == -2)
        continue;
      int o = hobj[s];
      const void *got = isB(s) ? (const void *)hb[s]->ptr : (const void *)hd[s - NB]->ptr;
      const void *exp = isB(s) ? (const void *)rawB(o) : (const void *)rawD(o);
      if (got != exp) {
        fail(name, "handle-pointee", "handle slot " + std::to_string(s) + " points at " + (got ? "another object" : "null") +
                                         ", expected " + (o < 0 ? std::string("null") : "object id " + std::to_string(expId[trk[o]])));
        return;
      }
      bool bv = isB(s) ? bool(*hb[s]) : bool(*hd[s - NB]);
      if (bv != (o >= 0)) {
        vh::violation("C08:operator-bool", std::string("operator bool is ") + (bv ? "true" : "false") + " for a " +
                                               (o >= 0 ? "non-null" : "null") + " handle", ctx());
        failed = true;
        return;
      }
      if (o >= 0) {
        int id1 = isB(s) ? (**hb[s]).id : (**hd[s - NB]).id;
        int id2 = isB(s) ? (*hb[s])->id : (*hd[s - NB])->id;
        const void *ad = isB(s) ? (const void *)&**hb[s] : (const void *)&**hd[s - NB];
        if (id1 != expId[trk[o]] || id2 != expId[trk[o]] || ad != exp) {
          vh::violation("C08:dereference", "operator* / operator-> do not reach the pointee", ctx());
          failed = true;
          return;
        }
        if (!isB(s) && (*hd[s - NB])->payload[5] != expId[trk[o]] * 7 + 5) {
          vh::violation("C08:dereference", "derived payload not reachable through Ref<Derived>", ctx());
          failed = true;
          return;
        }
      }
    }
    // 4. comparisons of every same-type pair (incl. a handle with itself)
    for (int s = 0; s < NH; ++s)
      for (int j = 0; j < NH; ++j) {
        if (hobj[s] == -2 || hobj[j] == -2 || !sameType(s, j))
          continue;
        bool eq, ne, lt, expLt;
        bool expEq = hobj[s] == hobj[j];
        // every operator through every access path: both handles mutable, the left one const, both const
        // (the result must not depend on how the caller happens to hold the handles)
        bool pathsAgree = true;
        if (isB(s)) {
          const BP &cs = *hb[s];
          const BP &cj = *hb[j];
          eq    = *hb[s] == *hb[j];
          ne    = *hb[s] != *hb[j];
          lt    = *hb[s] < *hb[j];
          pathsAgree = (cs == *hb[j]) == eq && (cs == cj) == eq && (cs != *hb[j]) == ne && (cs != cj) == ne && (*hb[s] != cj) == ne && (cs < cj) == lt;
          expLt = std::less<Base *>()(rawB(hobj[s]), rawB(hobj[j]));
        } else {
          const DP &cs = *hd[s - NB];
          const DP &cj = *hd[j - NB];
          eq    = *hd[s - NB] == *hd[j - NB];
          ne    = *hd[s - NB] != *hd[j - NB];
          lt    = *hd[s - NB] < *hd[j - NB];
          pathsAgree = (cs == *hd[j - NB]) == eq && (cs == cj) == eq && (cs != *hd[j - NB]) == ne && (cs != cj) == ne && (*hd[s - NB] != cj) == ne && (cs < cj) == lt;
          expLt = std::less<Derived *>()(rawD(hobj[s]), rawD(hobj[j]));
        }
        if (!pathsAgree) {
          vh::violation("C08:compare:const-access-path-differs", std::string("==, != or < gives another result when a handle is held by const reference") +
                                                                     " for handle slots " + std::to_string(s) + "," + std::to_string(j) + (expEq ? " (same pointee)" : " (different pointees)"), ctx());
          failed = true;
        }
        std::string w = " for handle slots " + std::to_string(s) + "," + std::to_string(j) +
                        (expEq ? " (same pointee)" : " (different pointees)");
        if (eq != expEq) {
          vh::violation("C08:compare:operator==", std::string("operator== is ") + (eq ? "true" : "false") + w, ctx());
          failed = true;
        }
        if (ne != !expEq) {
          vh::violation("C08:compare:operator!=", std::string("operator!= is ") + (ne ? "true" : "false") + w, ctx());
          failed = true;
        }
        if (lt != expLt) {
          vh::violation("C08:compare:operator<", std::string("operator< is ") + (lt ? "true" : "false") +
                                                     " but the pointer order says " + (expLt ? "true" : "false") + w, ctx());
          failed = true;
        }
        if (failed)
          return;
      }
  }

  // release everything: handles first or explicit references first (chosen by the caller)
  void cleanup(bool handlesFirst, vh::Rng &r)
  {
    for (int phase = 0; phase < 2 && !failed; ++phase) {
      bool doHandles = (phase == 0) == handlesFirst;
      if (doHandles) {
        int order[NH] = {0, 1, 2, 3, 4};
        for (int i = NH - 1; i > 0; --i)
          std::swap(order[i], order[r.below(i + 1)]);
        for (int i = 0; i < NH; ++i) {
          Op op = {K_H_DESTROY, order[i], 0};
          apply(op);
        }
      } else {
        for (int o = 0; o < NOBJ; ++o)
          while (!failed && alive[o] && expl[o] > 0) {
            Op op = {K_DEC, o, 0};
            apply(op);
          }
      }
    }
    if (failed)
      return;
    for (int o = 0; o < NOBJ; ++o)
      if (alive[o]) {
        failed = true;
        vh::violation("C08:harness:model-not-empty", "internal: model still holds an object after the final release", ctx());
      }
    for (int i = 0; i < nTracks && !failed; ++i)
      if (tracks[i].baseDtor.load() != 1) {
        failed = true;
        vh::violation("C08:final-release:destruction-count",
                      "object id " + std::to_string(expId[i]) + " destroyed " + std::to_string(tracks[i].baseDtor.load()) +
                          " times over the whole history",
                      ctx());
      }
  }
};

// pick a handle slot of the wanted state; -1 if none.  want: 0 = does not exist, 1 = exists,
// 2 = exists (prefer non-null).  type: -1 any, 0 Base handles, 1 Derived handles
static int pickSlot(vh::Rng &r, const Runner &m, int want, int type)
{
  int cand[NH], n = 0, nn[NH], k = 0;
  for (int s = 0; s < NH; ++s) {
    if (type == 0 && !isB(s))
      continue;
    if (type == 1 && isB(s))
      continue;
    bool exists = m.hobj[s] != -2;
    if ((want == 0) == exists)
      continue;
    cand[n++] = s;
    if (m.hobj[s] >= 0)
      nn[k++] = s;
  }
  if (!n)
    return -1;
  if (want == 2 && k && r.chance(4, 5))
    return nn[r.below(k)];
  return cand[r.below(n)];
}
// a live pointee slot acceptable for handle slot s (or -1 = null)
static int pickObj(vh::Rng &r, const Runner &m, int s, unsigned nullNum, unsigned nullDen)
{
  int cand[NOBJ], n = 0;
  for (int o = 0; o < NOBJ; ++o)
    if (m.alive[o] && typeOK(s, o))
      cand[n++] = o;
  if (!n || r.chance(nullNum, nullDen))
    return -1;
  return cand[r.below(n)];
}

static Op randomOp(vh::Rng &r, const Runner &m)
{
  //                                 CRE DEF CPY MOV CNV RAW aCP aMV aRW aCV DES TMP SWP INC DEC
  static const int weights[NKIND] = {6,  1,  6,  5,  5,  9,  12, 8,  9,  5,  5,  2,  2,  4,  7};
  int total = 0;
  for (int i = 0; i < NKIND; ++i)
    total += weights[i];
  for (int tries = 0; tries < 60; ++tries) {
    int w = (int)r.below(total), kind = 0;
    while (w >= weights[kind])
      w -= weights[kind++];
    Op op = {kind, 0, 0};
    switch (kind) {
    case K_CREATE:
    case K_INC:
    case K_DEC: op.a = (int)r.below(NOBJ); break;
    case K_H_DEFAULT: op.a = pickSlot(r, m, 0, -1); break;
    case K_H_DESTROY:
    case K_TEMP: op.a = pickSlot(r, m, 1, -1); break;
    case K_H_COPY:
    case K_H_MOVE:
      op.a = pickSlot(r, m, 0, -1);
      op.b = op.a < 0 ? -1 : pickSlot(r, m, 2, isB(op.a) ? 0 : 1);
      break;
    case K_A_MOVE:
    case K_SWAP:
      op.a = pickSlot(r, m, 1, -1);
      op.b = op.a < 0 ? -1 : pickSlot(r, m, 2, isB(op.a) ? 0 : 1);
      break;
    case K_A_COPY:
      op.a = pickSlot(r, m, r.chance(1, 2) ? 2 : 1, -1);
      op.b = op.a < 0 ? -1 : r.chance(1, 5) ? op.a : pickSlot(r, m, 2, isB(op.a) ? 0 : 1);
      break;
    case K_H_CONVERT:
      op.a = pickSlot(r, m, 0, 0);
      op.b = pickSlot(r, m, 2, 1);
      break;
    case K_A_CONVERT:
      op.a = pickSlot(r, m, 1, 0);
      op.b = pickSlot(r, m, 2, 1);
      break;
    case K_H_RAW:
      op.a = pickSlot(r, m, 0, -1);
      op.b = op.a < 0 ? -1 : pickObj(r, m, op.a, 1, 8);
      break;
    case K_A_RAW:
      op.a = pickSlot(r, m, r.chance(1, 2) ? 2 : 1, -1);
      if (op.a >= 0)
        op.b = (r.chance(1, 4) && m.hobj[op.a] >= 0) ? m.hobj[op.a] : pickObj(r, m, op.a, 1, 5);
      break;
    }
    if (op.a < 0 || (op.b < 0 && kind != K_H_RAW && kind != K_A_RAW))
      continue;
    if (m.feasible(op))
      return op;
  }
  Op none = {-1, 0, 0};
  return none;
}

// deterministic boundary histories (run before the random ones)
static const Op scripted[][16] = {
    // sole-owner self assignment (copy and raw), then destruction through the handle
    {{K_CREATE, 1, 0}, {K_H_RAW, 0, 1}, {K_DEC, 1, 0}, {K_A_COPY, 0, 0}, {K_A_RAW, 0, 1}, {K_TEMP, 0, 0}, {K_H_DESTROY, 0, 0}, {-1, 0, 0}},
    {{K_CREATE, 2, 0}, {K_H_RAW, 3, 2}, {K_DEC, 2, 0}, {K_A_COPY, 3, 3}, {K_A_RAW, 3, 2}, {K_A_RAW, 3, -1}, {-1, 0, 0}},
    // two handles on one object, assignment between them, last one released by null assignment
    {{K_CREATE, 0, 0}, {K_H_RAW, 0, 0}, {K_H_COPY, 1, 0}, {K_DEC, 0, 0}, {K_A_COPY, 0, 1}, {K_A_COPY, 1, 0}, {K_H_DESTROY, 0, 0},
     {K_A_COPY, 1, 1}, {K_A_RAW, 1, -1}, {-1, 0, 0}},
    // moves from empty handles, copies of null
    {{K_H_DEFAULT, 0, 0}, {K_H_MOVE, 1, 0}, {K_A_MOVE, 0, 1}, {K_H_COPY, 2, 0}, {K_A_COPY, 2, 1}, {K_A_RAW, 2, -1}, {K_SWAP, 0, 1},
     {K_H_RAW, 3, -1}, {K_H_CONVERT, 0, 3}, {K_TEMP, 3, 0}, {-1, 0, 0}},
    // copy assignment releases the old pointee's last reference
    {{K_CREATE, 0, 0}, {K_CREATE, 1, 0}, {K_H_RAW, 0, 0}, {K_H_RAW, 1, 1}, {K_DEC, 0, 0}, {K_DEC, 1, 0}, {K_A_COPY, 0, 1},
     {K_A_MOVE, 0, 1}, {K_H_DESTROY, 1, 0}, {K_H_DESTROY, 0, 0}, {-1, 0, 0}},
    // move assignment / raw assignment release the old pointee's last reference
    {{K_CREATE, 1, 0}, {K_CREATE, 2, 0}, {K_H_RAW, 3, 1}, {K_H_RAW, 4, 2}, {K_DEC, 1, 0}, {K_A_MOVE, 3, 4}, {K_A_RAW, 4, 2},
     {K_DEC, 2, 0}, {K_A_RAW, 3, -1}, {K_A_RAW, 4, -1}, {-1, 0, 0}},
    // derived -> base conversion keeps the object alive after all derived handles are gone
    {{K_CREATE, 2, 0}, {K_H_RAW, 4, 2}, {K_H_CONVERT, 0, 4}, {K_DEC, 2, 0}, {K_H_DESTROY, 4, 0}, {K_H_DEFAULT, 3, 0},
     {K_H_DEFAULT, 1, 0}, {K_A_CONVERT, 1, 3}, {K_A_RAW, 3, 2}, {K_A_CONVERT, 1, 3}, {K_H_DESTROY, 0, 0}, {K_H_DESTROY, 3, 0},
     {K_A_RAW, 1, -1}, {-1, 0, 0}},
    // move construction transfers the only reference; swap; explicit inc/dec around handles
    {{K_CREATE, 0, 0}, {K_H_RAW, 0, 0}, {K_DEC, 0, 0}, {K_H_MOVE, 1, 0}, {K_H_MOVE, 2, 1}, {K_SWAP, 0, 2}, {K_INC, 0, 0},
     {K_H_DESTROY, 0, 0}, {K_DEC, 0, 0}, {-1, 0, 0}},
    // object recreated in the same slot after destruction (stale pointers must not be kept)
    {{K_CREATE, 1, 0}, {K_H_RAW, 0, 1}, {K_DEC, 1, 0}, {K_A_RAW, 0, -1}, {K_CREATE, 1, 0}, {K_A_RAW, 0, 1}, {K_H_COPY, 1, 0},
     {K_DEC, 1, 0}, {K_A_COPY, 0, 1}, {K_H_DESTROY, 0, 0}, {K_H_DESTROY, 1, 0}, {-1, 0, 0}},
    // creator reference is the last one
    {{K_CREATE, 2, 0}, {K_H_RAW, 4, 2}, {K_H_COPY, 3, 4}, {K_H_CONVERT, 1, 3}, {K_H_DESTROY, 4, 0}, {K_H_DESTROY, 3, 0},
     {K_H_DESTROY, 1, 0}, {K_INC, 2, 0}, {K_DEC, 2, 0}, {K_DEC, 2, 0}, {-1, 0, 0}},
};
static const long nScripted = sizeof(scripted) / sizeof(scripted[0]);

struct Progress
{
  volatile long completed;
  volatile long failed;
};
static Progress *g_progress = 0;

static void runHistory(long k, long nTotal)
{
  if (!vh::wantCase(k))
    return;
  vh::Rng r(vh::seed() * 1000003ull + (uint64_t)k, 8);
  {
    Runner m(k);
    if (k < 2 * nScripted) {
      const Op *s = scripted[k % nScripted];
      for (int i = 0; i < 16 && s[i].kind >= 0; ++i)
        m.apply(s[i]);
      m.cleanup(k < nScripted, r);
      vh::count("histories_scripted");
    } else {
      // warm-up (part of the history): a few objects, a few handles on them, some creator
      // references dropped so that handles are the only owners
      if (!r.chance(1, 8)) {
        int nc = (int)r.range(1, NOBJ);
        for (int i = 0; i < nc; ++i) {
          Op op = {K_CREATE, (int)r.below(NOBJ), 0};
          m.apply(op);
        }
        int nh = (int)r.range(0, 4);
        for (int i = 0; i < nh; ++i) {
          int s = pickSlot(r, m, 0, -1);
          if (s < 0)
            break;
          Op op = {K_H_RAW, s, pickObj(r, m, s, 1, 10)};
          m.apply(op);
        }
        for (int o = 0; o < NOBJ; ++o)
          if (m.alive[o] && m.hcnt[o] > 0 && r.chance(2, 3)) {
            Op op = {K_DEC, o, 0};
            m.apply(op);
          }
      }
      int len = (int)r.range(1, MAXRANDOM - m.pos);
      if (r.chance(1, 6))
        len = (int)r.range(1, 8);
      for (int i = 0; i < len && !m.failed; ++i) {
        Op op = randomOp(r, m);
        if (op.kind < 0)
          break;
        m.apply(op);
      }
      m.cleanup(r.chance(1, 2), r);
    }
    int byHandle = 0, copies = 0;
    for (int i = 0; i < NNAME; ++i) {
      if (m.nameCount[i])
        vh::count((std::string("op_") + nameStr[i]).c_str(), m.nameCount[i]);
      if (m.destroyedBy[i])
        vh::count((std::string("last_release_by_") + nameStr[i]).c_str(), m.destroyedBy[i]);
      if (i != N_DEC)
        byHandle += m.destroyedBy[i];
    }
    copies = m.nameCount[N_H_COPY] + m.nameCount[N_A_COPY] + m.nameCount[N_H_RAW] + m.nameCount[N_A_RAW] + m.nameCount[N_H_CONVERT] +
             m.nameCount[N_H_MOVE] + m.nameCount[N_A_MOVE];
    if (m.soleOwnerSelfAssign)
      vh::count("self_assign_while_sole_owner", m.soleOwnerSelfAssign);
    vh::count("histories");
    vh::count("operations_checked", m.pos);
    vh::maxi("max_history_length", m.pos);
    vh::evaluated(m.hash, byHandle > 0 && copies > 0);
    if (k >= 2 * nScripted && k < 2 * nScripted + 3)
      vh::sample(vh::J().kv("kind", "history").kv("ops", m.desc).kv("objects_created", (long long)m.nTracks).str(), 3);
    if (m.failed) {
      vh::count("histories_abandoned_after_violation");
      if (g_progress)
        __sync_fetch_and_add(&g_progress->failed, 1);
    }
  }
  if (g_progress)
    __sync_fetch_and_add(&g_progress->completed, 1);
#if C08_HAVE_LSAN
  // children leave through _exit: ask LeakSanitizer explicitly (no-op unless detect_leaks=1)
  if ((k + 1) % 1000 == 0 || k == nTotal - 1 || vh::st().onlyCase >= 0) {
    vh::count("lsan_leak_checks");
    if (__lsan_do_recoverable_leak_check())
      vh::violation("C08:leak:unreleased-memory-after-final-release",
                    "LeakSanitizer found unreachable memory after histories that released every reference (report in the "
                    "sanitizer log of this process)",
                    "#" + std::to_string(k) + " (histories since the previous leak check)");
  }
#endif
}

// ------------------------------------------------------------------ part (b): threads
struct Barrier
{
  std::atomic<int> arrived;
  int n;
  explicit Barrier(int n_) : arrived(0), n(n_) {}
  void wait()
  {
    arrived++;
    while (arrived.load() < n)
      std::this_thread::yield();
  }
};

static void stressRound(int T, long iters, int round)
{
  const int M = 4;  // 0,1: Base   2,3: Derived
  std::string ctx = "threads=" + std::to_string(T) + " round=" + std::to_string(round) + " iterations/thread=" + std::to_string(iters);
  Track *tr = new Track[M];
  Base *raw[M];
  g_pos = -2;
  for (int m = 0; m < M; ++m)
    raw[m] = m >= 2 ? static_cast<Base *>(new Derived(&tr[m], 100 + m)) : new Base(&tr[m], 100 + m);
  std::vector<std::vector<BP> > owned(T, std::vector<BP>(M));
  for (int t = 0; t < T; ++t)
    for (int m = 0; m < M; ++m)
      owned[t][m] = raw[m];
  std::vector<BP> sharedH(M);  // read-only source handles all threads copy from
  for (int m = 0; m < M; ++m)
    sharedH[m] = owned[0][m];
  // odd objects: the creator's reference is dropped right away, threads hold the rest
  int creator[M];
  for (int m = 0; m < M; ++m) {
    creator[m] = (m & 1) ? 0 : 1;
    if (!creator[m])
      raw[m]->refDec();
  }
  for (int m = 0; m < M; ++m) {
    long long c = raw[m]->useCount();
    VH_CHECK(c == creator[m] + T + 1, "C08:threads:setup-count",
             "useCount()=" + std::to_string(c) + " expected " + std::to_string(creator[m] + T + 1) + " before the threads start", ctx);
  }
  const std::vector<BP> &sharedC = sharedH;
  const long long upper          = 2 + (long long)T * (1 + 6 + 2 + 8);
  std::atomic<long> opsDone(0), monitorEvals(0);
  std::atomic<int> bad(0);
  Barrier startLine(T);
  // ---- phase 1: churn
  {
    std::vector<std::thread> th;
    for (int t = 0; t < T; ++t)
      th.push_back(std::thread([&, t]() {
        vh::Rng r(vh::seed() * 7919ull + (uint64_t)round * 131 + T, 2000 + t);
        BP loc[4];
        DP locD[2];
        int myIncs[M] = {0, 0, 0, 0};
        long mon = 0;
        startLine.wait();
        for (long i = 0; i < iters; ++i) {
          int m = (int)r.below(M), a = (int)r.below(4), b = (int)r.below(4), c = (int)r.below(2);
          switch (r.below(14)) {
          case 0: loc[a] = owned[t][m]; break;
          case 1: loc[a] = sharedC[m]; break;
          case 2: loc[a] = raw[m]; break;
          case 3:
            if (a != b)
              loc[a] = std::move(loc[b]);
            break;
          case 4: loc[a] = (Base *)0; break;
          case 5: {
            BP tmp(loc[a]);
            BP tmp2(std::move(tmp));
            BP tmp3(sharedC[m]);
            tmp3 = tmp2;
            break;
          }
          case 6:
            if (m >= 2) {
              locD[c] = static_cast<Derived *>(raw[m]);
              loc[a]  = BP(static_cast<const DP &>(locD[c]));
            } else
              locD[c] = (Derived *)0;
            break;
          case 7:
            if (myIncs[m] < 8) {
              raw[m]->refInc();
              myIncs[m]++;
            }
            break;
          case 8:
            if (myIncs[m] > 0) {
              raw[m]->refDec();
              myIncs[m]--;
            }
            break;
          case 9: loc[a] = loc[a]; break;
          case 10: std::swap(loc[a], loc[b]); break;
          case 11: {
            BP viaValue = passThroughB(sharedC[m]);
            loc[a]      = viaValue;
            break;
          }
          default: {
            // monitor: I hold a reference to every shared object, so none may be destroyed and
            // the count is at least what this thread holds
            long long held = 1 + myIncs[m];
            for (int q = 0; q < 4; ++q)
              held += loc[q].ptr == raw[m];
            for (int q = 0; q < 2; ++q)
              held += locD[q].ptr == raw[m];
            if (tr[m].baseDtor.load() != 0) {
              bad++;
              vh::violation("C08:threads:destroyed-while-referenced", "object destroyed while threads still hold references", ctx);
              return;  // touching the object any further would be a use-after-free
            }
            long long cnt = raw[m]->useCount();
            if (cnt < held || cnt > upper) {
              bad++;
              vh::violation("C08:threads:useCount-out-of-bounds",
                            "useCount()=" + std::to_string(cnt) + " while this thread alone holds " + std::to_string(held) +
                                " (upper bound " + std::to_string(upper) + ")",
                            ctx);
            }
            bool eq = loc[a] == loc[b], ne = loc[a] != loc[b];
            if (eq != (loc[a].ptr == loc[b].ptr) || ne == eq) {
              bad++;
              vh::violation("C08:threads:compare", "==/!= disagree with the pointers", ctx);
            }
            ++mon;
          }
          }
          if (r.chance(1, 64))
            std::this_thread::yield();
        }
        for (int m = 0; m < M; ++m)
          while (myIncs[m] > 0) {
            raw[m]->refDec();
            myIncs[m]--;
          }
        opsDone += iters;
        monitorEvals += mon;
        // local handles are released here (scope exit)
      }));
    for (size_t i = 0; i < th.size(); ++i)
      th[i].join();
  }
  vh::count("thread_ops", opsDone.load());
  vh::count("thread_monitor_evaluations", monitorEvals.load());
  if (bad.load()) {
    // state unknown: do not touch the objects again (leaks deliberately)
    vh::count("thread_rounds_abandoned");
    return;
  }
  bool ok = true;
  for (int m = 0; m < M; ++m) {
    if (tr[m].baseDtor.load() != 0) {
      vh::violation("C08:threads:destroyed-while-referenced",
                    "object destroyed during the churn phase although " + std::to_string(creator[m] + T + 1) + " references remain", ctx);
      ok = false;
      continue;
    }
    long long c = raw[m]->useCount();
    if (c != creator[m] + T + 1) {
      vh::violation("C08:threads:count-after-join",
                    "useCount()=" + std::to_string(c) + " expected " + std::to_string(creator[m] + T + 1) +
                        " (creator + one owned handle per thread + one shared handle)",
                    ctx);
      ok = false;
    }
  }
  if (!ok) {
    vh::count("thread_rounds_abandoned");
    return;
  }
  // ---- phase 2: everybody lets go at the same time
  {
    Barrier line2(T + 1);
    std::vector<std::thread> th;
    for (int t = 0; t < T; ++t)
      th.push_back(std::thread([&, t]() {
        vh::Rng r(vh::seed() * 104729ull + (uint64_t)round, 3000 + t);
        int order[M] = {0, 1, 2, 3};
        for (int i = M - 1; i > 0; --i)
          std::swap(order[i], order[r.below(i + 1)]);
        line2.wait();
        for (int i = 0; i < M; ++i) {
          if (r.chance(1, 3))
            std::this_thread::yield();
          switch (r.below(3)) {
          case 0: owned[t][order[i]] = (Base *)0; break;
          case 1: owned[t][order[i]] = BP(); break;
          default: {
            BP taker(std::move(owned[t][order[i]]));
          }
          }
        }
      }));
    line2.wait();
    for (int m = 0; m < M; ++m)
      sharedH[m] = (Base *)0;
    for (size_t i = 0; i < th.size(); ++i)
      th[i].join();
  }
  for (int m = 0; m < M; ++m) {
    int bd = tr[m].baseDtor.load(), dd = tr[m].derivedDtor.load();
    if (creator[m]) {
      if (bd != 0) {
        vh::violation("C08:threads:destroyed-while-referenced", "object destroyed although the creator's reference remains", ctx);
        continue;
      }
      long long c = raw[m]->useCount();
      if (c != 1) {
        vh::violation("C08:threads:count-after-release", "useCount()=" + std::to_string(c) + " expected 1 (creator only)", ctx);
        continue;  // leak it: releasing would hide nothing but could double free
      }
      raw[m]->refDec();
      bd = tr[m].baseDtor.load();
      dd = tr[m].derivedDtor.load();
      VH_CHECK(bd == 1, "C08:threads:not-destroyed-at-last-release",
               "creator released the last reference, destructor ran " + std::to_string(bd) + " times", ctx);
    } else {
      if (bd == 0)
        vh::violation("C08:threads:not-destroyed-at-last-release",
                      "all " + std::to_string(T + 1) + " references were released concurrently, the destructor never ran", ctx);
      else if (bd != 1)
        vh::violation("C08:threads:destroyed-twice", "destructor ran " + std::to_string(bd) + " times", ctx);
    }
    if (bd == 1)
      VH_CHECK(dd == (m >= 2 ? 1 : 0), "C08:threads:derived-destructor-count",
               "derived-class destructor ran " + std::to_string(dd) + " times", ctx);
    vh::count("thread_objects_released");
  }
  vh::count("thread_rounds");
  vh::maxi("max_threads", T);
  vh::evaluated(vh::hash64(vh::hash64(vh::hash64(4242, T), round), vh::seed()), true);
  delete[] tr;
}

// ------------------------------------------------------------------ (c) handles stored inside pointees
// Linked structures: every node holds a handle to the next one and is owned only by its
// predecessor (the creator's references are dropped).  Walking the chain with `cur = cur->next`
// (copy) or `cur = std::move(cur->next)` (move) makes each assignment release the last
// reference of the node that CONTAINS the handle being assigned from.  Oracle: each node is
// destroyed exactly once, by the step that moves past it, never earlier; ASan watches the
// assignment operators themselves.
struct ChainNode;
static std::vector<int> *g_chainDestroyedAt;  // step at which node i was destroyed (-1 = alive)
static int g_chainStep = -1;
typedef memory::IntrusivePtr<memory::RefCountedObject> ObjP;  // IntrusivePtr<T> needs a complete T: link through the base
struct ChainNode : public memory::RefCount
{
  ObjP next;
  int id;
  explicit ChainNode(int i) : id(i) {}
  ~ChainNode() override
  {
    if ((*g_chainDestroyedAt)[id] != -1)
      vh::violation("C08:chain:destroyed-twice", "node " + std::to_string(id) + " destroyed twice", "chain walk");
    (*g_chainDestroyedAt)[id] = g_chainStep;
  }
};

static void chainCase(long k)
{
  vh::Rng r(vh::seed(), 8800 + (uint64_t)k);
  int n        = (int)r.range(2, 12);
  int mode     = (int)(k % 3);  // 0 copy-assign walk, 1 move-assign walk, 2 raw-pointer walk
  std::string ctx = "#" + std::to_string(k) + " chain of " + std::to_string(n) + " nodes, walk by " + (mode == 0 ? "cur = cur->next" : mode == 1 ? "cur = std::move(cur->next)" : "cur = cur->next.ptr");
  std::vector<int> destroyedAt((size_t)n, -1);
  g_chainDestroyedAt = &destroyedAt;
  g_chainStep        = -1;
  std::vector<ChainNode *> raw;
  for (int i = 0; i < n; ++i)
    raw.push_back(new ChainNode(i));
  for (int i = 0; i + 1 < n; ++i)
    raw[i]->next = raw[i + 1];
  ObjP cur(raw[0]);
#define NODE(h) (static_cast<ChainNode *>((h).ptr))
  for (int i = 0; i < n; ++i)
    raw[i]->refDec();  // drop the creator's reference: node i is now owned by node i-1 (node 0 by cur)
  for (int i = 0; i < n; ++i)
    if (destroyedAt[i] != -1)
      vh::violation("C08:chain:destroyed-while-referenced", "node " + std::to_string(i) + " destroyed although its predecessor still refers to it", ctx);
  for (int step = 0; step < n; ++step) {
    g_chainStep = step;
    VH_CHECK(cur && NODE(cur)->id == step && cur->useCount() == 1, "C08:chain:wrong-node-or-count",
             "walker is at node " + std::to_string(cur ? NODE(cur)->id : -1) + " with useCount " + std::to_string(cur ? (int)cur->useCount() : -1) + ", expected node " + std::to_string(step) + " with 1", ctx);
    if (!cur)
      break;
    if (mode == 0)
      cur = NODE(cur)->next;
    else if (mode == 1)
      cur = std::move(NODE(cur)->next);
    else
      cur = NODE(cur)->next.ptr;
    // the step released the last reference of node `step`: destroyed now, and only that node
    for (int i = 0; i < n; ++i) {
      int expect = i <= step ? i : -1;
      if (destroyedAt[i] != expect) {
        vh::violation(destroyedAt[i] == -1 ? "C08:chain:not-destroyed-at-last-release" : "C08:chain:destroyed-while-referenced",
                      "after step " + std::to_string(step) + " node " + std::to_string(i) + " was destroyed at step " + std::to_string(destroyedAt[i]) + ", expected " + std::to_string(expect), ctx);
        g_chainDestroyedAt = 0;
        return;
      }
    }
  }
  VH_CHECK(!cur, "C08:chain:walker-not-empty", "after walking off the end the handle is not empty", ctx);
  vh::count(mode == 0 ? "chain_walks_copy" : mode == 1 ? "chain_walks_move" : "chain_walks_raw");
  vh::evaluated(vh::hash64(vh::hash64(8080, (uint64_t)n), (uint64_t)mode), true);
}

// ------------------------------------------------------------------ main
// ------------------------------------------------------------------ part (d): very large counts
// The count is a 64-bit value; holding 2^31 .. 2^33 references for real would take that many refInc() calls (and as
// many handles would take tens of gigabytes). The monitor instead moves the count there directly: it locates the
// counter inside the object (the first 64-bit word behind the vtable pointer), proves that this is the counter by
// watching refInc()/refDec()/useCount() move exactly that word, sets it to "B references are held elsewhere", and
// then runs ordinary handle traffic and releases across the boundary. While B references remain nothing may be
// destroyed and useCount() must say so; the last release destroys exactly once.
static void hugeCountCase(long k)
{
  static const long long Bs[] = {0x7fffffffLL, 0x80000000LL, 0xffffffffLL, 0x100000000LL, 0x100000001LL, 0x200000000LL, 0x300000000LL, 0x7fffffff00000000LL};
  long long B = Bs[k % 8];
  std::string ctx = "#" + std::to_string(k) + " huge count: " + std::to_string(B) + " references held elsewhere";
  Track trk;
  Derived *o = new Derived(&trk, 5);
  memory::RefCountedObject *rc = o;
  std::atomic<long long> *cnt = reinterpret_cast<std::atomic<long long> *>(reinterpret_cast<char *>(rc) + sizeof(void *));
  // is this word the counter?
  bool isCounter = cnt->load() == 1 && o->useCount() == 1;
  o->refInc();
  isCounter = isCounter && cnt->load() == 2 && o->useCount() == 2;
  o->refDec();
  isCounter = isCounter && cnt->load() == 1;
  if (!isCounter) {
    vh::inconclusive("huge-count scenario: the reference counter was not found behind the vtable pointer; scenario skipped");
    o->refDec();
    return;
  }
  cnt->store(B + 1);  // the creator's reference plus B held elsewhere
  bool ok = true;
  {
    DP h1(o), h2(h1);
    BP hb(h2);
    if (o->useCount() != B + 4)
      vh::violation("C08:huge-count:useCount", "useCount()=" + std::to_string(o->useCount()) + " with three handles on top of " + std::to_string(B + 1) + " references", ctx), ok = false;
  }
  if (trk.baseDtor.load() != 0)
    vh::violation("C08:huge-count:destroyed-while-referenced", "object destroyed by a handle release although " + std::to_string(B + 1) + " references remain", ctx), ok = false;
  if (ok) {
    o->refDec();  // the creator lets go: B references remain
    if (trk.baseDtor.load() != 0)
      vh::violation("C08:huge-count:destroyed-while-referenced", "object destroyed by the creator's refDec() although " + std::to_string(B) + " references remain", ctx), ok = false;
    else if (o->useCount() != B)
      vh::violation("C08:huge-count:useCount", "useCount()=" + std::to_string(o->useCount()) + " expected " + std::to_string(B), ctx), ok = false;
  }
  if (ok) {
    // two more releases across the boundary, then the references held elsewhere go away but one
    o->refDec();
    o->refDec();
    if (trk.baseDtor.load() != 0 || o->useCount() != B - 2)
      vh::violation("C08:huge-count:destroyed-while-referenced", "object destroyed or miscounted after two more releases (useCount " + std::to_string(trk.baseDtor.load() ? -1 : o->useCount()) + ", expected " + std::to_string(B - 2) + ")", ctx), ok = false;
  }
  if (ok) {
    cnt->store(1);
    o->refDec();
    if (trk.baseDtor.load() != 1 || trk.derivedDtor.load() != 1)
      vh::violation("C08:huge-count:last-release-did-not-destroy-once", "destructor calls after the last release: base " + std::to_string(trk.baseDtor.load()) + ", derived " + std::to_string(trk.derivedDtor.load()), ctx);
  }
  vh::count("huge_count_scenarios");
  vh::evaluated(vh::hash64(808, (uint64_t)B), true);
}

int main(int argc, char **argv)
{
  vh::init(argc, argv);
  vh::rule(
      "(a) histories: 20 scripted boundary histories + seeded random ones (1..26 random operations out of 24 operation "
      "families over 3 pointee slots and 5 handle slots, then release of everything, <= 40 operations); every operation is "
      "followed by the full model comparison. distinct = hash of the operation sequence; non-trivial = at least one "
      "handle-creating/assigning operation and at least one object whose last reference was released by a handle operation "
      "(not by refDec). (b) one evaluation per (thread count, round). (d) counts of 2^31 .. 2^63 references: the monitor sets the "
      "64-bit counter (located and verified through refInc/refDec/useCount) and runs handle traffic and releases across the boundary");
  std::string variant = vh::st().variant;
  bool tsan           = variant.find("tsan") != std::string::npos;
  bool asan           = variant.find("asan") != std::string::npos;
  vh::note("variant", variant);
  vh::note("lsan_available", C08_HAVE_LSAN ? "yes" : "no");

  // (a) histories run in chunks of forked cases.  Shared counters tell the parent how many
  // histories completed / were abandoned after a violation, so that a tree in which nearly every
  // history fails or aborts under ASan does not take hours: once violations are on record the
  // remaining chunks are skipped (never the case on a tree that satisfies the property).
  long nHist = tsan ? vh::tier(10000, 200000) : vh::tier(100000, 1000000);
  g_progress = (Progress *)mmap(0, sizeof(Progress), PROT_READ | PROT_WRITE, MAP_SHARED | MAP_ANONYMOUS, -1, 0);
  g_progress->completed = g_progress->failed = 0;
  if (vh::st().onlyCase >= 0) {
    vh::forkedCases(
        nHist, [nHist](long k) { runHistory(k, nHist); }, 20000, 2000, [](long k) { return "#" + std::to_string(k) + " history"; });
  } else {
    const long chunk = 2000;
    for (long base = 0; base < nHist; base += chunk) {
      long n = std::min(chunk, nHist - base);
      vh::forkedCases(
          n, [nHist, base](long i) { runHistory(base + i, nHist); }, 20000, chunk,
          [base](long i) { return "#" + std::to_string(base + i) + " history"; });
      long crashed = base + n - g_progress->completed;
      if (crashed >= 20 || g_progress->failed >= 3000) {
        vh::note("histories_cut_short", "stopped after history #" + std::to_string(base + n - 1) + ": " + std::to_string(crashed) +
                                            " histories died abnormally, " + std::to_string((long)g_progress->failed) +
                                            " were abandoned after a violation");
        break;
      }
    }
  }

  // (d) very large counts
  vh::forkedCases(
      16, [](long k) { hugeCountCase(k); }, 20000, 1, [](long k) { return "C08-huge-count #" + std::to_string(k); });

  // (c) linked structures
  if (vh::st().onlyCase < 0 || true) {
    long nChain = tsan ? 300 : vh::tier(3000, 30000);
    vh::forkedCases(
        nChain, [](long k) { chainCase(k); }, 20000, 1000, [](long k) { return "C08-chain #" + std::to_string(k); });
  }

  // (b)
  if (vh::st().onlyCase < 0) {
    const int Ts[] = {2, 3, 4, 5, 6, 8, 11, 16};
    long iters    = vh::tier(20000, 100000);
    int rounds    = (int)vh::tier(3, 12);
    if (tsan)
      iters /= 10;
    else if (asan)
      iters /= 2;
    for (int ti = 0; ti < 8; ++ti) {
      int T = Ts[ti];
      // each thread count in its own process: a crash/abort in one does not hide the others
      vh::forkedOne("threads=" + std::to_string(T), [T, iters, rounds]() {
        for (int round = 0; round < rounds; ++round)
          stressRound(T, iters, round);
      }, 600000);
    }
  }
  return vh::finish();
}
