// C14 - aligned allocation: alignedMalloc / alignedFree / aligned_allocator / AlignedVector.
//
// Monitors (all decide on executions of the real rkcommon code):
//   * pointer oracle      : result null or ptr % align == 0 (isAligned cross-checked)
//   * usability oracle    : the allocator's own usable-size query (scalable_msize in the TBB
//                           flavour, malloc_usable_size otherwise) must cover the request; the
//                           whole extent is written with a per-block pattern and read back
//   * interval monitor    : live blocks registered after allocation / unregistered before free
//                           must stay pairwise disjoint
//   * integrity monitor   : every live block's pattern is re-verified before its free and at
//                           checkpoints (damage done by the allocation / release of other blocks)
//   * allocator boundary  : overflowing n -> length_error, impossible n <= max_size -> bad_alloc
//   * AlignedVector model : lock-step std::vector model, 64-byte alignment, buffer >= capacity,
//                           element lifetime registry for a non-trivial element type
//   * release monitor     : (plain flavours) address space must not grow with alloc/free cycles
//   * ASan red zones / LSan / allocator aborts decide the rest (forked cases for the vectors).
#include "vh.h"

#include <errno.h>
#include <malloc.h>

#include <algorithm>
#include <memory>
#include <new>
#include <stdexcept>
#include <thread>
#include <initializer_list>
#include <type_traits>

#include "rkcommon/containers/AlignedVector.h"
#include "rkcommon/memory/malloc.h"

#if defined(RKCOMMON_TASKING_TBB)
#include "tbb/scalable_allocator.h"
#define C14_TBB 1
#else
#define C14_TBB 0
#endif

#if defined(__SANITIZE_ADDRESS__)
#define C14_ASAN 1
#else
#define C14_ASAN 0
#endif

using namespace rkcommon;
using rkcommon::containers::aligned_allocator;
using rkcommon::containers::AlignedVector;

typedef unsigned char u8;

// ------------------------------------------------------------------ helpers
static std::string hex(uint64_t v)
{
  char b[32];
  snprintf(b, sizeof b, "0x%llx", (unsigned long long)v);
  return b;
}
static std::string num(uint64_t v) { return std::to_string((unsigned long long)v); }

// usable size of a block as known by the back end that malloc.cpp was built for
static size_t usableSize(void *p)
{
#if C14_TBB
  return scalable_msize(p);
#else
  return malloc_usable_size(p);
#endif
}

static inline uint64_t pw(uint64_t seed, size_t j)
{
  uint64_t x = seed + (uint64_t)j * 0x9E3779B97F4A7C15ull;
  x ^= x >> 29;
  return x * 0xBF58476D1CE4E5B9ull;
}
static void fillPattern(void *p, size_t n, uint64_t seed)
{
  u8 *b     = (u8 *)p;
  size_t nw = n / 8;
  for (size_t j = 0; j < nw; ++j) {
    uint64_t w = pw(seed, j);
    memcpy(b + 8 * j, &w, 8);
  }
  uint64_t w = pw(seed, nw);
  for (size_t i = 8 * nw; i < n; ++i)
    b[i] = (u8)(w >> (8 * (i & 7)));
}
// offset of the first byte that differs, or -1
static long long verifyPattern(const void *p, size_t n, uint64_t seed)
{
  const u8 *b = (const u8 *)p;
  size_t nw   = n / 8;
  for (size_t j = 0; j < nw; ++j) {
    uint64_t w = pw(seed, j), g;
    memcpy(&g, b + 8 * j, 8);
    if (g != w) {
      for (size_t i = 0; i < 8; ++i)
        if (b[8 * j + i] != (u8)(w >> (8 * i)))
          return (long long)(8 * j + i);
    }
  }
  uint64_t w = pw(seed, nw);
  for (size_t i = 8 * nw; i < n; ++i)
    if (b[i] != (u8)(w >> (8 * (i & 7))))
      return (long long)i;
  return -1;
}

// ------------------------------------------------------------------ element types
struct S24
{
  uint64_t a, b, c;
};
struct S100
{
  uint32_t w[25];
};
static_assert(sizeof(S24) == 24, "24-byte struct");
static_assert(sizeof(S100) == 100, "100-byte struct");

// ------------------------------------------------------------------ allocation kinds
// kind 0..2: memory::alignedMalloc family (released by alignedFree)
// kind >=3 : aligned_allocator<T,A>::allocate / deallocate
struct Kind
{
  const char *family;  // key component
  const char *name;
  size_t elem;
  size_t fixedAlign;  // 0 = alignment is a run-time argument
  void *(*alloc)(size_t n, size_t align, bool alt);
  void (*release)(void *p, size_t n);
};

static void *k_raw(size_t n, size_t a, bool) { return memory::alignedMalloc(n, a); }
static void *k_rawDefault(size_t n, size_t, bool) { return memory::alignedMalloc(n); }
template <typename T>
static void *k_typed(size_t n, size_t a, bool useDefault)
{
  return useDefault && a == 64 ? (void *)memory::alignedMalloc<T>(n) : (void *)memory::alignedMalloc<T>(n, a);
}
static void k_free(void *p, size_t) { memory::alignedFree(p); }
template <typename T, int A>
static void *k_alloc(size_t n, size_t, bool hint)
{
  aligned_allocator<T, A> a;
  if (hint)
    return a.allocate(n, (const void *)0);
  return a.allocate(n);
}
template <typename T, int A>
static void k_dealloc(void *p, size_t n)
{
  aligned_allocator<T, A> a;
  a.deallocate((T *)p, n);
}

// default alignment template argument (what AlignedVector uses): must give 64
template <typename T>
static void *k_allocD(size_t n, size_t, bool hint)
{
  aligned_allocator<T> a;
  if (hint)
    return a.allocate(n, (const void *)0);
  return a.allocate(n);
}
template <typename T>
static void k_deallocD(void *p, size_t n)
{
  aligned_allocator<T> a;
  a.deallocate((T *)p, n);
}

static const Kind KINDS[] = {
    {"alignedMalloc", "alignedMalloc(size,align)", 1, 0, k_raw, k_free},
    {"alignedMalloc-default-align", "alignedMalloc(size)", 1, 64, k_rawDefault, k_free},
    {"alignedMalloc-typed", "alignedMalloc<uint16_t>(n,align)", 2, 0, k_typed<uint16_t>, k_free},
    {"alignedMalloc-typed", "alignedMalloc<double>(n,align)", 8, 0, k_typed<double>, k_free},
    {"alignedMalloc-typed", "alignedMalloc<S24>(n,align)", 24, 0, k_typed<S24>, k_free},
    {"alignedMalloc-typed", "alignedMalloc<S100>(n,align)", 100, 0, k_typed<S100>, k_free},
    {"allocator", "aligned_allocator<char>", 1, 64, k_allocD<char>, k_deallocD<char>},
    {"allocator", "aligned_allocator<int>", 4, 64, k_allocD<int>, k_deallocD<int>},
    {"allocator", "aligned_allocator<double>", 8, 64, k_allocD<double>, k_deallocD<double>},
    {"allocator", "aligned_allocator<S24>", 24, 64, k_allocD<S24>, k_deallocD<S24>},
    {"allocator", "aligned_allocator<S100>", 100, 64, k_allocD<S100>, k_deallocD<S100>},
    {"allocator", "aligned_allocator<char,1>", 1, 1, k_alloc<char, 1>, k_dealloc<char, 1>},
    {"allocator", "aligned_allocator<double,16>", 8, 16, k_alloc<double, 16>, k_dealloc<double, 16>},
    {"allocator", "aligned_allocator<S24,128>", 24, 128, k_alloc<S24, 128>, k_dealloc<S24, 128>},
    {"allocator", "aligned_allocator<int,256>", 4, 256, k_alloc<int, 256>, k_dealloc<int, 256>},
    {"allocator", "aligned_allocator<uint16_t,64>", 2, 64, k_alloc<uint16_t, 64>, k_dealloc<uint16_t, 64>},
    {"allocator", "aligned_allocator<S100,4096>", 100, 4096, k_alloc<S100, 4096>, k_dealloc<S100, 4096>},
};
static const int NKINDS     = sizeof(KINDS) / sizeof(KINDS[0]);
static const int FIRST_ALLOCATOR_KIND = 6;

// ------------------------------------------------------------------ live-block monitor
struct Blk
{
  u8 *p;
  size_t bytes;  // extent the caller asked for (n * elem)
  size_t n;
  size_t align;
  uint64_t seed;
  int kind;
  Blk() : p(0), bytes(0), n(0), align(0), seed(0), kind(0) {}
};
static std::string descr(const Blk &b)
{
  return std::string(KINDS[b.kind].name) + " n=" + num(b.n) + " bytes=" + num(b.bytes) + " align=" + num(b.align) + " -> " +
         hex((uint64_t)(uintptr_t)b.p);
}

struct Heap
{
  std::mutex m;
  std::map<uintptr_t, Blk> live;  // non-empty extents, keyed by start
  std::vector<Blk> pool;          // everything that still has to be released
  std::atomic<uint64_t> nextSeed;
  std::atomic<long long> nulls, nullsFeasible, allocs, frees, bytesWritten, bytesVerified, checkpoints, zeroSizeNonNull,
      crossChecks;
  Heap()
      : nextSeed(0x1234), nulls(0), nullsFeasible(0), allocs(0), frees(0), bytesWritten(0), bytesVerified(0), checkpoints(0),
        zeroSizeNonNull(0), crossChecks(0)
  {
  }

  // caller holds m
  bool disjointLocked(const Blk &b, std::string &other)
  {
    uintptr_t s = (uintptr_t)b.p, e = s + b.bytes;
    std::map<uintptr_t, Blk>::iterator it = live.lower_bound(s);
    if (it != live.end() && it->first < e) {
      other = descr(it->second);
      return false;
    }
    if (it != live.begin()) {
      --it;
      if (it->first + it->second.bytes > s) {
        other = descr(it->second);
        return false;
      }
    }
    return true;
  }

  void verifyBlock(const Blk &b, const char *when, const std::string &ctx)
  {
    long long off = verifyPattern(b.p, b.bytes, b.seed);
    bytesVerified += (long long)b.bytes;
    if (off >= 0)
      vh::violation(std::string("C14:") + KINDS[b.kind].family + ":content-corrupted-" + when,
                    "pattern of a live block changed at offset " + num((uint64_t)off) + " (block untouched by the harness since it was filled)",
                    ctx + " block: " + descr(b));
  }

  // all registered blocks still hold their pattern
  void checkpoint(const std::string &ctx)
  {
    std::lock_guard<std::mutex> g(m);
    for (std::map<uintptr_t, Blk>::iterator it = live.begin(); it != live.end(); ++it)
      verifyBlock(it->second, "at-checkpoint", ctx);
    checkpoints++;
  }
};

static void checkIsAligned(void *p, size_t align, const std::string &ctx)
{
  uintptr_t u = (uintptr_t)p;
  bool ok     = memory::isAligned(p, (int)align) == (u % align == 0);
  if (align > 1) {
    void *q1 = (void *)(u + 1), *q2 = (void *)(u + align / 2), *q3 = (void *)(u + align);
    ok = ok && memory::isAligned(q1, (int)align) == ((u + 1) % align == 0);
    ok = ok && memory::isAligned(q2, (int)align) == ((u + align / 2) % align == 0);
    ok = ok && memory::isAligned(q3, (int)align) == ((u + align) % align == 0);
  }
  ok = ok && memory::isAligned(p) == (u % 64 == 0);
  void *q = (void *)(u | 32);
  ok      = ok && memory::isAligned(q) == (((u | 32) % 64) == 0);
  VH_CHECK(ok, "C14:isAligned:wrong-answer", "isAligned disagrees with address % alignment", ctx);
}

static const size_t FEASIBLE = (size_t)1 << 24;

// Allocate one block of `kind`, judge it, fill it, register it.  Returns true when a block
// was added to the pool.
static bool allocOne(Heap &H, int kind, size_t n, size_t alignArg, bool alt, const std::string &where)
{
  const Kind &K = KINDS[kind];
  Blk b;
  b.kind  = kind;
  b.n     = n;
  b.bytes = n * K.elem;
  b.align = K.fixedAlign ? K.fixedAlign : alignArg;
  b.seed  = pw(vh::seed() * 77 + 5, H.nextSeed++);
  void *p = 0;
  bool threwBad = false;
  try {
    p = K.alloc(n, b.align, alt);
  } catch (const std::bad_alloc &) {
    threwBad = true;
  } catch (const std::length_error &) {
    vh::violation("C14:allocator:length_error-for-representable-request", "allocate(n) threw length_error although n*sizeof(T) does not overflow",
                  where + " " + K.name + " n=" + num(n));
    return false;
  }
  H.allocs++;
  vh::evaluated(vh::hash64(vh::hash64(vh::hash64(14, kind), b.bytes), b.align * 2 + (alt ? 1 : 0)), b.bytes > 0);
  if (!p) {
    H.nulls++;
    if (b.bytes > 0 && b.bytes <= FEASIBLE)
      H.nullsFeasible++;
    if (kind >= FIRST_ALLOCATOR_KIND && n > 0 && !threwBad)
      vh::violation("C14:allocator:null-instead-of-bad_alloc", "allocate(n>0) returned a null pointer instead of throwing std::bad_alloc",
                    where + " " + K.name + " n=" + num(n));
    return false;
  }
  b.p             = (u8 *)p;
  std::string ctx;  // built lazily
  if ((uintptr_t)p % b.align != 0) {
    ctx = where + " " + descr(b);
    vh::violation(std::string("C14:") + K.family + ":misaligned", "returned pointer is not a multiple of the alignment (ptr % align = " +
                                                                      num((uintptr_t)p % b.align) + ")",
                  ctx);
  }
  if ((H.allocs & 15) == 0 || b.align >= 1024) {
    checkIsAligned(p, b.align, where + " " + descr(b));
    H.crossChecks++;
  }
  if (b.bytes == 0) {
    H.zeroSizeNonNull++;
    std::lock_guard<std::mutex> g(H.m);
    H.pool.push_back(b);
    return true;
  }
  size_t us      = usableSize(p);
  size_t canTouch = b.bytes;
  if (us < b.bytes) {
    vh::violation(std::string("C14:") + K.family + ":usable-size-below-request",
                  "the back end reports only " + num(us) + " usable bytes for a request of " + num(b.bytes), where + " " + descr(b));
    canTouch = us;  // do not write outside what the allocator really gave us
  }
  fillPattern(p, canTouch, b.seed);
  H.bytesWritten += (long long)canTouch;
  b.bytes = canTouch;
  if (canTouch == 0) {
    std::lock_guard<std::mutex> g(H.m);
    H.pool.push_back(b);
    return true;
  }
  {
    std::lock_guard<std::mutex> g(H.m);
    std::string other;
    if (!H.disjointLocked(b, other)) {
      vh::violation(std::string("C14:") + K.family + ":overlaps-live-block", "new block overlaps a block that is still allocated: " + other,
                    where + " " + descr(b));
      // keep it out of the interval map (it would poison later verdicts) but release it later
      Blk z   = b;
      z.bytes = 0;
      H.pool.push_back(z);
      return true;
    }
    H.live[(uintptr_t)b.p] = b;
    H.pool.push_back(b);
  }
  return true;
}

// remove pool[idx] (caller holds no lock), verify it, release it through its own family
static bool releaseRandom(Heap &H, vh::Rng &r, const std::string &where)
{
  Blk b;
  {
    std::lock_guard<std::mutex> g(H.m);
    if (H.pool.empty())
      return false;
    size_t i = r.below(H.pool.size());
    b        = H.pool[i];
    H.pool[i] = H.pool.back();
    H.pool.pop_back();
    if (b.bytes)
      H.live.erase((uintptr_t)b.p);  // unregister BEFORE the free: the address may be reused at once
  }
  if (b.bytes)
    H.verifyBlock(b, "before-free", where);
  KINDS[b.kind].release(b.p, b.n);
  H.frees++;
  return true;
}

static void publish(Heap &H, const char *phase)
{
  std::string p = phase;
  vh::count((p + "_allocations").c_str(), H.allocs);
  vh::count((p + "_frees").c_str(), H.frees);
  vh::count((p + "_null_results").c_str(), H.nulls);
  vh::count((p + "_zero_size_nonnull_results").c_str(), H.zeroSizeNonNull);
  vh::count((p + "_bytes_pattern_written").c_str(), H.bytesWritten);
  vh::count((p + "_bytes_pattern_verified").c_str(), H.bytesVerified);
  vh::count((p + "_checkpoints").c_str(), H.checkpoints);
  vh::count((p + "_isAligned_crosschecks").c_str(), H.crossChecks);
  if (H.nullsFeasible > 0)
    vh::inconclusive(p + ": " + num((uint64_t)(long long)H.nullsFeasible) + " requests of 1.." + num(FEASIBLE) +
                     " bytes returned null (allowed by the property, but nothing could be judged for them)");
}

// ------------------------------------------------------------------ phase A: boundary grid
static const size_t GRID_SIZES[] = {0,    1,    2,     3,     7,     8,       15,        16,       17,       31,   32,
                                    33,   63,   64,    65,    127,   128,     4095,      4096,     4097,     65535, 65536,
                                    65537, (size_t)1 << 20, (size_t)1 << 24};
static const int NGRID = sizeof(GRID_SIZES) / sizeof(GRID_SIZES[0]);

static void phaseGrid(vh::Rng &r)
{
  Heap H;
  long rows = 0;
  for (int si = 0; si < NGRID; ++si) {
    size_t size = GRID_SIZES[si];
    std::string where = "grid size=" + num(size);
    // byte-sized request through every kind and every alignment
    for (size_t a = 1; a <= 4096; a *= 2) {
      allocOne(H, 0, size, a, false, where);
      for (int k = 2; k <= 5; ++k) {
        size_t e = KINDS[k].elem;
        if (size > ((size_t)1 << 20) && k != 3)
          continue;
        // element counts around size/e so that the byte extent straddles the same boundary
        size_t n0 = size / e;
        allocOne(H, k, n0, a, false, where);
        if (size % e)
          allocOne(H, k, n0 + 1, a, false, where);
      }
      if (a == 64) {
        allocOne(H, 1, size, 64, false, where);  // default alignment argument
        for (int k = 2; k <= 5; ++k)
          if (size <= ((size_t)1 << 20))
            allocOne(H, k, size / KINDS[k].elem, 64, true, where);  // default alignment of the template
      }
    }
    // allocator kinds: n elements with n from the same set (bytes = n * sizeof(T))
    for (int k = FIRST_ALLOCATOR_KIND; k < NKINDS; ++k) {
      size_t n = size;
      if (n * KINDS[k].elem > FEASIBLE)
        n = size / KINDS[k].elem;
      allocOne(H, k, n, 0, false, where);
      allocOne(H, k, n, 0, true, where);  // hint overload
    }
    H.checkpoint(where);
    // release in random order, checkpoint half way
    size_t half = H.pool.size() / 2;
    while (H.pool.size() > half)
      releaseRandom(H, r, where);
    H.checkpoint(where + " (half released)");
    while (releaseRandom(H, r, where)) {
    }
    ++rows;
  }
  // alignedFree(nullptr) must be harmless (result of a null allocation handed back)
  memory::alignedFree(nullptr);
  vh::count("grid_size_rows", rows);
  publish(H, "grid");
}

// ------------------------------------------------------------------ phase A2: impossible sizes
// NOTE: a forked child inherits the parent's counters and writes them out again when it
// exits, so the parent flushes (and thereby clears) its own statistics before every fork.
static void phaseHuge()
{
  vh::flushStats();
  vh::forkedOne("huge alignedMalloc requests", []() {
    const size_t M = ~(size_t)0;
    size_t sizes[] = {M, M - 1, M - 7, M - 15, M - 63, M - 64, M - 4095, M - 4096, M / 2, M / 2 + 1, M / 2 + 2, (size_t)1 << 62,
                      ((size_t)1 << 63) + 4096, (size_t)1 << 60};
    for (size_t i = 0; i < sizeof(sizes) / sizeof(sizes[0]); ++i)
      for (size_t a = 1; a <= 4096; a *= 2) {
        void *p = memory::alignedMalloc(sizes[i], a);
        vh::evaluated(vh::hash64(vh::hash64(1414, sizes[i]), a), true);
        vh::count("huge_requests");
        if (p) {
          vh::violation("C14:alignedMalloc:impossible-size-not-null",
                        "a request larger than the address space returned a non-null pointer (size wrapped inside the allocator?)",
                        "alignedMalloc(" + hex(sizes[i]) + "," + num(a) + ") -> " + hex((uint64_t)(uintptr_t)p) + " usable=" + num(usableSize(p)));
          memory::alignedFree(p);
        } else
          vh::count("huge_requests_null");
      }
  });
}

// ------------------------------------------------------------------ phase B: random interleavings
static const size_t SMALL_BOUNDARY[] = {0, 1, 2, 3, 7, 8, 15, 16, 17, 31, 32, 33, 63, 64, 65, 127, 128, 4095, 4096, 4097};

static size_t randSize(vh::Rng &r)
{
  unsigned u = (unsigned)r.below(1000);
  if (u < 450)
    return SMALL_BOUNDARY[r.below(sizeof(SMALL_BOUNDARY) / sizeof(SMALL_BOUNDARY[0]))];
  if (u < 780)
    return (size_t)r.below(513);
  if (u < 950)
    return (size_t)r.below(65538);
  if (u < 975)
    return 65535 + (size_t)r.below(3);
  if (u < 990)
    return (size_t)r.below(((size_t)1 << 18) + 1);
  if (u < 998)
    return (size_t)r.below(((size_t)1 << 20) + 2);
  if (u == 998)
    return r.chance(1, 2) ? ((size_t)1 << 20) : ((size_t)1 << 24);
  return (size_t)r.below(((size_t)1 << 24) + 1);
}

static void worker(Heap *H, int tid, int nthreads, long ops, size_t maxLive, const char *tag)
{
  vh::Rng r(vh::seed(), 1000 + (uint64_t)nthreads * 64 + (uint64_t)tid);
  std::string where = std::string(tag) + " thread " + std::to_string(tid) + "/" + std::to_string(nthreads);
  for (long i = 0; i < ops; ++i) {
    size_t liveNow;
    {
      std::lock_guard<std::mutex> g(H->m);
      liveNow = H->pool.size();
    }
    bool doAlloc = liveNow < 8 ? true : (liveNow >= maxLive ? false : r.chance(11, 20));
    if (doAlloc) {
      unsigned w = (unsigned)r.below(100);
      int kind   = w < 45 ? 0 : w < 50 ? 1 : w < 70 ? 2 + (int)r.below(4) : FIRST_ALLOCATOR_KIND + (int)r.below(NKINDS - FIRST_ALLOCATOR_KIND);
      size_t sz  = randSize(r);
      size_t a   = (size_t)1 << r.below(13);
      allocOne(*H, kind, sz / KINDS[kind].elem, a, r.chance(1, 2), where);
    } else
      releaseRandom(*H, r, where);
    if (tid == 0 && (i & 1023) == 1023)
      H->checkpoint(where + " op " + std::to_string(i));
  }
}

static void phaseRandom(int nthreads, long totalOps)
{
  Heap H;
  std::string tag = "interleave" + std::to_string(nthreads) + "t";
  if (nthreads == 1)
    worker(&H, 0, 1, totalOps, 512, tag.c_str());
  else {
    std::vector<std::thread> th;
    for (int t = 0; t < nthreads; ++t)
      th.push_back(std::thread(worker, &H, t, nthreads, totalOps / nthreads, (size_t)(512 - nthreads), tag.c_str()));
    for (size_t t = 0; t < th.size(); ++t)
      th[t].join();
  }
  vh::maxi("threads_in_one_heap", nthreads);
  H.checkpoint(tag + " final");
  vh::Rng r(vh::seed(), 999);
  while (releaseRandom(H, r, tag + " drain")) {
  }
  publish(H, tag.c_str());
}

// ------------------------------------------------------------------ phase C: allocator boundary
template <typename T, int A>
static void allocatorBoundary(const char *tname)
{
  typedef aligned_allocator<T, A> AL;
  AL al;
  const size_t M  = ~(size_t)0;
  const size_t s  = sizeof(T);
  const size_t lim = M / s;  // largest n whose byte count is representable
  std::string who = std::string("aligned_allocator<") + tname + "," + std::to_string(A) + ">";
  size_t ms       = al.max_size();
  VH_CHECK(ms <= lim, "C14:allocator:max_size-admits-overflow", "max_size()*sizeof(T) does not fit size_t: max_size()=" + num(ms), who);
  vh::count("allocator_max_size_checks");

  // (1) requests that exceed max_size / whose byte count wraps: length_error
  std::vector<size_t> over;
  if (lim < M) {
    over.push_back(lim + 1);
    over.push_back(lim + 2);
    over.push_back(M);
    over.push_back(M - 1);
    over.push_back(lim + lim / 2);
    if (M / 2 + 1 > lim)
      over.push_back(M / 2 + 1);
    // products that wrap to something small and attractive: n*s mod 2^64 in [0, 4096)
    for (size_t k = 1; k <= 3 && k < s; ++k) {
      // smallest n with n*s >= k*2^64: ceil(k*2^64 / s)
      unsigned __int128 t = ((unsigned __int128)k << 64) + (s - 1);
      size_t n            = (size_t)(t / s);
      if (n > lim)
        over.push_back(n);
    }
  }
  if (ms < M)
    over.push_back(ms + 1);
  for (size_t i = 0; i < over.size(); ++i) {
    size_t n        = over[i];
    std::string ctx = who + "::allocate(" + hex(n) + ") [n*sizeof(T) mod 2^64 = " + hex(n * s) + "]";
    const char *got = "returned";
    T *p            = 0;
    try {
      p = (i & 1) ? al.allocate(n, (const void *)0) : al.allocate(n);
    } catch (const std::length_error &) {
      got = "length_error";
    } catch (const std::bad_alloc &) {
      got = "bad_alloc";
    } catch (...) {
      got = "other";
    }
    vh::evaluated(vh::hash64(vh::hash64(1415, n), s * 8192 + A), true);
    vh::count("allocator_overflow_requests");
    if (!strcmp(got, "returned")) {
      vh::violation("C14:allocator:overflowing-request-not-rejected",
                    std::string("allocate(n) with n > max_size() returned ") + (p ? "memory" : "null") + " instead of throwing std::length_error" +
                        (p ? " (usable bytes: " + num(usableSize(p)) + ")" : ""),
                    ctx);
      if (p)
        al.deallocate(p, n);
    } else if (strcmp(got, "length_error"))
      vh::violation("C14:allocator:overflowing-request-wrong-exception", std::string("expected std::length_error, got ") + got, ctx);
    else
      vh::count("allocator_length_error_seen");
  }

  // (2) representable but impossible requests: bad_alloc (not length_error, not a pointer)
  std::vector<size_t> big;
  big.push_back(lim);
  if (ms <= lim)
    big.push_back(ms);
  big.push_back(lim - 1);
  big.push_back(lim / 2 + 1);
  big.push_back((((size_t)1 << 62) + s - 1) / s);
  big.push_back((((size_t)1 << 56) + s - 1) / s);
  for (size_t i = 0; i < big.size(); ++i) {
    size_t n        = big[i];
    std::string ctx = who + "::allocate(" + hex(n) + ") [" + hex(n * s) + " bytes]";
    const char *got = "returned";
    T *p            = 0;
    try {
      p = (i & 1) ? al.allocate(n, (const void *)0) : al.allocate(n);
    } catch (const std::length_error &) {
      got = "length_error";
    } catch (const std::bad_alloc &) {
      got = "bad_alloc";
    } catch (...) {
      got = "other";
    }
    vh::evaluated(vh::hash64(vh::hash64(1416, n), s * 8192 + A), true);
    vh::count("allocator_impossible_requests");
    if (!strcmp(got, "returned")) {
      if (p) {
        vh::violation("C14:allocator:impossible-request-returned-memory",
                      "allocate(n) for more bytes than the address space returned a pointer (usable bytes: " + num(usableSize(p)) + ")", ctx);
        al.deallocate(p, n);
      } else
        vh::violation("C14:allocator:null-instead-of-bad_alloc", "allocate(n>0) returned a null pointer instead of throwing std::bad_alloc", ctx);
    } else if (!strcmp(got, "length_error"))
      vh::violation("C14:allocator:length_error-for-representable-request",
                    "allocate(n) with n <= max_size() (n*sizeof(T) representable) threw length_error instead of bad_alloc", ctx);
    else if (strcmp(got, "bad_alloc"))
      vh::violation("C14:allocator:impossible-request-wrong-exception", std::string("expected std::bad_alloc, got ") + got, ctx);
    else
      vh::count("allocator_bad_alloc_seen");
  }
}

static void phaseBoundary()
{
  vh::flushStats();
  vh::forkedOne("allocator boundary requests", []() {
    allocatorBoundary<char, 64>("char");
    allocatorBoundary<int, 64>("int");
    allocatorBoundary<double, 64>("double");
    allocatorBoundary<S24, 64>("S24");
    allocatorBoundary<S100, 64>("S100");
    allocatorBoundary<uint16_t, 64>("uint16_t");
    allocatorBoundary<S24, 4096>("S24");
    allocatorBoundary<S100, 16>("S100");
  });
}

// ------------------------------------------------------------------ phase D: rebind
template <typename From, typename To>
static void rebindOne(Heap &H, const char *names, vh::Rng &r)
{
  typedef aligned_allocator<From> AF;
  typedef typename AF::template rebind<To>::other AT;
  typedef typename AT::value_type VT;
  AF af;
  AT at(af);  // converting constructor
  std::string ctx = std::string("rebind ") + names;
  bool same       = std::is_same<VT, To>::value;
  VH_CHECK(same, "C14:allocator:rebind-loses-element-type",
           "rebind<U>::other::value_type is not U (sizeof " + num(sizeof(VT)) + " instead of " + num(sizeof(To)) + ")", ctx);
  vh::count("rebind_pairs");
  const size_t ns[] = {1, 2, 3, 17, 64, 1000, 4097};
  for (size_t i = 0; i < sizeof(ns) / sizeof(ns[0]); ++i) {
    size_t n = ns[i];
    Blk b;
    b.kind  = FIRST_ALLOCATOR_KIND;  // family "allocator"; released by hand below
    b.n     = n;
    b.bytes = n * sizeof(To);  // what a user of the rebound allocator will write
    b.align = 64;
    b.seed  = pw(vh::seed() * 31 + 9, H.nextSeed++);
    decltype(at.allocate(n)) p = 0;
    try {
      p = at.allocate(n);
    } catch (const std::bad_alloc &) {
      vh::inconclusive(std::string("rebind ") + names + ": allocate(" + num(n) + ") threw bad_alloc, nothing judged");
      continue;
    }
    b.p = (u8 *)(void *)p;
    std::string c2 = ctx + " allocate(" + num(n) + ") -> " + hex((uint64_t)(uintptr_t)b.p);
    vh::evaluated(vh::hash64(vh::hashStr(names, 1417), n), true);
    if (!p) {
      vh::violation("C14:allocator:null-instead-of-bad_alloc", "rebound allocate(n>0) returned null", c2);
      continue;
    }
    VH_CHECK((uintptr_t)b.p % 64 == 0, "C14:allocator:rebind-misaligned", "rebound allocator's block is not 64-byte aligned", c2);
    size_t us = usableSize(b.p);
    if (us < b.bytes) {
      vh::violation("C14:allocator:rebind-block-too-small",
                    "rebound allocator gave " + num(us) + " usable bytes for " + num(n) + " elements of " + num(sizeof(To)) + " bytes", c2);
      b.bytes = us;
    }
    fillPattern(b.p, b.bytes, b.seed);
    {
      std::lock_guard<std::mutex> g(H.m);
      std::string other;
      if (!H.disjointLocked(b, other))
        vh::violation("C14:allocator:overlaps-live-block", "rebound allocator's block overlaps a live block: " + other, c2);
    }
    // some traffic in between, then verify and release through the rebound allocator
    allocOne(H, (int)(FIRST_ALLOCATOR_KIND + r.below(5)), 1 + r.below(300), 0, false, ctx);
    H.verifyBlock(b, "before-free", c2);
    at.deallocate(p, n);
  }
  while (releaseRandom(H, r, ctx)) {
  }
}

static void phaseRebind(vh::Rng &r)
{
  Heap H;
  rebindOne<char, S100>(H, "char->S100", r);
  rebindOne<char, double>(H, "char->double", r);
  rebindOne<S100, char>(H, "S100->char", r);
  rebindOne<int, S24>(H, "int->S24", r);
  rebindOne<double, int>(H, "double->int", r);
  rebindOne<S24, S24>(H, "S24->S24", r);
}

// ------------------------------------------------------------------ phase F: release monitor
static long long vmPages()
{
  FILE *f = fopen("/proc/self/statm", "r");
  if (!f)
    return -1;
  long long v = -1;
  if (fscanf(f, "%lld", &v) != 1)
    v = -1;
  fclose(f);
  return v;
}

static void phaseRelease()
{
#if C14_ASAN
  vh::note("release_monitor", "not run under ASan (quarantine keeps freed memory mapped); LeakSanitizer decides in the _mm_malloc flavour");
#else
  const long cycles   = 3000;
  const size_t blk    = (size_t)1 << 20;
  const long long pg  = sysconf(_SC_PAGESIZE);
  for (int mode = 0; mode < 2; ++mode) {
    long failed      = 0;
    long long before = vmPages();
    if (before < 0) {
      vh::inconclusive("release monitor: /proc/self/statm unreadable");
      return;
    }
    for (long i = 0; i < cycles; ++i) {
      if (mode == 0) {
        u8 *p = (u8 *)memory::alignedMalloc(blk + (size_t)(i % 7) * 4096, 64);
        if (p) {
          p[0]       = 1;
          p[blk - 1] = 2;
          memory::alignedFree(p);
        } else
          ++failed;
      } else {
        aligned_allocator<double> a;
        size_t n  = blk / 8 + (size_t)(i % 7) * 512;
        double *p = 0;
        try {
          p = a.allocate(n);
        } catch (const std::bad_alloc &) {
        }
        if (p) {
          p[0]     = 1;
          p[n - 1] = 2;
          a.deallocate(p, n);
        } else
          ++failed;
      }
    }
    if (failed) {
      vh::inconclusive("release monitor: " + num((uint64_t)failed) + " of " + num((uint64_t)cycles) + " 1 MiB requests failed");
      continue;
    }
    long long after  = vmPages();
    long long grown  = (after - before) * pg;
    long long total  = (long long)cycles * (long long)blk;
    vh::maxi(mode == 0 ? "release_alignedFree_vm_growth_bytes" : "release_deallocate_vm_growth_bytes", grown > 0 ? grown : 0);
    vh::count("release_cycles", cycles);
    vh::evaluated(vh::hash64(1418, mode), true);
    if (grown > total / 2)
      vh::violation(mode == 0 ? "C14:alignedFree:memory-not-released" : "C14:allocator:deallocate-does-not-release",
                    "address space grew by " + num((uint64_t)grown) + " bytes over " + num(cycles) + " allocate/free cycles of 1 MiB (" +
                        num((uint64_t)total) + " bytes requested in total, never more than one block live)",
                    mode == 0 ? "alignedMalloc(1MiB+k*4096,64) / alignedFree" : "aligned_allocator<double>::allocate / deallocate");
  }
#endif
}

// ------------------------------------------------------------------ phase E: AlignedVector histories
static vh::Lifetime *g_lt = 0;
static std::string g_case;  // descriptor of the running history (for lifetime reports)

struct Tracked
{
  uint64_t v;
  uint64_t chk;
  uint64_t pad[3];
  Tracked() : v(0), chk(0xC14C14C14ull)
  {
    pad[0] = pad[1] = pad[2] = 0;
    g_lt->onConstruct(this, g_case);
  }
  explicit Tracked(uint64_t x) : v(x), chk(x ^ 0xC14C14C14ull)
  {
    pad[0] = pad[1] = pad[2] = x;
    g_lt->onConstruct(this, g_case);
  }
  Tracked(const Tracked &o) : v(o.v), chk(o.chk)
  {
    pad[0] = pad[1] = pad[2] = o.pad[0];
    g_lt->requireLive(&o, "copy-from", g_case);
    g_lt->onConstruct(this, g_case);
  }
  Tracked &operator=(const Tracked &o)
  {
    g_lt->requireLive(this, "assign-to", g_case);
    g_lt->requireLive(&o, "assign-from", g_case);
    v      = o.v;
    chk    = o.chk;
    pad[0] = pad[1] = pad[2] = o.pad[0];
    return *this;
  }
  ~Tracked() { g_lt->onDestroy(this, g_case); }
};
static_assert(sizeof(Tracked) == 40, "40-byte tracked element");

// an element that knows where it lives: trivially destructible, but every copy has to run the copy constructor
// (a container that moves its elements around bitwise leaves `self` pointing at the old place)
struct SelfRef
{
  uint64_t v;
  const SelfRef *self;
  uint64_t w;
  SelfRef() : v(0), self(this), w(~0ull) {}
  explicit SelfRef(uint64_t x) : v(x), self(this), w(~x) {}
  SelfRef(const SelfRef &o) : v(o.v), self(this), w(o.w) {}
  SelfRef &operator=(const SelfRef &o)
  {
    v = o.v;
    w = o.w;
    return *this;
  }
};
static_assert(std::is_trivially_destructible<SelfRef>::value, "SelfRef has no destructor of its own");

// a value type with a list constructor (the shape of JSON-like value trees): building it from a list of ONE value is
// not a copy of that value - it is a list that holds it (depth + 1). Copies have to be made as copies.
struct ListVal
{
  long leaf;
  int depth;
  ListVal(long v = 0) : leaf(v), depth(0) {}
  ListVal(std::initializer_list<ListVal> l) : leaf(l.size() ? l.begin()->leaf : 0), depth(l.size() ? l.begin()->depth + 1 : 1) {}
};

static void mk(char &o, uint64_t v) { o = (char)(v * 131 + 7); }
static void mk(int &o, uint64_t v) { o = (int)(uint32_t)(v * 2654435761u + 1); }
static void mk(double &o, uint64_t v) { o = (double)(v % 1000003) * 0.5 + 1.0; }
static void mk(S24 &o, uint64_t v)
{
  o.a = v;
  o.b = ~v;
  o.c = v * 3 + 1;
}
static void mk(S100 &o, uint64_t v)
{
  for (int i = 0; i < 25; ++i)
    o.w[i] = (uint32_t)(v * 7 + (uint64_t)i * 0x9E3779B1u);
}
static void mk(Tracked &o, uint64_t v) { o = Tracked(v + 1); }
static void mk(SelfRef &o, uint64_t v) { o = SelfRef(v + 1); }
static void mk(ListVal &o, uint64_t v)
{
  o = ListVal((long)v + 1);
  if (v % 3 == 0) {
    std::initializer_list<ListVal> one = {ListVal((long)v + 1)};
    o = ListVal(one);  // a genuine one-element list
  }
}

static bool eq(char a, char b) { return a == b; }
static bool eq(int a, int b) { return a == b; }
static bool eq(double a, double b) { return a == b; }
static bool eq(const S24 &a, const S24 &b) { return a.a == b.a && a.b == b.b && a.c == b.c; }
static bool eq(const S100 &a, const S100 &b) { return memcmp(a.w, b.w, sizeof a.w) == 0; }
static bool eq(const Tracked &a, const Tracked &b)
{
  return a.v == b.v && a.chk == b.chk && a.pad[0] == b.pad[0] && a.pad[1] == b.pad[1] && a.pad[2] == b.pad[2] &&
         (a.chk == (a.v ^ 0xC14C14C14ull) || (a.v == 0 && a.chk == 0xC14C14C14ull));
}

static bool eq(const ListVal &a, const ListVal &b) { return a.leaf == b.leaf && a.depth == b.depth; }
static bool eq(const SelfRef &a, const SelfRef &b) { return a.v == b.v && a.w == b.w && a.w == ~a.v && a.self == &a && b.self == &b; }

template <typename T>
static T val(vh::Rng &r)
{
  T t;
  mk(t, r.below(1000000));
  return t;
}

static size_t randCount(vh::Rng &r, size_t maxN)
{
  unsigned u = (unsigned)r.below(100);
  if (u < 45)
    return (size_t)r.below(40);
  if (u < 60) {
    static const size_t B[] = {0, 1, 2, 3, 4, 7, 8, 9, 15, 16, 17, 31, 32, 33, 63, 64, 65, 127, 128, 129, 255, 256, 257};
    return B[r.below(sizeof(B) / sizeof(B[0]))];
  }
  if (u < 88)
    return (size_t)r.below(600);
  if (u < 98)
    return (size_t)r.below(maxN / 4 + 1);
  return (size_t)r.below(maxN + 1);
}

enum {
  OP_PUSH, OP_EMPLACE, OP_PUSH_SELF, OP_POP, OP_RESIZE, OP_RESIZE_VAL, OP_RESERVE, OP_SHRINK, OP_ASSIGN_N, OP_ASSIGN_RANGE,
  OP_ASSIGN_ILIST, OP_SWAP, OP_INSERT_ONE, OP_INSERT_N, OP_INSERT_RANGE, OP_ERASE_ONE, OP_ERASE_RANGE, OP_CLEAR, OP_COPY,
  OP_MOVE_ASSIGN, OP_MOVE_CTOR, OP_PUSH_BURST, NOPS
};
static const char *OPNAME[NOPS] = {"push_back", "emplace_back", "push_back(self[i])", "pop_back", "resize", "resize(n,v)", "reserve",
                                   "shrink_to_fit", "assign(n,v)", "assign(range)", "assign(ilist)", "swap", "insert(pos,v)",
                                   "insert(pos,n,v)", "insert(pos,range)", "erase(pos)", "erase(range)", "clear", "copy-ctor+copy-assign",
                                   "move-assign", "move-ctor", "push_back-burst"};

struct VecStats
{
  long ops[NOPS];
  long reallocWithElems, checks, elemsCompared;
  size_t maxCap;
  VecStats() : reallocWithElems(0), checks(0), elemsCompared(0), maxCap(0) { memset(ops, 0, sizeof ops); }
};

// compare the AlignedVector with its model and judge the buffer
template <typename AV, typename MV>
static bool checkVec(const AV &V, const MV &M, const char *which, const void *dataBefore, size_t sizeBefore, const char *tname,
                     const std::string &hist, VecStats &S)
{
  typedef typename AV::value_type T;
  bool ok       = true;
  bool realloc_ = dataBefore != (const void *)V.data() && sizeBefore > 0 && V.size() > 0;
  if (realloc_)
    S.reallocWithElems++;
  S.checks++;
  if (V.capacity() > S.maxCap)
    S.maxCap = V.capacity();
  std::string fam = "C14:AlignedVector:";
  if (V.capacity() != 0 && (uintptr_t)V.data() % 64 != 0) {
    vh::violation(fam + "data-not-64-byte-aligned",
                  std::string(which) + ".data()=" + hex((uint64_t)(uintptr_t)V.data()) + " capacity=" + num(V.capacity()) + " size=" + num(V.size()),
                  hist);
    ok = false;
  }
  if (V.capacity() < V.size()) {
    vh::violation(fam + "capacity-below-size", std::string(which) + " capacity=" + num(V.capacity()) + " size=" + num(V.size()), hist);
    ok = false;
  }
  if (V.capacity() != 0 && V.data() != 0) {
    size_t us = usableSize((void *)V.data());
    if (us < V.capacity() * sizeof(T)) {
      vh::violation(fam + "buffer-smaller-than-capacity",
                    std::string(which) + ": the back end reports " + num(us) + " usable bytes for capacity " + num(V.capacity()) + " x " +
                        num(sizeof(T)) + " bytes",
                    hist);
      ok = false;
    }
  }
  if (V.size() != M.size()) {
    vh::violation(fam + "size-differs-from-model", std::string(which) + ".size()=" + num(V.size()) + " model " + num(M.size()), hist);
    return false;
  }
  S.elemsCompared += (long)M.size();
  for (size_t i = 0; i < M.size(); ++i)
    if (!eq(V[i], M[i])) {
      vh::violation(fam + (realloc_ ? "elements-changed-by-reallocation" : "contents-differ-from-model"),
                    std::string(which) + "[" + num(i) + "] differs from the std::vector model (size " + num(M.size()) + ", element type " +
                        tname + (realloc_ ? ", buffer moved during the last operation)" : ")"),
                    hist);
      return false;
    }
  return ok;
}

template <typename T>
static void vectorHistory(long k, int typeIdx, const char *tname, size_t maxN, VecStats &S)
{
  typedef AlignedVector<T> AV;
  typedef std::vector<T> MV;
  vh::Rng r(vh::seed(), 50000 + (uint64_t)k);
  std::string hist = "#" + std::to_string(k) + " AlignedVector<" + tname + ">:";
  g_case           = hist;
  uint64_t h       = vh::hash64(1420, typeIdx);
  long reallocAtStart = S.reallocWithElems;
  {
    // construction forms
    size_t n0 = r.chance(1, 2) ? 0 : randCount(r, 300);
    T x0      = val<T>(r);
    int form  = (int)r.below(4);
    MV src;
    for (size_t i = 0; i < n0; ++i)
      src.push_back(val<T>(r));
    AV *pv;
    MV M;
    if (form == 0) {
      pv = new AV();
    } else if (form == 1) {
      pv = new AV(n0);
      M  = MV(n0);
    } else if (form == 2) {
      pv = new AV(n0, x0);
      M  = MV(n0, x0);
    } else {
      pv = new AV(src.begin(), src.end());
      M  = src;
    }
    std::unique_ptr<AV> owner(pv);  // released on every path (exceptions included)
    hist += " ctor" + std::to_string(form) + "(" + num(n0) + ")";
    h = vh::hash64(h, form * 1000003 + n0);
    AV &V = *pv;
    AV V2;
    MV M2;
    bool good = checkVec(V, M, "V", 0, 0, tname, hist, S);
    int nops  = (int)r.range(16, 120);
    for (int step = 0; step < nops && good; ++step) {
      const void *d1 = V.data(), *d2 = V2.data();
      size_t s1 = V.size(), s2 = V2.size();
      int op = (int)r.below(NOPS);
      size_t a1 = 0, a2 = 0;
      switch (op) {
      case OP_PUSH: {
        T x = val<T>(r);
        V.push_back(x);
        M.push_back(x);
        break;
      }
      case OP_EMPLACE: {
        T x = val<T>(r);
        V.emplace_back(x);
        M.emplace_back(x);
        break;
      }
      case OP_PUSH_SELF: {
        if (V.empty())
          break;
        a1 = r.below(V.size());
        V.push_back(V[a1]);
        M.push_back(M[a1]);
        break;
      }
      case OP_PUSH_BURST: {
        a1 = 1 + r.below(200);
        for (size_t i = 0; i < a1; ++i) {
          T x = val<T>(r);
          V.push_back(x);
          M.push_back(x);
        }
        break;
      }
      case OP_POP: {
        if (V.empty())
          break;
        V.pop_back();
        M.pop_back();
        break;
      }
      case OP_RESIZE: {
        a1 = randCount(r, maxN);
        V.resize(a1);
        M.resize(a1);
        break;
      }
      case OP_RESIZE_VAL: {
        a1  = randCount(r, maxN);
        T x = val<T>(r);
        V.resize(a1, x);
        M.resize(a1, x);
        break;
      }
      case OP_RESERVE: {
        a1 = randCount(r, maxN);
        V.reserve(a1);
        M.reserve(a1);
        break;
      }
      case OP_SHRINK: {
        V.shrink_to_fit();
        break;
      }
      case OP_ASSIGN_N: {
        a1  = randCount(r, maxN);
        T x = val<T>(r);
        V.assign(a1, x);
        M.assign(a1, x);
        break;
      }
      case OP_ASSIGN_RANGE: {
        a1 = randCount(r, 400);
        MV t;
        for (size_t i = 0; i < a1; ++i)
          t.push_back(val<T>(r));
        V.assign(t.begin(), t.end());
        M.assign(t.begin(), t.end());
        break;
      }
      case OP_ASSIGN_ILIST: {
        T x = val<T>(r), y = val<T>(r), z = val<T>(r);
        V.assign({x, y, z, x});
        M.assign({x, y, z, x});
        break;
      }
      case OP_SWAP: {
        if (r.chance(1, 2))
          V.swap(V2);
        else
          std::swap(V, V2);
        M.swap(M2);
        break;
      }
      case OP_INSERT_ONE: {
        a1  = r.below(V.size() + 1);
        T x = val<T>(r);
        V.insert(V.begin() + a1, x);
        M.insert(M.begin() + a1, x);
        break;
      }
      case OP_INSERT_N: {
        a1  = r.below(V.size() + 1);
        a2  = randCount(r, 300);
        T x = val<T>(r);
        V.insert(V.begin() + a1, a2, x);
        M.insert(M.begin() + a1, a2, x);
        break;
      }
      case OP_INSERT_RANGE: {
        a1 = r.below(V.size() + 1);
        a2 = randCount(r, 300);
        MV t;
        for (size_t i = 0; i < a2; ++i)
          t.push_back(val<T>(r));
        V.insert(V.begin() + a1, t.begin(), t.end());
        M.insert(M.begin() + a1, t.begin(), t.end());
        break;
      }
      case OP_ERASE_ONE: {
        if (V.empty())
          break;
        a1 = r.below(V.size());
        V.erase(V.begin() + a1);
        M.erase(M.begin() + a1);
        break;
      }
      case OP_ERASE_RANGE: {
        a1 = r.below(V.size() + 1);
        a2 = a1 + r.below(V.size() - a1 + 1);
        V.erase(V.begin() + a1, V.begin() + a2);
        M.erase(M.begin() + a1, M.begin() + a2);
        break;
      }
      case OP_CLEAR: {
        V.clear();
        M.clear();
        break;
      }
      case OP_COPY: {
        AV t(V);  // copy construction allocates a fresh aligned buffer
        good = checkVec(t, M, "copy", V.data(), 0, tname, hist + " copy-ctor", S) && good;
        V2   = t;  // copy assignment
        M2   = M;
        break;
      }
      case OP_MOVE_ASSIGN: {
        V = std::move(V2);
        M = M2;
        V2.clear();  // moved-from: valid but unspecified -> bring to a known state
        M2.clear();
        break;
      }
      case OP_MOVE_CTOR: {
        AV t(std::move(V));
        V = AV();
        V.swap(t);
        break;
      }
      }
      S.ops[op]++;
      hist += std::string(" ") + OPNAME[op];
      if (a1 || a2)
        hist += "(" + num(a1) + (a2 ? "," + num(a2) : std::string()) + ")";
      h = vh::hash64(h, (uint64_t)op * 0x100000001ull + a1 * 131 + a2);
      // pointers seen before the operation identify whether the buffer moved; after a swap /
      // move they belong to the other vector, which only affects the key suffix
      bool swapped = op == OP_SWAP || op == OP_MOVE_ASSIGN;
      good = checkVec(V, M, "V", swapped ? d2 : d1, swapped ? s2 : s1, tname, hist, S) && good;
      good = checkVec(V2, M2, "V2", swapped ? d1 : d2, swapped ? s1 : s2, tname, hist, S) && good;
      if (hist.size() > 1500)
        hist = "#" + std::to_string(k) + " AlignedVector<" + tname + ">: ...(" + std::to_string(step) + " ops)";
    }
  }
  vh::evaluated(h, S.reallocWithElems > reallocAtStart);
  if (k < 3)
    vh::sample(vh::J().kv("kind", "vector-history").kv("case", hist.substr(0, 400)).str(), 3);
}

static void vectorCaseBody(long k, VecStats &S, int t)
{
  switch (t) {
  case 0: vectorHistory<char>(k, t, "char", 100000, S); break;
  case 1: vectorHistory<int>(k, t, "int", 20000, S); break;
  case 2: vectorHistory<double>(k, t, "double", 20000, S); break;
  case 3: vectorHistory<S24>(k, t, "S24", 5000, S); break;
  case 4: vectorHistory<S100>(k, t, "S100", 3000, S); break;
  case 5: {
    vectorHistory<Tracked>(k, t, "Tracked40", 300, S);
    size_t left = g_lt->liveCount();
    if (left) {
      vh::violation("C14:AlignedVector:element-not-destroyed",
                    num(left) + " element object(s) still registered as live after every vector of the history was destroyed", g_case);
      g_lt->live.clear();
    }
    vh::count("tracked_elements_constructed", g_lt->constructed);
    g_lt->constructed = g_lt->destroyed = 0;
    break;
  }
  case 6: vectorHistory<SelfRef>(k, t, "SelfRef24", 3000, S); break;
  case 7: vectorHistory<ListVal>(k, t, "ListVal16", 3000, S); break;
  }
}

// Shared between the forked children: cases that were started but never finished (= died).
// After MAX_DEAD_CASES of them the remaining histories are skipped: every further one would
// die the same way and each sanitizer report costs a large fraction of a second.
struct CrashGauge
{
  volatile long started, finished, skipped;
};
static CrashGauge *g_gauge      = 0;
static const long MAX_DEAD_CASES = 24;

static void vectorCase(long k)
{
  VecStats S;
  int t = (int)(k % 8);
  if (g_gauge) {
    if (g_gauge->started - g_gauge->finished >= MAX_DEAD_CASES) {
      g_gauge->skipped++;
      return;
    }
    g_gauge->started++;
  }
  try {
    vectorCaseBody(k, S, t);
  } catch (const std::bad_alloc &) {
    // an allocation failure is allowed by the property (null result): nothing judged
    static int told = 0;
    if (told++ < 2)
      vh::inconclusive("vector history threw std::bad_alloc: " + g_case.substr(0, 300));
    vh::count("vector_histories_bad_alloc");
    if (t == 5) {
      g_lt->live.clear();
      g_lt->constructed = g_lt->destroyed = 0;
    }
  }
  static const char *TN[8] = {"vector_histories_char", "vector_histories_int", "vector_histories_double", "vector_histories_S24",
                              "vector_histories_S100", "vector_histories_Tracked40", "vector_histories_SelfRef24", "vector_histories_ListVal16"};
  vh::count(TN[t]);
  for (int i = 0; i < NOPS; ++i)
    if (S.ops[i])
      vh::count((std::string("vec_op_") + OPNAME[i]).c_str(), S.ops[i]);
  vh::count("vector_reallocations_with_elements", S.reallocWithElems);
  vh::count("vector_checks", S.checks);
  vh::count("vector_elements_compared", S.elemsCompared);
  vh::maxi("vector_max_capacity", (long long)S.maxCap);
  if (g_gauge)
    g_gauge->finished++;
}

static void phaseVectors()
{
  g_lt   = new vh::Lifetime("C14:AlignedVector:element");
  long n = (long)vh::tier(5600, 160000);
  // forked: a release through the wrong function aborts inside the allocator / ASan
  vh::flushStats();
  g_gauge = (CrashGauge *)mmap(0, sizeof(CrashGauge), PROT_READ | PROT_WRITE, MAP_SHARED | MAP_ANONYMOUS, -1, 0);
  if (g_gauge == (CrashGauge *)MAP_FAILED)
    g_gauge = 0;
  vh::forkedCases(n, vectorCase, 30000, 500, [](long k) { return "#" + std::to_string(k) + " AlignedVector history"; });
  long died = 0;
  if (g_gauge) {
    died = g_gauge->started - g_gauge->finished;
    vh::count("vector_histories_died", died);
    if (g_gauge->skipped) {
      vh::count("vector_histories_skipped_after_repeated_crashes", g_gauge->skipped);
      vh::inconclusive(num((uint64_t)g_gauge->skipped) + " vector histories skipped after " + num((uint64_t)MAX_DEAD_CASES) +
                       " histories died (each death is reported separately)");
    }
    munmap((void *)g_gauge, sizeof(CrashGauge));
    g_gauge = 0;
  }
#if !C14_TBB
  // the same generator once more inside the main process so that LeakSanitizer (asanleak
  // flavour) sees buffers that were never handed back; indices continue after the forked ones
  const long base = 10000000;
  if (died)
    vh::inconclusive("in-process vector histories not run: forked histories died (reported separately)");
  for (long k = 0; k < n / 8 && !died; ++k)
    if (vh::wantCase(base + k))
      vectorCase(base + k);
  vh::count("vector_histories_in_main_process", n / 8);
#endif
}

// ------------------------------------------------------------------ main
int main(int argc, char **argv)
{
  vh::init(argc, argv);
  vh::rule(
      "allocations: every (API kind, byte size, alignment) of the boundary grid {0,1,2,3,7,8,15..17,31..33,63..65,127,128,"
      "4095..4097,65535..65537,2^20,2^24} x {1..4096} through alignedMalloc, alignedMalloc<T>, aligned_allocator<T,A>, then seeded "
      "random alloc/free interleavings (<=512 live blocks, 1 and 8 threads); distinct = hash(kind, bytes, alignment), non-trivial = "
      "bytes > 0. vectors: seeded histories of 16..120 operations on AlignedVector<T> for 8 element types (plain, 24/100-byte structs, lifetime-tracked, self-referencing, one with a list constructor); distinct = hash(type, "
      "operation sequence with arguments), non-trivial = at least one reallocation moved existing elements");
  vh::note("backend", C14_TBB ? "RKCOMMON_TASKING_TBB: scalable_aligned_malloc / scalable_aligned_free (usable size via scalable_msize)"
                              : "_mm_malloc / _mm_free (usable size via malloc_usable_size)");
  vh::note("sanitizer", C14_ASAN ? "ASan+UBSan" : "none");
  vh::Rng r(vh::seed(), 14);

  double t0 = vh::now(), t1;
#define C14_LAP(name)                                   \
  t1 = vh::now();                                       \
  vh::maxi("seconds_" name, (long long)(t1 - t0 + 0.5)); \
  t0 = t1;
  if (vh::st().onlyCase < 0) {
    phaseRelease();  // first: its verdict must not be blurred by the other phases' footprints
    C14_LAP("release_monitor")
    phaseGrid(r);
    C14_LAP("grid")
    phaseHuge();
    phaseBoundary();
    phaseRebind(r);
    C14_LAP("huge_boundary_rebind")
    phaseRandom(1, (long)vh::tier(10000, 1000000));
    C14_LAP("interleave_1_thread")
    phaseRandom(8, (long)vh::tier(10000, 1000000));
    C14_LAP("interleave_8_threads")
  }
  phaseVectors();
  C14_LAP("vector_histories")
  return vh::finish();
}
