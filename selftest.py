#!/usr/bin/env python3
"""selftest.py - runs the checks against the seeded changes in /verif/seeded/<name>/.

  python3 selftest.py [name ...] [--tier quick] [--seed N] [--in-place]

For every seeded change: copy /repo's sources to a scratch directory outside /repo and /verif,
apply seeded/<name>/patch.diff there, run the quick check of the property it breaks with
VERIF_REPO pointing at the copy (--no-evidence: evidence must only ever come from /repo
itself), expect exit 1 with a VIOLATION line, and delete the copy.  With --in-place the patch
is applied to /repo itself (git apply) and undone straight afterwards (git checkout -- .).
Prints one line per seeded change and a summary table; exit 0 iff every change was caught.
"""
import argparse
import json
import os
import re
import shutil
import subprocess
import sys
import tempfile
import time

HERE = os.path.dirname(os.path.abspath(__file__))
REPO = "/repo"


def run(cmd, **kw):
    return subprocess.run(cmd, stdout=subprocess.PIPE, stderr=subprocess.STDOUT, **kw)


def main():
    ap = argparse.ArgumentParser()
    ap.add_argument("names", nargs="*")
    ap.add_argument("--tier", default="quick")
    ap.add_argument("--seed", default="1")
    ap.add_argument("--in-place", action="store_true")
    a = ap.parse_args()
    sdir = os.path.join(HERE, "seeded")
    names = a.names or sorted(d for d in os.listdir(sdir) if os.path.exists(os.path.join(sdir, d, "patch.diff")))
    rows = []
    for name in names:
        d = os.path.join(sdir, name)
        meta = json.load(open(os.path.join(d, "meta.json")))
        pid = meta["property"]
        patch = os.path.join(d, "patch.diff")
        t0 = time.time()
        env = dict(os.environ)
        scratch = None
        try:
            if a.in_place:
                if run(["git", "-C", REPO, "status", "--porcelain", "--untracked-files=no"]).stdout.strip():
                    print("refusing --in-place: /repo has uncommitted changes")
                    return 2
                p = run(["git", "-C", REPO, "apply", patch])
                if p.returncode != 0:
                    rows.append((name, pid, "PATCH-DOES-NOT-APPLY", 0, ""))
                    print("%-34s %-4s %-22s" % rows[-1][:3], flush=True)
                    continue
            else:
                scratch = tempfile.mkdtemp(prefix="selftest_%s_" % name, dir="/tmp")
                shutil.copytree(os.path.join(REPO, "rkcommon"), os.path.join(scratch, "rkcommon"))
                p = run(["patch", "-p1", "-s", "-d", scratch, "-i", patch])
                if p.returncode != 0:
                    rows.append((name, pid, "PATCH-DOES-NOT-APPLY", 0, p.stdout.decode()[-300:].replace("\n", " ")))
                    print("%-34s %-4s %-22s" % rows[-1][:3], rows[-1][4], flush=True)
                    continue
                env["VERIF_REPO"] = scratch
            p = run([sys.executable, os.path.join(HERE, "vcheck.py"), pid, "--tier", a.tier, "--seed", a.seed,
                     "--no-evidence"], env=env, cwd=HERE)
            out = p.stdout.decode("utf-8", "replace")
            keys = re.findall(r"^\s+key=(\S+)", out, re.M)
            if p.returncode == 1 and "VIOLATION property=%s" % pid in out:
                verdict = "CAUGHT"
            elif p.returncode == 0:
                verdict = "MISSED"
            else:
                verdict = "HARNESS-FAILURE(rc=%d)" % p.returncode
            rows.append((name, pid, verdict, time.time() - t0, ", ".join(keys[:3])))
        finally:
            if a.in_place:
                run(["git", "-C", REPO, "checkout", "--", "."])
            if scratch:
                shutil.rmtree(scratch, ignore_errors=True)
        r = rows[-1]
        print("%-34s %-4s %-22s %6.0fs  %s" % (r[0], r[1], r[2], r[3], r[4][:160]), flush=True)
    missed = [r for r in rows if r[2] != "CAUGHT"]
    print("\n%d seeded change(s), %d caught, %d not caught" % (len(rows), len(rows) - len(missed), len(missed)))
    return 0 if not missed else 1


if __name__ == "__main__":
    sys.exit(main())
