"""Offline checker for C20: compares the file written by rkcommon::tracing::saveLog with the
model log the harness recorded (trace_<k>.json / trace_<k>.model.json in a run directory).

Requirements checked (property C20): the file parses as ONE JSON array; for every recording
thread (mapped through its thread_name metadata) the events with ph in {B,E,i,C} - minus the
writer's own cpuUtilization counters - equal the model in order, with names, categories and
counter values; begin/end properly nested; timestamps non-decreasing.
"""
import glob
import json
import os
import re


def _reject(c):
    raise ValueError("non-finite number %s in JSON" % c)


def check_pair(trace_path, model_path):
    """returns (violations:list[(key, detail)], events_compared:int)"""
    viol = []
    model = json.load(open(model_path))
    case = "#%s trace of %d thread(s)" % (model.get("case"), len(model["threads"]))
    try:
        raw = open(trace_path, "rb").read().decode("utf-8", "replace")
    except Exception as e:
        return [("C20:trace:no-file", "saveLog produced no file: %r" % e, case)], 0
    try:
        doc = json.loads(raw, parse_constant=_reject)
    except Exception as e:
        return [("C20:trace:not-well-formed-json", "file content %r... does not parse as JSON: %s" % (raw[:60], e),
                 case)], 0
    if not isinstance(doc, list):
        return [("C20:trace:not-a-json-array", "top-level value is %s" % type(doc).__name__, case)], 0
    names = {}
    procname = None
    per_tid = {}
    for ev in doc:
        if not isinstance(ev, dict) or "ph" not in ev:
            viol.append(("C20:trace:malformed-event", "element %r is not an event object" % (ev,), case))
            continue
        ph = ev["ph"]
        if ph == "M":
            if ev.get("name") == "thread_name":
                names[ev.get("tid")] = ev.get("args", {}).get("name")
            elif ev.get("name") == "process_name":
                procname = ev.get("args", {}).get("name")
            continue
        if ph == "C" and ev.get("name") == "cpuUtilization" and ev.get("cat") == "builtin":
            continue  # the writer's own counter
        per_tid.setdefault(ev.get("tid"), []).append(ev)
    if model.get("process_name") is not None and procname != model["process_name"]:
        viol.append(("C20:trace:process-name", "process_name metadata is %r, expected %r" %
                     (procname, model["process_name"]), case))
    by_name = {}
    for tid, nm in names.items():
        if nm in by_name:
            viol.append(("C20:trace:duplicate-thread-name", "thread name %r appears for two tids" % nm, case))
        by_name[nm] = tid
    compared = 0
    for tname, mevents in model["threads"].items():
        if tname not in by_name:
            viol.append(("C20:trace:thread-missing", "no thread_name metadata for recording thread %r" % tname, case))
            continue
        got = per_tid.pop(by_name[tname], [])
        if len(got) != len(mevents):
            viol.append(("C20:trace:event-count",
                         "thread %r: file has %d events, %d were recorded" % (tname, len(got), len(mevents)), case))
        depth = 0
        last_ts = None
        for i, (g, m) in enumerate(zip(got, mevents)):
            compared += 1
            ph = m[0]
            bad = None
            if g.get("ph") != ph:
                bad = "ph %r expected %r" % (g.get("ph"), ph)
            elif ph in ("B", "i") and (g.get("name") != m[1] or g.get("cat") != m[2]):
                bad = "name/cat %r/%r expected %r/%r" % (g.get("name"), g.get("cat"), m[1], m[2])
            elif ph == "C" and (g.get("name") != m[1] or g.get("args", {}).get("value") != m[2]):
                bad = "counter %r=%r expected %r=%r" % (g.get("name"), g.get("args", {}).get("value"), m[1], m[2])
            if bad:
                viol.append(("C20:trace:event-differs", "thread %r event %d: %s" % (tname, i, bad), case))
                break
            if ph == "B":
                depth += 1
            elif ph == "E":
                depth -= 1
                if depth < 0:
                    viol.append(("C20:trace:nesting", "thread %r event %d: end without begin" % (tname, i), case))
                    break
            ts = g.get("ts")
            if not isinstance(ts, int):
                viol.append(("C20:trace:timestamp", "thread %r event %d: ts %r is not an integer" % (tname, i, ts), case))
                break
            if last_ts is not None and ts < last_ts:
                viol.append(("C20:trace:timestamp", "thread %r event %d: ts goes backwards" % (tname, i), case))
                break
            last_ts = ts
        else:
            if len(got) == len(mevents) and depth != 0:
                viol.append(("C20:trace:nesting", "thread %r: %d begin events without end" % (tname, depth), case))
    for tid, evs in per_tid.items():
        if evs:
            viol.append(("C20:trace:events-of-unknown-thread",
                         "%d events attributed to tid %r (%r) which recorded nothing" % (len(evs), tid, names.get(tid)),
                         case))
    return viol, compared


def postprocess(out, variant, run):
    recs = []
    total = 0
    files = 0
    for mp in sorted(glob.glob(os.path.join(out, "trace_*.model.json"))):
        tp = mp.replace(".model.json", ".json")
        v, n = check_pair(tp, mp)
        total += n
        files += 1
        for key, detail, case in v[:4]:
            recs.append(dict(t="viol", key=key, detail=detail, case=case))
    recs.append(dict(t="stats", evaluations=0, distinct=[], distinct_total=0,
                     counters=dict(trace_files_checked_offline=files, trace_events_compared_offline=total),
                     maxima={}, notes={}, viol_counts={}))
    return recs
