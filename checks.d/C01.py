_B = ["tbb", "omp", "internal", "debug"]
CHECK = dict(
    harness="c01_parallel.cpp",
    sources=[],
    # libgomp's default active spinning makes oversubscribed configurations (32 threads on 16 cores)
    # crawl; the passive wait policy is a runtime setting of libgomp, not of rkcommon
    variants=[dict(name="plain-" + b, flavour="plain", backend=b, env=dict(OMP_WAIT_POLICY="passive")) for b in _B] +
             [dict(name="asan-" + b, flavour="asan", backend=b, env=dict(OMP_WAIT_POLICY="passive")) for b in _B],
    parallel_runs=4,
    floor={"plain-tbb:calls_parallel_for": 500, "plain-omp:calls_parallel_for": 500,
           "plain-internal:calls_parallel_for": 500, "plain-debug:calls_parallel_for": 100,
           "plain-tbb:max_threads_in_one_call": 2, "plain-omp:max_threads_in_one_call": 2,
           "plain-internal:max_threads_in_one_call": 2,
           "plain-tbb:loops_ended_by_exception": 20, "plain-tbb:loops_ended_by_cancellation": 20,
           "plain-debug:loops_ended_by_exception": 5,
           "plain-tbb:loops_with_named_task_object": 200, "plain-omp:loops_with_named_task_object": 200,
           "plain-internal:loops_with_named_task_object": 200, "plain-debug:loops_with_named_task_object": 30},
    assumptions=[
        "a loop whose body throws or cancels its task group (TBB / serial backend only; the other backends terminate) is not judged "
        "for completeness; the loops issued after it from the same call sites are",
        "schedules are sampled (stress, oversubscription, uneven body cost, delays at enkiTS hook points), not enumerated",
        "calls are issued from the thread that initialised the tasking system or from inside tasks",
        "counts > 10^7 and counts > INT_MAX (internal backend truncation) are not executed",
    ],
)
