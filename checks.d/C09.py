CHECK = dict(
    harness="c09_optional_any.cpp",
    sources=["rkcommon/utility/demangle.cpp"],
    harness_flags=["-fno-lifetime-dse"],
    variants=[dict(name="asan", flavour="asan")],
    floor={"asan:opt_op_copy-assign": 100, "asan:opt_op_move-construct": 100, "asan:any_cmp_empty_valid": 20,
           "asan:any_toString_empty": 20, "asan:opt_cmp_empty_empty": 20,
           "asan:value_or_across_types": 1000, "asan:opt_fault_in_emplace": 50, "asan:opt_fault_in_copy-assign": 30, "asan:opt_fault_in_make_optional": 50,
           "asan:opt_fault_in_assign-value-lvalue": 50},
    assumptions=[
        "after a payload operation that throws (failpoint in the instrumented payload) the wrapper may report engaged or empty; what "
        "is demanded is that an engaged wrapper holds a live payload, nothing is destroyed twice or left behind, and copy sources are intact",
        "results of comparisons that involve an empty wrapper are not asserted (the property only requires that they return)",
        "a moved-from std::string / std::vector payload has an unspecified value; the model then only tracks engagement",
    ],
)
