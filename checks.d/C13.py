_B = ["tbb", "omp", "internal", "debug"]
CHECK = dict(
    harness="c13_threads.cpp",
    sources=[],
    variants=[dict(name="plain-" + b, flavour="plain", backend=b) for b in _B] +
             [dict(name="asan-tbb", flavour="asan", backend="tbb"),
              dict(name="asan-internal", flavour="asan", backend="internal")],
    parallel_runs=1,
    floor={"plain-tbb:loops_where_concurrency_ge_2_observed": 10,
           "plain-omp:loops_where_concurrency_ge_2_observed": 10,
           "plain-internal:loops_where_concurrency_ge_2_observed": 10,
           "plain-debug:inits": 10},
    assumptions=[
        "the verdict uses the number of threads simultaneously inside bodies; distinct thread ids are evidence only",
        "n <= 0 is generated only as the first initialisation of a process (what the property states)",
    ],
)
