_B = ["tbb", "omp", "internal", "debug"]
CHECK = dict(
    harness="c13_threads.cpp",
    sources=[],
    variants=[dict(name="plain-" + b, flavour="plain", backend=b) for b in _B] +
             [dict(name="asan-tbb", flavour="asan", backend="tbb"),
              dict(name="asan-internal", flavour="asan", backend="internal"),
              # the consuming translation units compiled the way an application that uses OpenMP for its own loops
              # compiles them (-fopenmp), with rkcommon configured for the internal / the serial backend
              dict(name="plain-internal-fopenmp", flavour="plain", backend="internal", defs=["-fopenmp"], libs=["-fopenmp"]),
              dict(name="plain-debug-fopenmp", flavour="plain", backend="debug", defs=["-fopenmp"], libs=["-fopenmp"])],
    parallel_runs=1,
    floor={"plain-tbb:loops_where_concurrency_ge_2_observed": 10,
           "plain-omp:loops_where_concurrency_ge_2_observed": 10,
           "plain-internal:loops_where_concurrency_ge_2_observed": 10,
           "plain-debug:inits": 10, "plain-internal:processes_that_used_tasking_before_init": 10,
           "plain-tbb:processes_that_used_tasking_before_init": 10, "plain-debug-fopenmp:inits": 10,
           "plain-internal-fopenmp:loops_where_concurrency_ge_2_observed": 10},
    assumptions=[
        "build configurations: the four backends, plus the internal and serial backends with the application compiled with -fopenmp",
        "the verdict uses the number of threads simultaneously inside bodies; distinct thread ids are evidence only",
        "n <= 0 is generated only as the first initialisation of a process (what the property states)",
    ],
)
