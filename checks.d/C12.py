CHECK = dict(
    harness="c12_handoff.cpp",
    sources=[],
    variants=[dict(name="tsan", flavour="tsan"), dict(name="asan", flavour="asan"), dict(name="plain", flavour="plain")],
    parallel_runs=1,
    floor={"tsan:buffer_elements_checked": 10000, "plain:buffer_elements_checked": 100000,
           "tsan:value_updates_true": 100, "plain:value_updates_true": 1000},
    assumptions=[
        "documented usage only: any number of producers + one consumer on a TransactionalBuffer; one producer + one consumer on a TransactionalValue",
        "interleavings are sampled (1..8 producers, three pacing profiles, repeated rounds); ThreadSanitizer decides the data-race clause",
    ],
)
