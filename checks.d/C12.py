CHECK = dict(
    harness="c12_handoff.cpp",
    sources=[],
    variants=[dict(name="tsan", flavour="tsan"), dict(name="asan", flavour="asan"), dict(name="plain", flavour="plain")],
    parallel_runs=1,
    floor={"tsan:buffer_elements_checked": 10000, "plain:buffer_elements_checked": 100000,
           "tsan:value_updates_true": 100, "plain:value_updates_true": 1000,
           "plain:value_burst_assignments_failed_by_failpoint": 500, "tsan:value_burst_assignments_failed_by_failpoint": 50,
           "plain:value_assignments_failed_by_failpoint": 100, "plain:string_value_bursts_checked": 10000,
           "tsan:string_value_bursts_checked": 1000},
    assumptions=[
        "an assignment whose payload copy throws (failpoint) has not assigned anything: it must leave nothing visible to the consumer",
        "documented usage only: any number of producers + one consumer on a TransactionalBuffer; one producer + one consumer on a TransactionalValue",
        "interleavings are sampled (1..8 producers, three pacing profiles, repeated rounds); ThreadSanitizer decides the data-race clause",
    ],
)
