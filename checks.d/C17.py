CHECK = dict(
    harness="c17_index.cpp",
    sources=[],   # multidim_index_sequence.h, for_each.h and Array3D.h are header-only (loadRAW/mmapRAW are not used)
    variants=[dict(name="asan", flavour="asan")],
    floor={"asan:multislice_views": 50, "asan:multislice_thick_or_view_slices": 100, "asan:accessor_region_ranges": 200, "asan:value_ranges_asked_again_after_a_write": 50, "asan:multislice_checked_after_callers_vector_changed": 50},
    assumptions=["128-bit reference index arithmetic in harness/c17_index.cpp is correct",
                 "extents whose true product exceeds 2^62 are outside the quantifier (the 64-bit result cannot hold them)",
                 "adaptors are read at valid coordinates only (their contract); clamping is asserted for ActualArray3D and, "
                 "because it follows from their definition, for Accessor and MultiSlice over ActualArray3D; MultiSlice is also "
                 "driven over slices thicker than one layer and over non-clamping SubBox views (only layer 0 may be read)",
                 "IndexShifted is driven with shift >= -size per axis (w + size + shift stays non-negative)",
                 "Array3DRepeater is judged against its definition in the code (modulo its OWN repeatedSize, then the "
                 "underlying clamped get); the property statement does not name it"],
)
