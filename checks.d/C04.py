_T = ["u8", "i8", "u16", "i16", "u32", "i32", "u64", "i64", "f32", "f64"]

CHECK = dict(
    # one translation unit per element type and part so that they compile in parallel:
    #   c04_vec.cpp            driver (one forked child per part), triple registry, reporting back end
    #   c04_vec_s_<T>.cpp      families over one element type        (c04_vec_same.h)
    #   c04_vec_ma/mb_<T>.cpp  families over pairs (T,U), two halves (c04_vec_mixed.h)
    # shared machinery: c04_vec_common.h
    harness=(["c04_vec_mb_%s.cpp" % t for t in _T] + ["c04_vec_ma_%s.cpp" % t for t in _T] +
             ["c04_vec_s_%s.cpp" % t for t in _T] + ["c04_vec.cpp"]),
    sources=[],  # header-only: rkcommon/math/vec.h, rkmath.h, constants.h
    # compile-time only: no variable-location debug info, ASan checks through calls instead of
    # inline sequences (same checks, ~2x faster to compile the ~1.4*10^4 instantiated triples).
    # The driver loops of the mixed-type families carry no_sanitize_address (they only move values
    # through data members); every rkcommon template they call stays ASan+UBSan instrumented.
    harness_flags=["-fno-var-tracking", "--param", "asan-instrumentation-with-call-threshold=0"],
    variants=[dict(name="asan", flavour="asan")],
    floor={"asan:triples_instantiated": 10000, "asan:families_driven": 60},
    assumptions=[
        "IEEE-754 binary32/binary64 arithmetic without excess precision or FMA contraction (x86-64 SSE2, -std=c++11): "
        "a single floating operation on the same operands gives bit-identical results in the library and in the reference; "
        "float division by zero / inf arithmetic follows IEEE-754",
        "implementation-defined narrowing of out-of-range integers is modular (GCC), identically in library and reference",
        "operands are written and results read through the data members x,y,z,w (ground truth)",
        "integer length() is judged only on operands whose sum of squares fits the element type; float sums/products "
        "whose partial results may overflow are not judged (counted as float_sum_not_judged_possible_overflow)",
    ],
)
