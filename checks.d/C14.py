# C14 - aligned allocation returns aligned, usable, correctly released memory.
# malloc.cpp selects its back end with RKCOMMON_TASKING_TBB (scalable_aligned_malloc /
# scalable_aligned_free from libtbbmalloc) and falls back to _mm_malloc/_mm_free otherwise;
# no tasking code is needed, so the define + -ltbbmalloc is used instead of backend="tbb".
_TBB = dict(defs=["-DRKCOMMON_TASKING_TBB"], libs=["-ltbbmalloc"])

CHECK = dict(
    harness="c14_alloc.cpp",
    sources=["rkcommon/memory/malloc.cpp"],
    variants=[
        dict(name="asan-mm", flavour="asanleak"),            # _mm_malloc: ASan red zones + LSan decide too
        dict(name="asan-tbb", flavour="asan", **_TBB),        # ASan watches the library code, not the TBB heap
        dict(name="plain-tbb", flavour="plain", **_TBB),
        dict(name="plain-mm", flavour="plain"),
    ],
    parallel_runs=4,
    timeout={"quick": 600, "thorough": 3000},
    floor={
        "*:grid_allocations": 3000,
        "*:interleave1t_allocations": {"quick": 4000, "thorough": 400000},
        "*:interleave8t_allocations": {"quick": 4000, "thorough": 400000},
        "*:threads_in_one_heap": 8,
        "*:allocator_length_error_seen": 20,
        "*:allocator_bad_alloc_seen": 30,
        "*:huge_requests_null": 100,
        "*:rebind_pairs": 6,
        "*:vector_reallocations_with_elements": {"quick": 10000, "thorough": 300000},
        "*:vector_histories_S24": {"quick": 600, "thorough": 18000},
        "*:vector_histories_S100": {"quick": 600, "thorough": 18000},
        "*:vector_histories_Tracked40": {"quick": 600, "thorough": 18000},
        "*:vector_histories_SelfRef24": {"quick": 600, "thorough": 18000},
        "*:vector_histories_ListVal16": {"quick": 600, "thorough": 18000},
        "plain-mm:release_cycles": 6000,
        "plain-tbb:release_cycles": 6000,
    },
    assumptions=[
        "usable size of a block is what the selected back end itself reports (scalable_msize for the TBB "
        "flavour, malloc_usable_size for _mm_malloc = posix_memalign); inside libtbbmalloc there are no red "
        "zones, so an under-allocation there is seen only through this query or through overlap with another "
        "live block's pattern",
        "requests of 2^56 bytes and more cannot be satisfied on this host (48-bit address space)",
        "the host has enough memory for <= 512 live blocks of <= 16 MiB (a null result for <= 16 MiB is "
        "reported as inconclusive, never as a violation)",
        "release monitor: address-space growth is read from /proc/self/statm; tolerance = half of the total "
        "bytes requested over 3000 one-block-live cycles",
        "thread schedules of the 8-thread interleaving are sampled, not enumerated",
        "std::vector model and byte-pattern generator in harness/c14_alloc.cpp are correct",
    ],
)
