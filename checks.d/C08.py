CHECK = dict(
    harness="c08_refcount.cpp",
    sources=[],                                            # IntrusivePtr.h / RefCount.h are header-only
    variants=[dict(name="asan", flavour="asanleak"),       # ASan+UBSan, leak detection ON (an omitted decrement leaks)
              dict(name="tsan", flavour="tsan"),
              dict(name="plain", flavour="plain")],
    parallel_runs=1,
    floor={"asan:lsan_leak_checks": 1, "*:huge_count_scenarios": 16,
           "*:op_self-copy-assign": 100,
           "*:self_assign_while_sole_owner": 20,
           "*:last_release_by_copy-assign": 20,
           "*:last_release_by_move-assign": 20,
           "*:last_release_by_raw-assign": 5,
           "*:last_release_by_null-assign": 20,
           "*:last_release_by_handle-destroy": 100,
           "*:last_release_by_refDec": 100,
           "*:op_converting-construct": 100,
           "*:op_move-construct-from-empty": 20,
           "*:thread_rounds": 8,
           "*:max_threads": 16},
    assumptions=["counts of 2^31..2^63 references are produced by storing into the 64-bit counter, whose location (first word behind the "
                 "vtable pointer) is verified at run time through refInc()/refDec()/useCount(); unverifiable -> inconclusive",
                 "the reference model in harness/c08_refcount.cpp (count = 1 + live handles + explicit incs - explicit decs) is correct",
                 "explicit refDec is only issued while the harness owns an explicit reference (over-release is a caller error)",
                 "handles are never shared between threads for writing; only the pointee's counter is shared",
                 "self-move-assignment is not exercised (unspecified by the property)",
                 "operator< is compared against std::less on the raw pointers (flat address space)"],
)
