CHECK = dict(
    harness="c03_asyncloop.cpp",
    sources=[],
    variants=[
        dict(name="asan-tbb", flavour="asan", backend="tbb"),
        dict(name="plain-tbb", flavour="plain", backend="tbb"),
        dict(name="plain-internal", flavour="plain", backend="internal"),
        dict(name="plain-omp", flavour="plain", backend="omp"),
        dict(name="tsan-debug", flavour="tsan", backend="debug"),
    ],
    parallel_runs=2,
    floor={"asan-tbb:directed_realised": 20, "plain-tbb:directed_realised": 20,
           "asan-tbb:bodies_observed": 100, "plain-internal:bodies_observed": 100, "plain-omp:bodies_observed": 100,
           "plain-tbb:default_launch_scenarios": 20, "plain-internal:default_launch_scenarios": 20},
    assumptions=[
        "default launch method: up to 4 loops alive at once over tasking systems of 0 (not initialised), 1..4 and 6 threads; with 6 threads "
        "each loop may take one of the 5 workers",
        "interleavings between two hook points are not distinguished",
        "R2 (no lost wake-up) is bounded liveness: 5 s watchdog, must reproduce on an immediate re-run",
        "TASK launch is exercised on TBB, OpenMP and the internal backend (the serial debug backend runs schedule() synchronously)",
    ],
)
