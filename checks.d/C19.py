CHECK = dict(
    harness="c19_observer.cpp",
    sources=["rkcommon/utility/TimeStamp.cpp"],            # Observer.h / TimeStamp.h are headers
    variants=[dict(name="asan", flavour="asan"),
              dict(name="tsan", flavour="tsan"),
              dict(name="plain", flavour="plain"),
              # the application's translation unit initialised before the library's (static link, application first)
              dict(name="plain-appfirst", flavour="plain", harness_first=True)],
    floor={"*:polls_expected_true": 1000,
           "*:polls_after_repeated_notifications": 100,
           "*:polls_after_observable_destroyed": 100,
           "*:polls_of_observer_created_after_notification": 100,
           "*:polls_without_new_notification": 100,
           "*:observable_destroyed_before_its_observers": 100,
           "*:observer_destroyed_before_its_observable": 100,
           "*:observer_destroyed_after_its_observable": 100,
           "*:observable_slot_recreated": 20,
           "*:stamp_rounds": 16,
           "*:max_threads": 16,
           "*:stamp_mailbox_exchanges": 100, "*:static_storage_scenarios": 1},
    assumptions=["link orders: library objects first (all variants) and application objects first (plain-appfirst); objects with "
                 "static storage in the application take stamps before main() in both",
                 "the epoch model in harness/c19_observer.cpp is correct",
                 "observers and observables of one history live on one thread (the classes are not synchronised)",
                 "Observer objects are never copied (a copy would not be registered with the observable)",
                 "a stamp value read from another thread counts as 'obtained' only when read with proper synchronisation "
                 "(mutex-protected mailbox, or the atomic value of a shared TimeStamp)",
                 "the moved-from TimeStamp's value is not judged"],
)
