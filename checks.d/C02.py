_B = ["tbb", "omp", "internal", "debug"]
# (while the internal backend still had its use-after-free, asan-internal was built with
#  -fsanitize-recover=address and ASAN_OPTIONS=halt_on_error=0 so that one known report did not mask the
#  rest of the process; that recipe works with the driver: every report block of a log is keyed separately)
CHECK = dict(
    harness="c02_tasks.cpp",
    sources=[],
    # -fno-lifetime-dse: GCC otherwise removes the poisoning stores in front of placement-new
    harness_flags=["-fno-lifetime-dse"],
    variants=[dict(name="plain-" + b, flavour="plain", backend=b) for b in _B] +
             [dict(name="asan-" + b, flavour="asan", backend=b) for b in _B],
    parallel_runs=3,
    floor={"plain-tbb:closures_executed": 1000, "plain-omp:closures_executed": 1000,
           "plain-internal:closures_executed": 1000, "plain-debug:closures_executed": 1000,
           "plain-tbb:asynctask_scenarios": 100, "plain-internal:asynctask_scenarios": 100,
           "plain-omp:asynctask_scenarios": 100, "plain-debug:asynctask_scenarios": 100,
           "plain-internal:reconfigured_while_work_queued": 3, "plain-tbb:reconfigured_while_work_queued": 3,
           "asan-internal:reconfigured_while_work_queued": 3,
           "plain-internal:busy_submitter_rounds": 40, "plain-tbb:busy_submitter_rounds": 40,
           "plain-internal:single_submissions": 20000, "plain-tbb:single_submissions": 20000},
    assumptions=[
        "re-configuring the tasking system (initTaskingSystem with another thread count, from the thread that submitted) while work is "
        "queued is a caller action unrelated to that work: it must still run exactly once",
        "'eventually' is bounded: 30 s watchdog while the caller only sleeps, must reproduce on an immediate re-run",
        "the internal backend is exercised with >= 2 threads (with 1 thread it has no worker and runs tasks at shutdown only)",
        "schedules are sampled: bursts, body delays, slow result construction/assignment, hook delays on the internal backend",
    ],
)
