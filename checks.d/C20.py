import os
import sys
sys.path.insert(0, os.path.join(os.path.dirname(os.path.dirname(os.path.abspath(__file__))), "oracle"))
import trace_check  # noqa: E402

CHECK = dict(
    harness="c20_writers.cpp",
    sources=["rkcommon/tracing/Tracing.cpp"],
    variants=[dict(name="asan", flavour="asan"), dict(name="tsan", flavour="tsan")],
    postprocess=trace_check.postprocess,
    parallel_runs=2,
    floor={"asan:images_writePPM": 200, "asan:images_writePGM": 200, "asan:images_writePFM<float>": 200,
           "asan:images_writePFM<vec3f>": 200, "asan:images_writePFM<vec3fa>": 200, "asan:images_writePFM<vec4f>": 200,
           "asan:trace_files_checked_offline": 20, "asan:trace_events_compared_offline": 50000,
           "tsan:trace_files_checked_offline": 5, "asan:trace_sequential_scenarios": 5,
           "asan:trace_threads_that_reused_an_id": 5, "asan:trace_second_saves": 5, "asan:trace_scenarios_with_many_distinct_names": 2, "asan:concurrent_writer_rounds": 20, "tsan:concurrent_writer_rounds": 5},
    assumptions=[
        "image writers called at the same time from several threads, each with its own pixels and file, are independent calls",
        "event names/categories come from stable storage over [A-Za-z0-9_ ] (the recorder caches strings by pointer and does not escape); "
        "their number is not bounded (up to 140000 distinct names on one thread)",
        "recording threads are quiescent when saveLog runs: either all still alive (distinct ids) or all exited after running one after "
        "the other; threads that shared one std::thread::id are one recording thread to the recorder (events in sequence, last name)",
        "the writer's own cpuUtilization counters are ignored by the comparison",
    ],
)
