CHECK = dict(
    harness="c15_streaming.cpp",
    sources=["rkcommon/networking/DataStreaming.cpp"],
    variants=[dict(name="asan", flavour="asan")],
    floor={"asan:truncation_points": 10000, "asan:fixed_exact_fits": 200, "asan:fixed_one_over_rejects": 200,
           "asan:overflow_probes": 50, "asan:stale_cursor_scenarios": 5000},
    assumptions=[
        "a reader whose cursor lies beyond the (shortened) data must reject every read/view of >= 1 byte; zero-size reads there are not judged",
        "array wrappers are streamed through the operator the header declares (const AbstractArray<T>&); passing a derived "
        "wrapper by its static type selects the generic POD overload (recorded in DESIGN.md, not alarmed)",
        "a default-constructed FixedBufferWriter (no buffer) is not exercised",
    ],
)
