CHECK = dict(
    harness="c15_streaming.cpp",
    sources=["rkcommon/networking/DataStreaming.cpp"],
    variants=[dict(name="asan", flavour="asan")],
    floor={"asan:truncation_points": 10000, "asan:fixed_exact_fits": 200, "asan:fixed_one_over_rejects": 200,
           "asan:overflow_probes": 50},
    assumptions=[
        "array wrappers are streamed through the operator the header declares (const AbstractArray<T>&); passing a derived "
        "wrapper by its static type selects the generic POD overload (recorded in DESIGN.md, not alarmed)",
        "a default-constructed FixedBufferWriter (no buffer) is not exercised",
    ],
)
