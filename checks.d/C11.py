CHECK = dict(
    harness="c11_arrays.cpp",
    sources=[],
    variants=[dict(name="asan", flavour="asan")],
    floor={"asan:owned_array_copies": 200, "asan:fixed_array_copies": 100, "asan:fixed_array_views": 200,
           "asan:dataview_layouts": 100, "asan:wrapper_readouts": 10000,
           "asan:owned_array_ops_failed_by_failpoint": 200, "asan:dataview_resets": 2000, "asan:fixed_array_views_at_the_end": 200, "asan:dataview_strides_not_multiple_of_element_size": 1000, "asan:owned_array_self_sourced_resets": 200},
    assumptions=[
        "after an OwnedArray operation in which an element copy throws (failpoint) the array may hold the old or the new size and any "
        "per-index mix of old and new elements; what is demanded is that size()/data() describe live storage of exactly those",
        "non-owning ArrayViews are detached before the harness destroys or grows the vector they view (they are documented as non-owning)",
        "assigning to a shared FixedArray while a FixedArrayView onto it exists is not generated",
        "DataView strides are multiples of alignof(T) - of sizeof(T) for scalar elements, any multiple of the alignment for record "
        "elements, incl. 0 and overlapping windows (unaligned strides are the caller's undefined behaviour)",
    ],
)
