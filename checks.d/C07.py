CHECK = dict(
    harness="c07_scalar.cpp",
    sources=[],                                   # header-only kernels
    variants=[dict(name="plain-simd", flavour="plain"),
              dict(name="plain-nosimd", flavour="plain", defs=["-DRKCOMMON_NO_SIMD"]),
              dict(name="asan-simd", flavour="asan"),
              dict(name="asan-nosimd", flavour="asan", defs=["-DRKCOMMON_NO_SIMD"])],
    parallel_runs=1,                              # each harness uses 16 threads itself
    exhaustive=True,                              # plain variants sweep all 2^32 float bit patterns in both tiers
    floor={"plain-simd:unary_patterns_swept": 4294967296,
           "plain-nosimd:unary_patterns_swept": 4294967296,
           "plain-simd:srgb_sweep_values": 2139095042,
           "plain-nosimd:srgb_sweep_values": 2139095042,
           "*:distribution_seed_range_pairs": {"quick": 1000, "thorough": 4000},
           "*:divRoundUp_cases_in_range": 100000,
           "*:clamp_cases": 100000},
    assumptions=[
        "exhaustive applies to the unary float kernels (rcp, rsqrt, rcp_safe, sign), the sRGB packing sweep over [-1,2] and "
        "makeRandomColor on the plain-simd / plain-nosimd variants (and on all variants in the thorough tier); the "
        "binary/ternary kernels and the distributions are grid + seeded-random sampled",
        "the SIMD result is that of this CPU's rcpss/rsqrtss estimate tables (x86-64 SSE)",
        "references: double products for rcp (exact), double sqrt for rsqrt (+1e-15 slack), long double (x87, 64-bit mantissa) "
        "for lerp/deg2rad/madd, __int128 for divRoundUp",
        "'one rounding step' for the distributions is one float ulp at the scale max(|lower|,|upper|,upper-lower); ranges are "
        "lower <= upper with a finite float width; NaN arguments are outside every contract checked here",
        "clamp is judged only for lower <= upper and non-NaN x",
    ],
)
