CHECK = dict(
    harness="c10_flatmap.cpp",
    sources=["rkcommon/utility/ParameterizedObject.cpp", "rkcommon/utility/demangle.cpp"],
    variants=[dict(name="asan", flavour="asan")],
    assumptions=["the reference model (vector of unique-key pairs) in harness/c10_flatmap.cpp is correct",
                 "FlatMap::operator[] const does not instantiate (pushes into a const member) and is outside the reachable API",
                 "bounds behaviour of at_index(i >= size()) is not part of the property and is only exercised, not judged",
                 "setParam does not touch the query flag (a parameter stays 'queried' until resetAllParamQueryStatus)"],
)
