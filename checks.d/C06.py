CHECK = dict(
    harness="c06_linear.cpp",
    sources=[],                                           # LinearSpace.h / AffineSpace.h / Quaternion.h are header-only
    variants=[dict(name="asan", flavour="asan")],
    # ASan's use-after-scope instrumentation makes g++ -O1 need > 3 min for this one TU (36 s without); it is of no
    # use for value-only header code
    harness_flags=["-fno-sanitize-address-use-after-scope"],
    floor={"asan:quat_from_matrix_branch0_f": 1, "asan:quat_from_matrix_branch1_f": 1,
           "asan:quat_from_matrix_branch2_f": 1, "asan:quat_from_matrix_branch3_f": 1,
           "asan:quat_from_matrix_branch0_d": 1, "asan:quat_from_matrix_branch1_d": 1,
           "asan:quat_from_matrix_branch2_d": 1, "asan:quat_from_matrix_branch3_d": 1},
    assumptions=["the long-double reference (2x2/3x3 algebra, Rodrigues rotation, Hamilton quaternions) in "
                 "harness/c06_linear.cpp is correct; x86-64 long double has a 64-bit mantissa",
                 "built without -march/-ffast-math: no FMA contraction, float/double evaluated in SSE registers",
                 "tolerances are 16*eps_T times the forward-error factor of each operation, computed per case "
                 "(adjugate inverse: |M|_F^3/|det| <= 3*sqrt(3)*kappa^2 for the residual M*inverse(M)-I)",
                 "slerp factors are taken from [0,1]; lookat/frame get 'up' at least 8 degrees off the axis",
                 "functions that do not compile when instantiated (AffineSpaceT::rotate(p,q), AffineSpaceT op scalar "
                 "division/assignment, 2D xfm*) cannot be observed at run time"],
)
