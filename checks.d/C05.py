CHECK = dict(
    harness="c05_box.cpp",
    sources=[],                                            # range.h / box.h / AffineSpace.h / vec.h are header-only
    # ~10 box types x every family in one TU: inlining + variable tracking make the sanitizer build take minutes
    harness_flags=["-fno-inline", "-fno-var-tracking"],
    variants=[dict(name="asan", flavour="asan")],
    floor={"asan:extreme_int_box_pairs": 20000, "asan:extreme_int_touching_pairs": 20000},
    assumptions=["lattice membership oracle in harness/c05_box.cpp (double arithmetic on integer / half-integer values is exact)",
                 "rcp / rcp_safe are accurate to 2^-20 relative (their documented contract, property C07); the ray margins are 4x that",
                 "xfmPoint rounds like three float multiply-adds: tolerance 8*FLT_EPSILON*(sum |l_ij||p_j| + |p_i|), also for double boxes "
                 "(madd() exists for float only)",
                 "not judged: arithmetic on the default-constructed int box (overflows), clamp on empty boxes, extend with an inverted operand, "
                 "area/volume/center of empty boxes (documented as undefined), range_t::fromString (declared, never defined)"],
)
