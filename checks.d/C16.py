_SRC = ["rkcommon/xml/XML.cpp", "rkcommon/os/FileName.cpp"]
CHECK = dict(
    harness="c16_xml.cpp",
    sources=_SRC,
    variants=[
        dict(name="asan", flavour="asan"),
        # coverage-guided part: libFuzzer + ASan + UBSan (clang); count-bounded, seeded from VERIF_SEED
        dict(name="fuzz", flavour="fuzz", harness_override="c16_fuzz.cpp", std="-std=c++11",
             runs=[dict(fuzz=True, tier="quick", timeout=600,
                        args=["-runs=150000", "-seed={seed}", "-max_len=4096", "-timeout=10", "-jobs=8", "-workers=8",
                              "-dict={verif}/harness/c16_dict.txt", "-artifact_prefix={out}/artifacts/",
                              "-print_final_stats=1", "{out}/corpus", "{verif}/harness/c16_corpus"]),
                   dict(fuzz=True, tier="thorough", timeout=3600,
                        args=["-runs=3000000", "-seed={seed}", "-max_len=4096", "-timeout=10", "-jobs=16", "-workers=16",
                              "-dict={verif}/harness/c16_dict.txt", "-artifact_prefix={out}/artifacts/",
                              "-print_final_stats=1", "{out}/corpus", "{verif}/harness/c16_corpus"])]),
    ],
    parallel_runs=2,
    fuzz_features_count=True,
    floor={"asan:roundtrip_documents": 1000, "asan:roundtrip_large_documents": 20, "asan:sweep_documents": 100, "fuzz:fuzz_executions": 10000},
    assumptions=[
        "-max_len=4096 bounds nesting depth for the fuzzer; generated documents nest up to 40 levels and hold up to ~5000 nodes",
        "the faithful subset: identifiers [A-Za-z_][A-Za-z0-9_.]*, unique property names, values without the active quote and "
        "without backslash, at most one content run per node, comments between nodes only",
        "a comment is what the reader defines: \"<!--\", then anything up to the first \"-->\" (dash runs inside or right before the "
        "terminator included, as in banner comments); stricter XML well-formedness of comment bodies is not demanded",
    ],
)
