CHECK = dict(
    harness="c18_strings.cpp",
    sources=["rkcommon/utility/PseudoURL.cpp", "rkcommon/os/FileName.cpp", "rkcommon/common.cpp",
             "rkcommon/os/library.cpp"],
    libs=["-ldl"],
    variants=[dict(name="asan", flavour="asan")],
    assumptions=["reference implementations in harness/c18_strings.cpp are correct",
                 "POSIX path separator (the _WIN32 branch is not built)"],
)
