#!/usr/bin/env python3
"""vcheck.py - driver for the runtime-monitoring checks of /verif.

  python3 vcheck.py <PROPERTY> [--tier quick|thorough] [--seed N] [--only VARIANT]
                               [--keep] [--replay FILE]

For one property it
  1. wipes /verif/.build/<id>, compiles every variant (harness + exactly the rkcommon
     sources it needs, straight from $VERIF_REPO (default /repo) working tree, hooks on),
  2. runs every variant's harness under its sanitizer options and a wall-clock watchdog,
  3. collects monitor reports (result.jsonl) and sanitizer logs, derives one key per
     violation, matches keys against known_findings.txt,
  4. writes evidence/<id>.json and replay files, prints VIOLATION / KNOWN-FINDING lines.

Exit: 0 held (maybe with KNOWN-FINDING lines), 1 violation, 2 harness failure or
coverage floor not reached (nothing observed / inconclusive).
"""
import argparse
import concurrent.futures as cf
import glob
import json
import os
import re
import shutil
import signal
import subprocess
import sys
import time

HERE = os.path.dirname(os.path.abspath(__file__))
sys.path.insert(0, HERE)
import checks as registry  # noqa: E402

REPO = os.environ.get("VERIF_REPO", "/repo")
GUARD = "RKCOMMON_VERIF"

# ----------------------------------------------------------------------------- flavours
COMMON_WARN = ["-w"]
FLAVOURS = {
    "asan": dict(
        cxx="g++",
        flags=["-O1", "-g", "-fno-omit-frame-pointer", "-fsanitize=address,undefined",
               "-fno-sanitize-recover=all"],
        env=dict(
            ASAN_OPTIONS="abort_on_error=1:detect_leaks=0:allocator_may_return_null=1:"
                         "detect_stack_use_after_return=0:handle_abort=1:log_path={san}",
            UBSAN_OPTIONS="print_stacktrace=1:halt_on_error=1:log_path={san}",
        ),
    ),
    "asanleak": dict(
        cxx="g++",
        flags=["-O1", "-g", "-fno-omit-frame-pointer", "-fsanitize=address,undefined",
               "-fno-sanitize-recover=all"],
        env=dict(
            ASAN_OPTIONS="abort_on_error=1:detect_leaks=1:allocator_may_return_null=1:"
                         "handle_abort=1:log_path={san}",
            UBSAN_OPTIONS="print_stacktrace=1:halt_on_error=1:log_path={san}",
            LSAN_OPTIONS="exitcode=23",
        ),
    ),
    "tsan": dict(
        cxx="g++",
        flags=["-O1", "-g", "-fno-omit-frame-pointer", "-fsanitize=thread"],
        env=dict(TSAN_OPTIONS="halt_on_error=0:second_deadlock_stack=1:exitcode=0:"
                              "history_size=4:log_path={san}"),
    ),
    "plain": dict(cxx="g++", flags=["-O2", "-g", "-DNDEBUG"], env={}),
    "fuzz": dict(
        cxx="clang++-14",
        flags=["-O1", "-g", "-fno-omit-frame-pointer", "-fsanitize=fuzzer,address,undefined",
               "-fno-sanitize-recover=all", "-fno-sanitize=object-size"],
        env=dict(
            ASAN_OPTIONS="abort_on_error=0:detect_leaks=0:allocator_may_return_null=1",
            UBSAN_OPTIONS="print_stacktrace=1:halt_on_error=1",
        ),
    ),
}

BACKENDS = {
    "none": dict(defs=[], srcs=[], libs=[]),
    "tbb": dict(defs=["-DRKCOMMON_TASKING_TBB"], srcs=["rkcommon/tasking/detail/tasking_system_init.cpp"],
                libs=["-ltbb"]),
    "omp": dict(defs=["-DRKCOMMON_TASKING_OMP", "-fopenmp"],
                srcs=["rkcommon/tasking/detail/tasking_system_init.cpp"], libs=["-fopenmp"]),
    "internal": dict(defs=["-DRKCOMMON_TASKING_INTERNAL"],
                     srcs=["rkcommon/tasking/detail/tasking_system_init.cpp",
                           "rkcommon/tasking/detail/TaskSys.cpp",
                           "rkcommon/tasking/detail/enkiTS/TaskScheduler.cpp"], libs=[]),
    "debug": dict(defs=[], srcs=["rkcommon/tasking/detail/tasking_system_init.cpp"], libs=[]),
}


def log(*a):
    print(*a, flush=True)


# ----------------------------------------------------------------------------- known findings
def load_known():
    """known_findings.txt: lines
         open: property=<id> key=<regex> :: <what fails>
         fixed: property=<id> <commit> key=<regex> :: <what failed>
       Only `open` entries suppress anything."""
    out = []
    p = os.path.join(HERE, "known_findings.txt")
    if not os.path.exists(p):
        return out
    for line in open(p):
        line = line.strip()
        if not line or line.startswith("#"):
            continue
        m = re.match(r"^(open|fixed): property=(\S+)\s+(?:(\S+)\s+)?key=(\S+)\s+::\s*(.*)$", line)
        if not m:
            continue
        out.append(dict(status=m.group(1), property=m.group(2), commit=m.group(3), key=m.group(4), what=m.group(5)))
    return out


def match_known(known, pid, key):
    for k in known:
        if k["status"] == "open" and k["property"] == pid:
            try:
                if re.fullmatch(k["key"], key):
                    return k
            except re.error:
                if k["key"] == key:
                    return k
    return None


# ----------------------------------------------------------------------------- sanitizer logs
_FRAME = re.compile(r"^\s*#(\d+)\s+(?:0x[0-9a-f]+\s+)?(?:in\s+)?(.*?)\s+(\S+?)(?::(\d+))?(?::\d+)?(?:\s+\(.*\))?$")


def simplify_func(f):
    f = re.sub(r"\(.*$", "", f)          # drop arguments
    # drop template arguments (balanced, iterative)
    prev = None
    while prev != f:
        prev = f
        f = re.sub(r"<[^<>]*>", "", f)
    f = re.sub(r"\{lambda.*$", "lambda", f)
    f = re.sub(r"\[clone.*$", "", f)
    f = f.replace("(anonymous namespace)::", "")
    # gcc and clang differ in whether they print the enclosing namespaces of file-static functions
    f = re.sub(r"\brkcommon::(?:(?:xml|utility|tasking|math|containers|memory|networking|tracing|detail)::)*", "", f)
    toks = f.strip().split()
    return toks[-1] if toks else f.strip()


def parse_frames(lines):
    frames = []
    for ln in lines:
        m = _FRAME.match(ln)
        if not m:
            continue
        func, path = m.group(2), m.group(3)
        frames.append((simplify_func(func), path))
    return frames


def pick_frames(frames, n=3):
    """prefer frames that lie in rkcommon sources; else first non-runtime frames"""
    def is_rt(path, func):
        return ("libsanitizer" in path or "/asan/" in path or "sanitizer_common" in path or
                func.startswith("__interceptor") or func.startswith("__asan") or func.startswith("__ubsan") or
                func.startswith("__tsan") or func.startswith("__sanitizer") or
                "/bits/" in path or "/c++/" in path or path.startswith("/lib") or path.startswith("/usr/lib") or
                func in ("operator", "new", "delete", "malloc", "free", "memcpy", "__interceptor_memcpy"))
    rk = [f for f, p in frames if "rkcommon/" in p]
    if rk:
        out = rk
    else:
        out = [f for f, p in frames if not is_rt(p, f)]
    # collapse repeats
    res = []
    for f in out:
        if not res or res[-1] != f:
            res.append(f)
    return res[:n]


def parse_san_log(text):
    """returns list of (key, headline) for every report block in a sanitizer log"""
    out = []
    lines = text.splitlines()
    i = 0
    while i < len(lines):
        ln = lines[i]
        m = re.search(r"ERROR: (AddressSanitizer|LeakSanitizer): ([^:(]+?)(?: on (?:unknown )?(?:address )?(?:0x[0-9a-f]+)?| in thread|:|\s*\(|$)", ln)
        if m:
            tool = "asan" if m.group(1) == "AddressSanitizer" else "lsan"
            cls = m.group(2).strip().replace(" ", "-")
            j = i + 1
            block = []
            # first stack only (until blank line)
            while j < len(lines) and not lines[j].strip().startswith("#"):
                j += 1
            while j < len(lines) and lines[j].strip().startswith("#"):
                block.append(lines[j])
                j += 1
            fr = pick_frames(parse_frames(block))
            out.append(("%s:%s:%s" % (tool, cls, "<".join(fr)), ln.strip()))
            i = j
            continue
        m = re.search(r"^(\S+?):(\d+):(\d+): runtime error: (.*)$", ln)
        if m:
            msg = m.group(4)
            msg = re.sub(r"0x[0-9a-f]+", "ADDR", msg)
            msg = re.sub(r"-?\d+(\.\d+)?(e[+-]?\d+)?", "N", msg)
            msg = re.sub(r"\s+", "_", msg.strip())[:80]
            j = i + 1
            block = []
            while j < len(lines) and lines[j].strip().startswith("#"):
                block.append(lines[j])
                j += 1
            fr = pick_frames(parse_frames(block), 2)
            base = os.path.basename(m.group(1))
            out.append(("ubsan:%s:%s:%s" % (base, msg, "<".join(fr)), ln.strip()))
            i = j
            continue
        m = re.search(r"WARNING: ThreadSanitizer: ([\w \-]+?) \(pid", ln)
        if m:
            cls = m.group(1).strip().replace(" ", "-")
            j = i + 1
            tops = []
            cur = []
            while j < len(lines) and not lines[j].startswith("=================="):
                s = lines[j]
                if s.strip().startswith("#"):
                    cur.append(s)
                else:
                    if cur:
                        tops.append(cur)
                        cur = []
                j += 1
            if cur:
                tops.append(cur)
            names = []
            for blk in tops[:2]:
                fr = pick_frames(parse_frames(blk), 1)
                names.append(fr[0] if fr else "?")
            names.sort()
            out.append(("tsan:%s:%s" % (cls, "|".join(names)), ln.strip()))
            i = j
            continue
        i += 1
    return out


# ----------------------------------------------------------------------------- build
# checks against a scratch copy (VERIF_REPO set, e.g. selftest.py) build in their own directory,
# so that they cannot clobber a check of the same property that runs against /repo at the same time
_BUILD_TAG = "" if REPO == "/repo" else "-alt%d" % os.getpid()


def variant_dir(pid, v):
    return os.path.join(HERE, ".build", pid + _BUILD_TAG, v["name"])


def compile_jobs(pid, chk, v):
    fl = FLAVOURS[v["flavour"]]
    be = BACKENDS[v.get("backend", "none")]
    d = variant_dir(pid, v)
    os.makedirs(os.path.join(d, "obj"), exist_ok=True)
    std = v.get("std", chk.get("std", "-std=c++11"))
    base = [fl["cxx"], std] + fl["flags"] + COMMON_WARN + ["-pthread", "-D" + GUARD, "-I" + REPO,
                                                             "-I" + os.path.join(HERE, "harness", "common"),
                                                             "-I" + os.path.join(HERE, "harness")]
    base += be["defs"] + v.get("defs", []) + chk.get("defs", [])
    srcs = []
    for s in chk.get("sources", []) + be["srcs"] + v.get("sources", []):
        if s not in srcs:
            srcs.append(s)
    jobs = []
    objs = []
    hobjs = []
    for s in srcs:
        o = os.path.join(d, "obj", s.replace("/", "_") + ".o")
        jobs.append(base + v.get("lib_flags", []) + ["-c", os.path.join(REPO, s), "-o", o])
        objs.append(o)
    hlist = v.get("harness_override") or chk["harness"]
    for h in ([hlist] if isinstance(hlist, str) else hlist) + v.get("harness_extra", []):
        o = os.path.join(d, "obj", "h_" + os.path.basename(h) + ".o")
        jobs.append(base + v.get("harness_flags", []) + chk.get("harness_flags", []) +
                    ["-c", os.path.join(HERE, "harness", h), "-o", o])
        hobjs.append(o)
    # link order = order of dynamic initialisation of the translation units: the library's first (as with a shared
    # library), or - harness_first - the application's first (static link with the application's objects in front)
    objs = hobjs + objs if v.get("harness_first") else objs + hobjs
    link = [fl["cxx"]] + fl["flags"] + ["-pthread"] + objs + ["-o", os.path.join(d, "harness")] + \
        be["libs"] + v.get("libs", []) + chk.get("libs", [])
    return jobs, link


def run_cmd(cmd, timeout=1800):
    p = subprocess.run(cmd, stdout=subprocess.PIPE, stderr=subprocess.STDOUT, timeout=timeout)
    return p.returncode, p.stdout.decode("utf-8", "replace")


def build_all(pid, chk, variants):
    t0 = time.time()
    alljobs = []
    links = []
    for v in variants:
        jobs, link = compile_jobs(pid, chk, v)
        alljobs += [(v["name"], j) for j in jobs]
        links.append((v["name"], link))
    ok = True
    with cf.ThreadPoolExecutor(max_workers=int(os.environ.get("VERIF_JOBS", "16"))) as ex:
        futs = {ex.submit(run_cmd, j): (n, j) for n, j in alljobs}
        for f in cf.as_completed(futs):
            n, j = futs[f]
            rc, out = f.result()
            if rc != 0:
                ok = False
                log("BUILD-FAIL variant=%s cmd=%s\n%s" % (n, " ".join(j), out[-4000:]))
        if not ok:
            return False, time.time() - t0
        futs = {ex.submit(run_cmd, l): (n, l) for n, l in links}
        for f in cf.as_completed(futs):
            n, l = futs[f]
            rc, out = f.result()
            if rc != 0:
                ok = False
                log("LINK-FAIL variant=%s cmd=%s\n%s" % (n, " ".join(l), out[-4000:]))
    return ok, time.time() - t0


# ----------------------------------------------------------------------------- run
def run_variant(pid, chk, v, tier, seed, case=None):
    """runs the harness of one variant (possibly several invocations); returns a result dict"""
    fl = FLAVOURS[v["flavour"]]
    d = variant_dir(pid, v)
    res = dict(variant=v["name"], runs=[])
    invocations = v.get("runs", chk.get("runs", [dict()]))
    for ri, inv in enumerate(invocations):
        if inv.get("tier") and inv["tier"] != tier:
            continue
        out = os.path.join(d, "run%d" % ri)
        shutil.rmtree(out, ignore_errors=True)
        os.makedirs(out)
        if inv.get("fuzz"):
            os.makedirs(os.path.join(out, "corpus"))
            os.makedirs(os.path.join(out, "artifacts"))
        env = dict(os.environ)
        env["VH_OUT"] = out
        env["VH_VARIANT"] = v["name"]
        env["VERIF_SEED"] = str(seed)
        env["VERIF_TIER"] = tier
        env["VH_REPO"] = REPO
        env["VH_VERIF"] = HERE
        if case is not None:
            env["VH_CASE"] = str(case)
        for k, val in fl["env"].items():
            env[k] = val.format(san=os.path.join(out, "san"))
        for k, val in list(v.get("env", {}).items()) + list(inv.get("env", {}).items()):
            env[k] = str(val).format(san=os.path.join(out, "san"), out=out, tier=tier, seed=seed)
        args = [a.format(out=out, tier=tier, seed=seed, verif=HERE, repo=REPO) for a in inv.get("args", [])]
        timeout = inv.get("timeout", v.get("timeout", chk.get("timeout", {"quick": 900, "thorough": 7200})))
        if isinstance(timeout, dict):
            timeout = timeout[tier]
        cmd = [os.path.join(d, "harness")] + args
        if inv.get("wrapper"):
            cmd = [a.format(out=out, verif=HERE) for a in inv["wrapper"]] + cmd
        t0 = time.time()
        attempt = 0
        while True:
            attempt += 1
            with open(os.path.join(out, "stdout.txt"), "ab") as so:
                p = subprocess.Popen(cmd, stdout=so, stderr=subprocess.STDOUT, env=env, cwd=out,
                                     start_new_session=True)
                try:
                    rc = p.wait(timeout=timeout)
                    timed_out = False
                except subprocess.TimeoutExpired:
                    timed_out = True
                    try:
                        os.killpg(p.pid, signal.SIGKILL)
                    except Exception:
                        pass
                    p.wait()
                    rc = -9
            if timed_out and attempt == 1 and not inv.get("no_retry"):
                # watchdog expiry alone is inconclusive: re-run once
                for f in glob.glob(os.path.join(out, "*")):
                    if os.path.basename(f) != "stdout.txt":
                        if os.path.isdir(f):
                            shutil.rmtree(f, ignore_errors=True)
                        else:
                            os.remove(f)
                if inv.get("fuzz"):
                    os.makedirs(os.path.join(out, "corpus"), exist_ok=True)
                    os.makedirs(os.path.join(out, "artifacts"), exist_ok=True)
                continue
            break
        res["runs"].append(dict(index=ri, out=out, rc=rc, timed_out=timed_out, wall_s=time.time() - t0,
                                cmd=cmd, inv=inv, pid=p.pid))
    return res


def read_jsonl(path):
    out = []
    if not os.path.exists(path):
        return out
    with open(path, "rb") as f:
        for ln in f:
            ln = ln.decode("utf-8", "replace").strip()
            if not ln:
                continue
            try:
                out.append(json.loads(ln))
            except Exception:
                out.append(dict(t="garbled", raw=ln[:300]))
    return out


def collect(pid, chk, v, vres, agg):
    """turn one variant's outputs into violations/stats inside agg"""
    for run in vres["runs"]:
        out = run["out"]
        recs = read_jsonl(os.path.join(out, "result.jsonl"))
        sanlogs = {}
        for f in glob.glob(os.path.join(out, "san.*")) + glob.glob(os.path.join(out, "err.*")):
            m = re.search(r"\.(\d+)$", f)
            if m:
                try:
                    txt = open(f, errors="replace").read()
                except Exception:
                    continue
                if txt.strip():
                    k = int(m.group(1))
                    sanlogs[k] = sanlogs.get(k, "") + txt
        used_logs = set()
        done = any(r.get("t") == "done" for r in recs)
        started = any(r.get("t") == "start" for r in recs)
        post = chk.get("postprocess")
        if post:
            # offline checker over files the harness recorded
            try:
                for r in post(out, v, run):
                    recs.append(r)
            except Exception as e:  # checker failure = harness failure
                agg["harness_failures"].append("%s: postprocess failed: %r" % (v["name"], e))
        if inv_is_fuzz(run):
            collect_fuzz(pid, chk, v, run, agg)
            continue

        def add_viol(key, detail, case, extra=None):
            agg["violations"].append(dict(key=key, detail=detail, case=case, variant=v["name"],
                                          run=run["index"], extra=extra or {}))

        for r in recs:
            t = r.get("t")
            if t == "viol":
                add_viol(r["key"], r.get("detail", ""), r.get("case", ""))
            elif t == "crash":
                p = r.get("pid")
                txt = sanlogs.get(p)
                inp = os.path.join(out, "input.%s.bin" % p)
                if os.path.exists(inp):
                    # the harness left the input that killed it
                    keep = os.path.join(HERE, "replay", pid)
                    os.makedirs(keep, exist_ok=True)
                    dst = os.path.join(keep, "crash-input-%s-%s.bin" % (v["name"], p))
                    raw = open(inp, "rb").read()
                    if len(raw) >= 8:  # 8-byte length + bytes (shared mapping written by the harness)
                        n = int.from_bytes(raw[:8], "little")
                        raw = raw[8:8 + n] if n <= len(raw) - 8 else raw[8:]
                    open(dst, "wb").write(raw)
                    r["case"] = (r.get("case", "") + " [input that killed the case: %s = %r]" % (dst, raw[:300]))
                if txt:
                    used_logs.add(p)
                    reps = parse_san_log(txt)
                    if reps:
                        for key, head in reps[:1]:
                            add_viol(key, head, r.get("case", ""), dict(sanlog=txt[:6000]))
                        continue
                add_viol("crash:sig%s:status%s" % (r.get("sig"), r.get("status")),
                         "forked case died abnormally without a sanitizer report", r.get("case", ""),
                         dict(sanlog=(txt or "")[:3000]))
            elif t == "hang":
                cls = str(r.get("case", "")).split(" ")[0]
                add_viol("hang:%s" % cls, "forked case exceeded its watchdog twice (re-run included)",
                         r.get("case", ""))
            elif t == "inconclusive":
                agg["inconclusive"].append("%s: %s" % (v["name"], r.get("what")))
            elif t == "sample":
                if len(agg["samples"]) < 12:
                    s = r.get("v")
                    agg["samples"].append(dict(variant=v["name"], case=s))
            elif t == "stats":
                agg["evaluations"] += int(r.get("evaluations", 0))
                for h in r.get("distinct", []):
                    agg["distinct"].add(h)
                agg["distinct_overflow"] += max(0, int(r.get("distinct_total", 0)) - len(r.get("distinct", [])))
                ob = agg["observed"].setdefault(v["name"], dict(counters={}, maxima={}, notes={}))
                for k2, val in r.get("counters", {}).items():
                    ob["counters"][k2] = ob["counters"].get(k2, 0) + val
                for k2, val in r.get("maxima", {}).items():
                    ob["maxima"][k2] = max(ob["maxima"].get(k2, 0), val)
                for k2, val in r.get("notes", {}).items():
                    ob["notes"][k2] = val
                if r.get("rule"):
                    agg["rule"] = r["rule"]
                for k2, val in r.get("viol_counts", {}).items():
                    agg["viol_counts"][k2] = agg["viol_counts"].get(k2, 0) + val
            elif t == "garbled":
                agg["harness_failures"].append("%s: garbled result line %s" % (v["name"], r.get("raw")))
        # sanitizer logs not attributed to a forked case (main process, or tsan reports)
        for p, txt in sanlogs.items():
            if p in used_logs:
                continue
            reps = parse_san_log(txt)
            seen = set()
            for key, head in reps:
                if key in seen:
                    continue
                seen.add(key)
                add_viol(key, head, "process %d" % p, dict(sanlog=txt[:6000]))
            agg["san_reports"][v["name"]] = agg["san_reports"].get(v["name"], 0) + len(reps)
        agg["san_reports"].setdefault(v["name"], 0)
        if run["timed_out"]:
            agg["harness_failures"].append("%s: harness watchdog (%s) expired twice - inconclusive" %
                                           (v["name"], run["inv"].get("timeout", "default")))
        elif not done:
            # harness main process ended without finishing
            tail = ""
            try:
                tail = open(os.path.join(out, "stdout.txt"), errors="replace").read()[-3000:]
            except Exception:
                pass
            got_san = any(p not in used_logs for p in sanlogs)
            if not started:
                agg["harness_failures"].append("%s: harness did not start (rc=%s)\n%s" % (v["name"], run["rc"], tail))
            elif not got_san:
                reps = parse_san_log(tail)
                if reps:
                    for key, head in reps[:1]:
                        add_viol(key, head, "main process", dict(sanlog=tail))
                else:
                    add_viol("crash:main:rc%s" % run["rc"], "harness process ended abnormally before finishing",
                             "main process", dict(stdout=tail))
        elif run["rc"] not in (0,):
            tail = open(os.path.join(out, "stdout.txt"), errors="replace").read()[-3000:]
            reps = parse_san_log(tail)
            if run["rc"] == 23 or reps:
                for key, head in (reps[:3] or [("lsan:leak:unknown", "leak")]):
                    add_viol(key, head, "at exit", dict(sanlog=tail))
            else:
                agg["harness_failures"].append("%s: harness exit code %s\n%s" % (v["name"], run["rc"], tail))


def inv_is_fuzz(run):
    return bool(run["inv"].get("fuzz"))


def collect_fuzz(pid, chk, v, run, agg):
    """libFuzzer invocation: artifacts are violations; stats parsed from the log"""
    out = run["out"]
    txt = ""
    joblogs = glob.glob(os.path.join(out, "fuzz-*.log"))
    for f in (joblogs or [os.path.join(out, "stdout.txt")]):
        try:
            txt += open(f, errors="replace").read() + "\n"
        except Exception:
            pass
    arts = sorted(glob.glob(os.path.join(out, "artifacts", "*")))
    execs = 0
    for m in re.finditer(r"stat::number_of_executed_units:\s+(\d+)", txt):
        execs += int(m.group(1))
    if execs == 0:
        for m in re.finditer(r"Done (\d+) runs", txt):
            execs += int(m.group(1))
    cov = 0
    ft = 0
    for m in re.finditer(r"cov: (\d+) ft: (\d+)", txt):
        cov = max(cov, int(m.group(1)))
        ft = max(ft, int(m.group(2)))
    corpus = len(glob.glob(os.path.join(out, "corpus", "*")))
    ob = agg["observed"].setdefault(v["name"], dict(counters={}, maxima={}, notes={}))
    ob["counters"]["fuzz_executions"] = ob["counters"].get("fuzz_executions", 0) + execs
    ob["maxima"]["fuzz_edge_coverage"] = max(ob["maxima"].get("fuzz_edge_coverage", 0), cov)
    ob["maxima"]["fuzz_features"] = max(ob["maxima"].get("fuzz_features", 0), ft)
    ob["counters"]["fuzz_corpus_units"] = corpus
    agg["evaluations"] += execs
    for i in range(min(ft, 100000)):
        pass
    agg["fuzz_features"] = max(agg.get("fuzz_features", 0), ft)
    reps = parse_san_log(txt)
    if arts:
        for a in arts[:5]:
            key = None
            head = os.path.basename(a)
            # triage by re-running the artifact alone
            env = dict(os.environ)
            for k, val in FLAVOURS["fuzz"]["env"].items():
                env[k] = val
            try:
                p = subprocess.run([os.path.join(variant_dir(pid, v), "harness"), a], stdout=subprocess.PIPE,
                                   stderr=subprocess.STDOUT, timeout=120, env=env)
                t2 = p.stdout.decode("utf-8", "replace")
            except subprocess.TimeoutExpired:
                t2 = ""
                key = "fuzz:timeout"
            r2 = parse_san_log(t2)
            if r2:
                key, head = r2[0]
            elif key is None:
                m = re.search(r"VH-FUZZ-VIOLATION key=(\S+)", t2)
                if m:
                    key = m.group(1)
                elif "timeout" in os.path.basename(a):
                    key = "fuzz:timeout"
                else:
                    key = "fuzz:artifact:" + os.path.basename(a).split("-")[0]
            keep = os.path.join(HERE, "replay", pid)
            os.makedirs(keep, exist_ok=True)
            dst = os.path.join(keep, "artifact-" + os.path.basename(a))
            shutil.copy(a, dst)
            agg["violations"].append(dict(key=key, detail=head, case="artifact " + dst, variant=v["name"],
                                          run=run["index"], extra=dict(artifact=dst, sanlog=t2[-5000:])))
    elif reps:
        for key, head in reps[:2]:
            agg["violations"].append(dict(key=key, detail=head, case="fuzz log", variant=v["name"],
                                          run=run["index"], extra=dict(sanlog=txt[-5000:])))
    if run["timed_out"]:
        agg["harness_failures"].append("%s: fuzzer watchdog expired" % v["name"])
    elif execs == 0:
        agg["harness_failures"].append("%s: fuzzer executed nothing\n%s" % (v["name"], txt[-2000:]))


# ----------------------------------------------------------------------------- main
def main():
    ap = argparse.ArgumentParser()
    ap.add_argument("property")
    ap.add_argument("--tier", default=os.environ.get("VERIF_TIER", "quick"), choices=["quick", "thorough"])
    ap.add_argument("--seed", type=int, default=int(os.environ.get("VERIF_SEED", "1") or 1))
    ap.add_argument("--only", default=None, help="comma list of variant names")
    ap.add_argument("--keep", action="store_true", help="keep .build afterwards")
    ap.add_argument("--replay", default=None)
    ap.add_argument("--no-evidence", action="store_true")
    a = ap.parse_args()
    pid = a.property
    case = None
    if a.replay:
        rp = json.load(open(a.replay))
        a.tier, a.seed, a.only = rp["tier"], rp["seed"], rp["variant"]
        case = rp.get("case_index")
        a.no_evidence = True
    if pid not in registry.CHECKS:
        log("unknown property %s" % pid)
        return 2
    chk = registry.CHECKS[pid]
    t0 = time.time()
    variants = [v for v in chk["variants"] if not v.get("tier") or v["tier"] == a.tier]
    if a.only:
        names = a.only.split(",")
        variants = [v for v in variants if v["name"] in names]
    bdir = os.path.join(HERE, ".build", pid + _BUILD_TAG)
    shutil.rmtree(bdir, ignore_errors=True)
    os.makedirs(bdir)
    log("[%s] tier=%s seed=%d repo=%s variants=%s" % (pid, a.tier, a.seed, REPO, ",".join(v["name"] for v in variants)))
    ok, bt = build_all(pid, chk, variants)
    if not ok:
        log("HARNESS-FAILURE property=%s build failed" % pid)
        return 2
    log("[%s] built %d variants in %.1fs" % (pid, len(variants), bt))

    agg = dict(violations=[], inconclusive=[], samples=[], evaluations=0, distinct=set(), distinct_overflow=0,
               observed={}, rule="", harness_failures=[], san_reports={}, viol_counts={})
    par = chk.get("parallel_runs", 1)
    results = []
    with cf.ThreadPoolExecutor(max_workers=max(1, par)) as ex:
        futs = [ex.submit(run_variant, pid, chk, v, a.tier, a.seed, case) for v in variants]
        for v, f in zip(variants, futs):
            vres = f.result()
            results.append((v, vres))
    for v, vres in results:
        collect(pid, chk, v, vres, agg)
        for r in vres["runs"]:
            log("[%s] ran %-18s run%d rc=%s %.1fs" % (pid, v["name"], r["index"], r["rc"], r["wall_s"]))

    # ---- verdict
    known = load_known()
    rdir = os.path.join(HERE, "replay", pid)
    os.makedirs(rdir, exist_ok=True)
    new_keys = {}
    known_hit = {}
    for vi in agg["violations"]:
        k = match_known(known, pid, vi["key"])
        if k:
            known_hit.setdefault(k["key"], (k, []))[1].append(vi)
        else:
            new_keys.setdefault(vi["key"], []).append(vi)
    for kk, (k, vis) in sorted(known_hit.items()):
        log("KNOWN-FINDING: property=%s %s [key=%s, %d occurrence(s), e.g. %s]" %
            (pid, k["what"], vis[0]["key"], len(vis), (vis[0]["case"] or "")[:160]))
    n = 0
    for key, vis in sorted(new_keys.items()):
        n += 1
        vi = vis[0]
        path = os.path.join(rdir, "viol_%02d.json" % n)
        vname = vi["variant"]
        case_index = None
        m = re.match(r"^#(\d+)\b", vi.get("case") or "")
        if m:
            case_index = int(m.group(1))
        json.dump(dict(property=pid, key=key, detail=vi["detail"], case=vi["case"], variant=vname,
                       case_index=case_index, seed=a.seed, tier=a.tier,
                       occurrences=max(len(vis), agg["viol_counts"].get(key, 0)), extra=vi["extra"],
                       replay_cmd="python3 /verif/vcheck.py %s --replay %s" % (pid, path)),
                  open(path, "w"), indent=1)
        log("VIOLATION property=%s replay=%s" % (pid, path))
        log("  key=%s variant=%s occurrences=%d\n  detail=%s\n  case=%s" %
            (key, vname, max(len(vis), agg["viol_counts"].get(key, 0)), vi["detail"][:400], (vi["case"] or "")[:400]))
    for s in agg["inconclusive"]:
        log("INCONCLUSIVE property=%s %s" % (pid, s))
    for s in agg["harness_failures"]:
        log("HARNESS-FAILURE property=%s %s" % (pid, s))

    distinct = len(agg["distinct"])
    floor = chk.get("floor", {})
    floor_fail = []
    if agg["evaluations"] < 1 or distinct < 2:
        if agg.get("fuzz_features", 0) >= 2 and agg["evaluations"] >= 1:
            pass
        else:
            floor_fail.append("nothing observed (evaluations=%d distinct=%d)" % (agg["evaluations"], distinct))
    # per-check coverage floors: {"variant:counter": minimum}
    for spec, minimum in floor.items():
        if isinstance(minimum, dict):
            minimum = minimum.get(a.tier, 0)
        vn, cn = spec.split(":")
        for v in variants:
            if vn != "*" and v["name"] != vn:
                continue
            ob = agg["observed"].get(v["name"], dict(counters={}, maxima={}))
            val = ob["counters"].get(cn, ob["maxima"].get(cn, 0))
            if val < minimum and case is None:
                floor_fail.append("%s: %s=%s below coverage floor %s" % (v["name"], cn, val, minimum))
    for s in floor_fail:
        log("INCONCLUSIVE property=%s coverage floor: %s" % (pid, s))

    wall = time.time() - t0
    if not a.no_evidence:
        dn = distinct + (agg.get("fuzz_features", 0) if chk.get("fuzz_features_count") else 0)
        ev = dict(
            property_id=pid, tier=a.tier, seed=a.seed, level="exploration",
            coverage=dict(
                evaluations=agg["evaluations"],
                distinct_nontrivial=dn,
                rule=(agg["rule"] or chk.get("rule", "")) +
                     (" [distinct count is a lower bound: %d hashes beyond the per-process export cap]" %
                      agg["distinct_overflow"] if agg["distinct_overflow"] else ""),
                samples=agg["samples"] or [dict(note="no sample emitted")],
                exhaustive=bool(chk.get("exhaustive", False)),
                variants=[dict(name=v["name"], flavour=v["flavour"], backend=v.get("backend", "none"),
                               flags=FLAVOURS[v["flavour"]]["flags"] + v.get("defs", [])) for v in variants],
                observed=agg["observed"],
                sanitizer_report_blocks=agg["san_reports"],
                known_findings_reproduced=[dict(key=k["key"], what=k["what"], occurrences=len(vis))
                                           for kk, (k, vis) in sorted(known_hit.items())],
                new_violation_keys=sorted(new_keys.keys()),
                inconclusive=agg["inconclusive"] + floor_fail,
                harness_failures=[s[:300] for s in agg["harness_failures"]],
                build_s=round(bt, 1),
                repo=REPO,
            ),
            assumptions=chk.get("assumptions", []),
            wall_s=round(wall, 2),
            violations=len(new_keys),
        )
        os.makedirs(os.path.join(HERE, "evidence"), exist_ok=True)
        json.dump(ev, open(os.path.join(HERE, "evidence", pid + ".json"), "w"), indent=1, sort_keys=True)
    log("[%s] evaluations=%d distinct=%d violations(new)=%d known=%d inconclusive=%d wall=%.1fs" %
        (pid, agg["evaluations"], distinct, len(new_keys), len(known_hit), len(agg["inconclusive"]) + len(floor_fail),
         wall))
    if not a.keep and not os.environ.get("VERIF_KEEP"):
        shutil.rmtree(bdir, ignore_errors=True)
    if new_keys:
        return 1
    if agg["harness_failures"] or floor_fail:
        return 2
    return 0


if __name__ == "__main__":
    sys.exit(main())
